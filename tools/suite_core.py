"""Core correspondence suite: generated sequential constructs x values x byte strings,
build / parse / sizeof on both sides."""
import random, sys, os, collections
sys.path.insert(0, os.path.dirname(os.path.abspath(__file__)))
import harness as H
import gen as G


def make_build_cases(rng, n_constructs, vals_per, depth=3):
    cases = []
    for k in range(n_constructs):
        node = G.g_node(rng, rng.randint(0, depth), True)
        for j in range(vals_per):
            try:
                v = node.val(rng)
            except Exception as e:
                continue
            cases.append(dict(src=node.src, op='build', obj=v, tags=sorted(node.tags)))
        cases.append(dict(src=node.src, op='sizeof', tags=sorted(node.tags)))
    return cases


def parse_cases_from(rng, build_results, mutants=2):
    cases = []
    for case, st, detail, m, i in build_results:
        if case['op'] != 'build' or i is None or i[0] != 'ROkBuild':
            continue
        data = i[2]
        start = rng.choice([0, 0, 1, 3])
        pre = bytes(rng.getrandbits(8) for _ in range(start))
        cases.append(dict(src=case['src'], op='parse', data=pre + data, start=start, tags=case.get('tags', []), origin='canonical'))
        if rng.random() < 0.5:
            cases.append(dict(src=case['src'], op='parse', data=data + bytes([rng.getrandbits(8)]), start=0, tags=case.get('tags', []), origin='trailing'))
        for _ in range(mutants):
            cases.append(dict(src=case['src'], op='parse', data=G.mutate(rng, data), start=0, tags=case.get('tags', []), origin='mutated'))
    return cases


def main():
    seed = int(os.environ.get('VERIF_SEED', '1'))
    n = int(sys.argv[1]) if len(sys.argv) > 1 else 300
    rng = random.Random(seed)
    bc = make_build_cases(rng, n, 4)
    r1 = H.run_cases(bc)
    pc = parse_cases_from(rng, r1['results'])
    r2 = H.run_cases(pc)
    for r in (r1, r2):
        print(r['counts'], '%.1fs' % r['wall'])
    skips = collections.Counter()
    shown = 0
    for r in (r1, r2):
        for case, st, detail, m, i in r['results']:
            if st == 'skip':
                skips[detail[:60]] += 1
            if st == 'diff' and shown < int(os.environ.get('SHOW', '15')):
                shown += 1
                print('DIFF', case['op'], case['src'])
                print('    ', {k: v for k, v in case.items() if k in ('obj', 'data', 'start', 'kw')})
                print('    ', detail)
    print(skips.most_common(12))


if __name__ == '__main__':
    main()
