#!/venv/bin/python
"""Seeded-defect bookkeeping (development aid, not a registered check).

  mutants.py import               copy /tmp/mut/Cxx/out/{patchK.diff,demoK.py,metaK.json} into /verif/seeded/CxxmK/
  mutants.py verify [ids...]      in a scratch worktree: demo passes without the patch, fails with it, the test suite
                                  still passes (same failures as the baseline); records the outcome in meta.json
  mutants.py detect [ids...]      run the registered quick checks against a scratch worktree with the patch applied
                                  (VERIF_REPO=<worktree>) and record which checks report a VIOLATION
"""
import os, sys, json, subprocess, shutil, glob, re, time
from concurrent.futures import ThreadPoolExecutor

ROOT = os.path.dirname(os.path.dirname(os.path.abspath(__file__)))
SEEDED = os.path.join(ROOT, 'seeded')
ALWAYS_FAIL = set(json.load(open('/root/.vp/BASELINE.json'))['always_fail'])


def sh(cmd, cwd=None, env=None, timeout=3600):
    p = subprocess.run(cmd, shell=True, cwd=cwd, env=env, stdout=subprocess.PIPE, stderr=subprocess.STDOUT, timeout=timeout)
    return p.returncode, '\n'.join(l for l in p.stdout.decode(errors='replace').splitlines() if 'conda.cli' not in l)


def ids(args):
    all_ = sorted(d for d in os.listdir(SEEDED) if os.path.isdir(os.path.join(SEEDED, d)))
    return [a for a in args if a in all_] or all_


def do_import():
    for d in sorted(glob.glob('/tmp/mut/C*/out')):
        pid = d.split('/')[3]
        for k in (1, 2):
            p = os.path.join(d, 'patch%d.diff' % k)
            if not os.path.exists(p) or not os.path.exists(os.path.join(d, 'demo%d.py' % k)) or not os.path.exists(os.path.join(d, 'meta%d.json' % k)):
                continue
            dst = os.path.join(SEEDED, '%sm%d' % (pid, k + int(os.environ.get('MUT_OFFSET', '0'))))
            os.makedirs(dst, exist_ok=True)
            shutil.copy(p, os.path.join(dst, 'patch.diff'))
            shutil.copy(os.path.join(d, 'demo%d.py' % k), os.path.join(dst, 'demo.py'))
            meta = {}
            mp = os.path.join(dst, 'meta.json')
            if os.path.exists(mp):
                meta = json.load(open(mp))
            try:
                am = json.load(open(os.path.join(d, 'meta%d.json' % k)))
            except Exception:
                am = {}
            meta.update(property=pid, summary=am.get('summary', ''), needs=am.get('needs', ''), files=am.get('files', []), author='sub-agent given only the property text')
            json.dump(meta, open(mp, 'w'), indent=1)
            print('imported', dst)


def worktree(i, base='/tmp/mutwt'):
    wt = '%s/%s' % (base, i)
    if not os.path.exists(wt):
        os.makedirs(base, exist_ok=True)
        rc, out = sh('git -C /repo worktree add -q --detach %s HEAD' % wt)
        if rc:
            raise RuntimeError(out)
    sh('git checkout -q -- . && git clean -fdq', cwd=wt)
    return wt


def drop_worktree(i, base='/tmp/mutwt'):
    sh('git -C /repo worktree remove --force %s/%s' % (base, i))


def failed_tests(out):
    names = set()
    for m in re.finditer(r'^FAILED (\S+?)(?: - .*)?$', out, re.M):
        f, _, t = m.group(1).partition('::')
        names.add(f[:-3].replace('/', '.') + '::' + t)
    return names


def verify(i):
    d = os.path.join(SEEDED, i)
    wt = worktree(i)
    env = dict(os.environ, PYTHONPATH=wt, PYTHONHASHSEED='0')
    res = {}
    rc0, o0 = sh('/venv/bin/python %s/demo.py' % d, cwd=wt, env=env, timeout=600)
    res['demo_passes_without_patch'] = rc0 == 0
    rc, out = sh('git apply %s/patch.diff' % d, cwd=wt)
    res['patch_applies'] = rc == 0
    if rc == 0:
        rc1, o1 = sh('/venv/bin/python %s/demo.py' % d, cwd=wt, env=env, timeout=600)
        res['demo_fails_with_patch'] = rc1 != 0
        res['demo_output_with_patch'] = o1[-400:]
        rc2, o2 = sh('/venv/bin/python -m pytest -q -p no:cacheprovider --timeout=900 --continue-on-collection-errors --benchmark-disable -rf 2>&1 | tail -40',
                     cwd=wt, env=env, timeout=3000)
        ft = failed_tests(o2)
        res['new_test_failures'] = sorted(ft - ALWAYS_FAIL)
        res['tests_pass_with_patch'] = (not (ft - ALWAYS_FAIL)) and bool(re.search(r'\d+ passed', o2))
        res['pytest_tail'] = o2.strip().splitlines()[-1] if o2.strip() else ''
    drop_worktree(i)
    mp = os.path.join(d, 'meta.json')
    meta = json.load(open(mp))
    meta['verified'] = res
    meta['verified_ok'] = bool(res.get('demo_passes_without_patch') and res.get('demo_fails_with_patch') and res.get('tests_pass_with_patch'))
    meta['what_i_ran'] = 'scratch worktree of /repo HEAD: demo.py (exit 0), git apply patch.diff, demo.py (exit != 0), the full pytest suite with --benchmark-disable (no failures beyond the always-failing tests of the baseline); worktree removed'
    json.dump(meta, open(mp, 'w'), indent=1)
    print(i, 'verified_ok =', meta['verified_ok'], res.get('new_test_failures'), res.get('pytest_tail'))


def detect(i, pids=None):
    d = os.path.join(SEEDED, i)
    meta = json.load(open(os.path.join(d, 'meta.json')))
    wt = worktree(i, '/tmp/mutdt')
    rc, out = sh('git apply %s/patch.diff' % d, cwd=wt)
    if rc:
        print(i, 'patch does not apply')
        return
    man = json.load(open(os.path.join(ROOT, 'MANIFEST.json')))
    claimed = [c['property_id'] for c in man['checks']]
    pids = pids or [meta['property']]
    det = meta.get('detection', {})
    for pid in pids:
        if pid not in claimed:
            det[pid] = 'not claimed'
            continue
        env = dict(os.environ, VERIF_REPO=wt, VERIF_EVIDENCE_DIR='/tmp/mutdt/evidence', VERIF_REPLAY_DIR='/tmp/mutdt/replays')
        t = time.time()
        rc, out = sh('./check %s --tier quick' % pid, cwd=ROOT, env=env, timeout=3000)
        v = [l for l in out.splitlines() if l.startswith('VIOLATION')]
        det[pid] = dict(exit=rc, violation=v[0] if v else None, wall_s=round(time.time() - t, 1), with_input=bool(v) and 'no-failing-input-found' not in v[0])
        print(i, pid, 'exit', rc, v[0] if v else out.strip().splitlines()[-1][:200])
    drop_worktree(i, '/tmp/mutdt')
    # restore gen files for the real repo
    sh('PYTHONPATH=/repo PYTHONHASHSEED=0 /venv/bin/python %s/tools/regen.py' % ROOT)
    meta['detection'] = det
    json.dump(meta, open(os.path.join(d, 'meta.json'), 'w'), indent=1)


if __name__ == '__main__':
    cmd = sys.argv[1]
    if cmd == 'import':
        do_import()
    elif cmd == 'verify':
        with ThreadPoolExecutor(max_workers=int(os.environ.get('MUT_JOBS', '6'))) as ex:
            list(ex.map(verify, ids(sys.argv[2:])))
    elif cmd == 'detect':
        pids = [a for a in sys.argv[2:] if re.fullmatch(r'C\d\d', a)]
        for i in ids([a for a in sys.argv[2:] if a not in pids]):
            detect(i, pids or None)
    elif cmd == 'detect-all':
        man = json.load(open(os.path.join(ROOT, 'MANIFEST.json')))
        for i in ids([]):
            detect(i)
