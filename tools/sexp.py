"""Type-directed (de)serialisation of model terms.

Python representation of a model term: a constructor is a tuple ('Name', arg, ...) (nullary: ('Name',)),
Z/N/nat are ints, bool is bool, bytes/name are bytes, byte is an int 0..255, list is a Python list,
option is None or ('Some', x), pair is a 2-tuple.
"""
from schema import TYPES

CTORS = {t: {c: args for c, args in ctors} for t, ctors in TYPES.items()}


def ser(t, v, out):
    if isinstance(t, str):
        if t in ('Z', 'N', 'nat'):
            assert isinstance(v, int) and not isinstance(v, bool), (t, v)
            out.append(str(v))
        elif t == 'bool':
            assert isinstance(v, bool), v
            out.append('T' if v else 'F')
        elif t == 'bytes':
            assert isinstance(v, (bytes, bytearray)), v
            out.append('x' + bytes(v).hex())
        elif t == 'byte':
            out.append('x%02x' % v)
        else:
            c = v[0]
            args = CTORS[t][c]
            assert len(args) == len(v) - 1, (t, v)
            if not args:
                out.append(c)
            else:
                out.append('(' + c)
                for at, av in zip(args, v[1:]):
                    out.append(' ')
                    ser(at, av, out)
                out.append(')')
    elif t[0] == 'list':
        out.append('(')
        for i, x in enumerate(v):
            if i:
                out.append(' ')
            ser(t[1], x, out)
        out.append(')')
    elif t[0] == 'option':
        if v is None:
            out.append('N')
        else:
            out.append('(S ')
            ser(t[1], v[1], out)
            out.append(')')
    elif t[0] == 'pair':
        out.append('(')
        ser(t[1], v[0], out)
        out.append(' ')
        ser(t[2], v[1], out)
        out.append(')')
    else:
        raise ValueError(t)


def to_sexp(t, v):
    out = []
    ser(t, v, out)
    return ''.join(out)


def tokenize(s):
    i, n = 0, len(s)
    toks = []
    while i < n:
        ch = s[i]
        if ch in ' \t\n':
            i += 1
        elif ch in '()':
            toks.append(ch)
            i += 1
        else:
            j = i
            while j < n and s[j] not in ' \t\n()':
                j += 1
            toks.append(s[i:j])
            i = j
    return toks


def read_tree(toks, i):
    if toks[i] == '(':
        items = []
        i += 1
        while toks[i] != ')':
            x, i = read_tree(toks, i)
            items.append(x)
        return items, i + 1
    return toks[i], i + 1


def de(t, x):
    if isinstance(t, str):
        if t in ('Z', 'N', 'nat'):
            return int(x)
        if t == 'bool':
            return x == 'T'
        if t == 'bytes':
            return bytes.fromhex(x[1:])
        if t == 'byte':
            return int(x[1:], 16)
        if isinstance(x, str):
            assert x in CTORS[t], (t, x)
            return (x,)
        c = x[0]
        args = CTORS[t][c]
        return (c,) + tuple(de(at, ax) for at, ax in zip(args, x[1:]))
    if t[0] == 'list':
        return [de(t[1], y) for y in x]
    if t[0] == 'option':
        return None if x == 'N' else ('Some', de(t[1], x[1]))
    if t[0] == 'pair':
        return (de(t[1], x[0]), de(t[2], x[1]))
    raise ValueError(t)


def from_sexp(t, s):
    tree, _ = read_tree(tokenize(s), 0)
    if isinstance(tree, list) and tree and tree[0] == 'Crash':
        return ('Crash', tree[1] if len(tree) > 1 else '')
    return de(t, tree)


# ---- Coq concrete syntax (for replay files / cases.v) ----

def coq(t, v):
    if isinstance(t, str):
        if t == 'Z':
            return '(%d)%%Z' % v
        if t == 'N':
            return '%d%%N' % v
        if t == 'nat':
            return '%d%%nat' % v
        if t == 'bool':
            return 'true' if v else 'false'
        if t == 'bytes':
            return '[' + '; '.join('x%02x' % b for b in v) + ']'
        if t == 'byte':
            return 'x%02x' % v
        c = v[0]
        args = CTORS[t][c]
        if not args:
            return c
        return '(' + c + ' ' + ' '.join(coq(at, av) for at, av in zip(args, v[1:])) + ')'
    if t[0] == 'list':
        return '[' + '; '.join(coq(t[1], x) for x in v) + ']'
    if t[0] == 'option':
        return 'None' if v is None else '(Some ' + coq(t[1], v[1]) + ')'
    if t[0] == 'pair':
        return '(' + coq(t[1], v[0]) + ', ' + coq(t[2], v[1]) + ')'
    raise ValueError(t)
