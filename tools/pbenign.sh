#!/bin/bash
# Development aid (not a registered check): the harmless rewrites of benign/ against all 20 quick checks, in N scratch copies of /verif (each takes every N-th patch); result in /tmp/pbenign.log
N=${1:-5}
BASE=$(mktemp -d /tmp/pben.XXXXXX)
for k in $(seq 0 $((N-1))); do
  cp -r /verif $BASE/v$k
  (
    cd $BASE/v$k
    i=0
    for p in /verif/benign/B*.diff; do
      if [ $((i % N)) -eq $k ]; then
        tag=$(basename $p .diff)
        wt=$BASE/wt_$tag
        git -C /repo worktree add -q --detach $wt HEAD || { echo "$tag worktree failed" >> $BASE/log$k; i=$((i+1)); continue; }
        (cd $wt && git apply $p) || { echo "$tag patch does not apply" >> $BASE/log$k; git -C /repo worktree remove --force $wt; i=$((i+1)); continue; }
        for c in C01 C02 C03 C04 C05 C06 C07 C08 C09 C10 C11 C12 C13 C14 C15 C16 C17 C18 C19 C20; do
          out=$(VERIF_REPO=$wt VERIF_EVIDENCE_DIR=$BASE/ev$k VERIF_REPLAY_DIR=$BASE/rp$k/$tag ./check $c --tier quick 2>&1 | grep -v conda)
          line=$(echo "$out" | grep -v "^KNOWN" | tail -1)
          viol=$(echo "$out" | grep "^VIOLATION" | head -1)
          echo "$tag $c :: $line :: $viol" >> $BASE/log$k
        done
        git -C /repo worktree remove --force $wt
        echo "$tag done" >> $BASE/log$k
      fi
      i=$((i+1))
    done
    echo COPYDONE >> $BASE/log$k
  ) &
  sleep 5
done
wait
cat $BASE/log* > /tmp/pbenign.log
echo ALLDONE >> /tmp/pbenign.log
echo $BASE > /tmp/pbenign.base
