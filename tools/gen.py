"""Generators of construct expressions (as Python source), of values in their domain and of byte
strings.  Every random choice comes from the rng handed in (seeded from VERIF_SEED)."""
import random, struct, itertools


class Node:
    """src: Python source; val(rng): a buildable value; size: fixed byte size or None;
    greedy: reads to end of stream (only valid last / inside a delimiter);
    bn: flagbuildnone (member may be omitted from the dict); bits: lives in a bit stream"""

    def __init__(self, src, val, size=None, greedy=False, bn=False, tags=()):
        self.src, self.val, self.size, self.greedy, self.bn = src, val, size, greedy, bn
        self.tags = set(tags)


def edge_int(rng, lo, hi):
    """boundary-biased integer in [lo, hi]"""
    r = rng.random()
    if r < 0.45:
        cands = [lo, hi, 0, 1, -1, lo + 1, hi - 1, 127, 128, 255, 256, -128, -129, 2 ** 15, 2 ** 16 - 1, 2 ** 31, 2 ** 32 - 1]
        cands = [c for c in cands if lo <= c <= hi]
        return rng.choice(cands)
    if r < 0.6:
        k = rng.randrange(0, max(1, (hi - lo).bit_length()))
        c = rng.choice([2 ** k, 2 ** k - 1, 2 ** k + 1, -(2 ** k), -(2 ** k) - 1, -(2 ** k) + 1])
        if lo <= c <= hi:
            return c
    return rng.randint(lo, hi)


def int_names():
    out = []
    for bits in (8, 16, 24, 32, 64):
        for s in 'us':
            for e in 'bln':
                out.append(('Int%d%s%s' % (bits, s, e), bits // 8, s == 's'))
    out += [('Byte', 1, False), ('Short', 2, False), ('Int', 4, False), ('Long', 8, False)]
    return out


INT_NAMES = int_names()
FLOAT_NAMES = [('Float%d%s' % (b, e), b // 8, c) for b, c in ((16, 'e'), (32, 'f'), (64, 'd')) for e in 'bln'] + \
              [('Half', 2, 'e'), ('Single', 4, 'f'), ('Double', 8, 'd')]
ENCODINGS = ['ascii', 'utf8', 'utf16', 'utf_16_le', 'utf_16_be', 'utf32', 'utf_32_le', 'utf_32_be', 'u8', 'u16', 'utf-8']


def rng_range(signed, nbytes):
    if signed:
        return -(1 << (8 * nbytes - 1)), (1 << (8 * nbytes - 1)) - 1
    return 0, (1 << (8 * nbytes)) - 1


def g_int(rng, small=False):
    """an integer field"""
    r = rng.random()
    if r < 0.5:
        nm, n, s = rng.choice(INT_NAMES[:6] if small else INT_NAMES)
        lo, hi = rng_range(s, n)
        return Node(nm, lambda g: edge_int(g, lo, hi), size=n, tags=['int'])
    if r < 0.75:
        n = rng.choice([1, 2, 3, 4, 5, 7, 8, 9, 16])
        s, sw = rng.random() < 0.5, rng.random() < 0.5
        lo, hi = rng_range(s, n)
        return Node('BytesInteger(%d, signed=%s, swapped=%s)' % (n, s, sw), lambda g: edge_int(g, lo, hi), size=n, tags=['int'])
    if r < 0.9:
        return Node('VarInt', lambda g: edge_int(g, 0, rng.choice([127, 128, 2 ** 14, 2 ** 21, 2 ** 70])), tags=['int', 'var'])
    return Node('ZigZag', lambda g: g.choice([edge_int(g, -2 ** 40, 2 ** 40), edge_int(g, -2 ** 70, 2 ** 70), 2 ** 63 - 1, -(2 ** 63), 10 ** 20 + 7, -(2 ** 53) - 1]), tags=['int', 'var'])


def g_uint_small(rng):
    """an unsigned length/count/tag field"""
    nm = rng.choice(['Int8ub', 'Byte', 'Int16ub', 'Int16ul', 'VarInt', 'Int24ub', 'Int32ul'])
    if nm == 'VarInt':
        return Node(nm, lambda g: g.randint(0, 300), tags=['int', 'var'])
    n = {'Int8ub': 1, 'Byte': 1, 'Int16ub': 2, 'Int16ul': 2, 'Int24ub': 3, 'Int32ul': 4}[nm]
    return Node(nm, lambda g: g.randint(0, 255), size=n, tags=['int'])


def float_val(code):
    def f(g):
        n = {'e': 2, 'f': 4, 'd': 8}[code]
        while True:
            r = g.random()
            if r < 0.3:
                pat = g.choice([0, 1, 2 ** (8 * n - 1), 2 ** (8 * n - 1) - 1, 0x3c00 if n == 2 else 0x3f800000 if n == 4 else 0x3ff0000000000000])
            else:
                pat = g.getrandbits(8 * n)
            v = struct.unpack('>' + code, pat.to_bytes(n, 'big'))[0]
            if v == v:     # no NaN: nan != nan
                return v
    return f


def g_float(rng):
    nm, n, code = rng.choice(FLOAT_NAMES)
    return Node(nm, float_val(code), size=n, tags=['float'])


def rand_bytes(g, n):
    r = g.random()
    if r < 0.15:
        return bytes(n)
    if r < 0.3:
        return b'\xff' * n
    return bytes(g.getrandbits(8) for _ in range(n))


def g_bytes(rng):
    n = rng.choice([0, 1, 2, 3, 4, 7, 16])
    return Node('Bytes(%d)' % n, lambda g: rand_bytes(g, n), size=n, tags=['bytes'])


def rand_text(g, enc, maxlen=6, nonul=True):
    n = g.randint(0, maxlen)
    base = enc.replace('-', '_').lower()
    if base == 'ascii':
        alpha = [chr(c) for c in range(1 if nonul else 0, 128)]
        return ''.join(g.choice(alpha) for _ in range(n))
    out = []
    for _ in range(n):
        r = g.random()
        if r < 0.5:
            c = g.randint(1, 127)
        elif r < 0.75:
            c = g.choice([0x80, 0xff, 0x100, 0x7ff, 0x800, 0xd7ff, 0xe000, 0xfffd, 0xffff, 0xfeff])
        elif r < 0.9:
            c = g.choice([0x10000, 0x10ffff, 0x1f600])
        else:
            c = g.randint(1, 0xd7ff)
        out.append(chr(c))
    return ''.join(out)


def g_string(rng):
    enc = rng.choice(ENCODINGS)
    r = rng.random()
    if r < 0.3:
        lf = g_uint_small(rng)
        return Node('PascalString(%s, %r)' % (lf.src, enc), lambda g: rand_text(g, enc), tags=['str'])
    if r < 0.55:
        return Node('CString(%r)' % enc, lambda g: rand_text(g, enc), tags=['str', 'cstr'])
    if r < 0.8:
        n = rng.choice([4, 8, 12, 32])
        unit = 4 if '32' in enc else 2 if '16' in enc else 1

        def v(g):
            while True:
                t = rand_text(g, enc, maxlen=3)
                try:
                    if len(t.encode(enc)) <= n:
                        return t
                except UnicodeError:
                    pass
        return Node('PaddedString(%d, %r)' % (n, enc), v, size=n, tags=['str', 'padstr'])
    return Node('GreedyString(%r)' % enc, lambda g: rand_text(g, enc, nonul=False), greedy=True, tags=['str'])


def g_mapping(rng):
    r = rng.random()
    if r < 0.35:
        return Node('Enum(Byte, a=1, b=2, c=255)', lambda g: g.choice(['a', 'b', 'c', 7, 0] if CANON_VALUES else ['a', 'b', 'c', 1, 2, 255, 7, 0]), size=1, tags=['enum'])
    if r < 0.5:
        return Node('Enum(Int16ub, E)', lambda g: g.choice(['one', 'two', 'big', 5] if CANON_VALUES else ['one', 'two', 'big', 1, 300, 5]), size=2, tags=['enum'])
    if r < 0.62:
        # multi-bit and overlapping masks, a zero-valued label
        return Node('FlagsEnum(Byte, r=1, w=2, rw=3, hi=0xf0, none=0)',
                    lambda g: g.choice([dict(r=False, w=False, rw=False, hi=False, none=True), dict(r=True, w=True, rw=True, hi=False, none=True),
                                        dict(r=True, w=False, rw=False, hi=True, none=True)] if CANON_VALUES else
                                       [dict(r=True, w=False), dict(rw=True), dict(hi=True, r=True), 'r|hi', 'rw', 'none', '', 0, 1, 2, 3, 0x10, 0xf1, 255,
                                        dict(r=False, w=False, rw=False, hi=False, none=False), dict(r=True, w=True, rw=True, hi=False, none=True)]),
                    size=1, tags=['flags'])
    if r < 0.8:
        return Node('FlagsEnum(Byte, a=1, b=2, c=8)',
                    lambda g: g.choice([dict(a=True, b=False, c=True), dict(a=False, b=False, c=False), dict(a=True, b=True, c=True)] if CANON_VALUES else
                                       [dict(a=True, b=False, c=True), dict(a=False), 'a|c', 'b', '', 3, 11, dict()]),
                    size=1, tags=['flags'])
    return Node('Mapping(Byte, {"x": 1, "y": 2, b"z": 3})', lambda g: g.choice(['x', 'y', b'z']), size=1, tags=['mapping'])


def g_leaf(rng):
    r = rng.random()
    if r < 0.35:
        return g_int(rng)
    if r < 0.45:
        return g_float(rng)
    if r < 0.6:
        return g_bytes(rng)
    if r < 0.75:
        return g_string(rng)
    if r < 0.87:
        return g_mapping(rng)
    if r < 0.92:
        return Node('Flag', lambda g: g.random() < 0.5, size=1, tags=['flag'])
    if r < 0.95:
        return Node('GreedyBytes', lambda g: rand_bytes(g, g.randint(0, 5)), greedy=True, tags=['bytes'])
    if r < 0.97:
        v = rng.choice([0, 1, 255, 77])
        return Node('OneOf(Byte, [%d, 3, 4])' % v, lambda g: g.choice([v, 3, 4]), size=1, tags=['validator'])
    return Node('NoneOf(Byte, [0, 255])', lambda g: g.randint(1, 254), size=1, tags=['validator'])


_names = ['a', 'b', 'c', 'd', 'e', 'f', 'g', 'h']

# when set, label constructs draw only the spelling parse returns (labels for mapped integers, complete flag dictionaries)
CANON_VALUES = False


def g_struct(rng, depth, allow_greedy):
    """a Struct with named members, some context-dependent"""
    k = rng.randint(1, 4)
    srcs, gens = [], []   # gens: (name or None, node, kind)
    names = _names[:]
    rng.shuffle(names)
    i = 0
    while i < k:
        last = (i == k - 1)
        nm = names.pop()
        r = rng.random()
        if r < 0.18 and depth > 0:
            # length field + dependent member
            nm2 = names.pop()
            lf = g_uint_small(rng)
            kind = rng.choice(['bytes', 'array', 'rebuild_bytes', 'rebuild_array', 'if', 'switch'])
            if kind == 'bytes':
                srcs += ['%r / %s' % (nm, lf.src), '%r / Bytes(this.%s)' % (nm2, nm)]
                gens += [(nm, None, 'len_of_bytes', nm2), (nm2, Node('', lambda g: rand_bytes(g, g.randint(0, 5))), 'plain')]
            elif kind == 'array':
                el = g_node(rng, depth - 1, False)
                srcs += ['%r / %s' % (nm, lf.src), '%r / Array(this.%s, %s)' % (nm2, nm, el.src)]
                gens += [(nm, None, 'len_of_list', nm2), (nm2, Node('', lambda g, el=el: [el.val(g) for _ in range(g.randint(0, 3))]), 'plain')]
            elif kind == 'rebuild_bytes':
                srcs += ['%r / Rebuild(%s, len_(this.%s))' % (nm, lf.src, nm2), '%r / Bytes(this.%s)' % (nm2, nm)]
                gens += [(nm, None, 'omit'), (nm2, Node('', lambda g: rand_bytes(g, g.randint(0, 5))), 'plain')]
            elif kind == 'rebuild_array':
                el = g_node(rng, depth - 1, False)
                srcs += ['%r / Rebuild(%s, len_(this.%s))' % (nm, lf.src, nm2), '%r / Array(this.%s, %s)' % (nm2, nm, el.src)]
                gens += [(nm, None, 'omit'), (nm2, Node('', lambda g, el=el: [el.val(g) for _ in range(g.randint(0, 3))]), 'plain')]
            elif kind == 'if':
                el = g_node(rng, depth - 1, False)
                srcs += ['%r / Flag' % nm, '%r / If(this.%s, %s)' % (nm2, nm, el.src)]
                gens += [(nm, Node('', lambda g: g.random() < 0.5), 'plain'), (nm2, el, 'if', nm)]
            else:
                a = g_node(rng, depth - 1, False)
                b = g_node(rng, depth - 1, False)
                srcs += ['%r / Byte' % nm, '%r / Switch(this.%s, {1: %s, 2: %s})' % (nm2, nm, a.src, b.src)]
                gens += [(nm, Node('', lambda g: g.choice([1, 2, 3])), 'plain'), (nm2, (a, b), 'switch', nm)]
            i += 2
            continue
        if r < 0.26:
            v = rng.choice(['b"MZ"', 'b""', 'b"\\x00\\xff\\x10"'])
            srcs.append('%r / Const(%s)' % (nm, v) if rng.random() < 0.7 else 'Const(%s)' % v)
            gens.append((nm, None, 'omit'))
        elif r < 0.31:
            srcs.append('%r / Const(%d, Int16ul)' % (nm, rng.choice([0, 513, 65535])))
            gens.append((nm, None, 'omit'))
        elif r < 0.36:
            srcs.append('%r / Computed(%s)' % (nm, rng.choice(['7', 'b"k"', '"s"', 'None', 'True'])))
            gens.append((nm, None, 'omit'))
        elif r < 0.40:
            srcs.append('Padding(%d)' % rng.choice([0, 1, 3]))
            gens.append((None, None, 'omit'))
        elif r < 0.44:
            d = g_int(rng, small=True)
            srcs.append('%r / Default(%s, %d)' % (nm, d.src, rng.choice([0, 1, 100])))
            gens.append((nm, d, 'default'))
        else:
            el = g_node(rng, depth - 1, allow_greedy and last)
            srcs.append('%r / %s' % (nm, el.src))
            gens.append((nm, el, 'plain'))
        i += 1

    def val(g):
        d = {}
        # first pass: plain members
        for ent in gens:
            nm, node, kind = ent[0], ent[1], ent[2]
            if kind == 'plain':
                d[nm] = node.val(g)
            elif kind == 'default':
                if g.random() < 0.5:
                    d[nm] = node.val(g)
                elif g.random() < 0.5:
                    d[nm] = None
        for ent in gens:
            nm, node, kind = ent[0], ent[1], ent[2]
            if kind == 'len_of_bytes' or kind == 'len_of_list':
                d[nm] = len(d[ent[3]])
            elif kind == 'if':
                d[nm] = node.val(g) if d[ent[3]] else None
            elif kind == 'switch':
                tag = d[ent[3]]
                d[nm] = node[0].val(g) if tag == 1 else node[1].val(g) if tag == 2 else None
        # keep declaration order
        order = [e[0] for e in gens if e[0] is not None and e[0] in d]
        return {k: d[k] for k in order}
    greedy = any(e[1].greedy for e in gens if isinstance(e[1], Node))
    return Node('Struct(%s)' % ', '.join(srcs), val, greedy=greedy, tags=['struct'])


def g_node(rng, depth, allow_greedy=True):
    """a construct of the sequential grammar"""
    if depth <= 0:
        for _ in range(20):
            n = g_leaf(rng)
            if allow_greedy or not n.greedy:
                return n
        return g_int(rng)
    r = rng.random()
    if r < 0.22:
        n = g_leaf(rng)
        if n.greedy and not allow_greedy:
            return g_int(rng)
        return n
    if r < 0.45:
        return g_struct(rng, depth, allow_greedy)
    if r < 0.52:
        k = rng.randint(1, 3)
        els = [g_node(rng, depth - 1, allow_greedy and j == k - 1) for j in range(k)]
        return Node('Sequence(%s)' % ', '.join(e.src for e in els), lambda g: [e.val(g) for e in els],
                    greedy=els[-1].greedy, tags=['sequence'])
    if r < 0.60:
        el = g_node(rng, depth - 1, False)
        n = rng.choice([0, 1, 2, 3])
        return Node('Array(%d, %s)' % (n, el.src), lambda g: [el.val(g) for _ in range(n)], tags=['array'])
    if r < 0.68:
        lf = g_uint_small(rng)
        el = g_node(rng, depth - 1, True)
        incl = rng.random() < 0.3
        return Node('Prefixed(%s, %s%s)' % (lf.src, el.src, ', includelength=True' if incl else ''), el.val, tags=['prefixed'])
    if r < 0.74:
        lf = g_uint_small(rng)
        el = g_node(rng, depth - 1, False)
        return Node('PrefixedArray(%s, %s)' % (lf.src, el.src), lambda g: [el.val(g) for _ in range(g.randint(0, 3))], tags=['prefixedarray'])
    if r < 0.78 and allow_greedy:
        el = g_node(rng, depth - 1, False)
        while 'var' in el.tags or el.size == 0 or el.size is None:
            el = g_int(rng, small=True)
        return Node('GreedyRange(%s)' % el.src, lambda g: [el.val(g) for _ in range(g.randint(0, 3))], greedy=True, tags=['greedyrange'])
    if r < 0.83:
        el = g_leaf(rng)
        while el.size is None:
            el = g_int(rng, small=True)
        n = el.size + rng.choice([0, 1, 3])
        kind = rng.choice(['Padded', 'FixedSized'])
        if kind == 'Padded':
            return Node('Padded(%d, %s%s)' % (n, el.src, rng.choice(['', ', pattern=b"\\xaa"'])), el.val, size=n, tags=['padded'])
        return Node('FixedSized(%d, %s)' % (n, el.src), el.val, size=n, tags=['fixedsized'])
    if r < 0.87:
        el = g_node(rng, depth - 1, False)
        m = rng.choice([2, 4, 8])
        return Node('Aligned(%d, %s)' % (m, el.src), el.val, tags=['aligned'])
    if r < 0.90:
        el = g_int(rng, small=True) if rng.random() < 0.5 else g_bytes(rng)
        while el.size is None:
            el = g_int(rng, small=True)
        w = rng.choice(['ByteSwapped(%s)', 'ProcessXor(0x5a, %s)', 'ProcessXor(b"\\x01\\x02\\x03", %s)', 'Hex(%s)', 'BitsSwapped(%s)'])
        if el.size == 0 and w.startswith('ByteSw'):
            w = 'Hex(%s)'
        if w.startswith('ProcessXor') and not allow_greedy:
            w = 'Hex(%s)'         # ProcessXor reads to the end of the stream: only in tail position or inside a delimiter
        return Node(w % el.src, el.val, size=el.size, greedy=w.startswith('ProcessXor'), tags=['transform'])
    if r < 0.95:
        return g_bitstruct(rng)
    if r < 0.975:
        el = g_node(rng, depth - 1, False)
        return Node('FocusedSeq("x", Const(b"\\x01"), "x" / %s, Padding(1))' % el.src, el.val, tags=['focusedseq'])
    el = g_node(rng, depth - 1, False)
    return Node('RawCopy(%s)' % el.src, lambda g: dict(value=el.val(g)), tags=['rawcopy'])


def g_bitstruct(rng):
    """BitStruct whose widths sum to a multiple of 8"""
    total = rng.choice([8, 8, 16, 16, 24, 32])
    widths = []
    left = total
    while left > 0:
        w = min(left, rng.choice([1, 1, 2, 3, 4, 5, 7, 8, 9, 12]))
        widths.append(w)
        left -= w
    srcs, gens = [], []
    for j, w in enumerate(widths):
        nm = _names[j % len(_names)] + str(j)
        r = rng.random()
        if r < 0.1:
            srcs.append('Padding(%d)' % w)
            gens.append((None, None))
        elif w == 1 and r < 0.4:
            srcs.append('%r / Flag' % nm)
            gens.append((nm, lambda g: g.random() < 0.5))
        elif w == 1 and r < 0.6:
            srcs.append('%r / Bit' % nm)
            gens.append((nm, lambda g: g.randint(0, 1)))
        elif w == 4 and r < 0.5:
            srcs.append('%r / Nibble' % nm)
            gens.append((nm, lambda g: g.randint(0, 15)))
        elif w == 8 and r < 0.3:
            srcs.append('%r / Octet' % nm)
            gens.append((nm, lambda g: g.randint(0, 255)))
        elif w == 8 and r < 0.5:
            srcs.append('%r / Bytewise(Byte)' % nm)
            gens.append((nm, lambda g: g.randint(0, 255)))
        else:
            s = rng.random() < 0.4
            sw = (w % 8 == 0) and rng.random() < 0.4
            lo, hi = (-(1 << (w - 1)), (1 << (w - 1)) - 1) if s else (0, (1 << w) - 1)
            srcs.append('%r / BitsInteger(%d, signed=%s, swapped=%s)' % (nm, w, s, sw))
            gens.append((nm, lambda g, lo=lo, hi=hi: edge_int(g, lo, hi)))

    def val(g):
        return {nm: f(g) for nm, f in gens if nm is not None}
    return Node('BitStruct(%s)' % ', '.join(srcs), val, size=total // 8, tags=['bitstruct'])


def mutate(rng, data):
    """a malformed variant of a byte string"""
    if not data:
        return bytes([rng.getrandbits(8)])
    b = bytearray(data)
    r = rng.random()
    if r < 0.35:
        i = rng.randrange(len(b))
        b[i] ^= 1 << rng.randrange(8)
    elif r < 0.55:
        del b[rng.randrange(len(b)):]
    elif r < 0.7:
        i = rng.randrange(len(b) + 1)
        b[i:i] = bytes([rng.getrandbits(8)])
    elif r < 0.8:
        i = rng.randrange(len(b))
        b[i] = rng.choice([0, 255, 128, 127])
    elif r < 0.9:
        b += bytes(rng.getrandbits(8) for _ in range(rng.randint(1, 3)))
    else:
        i = rng.randrange(len(b))
        del b[i]
    return bytes(b)
