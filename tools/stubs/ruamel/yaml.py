"""Stand-in for ruamel.yaml (not installed here): export_ksy() only calls YAML().dump(main, stream).
The dictionary handed to dump is kept so that the checks can read the schema as data."""
LAST = []


class YAML:
    default_flow_style = False

    def dump(self, obj, stream):
        LAST.append(obj)
        stream.write(repr(obj))
