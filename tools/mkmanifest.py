"""Write /verif/MANIFEST.json from the table below (kept in one place so that it stays valid)."""
import json, os
ROOT = os.path.dirname(os.path.dirname(os.path.abspath(__file__)))

TB = ('Trusted: Coq 8.16.1 kernel + vm_compute (no native_compute); no axioms declared (Print Assumptions of every '
      'theorem is recorded in the evidence); the hand-written model is tied to /repo by the correspondence run '
      '(extracted OCaml model via ExtrOcamlBasic vs the library on the same cases) and by gen/*.v regenerated from '
      '/repo on every run (tools/regen.py); CPython semantics of struct/codecs/io as read into the model.')

CLAIMS = {}


def claim(pid, technique, text, design_ref, note=TB):
    CLAIMS[pid] = dict(technique=technique, text=text, design_ref=design_ref, note=note)


NOT_YET = {}

exec(open(os.path.join(ROOT, 'tools', 'claims.py')).read())

props = [json.loads(l) for l in open(os.path.join(ROOT, 'properties.jsonl'))]
checks, na = [], []
for p in props:
    pid = p['id']
    if pid in CLAIMS:
        c = CLAIMS[pid]
        checks.append(dict(
            property_id=pid,
            quick_cmd='./check %s --tier quick' % pid,
            thorough_cmd='./check %s --tier thorough' % pid,
            evidence_file='/verif/evidence/%s.json' % pid,
            replay_cmd_template='./check %s --replay {path}' % pid,
            engine='coq-model',
            level_claimed=dict(category='proof', text=c['text'], design_ref=c['design_ref']),
            level_note=c['note'],
            technique=c['technique']))
    else:
        na.append(dict(property_id=pid, reason=NOT_YET.get(pid, 'not claimed yet: the Coq theorems and the correspondence suite for this property are not built; no weaker technique is substituted')))

m = dict(
    version=1,
    setup_cmd='PYTHONPATH=/repo PYTHONHASHSEED=0 /venv/bin/python tools/regen.py && ./build.sh',
    hooks=dict(guard='CONSTRUCT_VERIF', enable='no hooks are needed: all observation goes through the public API, custom stream objects and vars() snapshots; the checks import construct from /repo (PYTHONPATH=/repo)',
               baseline_off_cmd='cd /repo && /venv/bin/python -m pytest -ra -q -p no:cacheprovider --timeout=900 --continue-on-collection-errors',
               source_commits=[], add_only=True),
    engines=[dict(name='coq-model', path='/verif/coq', serves_properties=sorted(CLAIMS),
                  kind_free_text='Coq 8.16 development: executable model of construct (model/), theorems (proofs/, props/), files regenerated from /repo (gen/), model extracted to OCaml (extract/) and run against the library by tools/harness.py')],
    checks=checks,
    notes='Proof family: machine-checked proof in Coq. Each check regenerates gen/*.v from /repo, rebuilds the development, re-checks props/<id>.v (Print Assumptions recorded), runs the correspondence suite and the property oracle on the implementation. fix: commits in /repo are listed in known_findings.json as fixed entries. See DESIGN.md.',
    not_applicable=na)
open(os.path.join(ROOT, 'MANIFEST.json'), 'w').write(json.dumps(m, indent=1) + '\n')
print('MANIFEST.json: %d checks, %d not claimed' % (len(checks), len(na)))
