"""Shared machinery of ./check: build + proof leg, evidence, replays, known findings."""
import os, sys, re, json, time, subprocess, hashlib, fcntl, glob

HERE = os.path.dirname(os.path.abspath(__file__))
ROOT = os.path.dirname(HERE)
COQ = os.path.join(ROOT, 'coq')
REPO = os.environ.get('VERIF_REPO', '/repo')

FORBIDDEN = re.compile(r'\b(Admitted|admit|Axiom|Axioms|Parameter|Parameters|Conjecture|Hypothesis|Variable|Variables|Hypotheses)\b|Unset\s+Guard|bypass_check|type-in-type|impredicative-set|Unset\s+Positivity|Unset\s+Universe')
ALLOWED_IN_SECTION = re.compile(r'\b(Hypothesis|Variable|Variables|Hypotheses)\b')


def sh(cmd, timeout=3600, cwd=None, env=None):
    p = subprocess.run(cmd, shell=True, stdout=subprocess.PIPE, stderr=subprocess.STDOUT, timeout=timeout, cwd=cwd, env=env)
    out = p.stdout.decode(errors='replace')
    out = '\n'.join(l for l in out.splitlines() if 'conda.cli.condarc' not in l)
    return p.returncode, out


def strip_comments(src):
    out, depth, i, n = [], 0, 0, len(src)
    while i < n:
        if src.startswith('(*', i):
            depth += 1
            i += 2
        elif src.startswith('*)', i) and depth:
            depth -= 1
            i += 2
        else:
            if depth == 0:
                out.append(src[i])
            i += 1
    return ''.join(out)


def forbidden_scan():
    """-> list of (file, line, token) for forbidden constructs outside comments.
    Section-local Variable/Hypothesis are allowed only between Section ... End."""
    bad = []
    for f in sorted(glob.glob(os.path.join(COQ, '**', '*.v'), recursive=True)):
        src = strip_comments(open(f).read())
        depth = 0
        for ln, line in enumerate(src.splitlines(), 1):
            if re.match(r'\s*Section\b', line):
                depth += 1
            if re.match(r'\s*End\b', line) and depth:
                depth -= 1
            for m in FORBIDDEN.finditer(line):
                tok = m.group(0)
                if ALLOWED_IN_SECTION.fullmatch(tok) and depth > 0:
                    continue
                bad.append((os.path.relpath(f, ROOT), ln, tok))
    return bad


def regen():
    """regenerate coq/gen/*.v from /repo's working tree (ties B and C); -> (ok, log)"""
    env = dict(os.environ, PYTHONPATH=REPO, PYTHONHASHSEED='0')
    rc, out = sh('/venv/bin/python %s' % os.path.join(HERE, 'regen.py'), timeout=600, env=env)
    return rc == 0, out


def build():
    """incremental full build under a lock; -> (ok, log)"""
    os.makedirs(os.path.join(ROOT, 'work'), exist_ok=True)
    with open(os.path.join(ROOT, 'work', 'build.lock'), 'w') as lk:
        fcntl.flock(lk, fcntl.LOCK_EX)
        rc, out = sh(os.path.join(ROOT, 'build.sh'), timeout=3400)
    return rc == 0 and 'build-ok' in out, out


THM_RE = re.compile(r'^\s*(Theorem|Example)\s+([A-Za-z0-9_\']+)', re.M)
PA_RE = re.compile(r'^\s*Print Assumptions\s+([A-Za-z0-9_\']+)\s*\.', re.M)


def proof_leg(pid):
    """Re-check props/<pid>.v with coqc and read back Print Assumptions.
    Obligations: every Theorem and Example of the file.  A Theorem is discharged when the file
    compiles and its Print Assumptions output is 'Closed under the global context' or lists only
    axioms (which are then reported); an Example when the file compiles.
    -> dict(ok, obligations, discharged, theorems=[{name, kind, assumptions}], log)"""
    src_path = os.path.join(COQ, 'props', pid + '.v')
    res = dict(ok=False, obligations=0, discharged=0, theorems=[], log='', checker_cmd='', axioms=[])
    if not os.path.exists(src_path):
        res['log'] = 'no props file'
        return res
    src = strip_comments(open(src_path).read())
    decls = [(m.group(1), m.group(2)) for m in THM_RE.finditer(src)]
    printed = [m.group(1) for m in PA_RE.finditer(src)]
    res['obligations'] = len(decls)
    os.makedirs(os.path.join(ROOT, 'work', 'recheck'), exist_ok=True)
    cmd = 'cd %s && timeout 900 coqc -R model V -R proofs V -R props V -R gen V -o %s props/%s.v' % (
        COQ, os.path.join(ROOT, 'work', 'recheck', '%s.vo' % pid), pid)
    res['checker_cmd'] = 'coq_makefile -f _CoqProject -o Makefile && make (coqc 8.16.1, full .vo build); then: ' + cmd.split('&& ', 1)[1]
    rc, out = sh(cmd, timeout=1000)
    res['log'] = out[-4000:]
    if rc != 0:
        return res
    blocks = re.split(r'(?m)^(?=Closed under the global context|Axioms:)', out)
    blocks = [b for b in blocks if b.startswith('Closed under') or b.startswith('Axioms:')]
    amap = {}
    for i, nm in enumerate(printed):
        a = blocks[i].strip() if i < len(blocks) else 'missing'
        amap[nm] = 'closed' if a.startswith('Closed') else a[:600]
    thms = []
    missing = []
    for kind, nm in decls:
        if kind == 'Theorem':
            a = amap.get(nm, 'missing')
            if a == 'missing':
                missing.append(nm)
        else:
            a = amap.get(nm, 'compiled (vm_compute instance)')
        thms.append(dict(name=nm, kind=kind, assumptions=a))
    res['theorems'] = thms
    res['discharged'] = sum(1 for t in thms if t['assumptions'] != 'missing')
    res['axioms'] = sorted({l.strip() for t in thms if t['assumptions'].startswith('Axioms:') for l in t['assumptions'].splitlines()[1:] if l.strip() and not l.startswith(' ')})
    res['ok'] = (not missing) and len(blocks) == len(printed) and res['discharged'] == len(decls) and len(decls) > 0
    if missing:
        res['log'] += '\nno Print Assumptions for: ' + ', '.join(missing)
    return res


def load_known():
    p = os.path.join(ROOT, 'known_findings.json')
    if os.path.exists(p):
        return json.load(open(p))
    return []


def write_replay(pid, payload):
    d = os.environ.get('VERIF_REPLAY_DIR') or os.path.join(ROOT, 'replays')
    os.makedirs(d, exist_ok=True)
    blob = json.dumps(payload, indent=1, sort_keys=True, default=repr)
    h = hashlib.sha1(blob.encode()).hexdigest()[:10]
    path = os.path.join(d, '%s-%s.json' % (pid, h))
    open(path, 'w').write(blob + '\n')
    return path


def write_evidence(pid, ev):
    d = os.environ.get('VERIF_EVIDENCE_DIR') or os.path.join(ROOT, 'evidence')
    os.makedirs(d, exist_ok=True)
    open(os.path.join(d, pid + '.json'), 'w').write(json.dumps(ev, indent=1, default=repr) + '\n')


TRUSTED_BASE = [
    'Coq 8.16.1 kernel (coqc); vm_compute for finite checks and Examples; no native_compute',
    'axioms: none declared; Print Assumptions output of every property theorem is recorded under coverage.theorems',
    'extraction to OCaml with ExtrOcamlBasic only (its Extract Inductive for bool, option, unit, list, prod, sumbool, sumor; no Extract Constant); OCaml 4.13.1; extract/base.ml, driver.ml and the generated conv.ml',
    'tools/reify.py (live construct objects -> model terms, fail-closed), tools/impl.py (implementation runner, outcome canonicaliser), tools/harness.py (diff), the generators in tools/gen.py',
    'tools/regen.py translators (reflective Names.v, ast tables) - fail-closed, unverified',
    'CPython 3.12 semantics of struct, int.to_bytes/from_bytes, codecs, io.BytesIO as read into model/Float.v, Codec.v, Stream.v (validated by the correspondence, assumed by the theorems)',
    'the model is hand-written: everything is modelled rather than verified; the code is tied to it by the correspondence run and the regenerated gen/*.v on every run',
]
