"""C17: constructs are stateless: results do not depend on call history or entry point."""
import io, os, tempfile, threading, types
from concurrent.futures import ThreadPoolExecutor
from . import common as C
import gen as G
import harness as H
import construct
from construct import core

# a pool of constructs sharing members (by object identity) and the library's singletons
POOL = H.POOL_NAMES


def fresh_pool():
    """new objects for every pool member (the singletons stay the library's)"""
    ns = dict(H.namespace())
    exec(H.POOL_DEFS, ns)
    return ns


def run_call(ns, call):
    """-> a comparable outcome: ('ok', plain value) | ('err', class name)"""
    op, src = call[0], call[1]
    c = eval(src, ns)
    try:
        if op == 'parse':
            return ('ok', C.I.to_val(c.parse(call[2], **call[3])))
        if op == 'parse_stream':
            st = io.BytesIO(call[2])
            st.seek(call[4])
            v = c.parse_stream(st, **call[3])
            return ('ok', C.I.to_val(v), st.tell() - call[4])
        if op == 'build':
            return ('ok', c.build(call[2], **call[3]))
        if op == 'sizeof':
            return ('ok', c.sizeof(**call[2]))
        if op == 'compile':
            cc = c.compile()
            return ('ok', type(cc).__name__)
        if op == 'compiled_parse':
            return ('ok', C.I.to_val(c.compile().parse(call[2], **call[3])))
    except core.ConstructError as e:
        return ('err', type(e).__name__)
    except Exception as e:
        return ('err', type(e).__name__)
    raise ValueError(op)


EXEMPT = {('Rebuffered', 'stream2'), ('Debugger', 'retval')}


def snapshot(obj, seen=None, depth=0):
    """the attribute state of a construct and of everything reachable from it, by identity"""
    if seen is None:
        seen = {}
    if isinstance(obj, (int, float, str, bytes, bool, type(None))):
        return obj
    if id(obj) in seen:
        return ('ref', seen[id(obj)])
    if depth > 40:
        return ('deep',)
    if isinstance(obj, (core.Construct, construct.expr.ExprMixin)):
        seen[id(obj)] = len(seen)
        items = []
        for k, v in sorted(vars(obj).items()):
            if (type(obj).__name__, k) in EXEMPT:
                continue
            items.append((k, snapshot(v, seen, depth + 1)))
        return ('obj', type(obj).__name__, id(obj), tuple(items))
    if isinstance(obj, dict):
        seen[id(obj)] = len(seen)
        return ('dict', tuple((repr(k), snapshot(v, seen, depth + 1)) for k, v in dict.items(obj)))
    if isinstance(obj, (list, tuple, set, frozenset)):
        seen[id(obj)] = len(seen)
        xs = list(obj) if isinstance(obj, (list, tuple)) else sorted(obj, key=repr)
        return (type(obj).__name__, tuple(snapshot(v, seen, depth + 1) for v in xs))
    if isinstance(obj, (types.FunctionType, types.MethodType)):
        seen[id(obj)] = len(seen)
        f = obj.__func__ if isinstance(obj, types.MethodType) else obj
        cells = tuple(snapshot(c.cell_contents, seen, depth + 1) for c in (f.__closure__ or ()) if _has_contents(c))
        dflt = tuple(snapshot(d, seen, depth + 1) for d in (f.__defaults__ or ()))
        return ('fn', id(f), cells, dflt, tuple((k, snapshot(v, seen, depth + 1)) for k, v in sorted(vars(f).items())))
    return ('other', type(obj).__name__, id(obj))


def _has_contents(cell):
    try:
        cell.cell_contents
        return True
    except ValueError:
        return False


def class_state():
    """class attributes of every Construct / expression class and the module globals of the package that are plain data"""
    out = []
    for mod in (core, construct.expr, construct.lib.containers, construct.lib.binary, construct.lib.bitstream, construct.lib.hex, construct.lib.py3compat, construct.debug):
        for k, v in sorted(vars(mod).items()):
            if isinstance(v, type) and issubclass(v, (core.Construct, construct.expr.ExprMixin)):
                out.append((mod.__name__, k, tuple((a, repr(b)[:80] if isinstance(b, (int, float, str, bytes, bool, type(None), tuple)) else id(b))
                                                  for a, b in sorted(vars(v).items()) if not a.startswith('__'))))
            elif isinstance(v, (int, float, str, bytes, bool, type(None))):
                out.append((mod.__name__, k, v))
            elif isinstance(v, (dict, list, set)):
                out.append((mod.__name__, k, len(v), repr(sorted(map(repr, v)))[:2000]))
    return out


@C.oracle('history')
def o_history(src, calls, threads):
    """every call of the history returns what the same call returns on freshly made objects; the pool's objects
    are attribute-for-attribute what they were before; the same under `threads` concurrent workers"""
    # the reference results are computed in the REVERSE order of the history: state kept outside the objects (a module-level memo)
    # would otherwise be built up by the reference runs in the same order as by the history, and show nothing
    base = []
    for call in reversed(calls):
        base.append(run_call(fresh_pool(), call))
    base.reverse()
    ns = fresh_pool()
    roots = [ns[n] for n in POOL] + [getattr(construct, n) for n in ('Byte', 'VarInt', 'Flag', 'Pass', 'GreedyBytes', 'Int16ub', 'Int32ul', 'Terminated', 'Tell', 'Index', 'Error')]
    before = [snapshot(r) for r in roots]
    cls_before = class_state()
    for k, call in enumerate(calls):
        r = run_call(ns, call)
        if not same(r, base[k]):
            return 'call %d %r returns %r in the history, %r on fresh objects' % (k, brief(call), brief(r), brief(base[k]))
    # once more, backwards: every call again after everything else has happened
    for k in reversed(range(len(calls))):
        r = run_call(ns, calls[k])
        if not same(r, base[k]):
            return 'call %d %r repeated after the history returns %r, first %r' % (k, brief(calls[k]), brief(r), brief(base[k]))
    after = [snapshot(r) for r in roots]
    for n, a, b in zip(POOL + ['singletons'] * 20, before, after):
        if a != b:
            return 'object state of %s changed by use: %s' % (n, first_diff(a, b))
    if class_state() != cls_before:
        return 'class attributes / module globals changed by use'
    if threads:
        outs = [None] * threads
        def worker(t):
            res = []
            order = list(range(len(calls)))
            if t % 2:
                order.reverse()
            for k in order:
                res.append((k, run_call(ns, calls[k])))
            outs[t] = res
        with ThreadPoolExecutor(max_workers=threads) as ex:
            list(ex.map(worker, range(threads)))
        for t in range(threads):
            for k, r in outs[t]:
                if not same(r, base[k]):
                    return 'worker %d of %d: call %d %r returns %r, sequentially %r' % (t, threads, k, brief(calls[k]), brief(r), brief(base[k]))
        after2 = [snapshot(r) for r in roots]
        if after2 != before:
            return 'object state changed by concurrent use'
    return None


def same(a, b):
    return a == b or (a[0] == 'ok' and b[0] == 'ok' and C.veq(a[1:], b[1:]))


def brief(x):
    s = repr(x)
    return s if len(s) < 160 else s[:160] + '...'


def first_diff(a, b, path=''):
    if type(a) != type(b) or not isinstance(a, tuple) or len(a) != len(b):
        return '%s: %s -> %s' % (path, brief(a), brief(b))
    for i, (x, y) in enumerate(zip(a, b)):
        if x != y:
            if isinstance(x, tuple) and len(x) == 2 and isinstance(x[0], str):
                return first_diff(x[1], y[1] if isinstance(y, tuple) and len(y) == 2 else y, path + '.' + x[0])
            return first_diff(x, y, path)
    return path


PROC_SCRIPT = r'''
import sys, json
from construct import *
calls = json.loads(sys.argv[1])
out = []
for src, op, arg in calls:
    c = eval(src)
    try:
        if op == "build":
            out.append(("ok", c.build(eval(arg)).hex()))
        else:
            out.append(("ok", repr(c.parse(bytes.fromhex(arg)))))
    except Exception as e:
        out.append(("err", type(e).__name__))
print(json.dumps(out))
'''


@C.oracle('fresh_process')
def o_fresh_process(src, calls):
    """state kept outside the objects (module level) is shared by every object of the process: the last call of a history gives what
    the same call gives as the FIRST call of a fresh interpreter"""
    import subprocess, sys, json

    def run(cs):
        p = subprocess.run([sys.executable, '-c', PROC_SCRIPT, json.dumps(cs)], stdout=subprocess.PIPE, stderr=subprocess.PIPE, timeout=120)
        if p.returncode != 0:
            raise RuntimeError(p.stderr.decode()[-300:])
        return json.loads(p.stdout.decode().strip().splitlines()[-1])
    full, alone = run(calls), run(calls[-1:])
    if full[-1] != alone[0]:
        return 'after %r the call %r gives %r; as the first call of a fresh interpreter it gives %r' % (calls[:-1], calls[-1], full[-1], alone[0])
    return None


@C.oracle('entrypoints')
def o_entry(src, data, kw, pre, positional):
    """all ways in give the same value / the same error; all ways out give the same bytes"""
    c = eval(src, fresh_pool())
    lazy = 'Lazy' in src or src in ('S8', 'S9')
    def attempt(f):
        try:
            v = f()
            if lazy:
                v = C.I.to_val(v)          # a lazy result is read while its stream is still open
            return ('ok', v)
        except Exception as e:
            return ('err', type(e).__name__)
    ref = attempt(lambda: c.parse(data, **kw))
    ways = [('bytearray', lambda: c.parse(bytearray(data), **kw)), ('memoryview', lambda: c.parse(memoryview(data), **kw)),
            ('memoryview slice', lambda: c.parse(memoryview(b'\x09\x08' + data + b'\x07')[2:-1], **kw)),
            ('memoryview of a bytearray slice', lambda: c.parse(memoryview(bytearray(b'\xff' + data + b'\xfe\xfd'))[1:-2], **kw)),
            ('parse_stream', lambda: c.parse_stream(io.BytesIO(data), **kw))]
    fd, fn = tempfile.mkstemp(prefix='c17_')
    try:
        os.write(fd, data)
        os.close(fd)
        if not lazy:
            # parse_file closes the file before it returns: a lazy result could not be read any more
            ways.append(('parse_file', lambda: c.parse_file(fn, **kw)))
        for name, f in ways:
            r = attempt(f)
            if r[0] != ref[0] or (r[0] == 'ok' and not C.veq(r[1], ref[1])) or (r[0] == 'err' and r[1] != ref[1]):
                return '%s gives %s, parse(bytes) gives %s' % (name, brief(r), brief(ref))
    finally:
        os.unlink(fn)
    if not positional:
        # any starting offset: same value, same number of bytes consumed
        st0 = io.BytesIO(data)
        r0 = attempt(lambda: c.parse_stream(st0, **kw))
        used0 = st0.tell()
        for p in pre:
            st = io.BytesIO(p + data)
            st.seek(len(p))
            r = attempt(lambda: c.parse_stream(st, **kw))
            if r[0] != r0[0] or (r[0] == 'ok' and not C.veq(r[1], r0[1])) or (r[0] == 'err' and r[1] != r0[1]):
                return 'parse_stream at offset %d gives %s, at offset 0 %s' % (len(p), brief(r), brief(r0))
            if r[0] == 'ok' and st.tell() - len(p) != used0:
                return 'parse_stream at offset %d consumes %d bytes, at offset 0 %d' % (len(p), st.tell() - len(p), used0)
    if ref[0] != 'ok':
        return None
    if lazy:
        return None
    obj = ref[1]
    b0 = attempt(lambda: c.build(obj, **kw))
    st = io.BytesIO()
    b1 = attempt(lambda: (c.build_stream(obj, st, **kw), st.getvalue())[1])
    if b0 != b1:
        return 'build_stream writes %s, build returns %s' % (brief(b1), brief(b0))
    fd, fn = tempfile.mkstemp(prefix='c17_')
    os.close(fd)
    try:
        b2 = attempt(lambda: (c.build_file(obj, fn, **kw), open(fn, 'rb').read())[1])
    finally:
        os.unlink(fn)
    if b0 != b2:
        return 'build_file writes %s, build returns %s' % (brief(b2), brief(b0))
    if not positional and b0[0] == 'ok':
        for p in pre:
            st = io.BytesIO()
            st.write(p)
            r = attempt(lambda: (c.build_stream(obj, st, **kw), st.getvalue())[1])
            if r[0] != 'ok' or r[1] != p + b0[1]:
                return 'build_stream after %d bytes writes %s, build returns %s' % (len(p), brief(r), brief(b0))
    return None


# constructs whose values legitimately contain absolute stream positions
def positional(src):
    if 'Computed(this.r.data)' in src:
        return False                  # only the bytes of the RawCopy are kept, not its offsets
    return any(k in src for k in ('Tell', 'Pointer', 'Seek', 'RawCopy', 'Peek', 'OffsettedEnd', 'Terminated'))


def pool_value(rng, name):
    """a buildable value for a pool member"""
    def s0():
        d = G.rand_bytes(rng, rng.randint(0, 4))
        return dict(n=len(d), d=d)
    def s1(n):
        return dict(k=rng.randrange(65536), v=G.rand_bytes(rng, n))
    n = rng.choice([0, 1, 2, 3])
    kw = dict(n=n)
    if name == 'S0':
        return s0(), kw
    if name == 'S1':
        return s1(n), kw
    if name == 'S2':
        return [s0() for _ in range(rng.randint(0, 3))], kw
    if name == 'S3':
        return dict(a=s0(), b=s0(), c=[s0(), s0()]), kw
    if name == 'S4':
        return [s0(), s1(n), rng.choice([0, 1, 300, 2 ** 20])], kw
    if name == 'S5':
        return dict(x=rng.randrange(65536)), kw
    if name == 'S6':
        return [s0() for _ in range(rng.randint(0, 3))], kw
    if name == 'S7':
        kw = dict(n=rng.choice([1, 2]))
        return (s0() if kw['n'] == 1 else s1(2)), kw
    if name == 'S8':
        return dict(a=s0(), b=rng.randrange(256)), kw
    if name == 'S9':
        return [s0(), s0()], kw
    if name == 'S10':
        return dict(h=s0(), t=rng.choice([1, 7, 255]), z=[s1(n)]), kw
    if name == 'S11':
        return s0(), kw
    if name == 'S12':
        # sometimes a value whose build fails half way through (b does not fit a byte)
        return dict(a=rng.randrange(256), b=rng.choice([1, 7, 300, 255, -1]), c=s0()), kw
    if name == 'S13':
        mk = lambda: dict(a=rng.randrange(256), b=rng.choice([1, 300, 9]), c=s0())
        return dict(p=mk(), q=mk(), t=rng.randrange(256)), kw
    if name == 'S14':
        # values that several alternatives can build: which one builds them must not depend on what was built before
        return rng.choice([5, 300, 70000, 0, 255, 256, 65535, 65536]), kw
    if name == 'S15':
        return dict(o=rng.choice([None, 7, 513]), s=rng.choice([5, 300, 70000]), r=rng.choice([None, s0()])), kw
    if name == 'S16':
        return dict(k=rng.choice([0, 1, 2, 3, 90, 255]), d=G.rand_bytes(rng, 3), e=G.rand_bytes(rng, 2)), kw
    if name == 'S17':
        # constant multi-byte keys over data whose length is not a multiple of the key length: a key stream kept between calls shows
        n = rng.choice([0, 1, 2, 4, 5, 7])
        return dict(n=n, d=G.rand_bytes(rng, n), e=G.rand_bytes(rng, rng.choice([0, 1, 3, 4])), f=G.rand_bytes(rng, 3)), kw
    if name == 'S18':
        # bit fields of the same width and different signedness, with values only one of them accepts
        return dict(u=rng.choice([0, 7, 8, 12, 15, -3, 16]), s=rng.choice([0, 7, -8, -3, 12, 8, -9])), kw
    if name == 'S19':
        # rotations whose amount and group size come from the data: the same amount with different group sizes, one call after the other
        g = rng.choice([1, 2, 3, 4])
        return dict(g=g, a=rng.choice([4, 12, 13, 8, 20, 36]), d=G.rand_bytes(rng, 2 * g)), kw
    if name in ('S20', 'S21'):
        return G.rand_bytes(rng, 4), kw
    if name == 'S22':
        return G.rand_bytes(rng, 12), kw
    raise KeyError(name)


def make_history(rng, length):
    calls = []
    names = list(POOL)
    for _ in range(length):
        nm = rng.choice(names)
        r = rng.random()
        val, kw = pool_value(rng, nm)
        if nm == 'S7':
            src = nm
        else:
            src = nm
        try:
            data = eval(src, fresh_pool()).build(val, **kw)
        except Exception:
            data = b''
        if r < 0.4:
            d = data if rng.random() < 0.6 else G.mutate(rng, data)
            calls.append(('parse', src, d, kw))
        elif r < 0.55:
            calls.append(('parse_stream', src, b'\x00\x01' + data, kw, 2))
        elif r < 0.75:
            calls.append(('build', src, val if rng.random() < 0.8 else None, kw))
        elif r < 0.9:
            calls.append(('sizeof', src, kw if rng.random() < 0.8 else {}))
        elif r < 0.95:
            calls.append(('compile', src))
        else:
            calls.append(('compiled_parse', src, data, kw))
        if rng.random() < 0.25:
            # the same call again with another keyword context / other data right away
            val2, kw2 = pool_value(rng, nm)
            calls.append(('sizeof', src, kw2))
    return calls


def run(tier, seed):
    acc = C.Acc('C17', tier, seed)
    rng = C.rng_for(seed, 'C17')
    quick = tier == 'quick'
    # ---- histories (oracle) ----
    for i in range(45 if quick else 300):
        calls = make_history(rng, rng.randint(8, 40))
        acc.check('history', 'pool', calls=calls, threads=(0 if i % 3 else (8 if i % 2 else 16)))
    # crafted histories: a build that fails half way through a shared member, then builds through the same member (directly and through a
    # construct that shares it), for every member of the pool that can fail after having written
    s0 = dict(n=2, d=b'xy')
    for bad, goods in [(('build', 'S12', dict(a=1, b=300, c=s0), {}), [('build', 'S12', dict(a=7, b=1, c=s0), {}), ('build', 'S13', dict(p=dict(a=1, b=2, c=s0), q=dict(a=3, b=4, c=s0), t=5), {})]),
                       (('build', 'S13', dict(p=dict(a=1, b=2, c=s0), q=dict(a=3, b=300, c=s0), t=5), {}), [('build', 'S12', dict(a=7, b=1, c=s0), {}), ('build', 'S13', dict(p=dict(a=1, b=2, c=s0), q=dict(a=3, b=4, c=s0), t=5), {})]),
                       (('build', 'S3', dict(a=s0, b=dict(n=300, d=b''), c=[s0, s0]), {}), [('build', 'S3', dict(a=s0, b=s0, c=[s0, s0]), {}), ('build', 'S2', [s0, s0], {}), ('build', 'S0', s0, {})]),
                       (('build', 'S2', [s0, dict(n=2, d=b'toolong')], {}), [('build', 'S2', [s0], {}), ('build', 'S11', s0, {})]),
                       (('build', 'S11', dict(n=300, d=b''), {}), [('build', 'S11', s0, {}), ('build', 'S12', dict(a=7, b=1, c=s0), {})]),
                       (('build', 'S17', dict(n=2, d=b'ab', e=b'x' * 300, f=b'abc'), {}), [('build', 'S17', dict(n=2, d=b'ab', e=b'xyz', f=b'abc'), {})]),
                       (('build', 'S16', dict(k=1, d=b'abc', e=b'toolong'), {}), [('build', 'S16', dict(k=1, d=b'abc', e=b'ab'), {})]),
                       (('parse', 'S12', b'\x09\x01\x02', {}), [('parse', 'S12', b'\x04\x01\x02\x01\x41', {}), ('build', 'S12', dict(a=7, b=1, c=s0), {})]),
                       (('parse', 'S2', b'\x03\x01\x41\x05', {}), [('parse', 'S2', b'\x01\x01\x41', {}), ('build', 'S2', [s0], {})])]:
        acc.check('history', 'pool', calls=[bad] + goods, threads=0)
        acc.check('history', 'pool', calls=[bad, bad] + goods + [bad] + goods[::-1], threads=0)
    # ---- the same histories on the model: the model is a function of (construct, input, context) by construction, the
    # implementation runs the calls of a chunk one after the other on the same objects ----
    cases = []
    for i in range(20 if quick else 120):
        for call in make_history(rng, 60):
            if call[0] == 'parse':
                cases.append(dict(src=call[1], op='parse', data=call[2], kw=call[3]))
            elif call[0] == 'parse_stream':
                cases.append(dict(src=call[1], op='parse', data=call[2], kw=call[3], start=call[4]))
            elif call[0] == 'build' and call[2] is not None:
                cases.append(dict(src=call[1], op='build', obj=call[2], kw=call[3]))
            elif call[0] == 'sizeof':
                cases.append(dict(src=call[1], op='sizeof', kw=call[2]))
    acc.corr(cases, 'history')
    # ---- entry points ----
    pres = [b'\x00', b'\xff\xfe\xfd', b'\x00' * 17]
    srcs = list(POOL) + ['Byte', 'VarInt', 'Int32ul', 'CString("utf8")', 'GreedyBytes', 'GreedyRange(Int16ub)', 'PascalString(VarInt, "utf8")',
                         'Struct("a"/Byte, "t"/Tell, "b"/Pointer(0, Byte))', 'Union("b", "a"/Int16ub, "b"/Byte)', 'Union(1, Int32ul, Byte, Int16ub)',
                         'Select(Int32ul, Int16ub, Byte)', 'Struct("u"/Union(0, "a"/Byte, "b"/Int16ub), "t"/Byte)',
                         'Struct("p"/Peek(Byte), "q"/Int16ub)', 'Aligned(4, Byte)', 'Padded(3, Byte)', 'Bitwise(Array(8, Bit))',
                         'RawCopy(Int16ub)', 'Prefixed(Byte, GreedyRange(S0))', 'LazyArray(2, S0)', 'Lazy(S0)', 'NullTerminated(GreedyBytes)',
                         'FocusedSeq("b", "a"/Byte, "b"/Bytes(this.a))', 'RepeatUntil(obj_ == 0, Byte)',
                         'Struct("d"/Bytes(2), "c"/Checksum(Byte, sum8, this.d))']
    # RawCopy inside delimited regions (sub-streams), away from offset 0; the variants with Computed keep only the bytes, so they are
    # also compared across starting offsets
    extra = {'Prefixed(Byte, RawCopy(Int16ub))': dict(value=513), 'Struct("k"/Byte, "f"/FixedSized(4, RawCopy(Int16ub)))': dict(k=1, f=dict(value=513)),
             'Struct("k"/Bytes(3), "p"/Prefixed(Byte, Struct("a"/Byte, "r"/RawCopy(Bytes(2)))))': dict(k=b'abc', p=dict(a=1, r=dict(value=b'xy'))),
             'Struct("k"/Byte, "n"/NullTerminated(RawCopy(GreedyBytes)))': dict(k=1, n=dict(value=b'xyz')),
             'Struct("h"/Byte, "x"/ProcessXor(3, RawCopy(Bytes(2))))': dict(h=1, x=dict(value=b'xy')),
             'Struct("k"/Byte, "p"/Prefixed(Byte, FocusedSeq("d", "r"/RawCopy(Int16ub), "d"/Computed(this.r.data))))': dict(k=1, p=None),
             'Struct("k"/Byte, "f"/FixedSized(4, FocusedSeq("d", "r"/RawCopy(Int16ub), "d"/Computed(this.r.data))))': dict(k=1, f=None),
             'FixedSized(4, FocusedSeq("d", "r"/RawCopy(Int16ub), "d"/Computed(this.r.data)))': ('data', b'\x01\x02\x03\x04\x09'),
             'Prefixed(Byte, Prefixed(Byte, FocusedSeq("d", "r"/RawCopy(Bytes(2)), "d"/Computed(this.r.data))))': ('data', b'\x04\x03\x61\x62\x63\x09')}
    srcs += list(extra)
    for src in srcs:
        for _ in range(6 if quick else 30):
            if src in POOL:
                val, kw = pool_value(rng, src)
            elif src in extra:
                val, kw = extra[src], {}
            else:
                val, kw = None, dict(n=2)
            c = eval(src, fresh_pool())
            data = None
            if isinstance(val, tuple) and val[0] == 'data':
                data, val = val[1], None
            if val is not None:
                try:
                    data = c.build(val, **kw)
                except Exception:
                    data = None
            if data is None:
                data = bytes(rng.choice([0, 1, 2, 3, 5, 0x81, 0xff]) for _ in range(rng.randint(0, 10)))
            for d in (data, G.mutate(rng, data)):
                acc.check('entrypoints', src, data=d, kw=kw, pre=pres, positional=positional(src))
    for calls in [
            [('Bitwise(BitsInteger(4))', 'build', '12'), ('Bitwise(BitsInteger(4, signed=True))', 'build', '12')],
            [('Bitwise(BitsInteger(4, signed=True))', 'build', '-3'), ('Bitwise(BitsInteger(4))', 'build', '-3')],
            [('BitStruct("a"/BitsInteger(3), "b"/BitsInteger(5, signed=True))', 'build', 'dict(a=7, b=-16)'), ('BitStruct("a"/BitsInteger(3, signed=True), "b"/BitsInteger(5))', 'build', 'dict(a=7, b=-16)')],
            [('Int16ub', 'build', '70000'), ('Int16ub', 'build', '7')], [('VarInt', 'build', '-1'), ('VarInt', 'build', '300')],
            [('ProcessXor(b"\\x01\\x02\\x04", GreedyBytes)', 'build', 'b"abcd"'), ('ProcessXor(b"\\x01\\x02\\x04", GreedyBytes)', 'build', 'b"abcd"')],
            [('Enum(Byte, a=1)', 'build', '"zz"'), ('Enum(Byte, a=1, zz=2)', 'build', '"zz"')],
            [('ProcessRotateLeft(4, 2, Bytes(4))', 'build', 'b"abcd"'), ('ProcessRotateLeft(4, 4, Bytes(4))', 'build', 'b"abcd"')],
            [('ProcessRotateLeft(4, 4, Bytes(4))', 'parse', '61626364'), ('ProcessRotateLeft(4, 2, Bytes(4))', 'parse', '61626364')],
            [('ProcessRotateLeft(12, 4, GreedyBytes)', 'build', 'b"abcdefgh"'), ('ProcessRotateLeft(12, 2, GreedyBytes)', 'build', 'b"abcdefgh"'), ('ProcessRotateLeft(12, 8, GreedyBytes)', 'build', 'b"abcdefgh"')],
            [('ProcessRotateLeft(3, 1, GreedyBytes)', 'build', 'b"abc"'), ('ProcessRotateLeft(3, 3, GreedyBytes)', 'build', 'b"abc"'), ('ProcessRotateLeft(-5, 3, GreedyBytes)', 'parse', '616263')],
            [('ProcessXor(b"\\x01\\x02", GreedyBytes)', 'build', 'b"abc"'), ('ProcessXor(b"\\x01\\x02\\x03", GreedyBytes)', 'build', 'b"abc"'), ('ProcessXor(1, GreedyBytes)', 'build', 'b"abc"')],
            [('Bitwise(Bytes(8))', 'parse', '81'), ('Bitwise(Bytes(16))', 'parse', '8101'), ('BitsSwapped(Bytes(1))', 'parse', '81'), ('ByteSwapped(Bytes(2))', 'parse', '8101')],
            [('PaddedString(4, "utf_16_le")', 'build', '"a"'), ('PaddedString(4, "utf8")', 'build', '"a"'), ('CString("utf_32_le")', 'build', '"a"'), ('CString("utf8")', 'build', '"a"')],
            [('PaddedString(4, "utf8")', 'parse', 'ff000000'), ('PaddedString(4, "utf8")', 'parse', '61000000')],
            [('Struct("n"/Byte, "d"/Bytes(this.n))', 'parse', '05'), ('Struct("n"/Byte, "d"/Bytes(this.n))', 'parse', '026162')]]:
        acc.check('fresh_process', calls[-1][0], calls=[list(c) for c in calls])
    return acc.result(
        rule='histories of 8..40 calls (parse of valid / mutated data, parse_stream at an offset, build of valid / missing values, sizeof under '
             'changing keyword contexts, compile, compiled parse) over a pool of 12 constructs that share members by identity and use the '
             'library singletons: each call compared with the same call on freshly made objects, every call repeated in reverse order after the '
             'history, vars() of every reachable construct / expression object (closures and defaults of stored functions included) and the class '
             'attributes and module globals of the package compared before / after; every third history also by 8 or 16 concurrent workers in '
             'opposite orders. The same call streams run on the extracted model (a function by construction) against the library executing them '
             'one after the other on shared objects. Entry points: bytes / bytearray / memoryview / parse_stream / parse_file, parse_stream and '
             'build_stream at offsets 1, 3, 17 (values and consumed length; constructs reporting absolute positions exempt), build / build_stream '
             '/ build_file. distinct = (oracle signature, outcome) + correspondence shapes',
        fragment='the frame theorems hold for every history and interleaving of executions of the functions summarised in gen/Effects.v',
        partial=['the theorem is about the regenerated write-effect summaries (syntactic stores through self, class objects, module globals, '
                 'one-step aliases, mutable defaults, caching decorators); aliasing through longer chains, the GIL, C-level re-entrancy of io.BytesIO and '
                 'real thread schedules are runtime behaviour: the threaded runs are validation, not proof'])


def replay(payload):
    return C.generic_replay(payload)
