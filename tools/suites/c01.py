"""C01: build then parse returns the value that was built (symmetry)."""
import io
from . import common as C
import gen as G
import construct
from construct import core


def contains(sup, v, p, path='value'):
    """every supplied (non-None) part of the built value reappears in the parsed value; -> None or a message"""
    if callable(p) and not isinstance(p, (dict, list)):
        p = p()
    if v is None:
        return None
    if isinstance(v, dict):
        if not isinstance(p, dict):
            return '%s: built a mapping, parsed %r' % (path, p)
        for k, x in v.items():
            if isinstance(k, str) and k.startswith('_'):
                continue
            try:
                px = p[k]
            except (KeyError, IndexError):
                if x is None or x is False and sup:
                    continue
                return '%s.%s: supplied %r, missing after parse' % (path, k, x)
            m = contains(sup, x, px, '%s.%s' % (path, k))
            if m:
                return m
        return None
    if isinstance(v, (list, tuple)):
        try:
            n = len(p)
        except TypeError:
            return '%s: built a list, parsed %r' % (path, p)
        if n != len(v):
            return '%s: built %d elements, parsed %d' % (path, len(v), n)
        for i, x in enumerate(v):
            m = contains(sup, x, p[i], '%s[%d]' % (path, i))
            if m:
                return m
        return None
    if isinstance(v, float) and v != v:
        return None
    if not (p == v):
        return '%s: built %r, parsed %r' % (path, v, p)
    return None


def flags_ok(v, p):
    return True


@C.oracle('roundtrip')
def o_roundtrip(src, obj, kw, prefix):
    c = C.get(src)
    st = io.BytesIO()
    st.write(prefix)
    ctx = construct.Container(**kw)
    ctx._parsing, ctx._building, ctx._sizing, ctx._params = False, True, False, ctx
    try:
        ret = c._build(obj, st, ctx, '(building)')
    except core.ConstructError:
        return None
    data = st.getvalue()
    st2 = io.BytesIO(data)
    st2.seek(len(prefix))
    try:
        back = c.parse_stream(st2, **kw)
        R = I.to_val(back)     # forces lazies
    except core.ConstructError as e:
        return 'build(%r) emitted %r, which does not parse: %s (%s)' % (obj, data[len(prefix):], type(e).__name__, str(e).replace('\n', ' ')[:100])
    if st2.tell() != len(data):
        return 'parse consumed %d of the %d bytes that build emitted' % (st2.tell() - len(prefix), len(data) - len(prefix))
    m = contains(True, normalise(src, obj), back)
    if m:
        return 'build(%r) -> %r -> parse: %s' % (obj, data[len(prefix):], m)
    # members that build derives by itself are filled in: the parsed value equals what build returned
    m = contains(False, plainret(ret), back, 'returned')
    if m and 'Tell' not in src and 'RawCopy' not in src:
        return 'build returned %r, parse gives %r: %s' % (plainret(ret), back, m)
    return None


import impl as I


def plainret(r):
    if isinstance(r, dict):
        return {k: plainret(v) for k, v in dict.items(r) if not (isinstance(k, str) and k.startswith('_'))}
    if isinstance(r, list):
        return [plainret(x) for x in r]
    return r


def normalise(src, v):
    """domain conventions: flag dictionaries / label spellings are compared through what parse returns"""
    return v


TEMPLATES = [
    # context-dependent layouts in every composite class; None = derived by build
    ('Sequence("kind"/Default(Byte, 1), "body"/Switch(this.kind, {1: Int16ub, 2: Int8ub}, default=Int32ub))', [[None, 5], [2, 7], [9, 70000], [1, 513]]),
    ('Sequence("n"/Rebuild(Byte, 3), "d"/Bytes(this.n))', [[None, b'abc']]),
    ('Sequence("c"/Const(2, Byte), "a"/Array(this.c, Int16ul))', [[None, [1, 2]]]),
    ('Sequence("f"/Default(Flag, True), "v"/If(this.f, Int16ub), "w"/Byte)', [[None, 7, 1], [False, None, 2], [True, 9, 3]]),
    ('Struct("kind"/Default(Byte, 1), "body"/Switch(this.kind, {1: Int16ub, 2: Int8ub}, default=Int32ub))', [dict(body=5), dict(kind=2, body=7), dict(kind=None, body=6)]),
    ('Struct("n"/Rebuild(Byte, len_(this.d)), "d"/Bytes(this.n), "m"/Rebuild(VarInt, len_(this.e)), "e"/Array(this.m, Int16ub))', [dict(d=b'xyz', e=[1, 2, 3]), dict(d=b'', e=[])]),
    ('FocusedSeq("d", "n"/Rebuild(Byte, len_(this.d)), "d"/Bytes(this.n), Const(b"."))', [b'', b'hello']),
    ('Struct("n"/Byte, "s"/Struct("m"/Default(Byte, 2), "d"/Bytes(this._.n * this.m)))', [dict(n=2, s=dict(d=b'abcd')), dict(n=1, s=dict(m=3, d=b'abc'))]),
    ('Struct("a"/PrefixedArray(VarInt, Struct("k"/Enum(Byte, x=1, y=2), "v"/Switch(this.k, {"x": Int16ub, "y": CString("utf8")}))))', [dict(a=[dict(k='x', v=5), dict(k='y', v='hi'), dict(k='x', v=7)])]),
    ('Struct("t"/Const(b"T"), "l"/Rebuild(Int16ub, len_(this.p)), "p"/Bytes(this.l), Padding(2), "c"/Computed(this.l + 1), "z"/Default(Int8sb, -1))', [dict(p=b'abc'), dict(p=b'', z=5)]),
    ('Union(0, "a"/Int16ub, "b"/Bytes(2))', [dict(a=0x4142)]),
    ('Struct("x"/Aligned(4, Struct("n"/Byte, "d"/Bytes(this.n))), "y"/Byte)', [dict(x=dict(n=2, d=b'ab'), y=1), dict(x=dict(n=3, d=b'abc'), y=1)]),
    ('Struct("v"/BitStruct("a"/BitsInteger(3), "f"/Flag, "b"/BitsInteger(12, signed=True)), "w"/Bytes(this.v.a))', [dict(v=dict(a=3, f=True, b=-5), w=b'abc')]),
    ('Struct("k"/Bytes(1), "d"/ProcessXor(this.k, Prefixed(Byte, GreedyBytes)))', [dict(k=b'\x5a', d=b'secret')]),
    ('Struct("n"/Byte, "r"/ProcessRotateLeft(this.n, 2, Bytes(4)))', [dict(n=5, r=b'abcd'), dict(n=16, r=b'abcd')]),
    ('Struct("f"/FlagsEnum(Byte, r=1, w=2, rw=3, hi=0xf0), "g"/Byte)', [dict(f=dict(r=True, w=False, rw=False, hi=False), g=1), dict(f=dict(r=True, w=True, rw=True, hi=True), g=2)]),
    ('GreedyRange(Struct("n"/Byte, "d"/Bytes(this.n)))', [[dict(n=1, d=b'a'), dict(n=0, d=b'')]]),
    ('RepeatUntil(obj_.n == 0, Struct("n"/Byte, "d"/Bytes(this.n)))', [[dict(n=1, d=b'a'), dict(n=0, d=b'')]]),
    ('Struct("l"/Lazy(Struct("a"/Byte, "b"/Int16ub)), "t"/Byte)', [dict(l=dict(a=1, b=2), t=3)]),
    ('LazyStruct("a"/Byte, "b"/Prefixed(Byte, GreedyBytes), "c"/Int16ub)', [dict(a=1, b=b'xy', c=3)]),
    ('LazyArray(3, Prefixed(Byte, GreedyBytes))', [[b'a', b'', b'xyz']]),
    # tag-length-value: the payload is chosen by one earlier field and sized by another (DepRT.dfrag)
    ('Struct("t"/Byte, "n"/Byte, "v"/Switch(this.t, {1: Bytes(this.n), 2: Array(this.n, Int16ub)}, default=Pass), "f"/IfThenElse(this.t, VarInt, Pass))',
     [dict(t=1, n=3, v=b'abc', f=5), dict(t=2, n=2, v=[258, 3], f=300), dict(t=0, n=9, v=None, f=None), dict(t=7, n=0, v=None, f=0), dict(t=True, n=1, v=b'z', f=1)]),
    ('Array(2, Struct("k"/VarInt, "b"/Switch(this.k, {0: Struct("n"/Int16ul, "d"/Bytes(this.n)), 300: Padded(4, Byte)}, default=Int32sb)))',
     [[dict(k=0, b=dict(n=2, d=b'hi')), dict(k=300, b=7)], [dict(k=5, b=-9), dict(k=0, b=dict(n=0, d=b''))]]),
    # falsy values where a default or a rebuilt value could take their place
    ('Struct("a"/Default(Byte, 7), "b"/Default(Flag, True), "s"/Default(CString("utf8"), "x"), "z"/Default(Int16sb, -1), "e"/Default(Bytes(0), None))',
     [dict(a=0, b=False, s='', z=0, e=b''), dict(a=None, b=None, s=None, z=None, e=b''), dict(a=5, b=True, s='q', z=-1, e=b'')]),
    ('Sequence(Default(VarInt, 300), Default(PascalString(Byte, "ascii"), "dflt"), Default(GreedyRange(Byte), [1]))', [[0, '', []], [None, None, None]]),
    # alternatives that fail AFTER having written something, followed by something shorter than what they wrote
    ('Struct("hdr"/Optional(Struct("magic"/Const(b"MZ"), "ver"/Byte)), "rest"/GreedyBytes)', [dict(hdr=None, rest=b''), dict(hdr=None, rest=b'x'), dict(hdr=dict(ver=1), rest=b'ab')]),
    ('Struct("a"/Select(Sequence(Const(b"ABCD"), Int16ub), Byte), "t"/GreedyBytes)', [dict(a=7, t=b''), dict(a=[None, 5], t=b'z')]),
    ('Sequence(Select(Struct("k"/Const(b"long-magic"), "v"/Int32ub), Struct("v"/Byte)), GreedyBytes)', [[dict(v=300), b''], [dict(v=3), b'']]),
    ('Prefixed(Byte, Struct("o"/Optional(Sequence(Const(b"xyz"), Byte)), "g"/GreedyBytes))', [dict(o=None, g=b'')]),
    # padding inside bit regions whose size is not constant (the streamed path: no seeking)
    ('BitStruct("ext"/Flag, Padding(3), "kind"/Nibble, "extra"/If(this.ext, Octet))', [dict(ext=True, kind=5, extra=200), dict(ext=False, kind=1, extra=None)]),
    ('Bitwise(Struct("n"/Nibble, Padding(4), "v"/BitsInteger(this.n * 2), "p"/Padded(8, BitsInteger(3))))', [dict(n=4, v=200, p=5)]),
    ('BitsSwapped(Struct("n"/Byte, "p"/Padded(3, Byte), "d"/Bytes(this.n)))', [dict(n=2, p=9, d=b'ab')]),
    ('Bytewise(Bitwise(Struct("a"/Padded(16, BitsInteger(5)), "g"/GreedyRange(Bit))))', [dict(a=9, g=[1, 0, 1, 1, 0, 0, 0, 0])]),
    # read-to-end members behind fields that end off a byte boundary (the restreamed bit path keeps pending bits)
    ('BitStruct("tag"/Nibble, "rest"/GreedyBytes)', [dict(tag=5, rest=bytes([1, 0, 1, 1])), dict(tag=15, rest=bytes([1, 0, 1, 1] + [0, 1] * 4))]),
    ('Struct("h"/Byte, "b"/Bitwise(Struct("x"/BitsInteger(5), "y"/GreedyBytes)))', [dict(h=1, b=dict(x=17, y=bytes([1, 1, 0])))]),
    ('Bitwise(Sequence(BitsInteger(3), Flag, GreedyRange(BitsInteger(4))))', [[5, True, [1, 15, 0]], [0, False, []]]),
    ('Bitwise(Struct("a"/BitsInteger(6), "t"/Prefixed(BitsInteger(10), GreedyBytes)))', [dict(a=33, t=bytes([1, 0] * 4))]),
    # integers beyond the exactly representable doubles
    ('Struct("z"/ZigZag, "v"/VarInt, "a"/Array(2, ZigZag))', [dict(z=2 ** 63 - 1, v=2 ** 64 + 3, a=[-(2 ** 63), 10 ** 20 + 7]), dict(z=-(2 ** 53) - 1, v=2 ** 53 + 1, a=[2 ** 53 + 1, -(2 ** 62) - 5])]),
    ('Prefixed(VarInt, GreedyRange(ZigZag))', [[2 ** 53 + 1, -(2 ** 60) - 1, 0, -1]]),
]


def run(tier, seed):
    acc = C.Acc('C01', tier, seed)
    G.CANON_VALUES = True
    rng = C.rng_for(seed, 'C01')
    cases, checks = [], []
    n = 900 if tier == 'quick' else 15000
    for _ in range(n):
        node = G.g_node(rng, rng.choice([0, 1, 2, 2, 3, 3, 4]), True)
        for _ in range(3):
            try:
                v = node.val(rng)
            except Exception:
                continue
            cases.append(dict(src=node.src, op='build', obj=v))
            checks.append((node.src, v, {}))
            try:
                d = C.get(node.src).build(v)
                cases.append(dict(src=node.src, op='parse', data=d))
            except Exception:
                pass
    for src, vals in TEMPLATES:
        for v in vals:
            cases.append(dict(src=src, op='build', obj=v))
            checks.append((src, v, {}))
            try:
                cases.append(dict(src=src, op='parse', data=C.get(src).build(v)))
            except Exception:
                pass
    # two-feature interactions: every wrapper class over every kind of inner construct
    rt = set(src for src, _ in C.pairs(selfdelimiting=True) if C.constructible(src))
    for src, v in C.pairs():
        cases.append(dict(src=src, op='build', obj=v))
        if src in rt:
            checks.append((src, v, {}))
        try:
            cases.append(dict(src=src, op='parse', data=C.get(src).build(v)))
        except BaseException:
            pass
    for src, v, kw in [('Struct("d"/Bytes(this._params.n), "a"/Array(this._params.n, Byte))', dict(d=b'ab', a=[1, 2]), dict(n=2)),
                       ('Struct("x"/IfThenElse(this._params.big, Int32ub, Byte))', dict(x=200), dict(big=True)),
                       ('Struct("x"/IfThenElse(this._params.big, Int32ub, Byte))', dict(x=200), dict(big=False))]:
        cases.append(dict(src=src, op='build', obj=v, kw=kw))
        checks.append((src, v, kw))
    acc.corr(cases, 'roundtrip')
    for src, v, kw in checks:
        for prefix in (b'', b'\xee\xee\xee'):
            acc.check('roundtrip', src, obj=v, kw=kw, prefix=prefix)
    return acc.result(
        rule='generated constructs of the sequential grammar to depth 4 (integers of every public name and BytesInteger widths, floats, strings in 11 '
             'encodings, Enum/FlagsEnum(incl. multi-bit masks)/Mapping, Struct with dependent lengths, counts, If, Switch, Rebuild, Default, Const, '
             'Computed, Padding; Sequence, Array, Prefixed(+-includelength), PrefixedArray, GreedyRange, Padded, FixedSized, Aligned, ByteSwapped, '
             'BitsSwapped, ProcessXor, Hex, BitStruct, FocusedSeq, RawCopy) x 3 boundary-biased values of the domain x stream offsets 0 and 3, plus '
             'context-dependent templates in Sequence/FocusedSeq/Union/Lazy*/keyword contexts. Oracle: parse(build(v)) contains v and equals what '
             'build returned, and consumes exactly the emitted bytes. distinct = (shape, outcome)',
        fragment='roundtrip_fragment: every construct of the closed sequential fragment frag (any depth, any position); dep_roundtrip: the '
                 'dependent fragment dfrag (Struct members sized by earlier integer fields - Bytes/Array/Padded/FixedSized of this.n - or chosen '
                 'by them - Switch / IfThenElse on this.k), props/C01.v',
        partial=['outside frag / dfrag (strings, enums, adapters, bit-level, Rebuild/Default/Computed, lazies, greedy ranges, keyword contexts) the '
                 'round trip is decided by correspondence + oracle'])


def replay(payload):
    return C.generic_replay(payload)
