"""C04: a compiled construct behaves exactly like the construct it was compiled from."""
import io
from . import common as C
from . import c11 as E
import gen as G
import harness as H
import construct
from construct import core

_COMPILED = {}
import re
LOOKAHEAD = re.compile(r'Peek|Select|Optional|GreedyRange|Union|RepeatUntil')


def compiled(src):
    """-> (interpreted, compiled or None, reason)"""
    if src not in _COMPILED:
        c = C.get(src)
        try:
            cc = c.compile()
            why = None
        except Exception as e:
            cc, why = None, type(e).__name__
        if len(_COMPILED) > 5000:
            _COMPILED.clear()
        _COMPILED[src] = (c, cc, why)
    return _COMPILED[src]


@C.oracle('compiled_parse')
def o_cparse(src, data, kw):
    c, cc, why = compiled(src)
    if cc is None:
        return None                      # compile() does not accept it
    try:
        v = c.parse(data, **kw)
    except Exception:
        return None                      # nothing is claimed for inputs the original rejects
    try:
        w = cc.parse(data, **kw)
    except Exception as e:
        if LOOKAHEAD.search(src) and type(e).__name__ in ('error', 'StreamError', 'IndexError', 'ValueError', 'KeyError', 'TypeError', 'UnicodeDecodeError'):
            raise C.R.Unsupported('look-ahead over truncated data')        # excluded by the compiler's documentation
        return 'compiled parse raises %s: %s where the original returns %r' % (type(e).__name__, str(e)[:80], v)
    if not C.veq(w, v):
        return 'compiled parse returns %r, the original %r' % (w, v)
    return None


@C.oracle('compiled_build')
def o_cbuild(src, obj, kw):
    c, cc, why = compiled(src)
    if cc is None:
        return None
    try:
        b = c.build(obj, **kw)
    except Exception:
        return None
    try:
        d = cc.build(obj, **kw)
    except Exception as e:
        return 'compiled build raises %s: %s where the original emits %r' % (type(e).__name__, str(e)[:80], b)
    if d != b:
        return 'compiled build emits %r, the original %r' % (d, b)
    return None


@C.oracle('compiled_sizeof')
def o_csizeof(src, kw):
    c, cc, why = compiled(src)
    if cc is None:
        return None
    def go(x):
        try:
            return ('ok', x.sizeof(**kw))
        except core.SizeofError:
            return ('SizeofError',)
        except Exception as e:
            return ('exc', type(e).__name__)
    a, b = go(c), go(cc)
    if a != b:
        return 'compiled sizeof gives %r, the original %r' % (b, a)
    return None


# ---- constructs whose parameters are context expressions ----

INT_BIN = ['+', '-', '*', '//', '%', '&', '|', '^', '<<', '>>', '**']
CMP = ['<', '<=', '>', '>=', '==', '!=']
INT_LEAVES = ['this.a', 'this.b', 'this["a"]', 'this.l[0]', 'this.l[-1]', 'this.s.x', 'this._.k', 'this._params.k', 'this._root.k', 'len_(this.l)', 'sum_(this.l)',
              'max_(this.l)', 'min_(this.l)', 'len_(this.d)']
INT_CONSTS = ['0', '1', '2', '3', '7', '(-1)', '(-3)', '255', '256', 'True', 'False']


def int_tree(rng, d):
    r = rng.random()
    if d == 0 or r < 0.2:
        return rng.choice(INT_LEAVES) if rng.random() < 0.7 else rng.choice(INT_CONSTS)
    if r < 0.75:
        op = rng.choice(INT_BIN)
        a, b = int_tree(rng, d - 1), int_tree(rng, d - 1)
        if op in ('<<', '**'):
            b = '(%s %% 4)' % b
        if not any(x in a + b for x in ('this', 'len_', 'sum_', 'max_', 'min_')):
            a = rng.choice(INT_LEAVES)
        return '(%s %s %s)' % (a, op, b)
    if r < 0.9:
        t = int_tree(rng, d - 1)
        if 'this' not in t and '_(' not in t:
            t = rng.choice(INT_LEAVES)
        return '(%s%s)' % (rng.choice(['-', '+']), t)
    t = int_tree(rng, d - 1)
    if 'this' not in t and '_(' not in t:
        t = rng.choice(INT_LEAVES)
    return 'abs_(%s)' % t


def bool_tree(rng, d):
    r = rng.random()
    if r < 0.55 or d == 0:
        return '(%s %s %s)' % (int_tree(rng, max(d - 1, 0)), rng.choice(CMP), int_tree(rng, max(d - 1, 0)))
    if r < 0.7:
        return '(~%s)' % bool_tree(rng, d - 1)
    if r < 0.85:
        return '(%s %s %s)' % (bool_tree(rng, d - 1), rng.choice(['&', '|']), bool_tree(rng, d - 1))
    if r < 0.93:
        return '(this.t == %s)' % rng.choice(['"ab"', '"a\'b"', 'b"ab"', '""', 'b"\\x00"', 'u"\\xe9"'])
    return rng.choice(['this.f', '(this.t != "")', 'this._parsing', 'this._building', '(this.d == b"ab")'])


# the host: fields the expressions refer to, then the construct under test, then a probe that depends on what generated code stored, then a tail
HOST = ('Struct("a"/Byte, "b"/Byte, "l"/Array(3, Byte), "s"/Struct("x"/Byte, "y"/Computed(this.x + 1)), "f"/Flag, "t"/CString("utf8"), '
        '"d"/Prefixed(Byte, GreedyBytes), "m"/%s, "p"/Bytes(len_(this.l) + (this.s.y - this.s.x)), "z"/Int16ub)')


def host_value(rng, m):
    d = dict(a=rng.choice([0, 1, 2, 3, 5, 255]), b=rng.choice([0, 1, 2, 4, 200]), l=[rng.randrange(6) for _ in range(3)],
             s=dict(x=rng.choice([0, 1, 3, 254])), f=rng.random() < 0.5, t=rng.choice(['', 'ab', "a'b", '\xe9']), d=rng.choice([b'', b'ab', b'\x00', b'abc']),
             m=m, p=G.rand_bytes(rng, 4), z=rng.randrange(65536))
    return d


def templates(rng):
    """(source of the member under test, value generator given the host fields) for every construct that takes an expression"""
    I = lambda d=2: int_tree(rng, d)
    B = lambda d=2: bool_tree(rng, d)
    return [
        ('Bytes(%s %% 5)' % I(), 'bytes'), ('Array(%s %% 4, Byte)' % I(), 'list'), ('Array(%s %% 3, Struct("q"/Byte, "r"/Bytes(this.q %% 3)))' % I(), 'liststruct'),
        ('IfThenElse(%s, Byte, Int16ub)' % B(), 'int'), ('If(%s, Int16ub)' % B(), 'intnone'), ('Switch(%s %% 4, {0: Byte, 1: Int16ub, 2: Bytes(2)}, default=Pass)' % I(), 'switch'),
        ('Switch(this.t, {"ab": Byte, "": Int16ub}, default=Bytes(1))', 'switch'), ('Computed(%s)' % I(3), 'none'), ('Computed(%s)' % B(3), 'none'),
        ('Check(%s)' % B(), 'none'), ('Rebuild(Byte, %s %% 256)' % I(), 'none'), ('Default(Byte, 7)', 'intnone'), ('Padded(%s %% 4 + 1, Byte)' % I(), 'int'),
        ('Aligned(%s %% 4 + 2, Byte)' % I(), 'int'), ('FixedSized(%s %% 4 + 1, GreedyBytes)' % I(), 'shortbytes'), ('Pointer(%s %% 3, Byte)' % I(), 'int'),
        ('RepeatUntil(obj_ == %s %% 3, Byte)' % I(1), 'until'), ('RepeatUntil(len_(list_) == %s %% 3 + 1, Byte)' % I(1), 'until2'),
        ('StopIf(%s)' % B(), 'none'), ('Struct("q"/Byte, "r"/Bytes(this.q %% 3 + this._.a %% 2), "w"/Computed(this._.b + this.q))', 'inner'),
        ('Sequence(Byte, Bytes(this._.a %% 3), Computed(this._.l[1]))', 'seq'), ('FocusedSeq("v", "n"/Byte, "v"/Bytes(this.n %% 4 + %s %% 2))' % I(1), 'focus'),
        ('Prefixed(Byte, Struct("q"/Byte, "r"/Bytes(this._.a %% 3), "g"/GreedyBytes))', 'prefixed'), ('PrefixedArray(Byte, Int16ub)', 'list16'),
        ('Const(b"MZ")', 'none'), ('Const(513, Int16ul)', 'none'), ('Enum(Byte, one=1, two=2)', 'enum'), ('Mapping(Byte, {"x": 1, "y": 2})', 'mapping'),
        ('FlagsEnum(Byte, a=1, b=2, c=128)', 'flags'), ('Union(0, "i"/Int16ub, "j"/Bytes(2))', 'union'), ('Select(Const(b"\\x01\\x02"), Int16ub)', 'int16'),
        ('Peek(Byte)', 'none'), ('Seek(%s %% 2, 1)' % I(1), 'none'), ('Tell', 'none'), ('Pass', 'none'), ('Terminated', 'skip'),
        ('BytesInteger(%s %% 3 + 1)' % I(1), 'int'), ('BitStruct("u"/Nibble, "v"/BitsInteger(4))', 'bits'), ('ByteSwapped(Int16ub)', 'int16'),
        ('Hex(Int16ub)', 'int16'), ('NullTerminated(GreedyBytes)', 'nozero'), ('CString("utf8")', 'str'), ('VarInt', 'varint'), ('Bytes(2)', 'int2bytes'),
        ('Padding(%s %% 3)' % I(1), 'none'), ('Flag', 'flag'),
        # a delimited region away from offset 0 whose field observes the stream position
        ('FixedSized(4, Struct("t"/Tell, "b"/Byte))', 'reg1'), ('FixedSized(%s %% 3 + 2, Sequence(Byte, Tell))' % I(1), 'reg2'),
        ('Prefixed(Byte, Struct("t"/Tell, "r"/GreedyBytes))', 'reg3'), ('Struct("g"/FixedSized(3, Struct("t"/Tell, "x"/Byte)), "h"/Bytes(this.g.t %% 4))', 'reg4'),
        ('FixedSized(3, Pointer(1, Byte))', 'reg5'), ('Prefixed(Byte, Sequence(Tell, Pointer(0, Byte), GreedyBytes))', 'reg6'),
        # a later member depends on the value an earlier member BUILT (Rebuild / Default / Const fill-ins), in every composite
        ('Sequence("n"/Rebuild(Byte, 2), Array(this.n, Byte))', 'dep_seq'), ('Sequence("n"/Default(Byte, 2), "q"/Padding(this.n), Byte)', 'dep_seq2'),
        ('Sequence("n"/Const(2, Byte), If(this.n == 2, Byte))', 'dep_seq3'), ('Struct("n"/Rebuild(Byte, len_(this.v)), "v"/Array(this.n, Byte))', 'dep_struct'),
        ('Struct("n"/Default(Byte, 1), "q"/Padding(this.n), "v"/Switch(this.n, {1: Byte}, default=Int16ub))', 'dep_struct2'),
        ('FocusedSeq("v", "n"/Rebuild(Byte, len_(this.v)), "v"/Array(this.n, Byte))', 'dep_focus'),
        ('Struct("n"/Rebuild(Byte, this._.a %% 3), "v"/Array(this.n, Byte), "w"/Bytes(this.n))', 'dep_struct3'), ('Optional(Const(b"Q"))', 'none'), ('GreedyRange(Const(b"\\x05"))', 'none'),
    ]


def member_value(rng, kind, h):
    r = rng
    if kind == 'bytes':
        return G.rand_bytes(r, r.randint(0, 4))
    if kind == 'list':
        return [r.randrange(256) for _ in range(r.randint(0, 3))]
    if kind == 'liststruct':
        return [(lambda q: dict(q=q, r=G.rand_bytes(r, q % 3)))(r.randrange(256)) for _ in range(r.randint(0, 2))]
    if kind == 'int':
        return r.choice([0, 1, 255, 256, 65535, r.randrange(65536)])
    if kind == 'intnone':
        return r.choice([None, 0, 5, 65535])
    if kind == 'switch':
        return r.choice([0, 255, 300, b'ab', b'x', None])
    if kind == 'shortbytes':
        return G.rand_bytes(r, r.randint(0, 2))
    if kind == 'until':
        return [r.randrange(3, 256) for _ in range(r.randint(0, 2))] + [r.randrange(3)]
    if kind == 'until2':
        return [r.randrange(256) for _ in range(r.randint(1, 3))]
    if kind == 'inner':
        q = r.randrange(256)
        return dict(q=q, r=G.rand_bytes(r, q % 3 + h['a'] % 2))
    if kind == 'seq':
        return [r.randrange(256), G.rand_bytes(r, h['a'] % 3), None]
    if kind == 'focus':
        return G.rand_bytes(r, r.randint(0, 4))
    if kind == 'prefixed':
        return dict(q=r.randrange(256), r=G.rand_bytes(r, h['a'] % 3), g=G.rand_bytes(r, r.randint(0, 3)))
    if kind == 'list16':
        return [r.randrange(65536) for _ in range(r.randint(0, 3))]
    if kind == 'enum':
        return r.choice(['one', 'two', 1, 9, 0])
    if kind == 'mapping':
        return r.choice(['x', 'y'])
    if kind == 'flags':
        return r.choice([dict(a=True, b=False, c=True), dict(a=False), dict(), 3, 'a|b', 'c'])
    if kind == 'union':
        return r.choice([dict(i=r.randrange(65536)), dict(j=b'xy')])
    if kind == 'int16':
        return r.choice([0, 258, 65535, r.randrange(65536)])
    if kind == 'bits':
        return dict(u=r.randrange(16), v=r.randrange(16))
    if kind == 'nozero':
        return bytes(r.randrange(1, 256) for _ in range(r.randint(0, 3)))
    if kind == 'str':
        return r.choice(['', 'ab', '\xe9x'])
    if kind == 'varint':
        return r.choice([0, 127, 128, 300, 2 ** 21])
    if kind == 'int2bytes':
        return r.choice([b'ab', 1, 258, bytearray(b'xy')])
    if kind == 'flag':
        return r.choice([True, False, 0, 1, 2, '', 'x'])
    if kind == 'reg1':
        return dict(b=r.randrange(256))
    if kind == 'reg2':
        return [r.randrange(256), None]
    if kind == 'reg3':
        return dict(r=G.rand_bytes(r, r.randint(0, 3)))
    if kind == 'reg4':
        return dict(g=dict(x=r.randrange(256)), h=G.rand_bytes(r, 4))
    if kind == 'reg5':
        return r.randrange(256)
    if kind == 'reg6':
        return [None, r.randrange(256), G.rand_bytes(r, r.randint(1, 3))]
    if kind == 'dep_seq':
        return [r.choice([None, 2, 1]), [r.randrange(256), r.randrange(256)]]
    if kind == 'dep_seq2':
        return [r.choice([None, 2, 0]), None, r.randrange(256)]
    if kind == 'dep_seq3':
        return [r.choice([None, 2]), r.randrange(256)]
    if kind == 'dep_struct':
        v = [r.randrange(256) for _ in range(r.randint(0, 3))]
        return r.choice([dict(v=v), dict(n=0, v=v), dict(n=len(v), v=v)])
    if kind == 'dep_struct2':
        return r.choice([dict(v=5), dict(n=None, v=5), dict(n=1, v=5), dict(n=2, v=300)])
    if kind == 'dep_focus':
        return [r.randrange(256) for _ in range(r.randint(0, 3))]
    if kind == 'dep_struct3':
        k = h['a'] % 3
        return r.choice([dict(v=[1] * k, w=b'x' * k), dict(n=9, v=[1] * k, w=b'x' * k)])
    return None


CORPUS = [
 # Union selected by NAME with anonymous members around the selected one: the position afterwards is that member's end
 ('Struct("u"/Union("body", Const(b"M"), "tag"/Byte, "body"/Int32ub, "half"/Int16ub), "after"/Tell)', dict(u=dict(body=1297436739)), {}),
 ('Struct("u"/Union("half", "tag"/Byte, Padding(3), Const(b"M"), "half"/Int16ub, "body"/Int32ub), "t"/Byte)', dict(u=dict(half=19789), t=5), {}),
 ('Sequence(Union("b", Const(b"A"), Const(b"A"), "a"/Int16ub, "b"/Byte), GreedyBytes)', [dict(b=65), b'xy'], {}),
 ('Struct("u"/Union(2, Const(b"M"), "tag"/Byte, "body"/Int32ub, "half"/Int16ub), "after"/Tell)', dict(u=dict(body=1297436739)), {}),
('Const(b"ab", ByteSwapped(Bytes(2)))', None, {}),
 ('Struct("a"/Byte, "d"/Default(Byte, this.a + 1))', dict(a=3), {}),
 ('Struct("a"/Byte, "d"/Default(Byte, this.a + 1))', dict(a=3, d=None), {}),
 ('Struct("a"/Byte, StopIf(this.a == 1), "b"/Byte)', dict(a=1), {}),
 ('Struct("a"/Byte, StopIf(this.a == 1), "b"/Byte)', dict(a=2, b=5), {}),
 ('Struct("a"/Byte, "s"/Switch(this.a, {1: Struct(StopIf(True), "q"/Byte)}, default=Byte), "z"/Byte)', dict(a=1, s=dict(), z=3), {}),
 ('Padded(4, Byte, pattern=b"\\xaa")', 7, {}),
 ('Union("b", "a"/Int16ub, "b"/Byte)', dict(a=513), {}),
 ('Union(None, "a"/Int16ub, "b"/Byte)', dict(b=5), {}),
 ('Struct("u"/Union(0, "a"/Int16ub, "b"/Byte), "t"/Byte)', dict(u=dict(a=513), t=7), {}),
 ('FocusedSeq("b", "a"/Const(b"x"), "b"/Byte, "c"/Rebuild(Byte, this.b + 1))', 4, {}),
 ('Struct("off"/Byte, "p"/Pointer(this.off - 3, Byte), "q"/Byte)', dict(off=1, p=9, q=8), {}),
 ('Struct("n"/Byte, "r"/RepeatUntil(lambda x,lst,ctx: x == 0, Byte))', dict(n=1, r=[1,2,0]), {}),
 ('RepeatUntil(obj_ == 0, Byte, discard=True)', [1,2,0], {}),
 ('Prefixed(Byte, GreedyBytes, includelength=True)', b'abc', {}),
 ('Struct("x"/Struct("y"/Struct("z"/Computed(this._root.k + this._._.k + this._params.k))))', dict(x=dict(y=dict())), dict(k=4)),
 ('Struct("a"/Byte, "s"/Seek(this.a, 1), "b"/Byte)', dict(a=0, b=5), {}),
 ('Struct("e"/Enum(Byte, a=1), "f"/If(this.e == "a", Byte))', dict(e='a', f=9), {}),
 ('Struct("e"/Enum(Byte, a=1), "f"/If(this.e == 1, Byte))', dict(e=1, f=9), {}),
 ('Struct("f"/FlagsEnum(Byte, a=1, b=2), "g"/If(this.f.a, Byte))', dict(f=dict(a=True), g=3), {}),
 ('Struct("m"/Mapping(Byte, {"x": 1}), "g"/If(this.m == "x", Byte))', dict(m='x', g=3), {}),
 ('Array(3, Byte)', [1,2,3], {}),
 ('Array(3, Byte)', (1,2,3), {}),
 ('Sequence(Byte, "n"/Byte, Bytes(this.n))', [1,2,b'ab'], {}),
 ('Sequence("n"/Rebuild(Byte, 2), Bytes(this.n))', [None, b'ab'], {}),
 ('Struct("n"/Rebuild(Byte, len_(this.d)), "d"/Bytes(this.n))', dict(d=b'abc'), {}),
 ('Struct("c"/Const(b"ab"), "d"/Const(7, Byte), "e"/Computed(this.c))', dict(), {}),
 ('Struct("t"/Tell, "f"/FixedSized(4, Struct("u"/Tell, "v"/Byte)), "w"/Tell)', dict(f=dict(v=1)), {}),
 ('Aligned(4, Struct("a"/Byte, "b"/Byte))', dict(a=1,b=2), {}),
 ('Struct("a"/Byte, "b"/Padded(this.a, Byte))', dict(a=3, b=1), {}),
 ('Struct("p"/Peek(Int16ub), "q"/Byte)', dict(q=1), {}),
 ('BitStruct("a"/Flag, "b"/BitsInteger(7))', dict(a=True, b=5), {}),
 ('Struct("n"/VarInt, "d"/Bytes(this.n))', dict(n=300, d=b'x'*300), {}),
 ('Struct("k"/Computed(this._params.k * 2), "d"/Bytes(this.k))', dict(d=b'abcd'), dict(k=2)),
 ('Check(this._params.k == 2)', None, dict(k=2)),
 ('Struct("a"/Byte, "x"/IfThenElse(this.a > 1, Struct("q"/Computed(this._.a)), Pass))', dict(a=2, x=dict()), {}),
 ('Struct("l"/PrefixedArray(Byte, Byte), "s"/Computed(sum_(this.l) + max_(this.l) - min_(this.l)))', dict(l=[1,2,3]), {}),
 ('Struct("s"/PascalString(Byte, "utf8"), "c"/If(this.s == u"\\xe9\\"q\'", Byte))', dict(s='\xe9"q\'', c=1), {}),
 ('Struct("b"/Bytes(2), "c"/If(this.b == b"\\x00\'", Byte))', dict(b=b"\x00'", c=1), {}),
 ('Struct("a"/Int8sb, "b"/Computed((-this.a) ** 2), "c"/Computed(-this.a ** 2), "d"/Computed(~(this.a == 1) | (this.a == 1)), "e"/Computed((-3) ** this.a))', dict(a=3), {}),
 ('Struct("a"/Byte, "f"/Computed(this.a / 2), "g"/Computed(2.5 * this.a))', dict(a=3), {}),
('Struct("n"/Byte, "a"/PrefixedArray(Byte, Struct("d"/Bytes(this._._.n))))', dict(n=2, a=[dict(d=b'ab')]), {}),
 ('Struct("n"/Byte, "a"/PrefixedArray(Byte, Bytes(this._.n)))', dict(n=2, a=[b'ab']), {}),
 ('Struct("n"/Byte, "a"/PrefixedArray(Byte, Bytes(this.count)))', dict(n=2, a=[b'a']), {}),
 ('Struct("n"/Byte, "s"/PascalString(Byte, "utf16"))', dict(n=2, s='ab'), {}),
 ('Struct("n"/Byte, "a"/Array(2, Struct("d"/Bytes(this._.n))))', dict(n=2, a=[dict(d=b'ab'), dict(d=b'cd')]), {}),
 ('Struct("f"/FlagsEnum(Byte, a=1, b=2), "g"/Computed(this.f._flagsenum))', dict(f=dict(a=True)), {}),
 ('Struct("h"/Hex(Byte), "g"/Computed(this.h + 1))', dict(h=3), {}),
 ('Struct("t"/NamedTuple("T", "a b", Sequence(Byte, Byte)))', dict(t=[1,2]), {}),
 ('Struct("n"/Byte, "u"/Union(0, "a"/Bytes(this._.n), "b"/Byte))', dict(n=2, u=dict(a=b'ab')), {}),
 ('Struct("n"/Byte, "q"/Sequence(Bytes(this._.n), Computed(this._.n)))', dict(n=2, q=[b'ab', None]), {}),
 ('Struct("n"/Byte, "q"/FocusedSeq("x", "x"/Bytes(this._.n)))', dict(n=2, q=b'ab'), {}),
 ('Struct("n"/Byte, "q"/Prefixed(Byte, Struct("x"/Bytes(this._.n))))', dict(n=2, q=dict(x=b'ab')), {}),
 ('Struct("n"/Byte, "q"/FixedSized(4, Struct("x"/Bytes(this._.n))))', dict(n=2, q=dict(x=b'ab')), {}),
 ('Struct("n"/Byte, "q"/Padded(4, Struct("x"/Bytes(2), "y"/Computed(this._.n))))', dict(n=2, q=dict(x=b'ab')), {}),
 ('Struct("n"/Byte, "q"/Pointer(0, Struct("x"/Bytes(this._.n))))', dict(n=1, q=dict(x=b'\x01')), {}),
 ('Struct("n"/Byte, "q"/IfThenElse(this.n == 2, Struct("x"/Bytes(this._.n)), Byte))', dict(n=2, q=dict(x=b'ab')), {}),
 ('Struct("n"/Byte, "q"/Switch(this.n, {2: Struct("x"/Bytes(this._.n))}))', dict(n=2, q=dict(x=b'ab')), {}),
 ('Struct("n"/Byte, "q"/RepeatUntil(len_(list_) == this.n, Struct("x"/Bytes(this._.n))))', dict(n=2, q=[dict(x=b'ab'), dict(x=b'cd')]), {}),
 ('Struct("n"/Byte, "q"/Rebuild(Struct("x"/Bytes(this._.n)), lambda ctx: dict(x=b"zz")))', dict(n=2), {}),
 ('Struct("n"/Byte, "q"/Default(Struct("x"/Bytes(this._.n)), dict(x=b"zz")))', dict(n=2), {}),
 ('Struct("n"/Byte, "q"/Const(dict(x=b"zz"), Struct("x"/Bytes(this._.n))))', dict(n=2), {}),
 ('Struct("n"/Byte, "q"/Enum(Byte, a=1), "r"/Computed(this.q))', dict(n=2, q='a'), {}),
 ('Struct("n"/Byte, "q"/Enum(Byte, a=1), "r"/Computed(this.q))', dict(n=2, q=9), {}),
 ('Struct("n"/Byte, "q"/Aligned(4, Struct("x"/Bytes(2), "y"/Computed(this._.n))))', dict(n=2, q=dict(x=b'ab')), {}),
 ('Struct("q"/Peek(Struct("x"/Byte)), "n"/Byte)', dict(n=2), {}),
 ('Struct("n"/Byte, "q"/LazyBound(lambda: Byte))', dict(n=2, q=1), {}),
 ('Struct("n"/Byte, "q"/BitStruct("a"/BitsInteger(this._.n), "b"/BitsInteger(8 - this._.n)))', dict(n=3, q=dict(a=1, b=2)), {}),
 ('Struct("n"/Byte, "q"/BytesInteger(this.n, signed=True, swapped=this.n == 2))', dict(n=2, q=-2), {}),
 ('Struct("n"/Byte, "q"/Bitwise(BitsInteger(8, swapped=False)))', dict(n=2, q=5), {}),
 ('Struct("n"/Byte, "q"/RawCopy(Bytes(this.n)), "r"/Bytes(this.q.length))', dict(n=2, q=dict(value=b'ab'), r=b'cd'), {}),
 ('Struct("n"/Byte, "q"/Checksum(Byte, lambda d: sum(d) & 255, this.n.to_bytes(1, "big")))', dict(n=2), {}),
 ('GreedyRange(Struct("x"/Byte, "y"/Bytes(this.x)))', [dict(x=1, y=b'a'), dict(x=0, y=b'')], {}),
 ('Struct("n"/Byte, "q"/Optional(Struct("x"/Const(b"Q"))))', dict(n=2, q=dict()), {}),
 ('Struct("n"/Byte, "q"/NullTerminated(Struct("x"/Bytes(this._.n))))', dict(n=2, q=dict(x=b'ab')), {}),
 ('Struct("n"/Byte, "q"/NullStripped(GreedyBytes))', dict(n=2, q=b'ab'), {}),
 ('Struct("n"/Byte, "q"/Compressed(GreedyBytes, "zlib"))', dict(n=2, q=b'ab'), {}),
 ('Struct("n"/Byte, "t"/Terminated)', dict(n=2), {}),
 ('Struct("n"/Byte, "i"/Index)', dict(n=2), {}),
 ('Struct("n"/Byte, "e"/If(this.n > 9, Error))', dict(n=2), {}),
 ('Struct("n"/Int32ul, "m"/Int64sb, "f"/Float32b, "h"/Float16l, "v"/Int24ub)', dict(n=2, m=-5, f=1.5, h=0.5, v=77), {}),
('Struct("c"/Const(b"ab"))', None, {}),
 ('Struct("s"/Struct("c"/Const(b"ab")), "t"/Byte)', dict(t=1), {}),
 ('Sequence(Const(b"ab"), Computed(1))', None, {}),
 ('Struct("s"/Sequence(Const(b"ab")), "t"/Byte)', dict(t=1), {}),
 ('Struct("s"/FocusedSeq("x", "x"/Const(b"ab")), "t"/Byte)', dict(t=1,s=None), {}),
 ('Struct("a"/Array(0, Byte), "t"/Byte)', dict(t=1, a=[]), {}),
 ('Struct("s"/Struct("c"/Default(Byte, 3)), "t"/Byte)', dict(t=1), {}),
 ('Bytes(4)', b'ab', {}),
 ('Struct("e"/Enum(Byte, a=1))', dict(e='zz'), {}),
 ('BytesInteger(2)', -1, {}),
 ('Array(2, Byte)', [1,2,3], {}),
 ('Struct("a"/Byte)', dict(a=1, b=2), {}),
 ('Struct("a"/Byte, "b"/Computed(this.zz))', dict(a=1), {}),
 ('Union(0, "a"/Byte, "b"/Int16ub)', dict(b=513), {}),
 ('Union(0, "a"/Byte, "b"/Int16ub)', dict(), {}),
 ('Union(0, "a"/Const(b"x"), "b"/Int16ub)', dict(), {}),
 ('Struct("n"/Rebuild(Byte, len_(this.a)), "a"/Array(this.n, Byte))', dict(a=[1,2]), {}),
 ('Struct("x"/IfThenElse(this._building, Byte, Int16ub))', dict(x=1), {}),
 ('Struct("x"/If(this._parsing, Byte), "y"/If(this._building, Byte), "z"/If(this._sizing, Byte))', dict(x=1, y=2, z=3), {}),
 ('Pointer(2, Byte)', 7, {}),
 ('RepeatUntil(obj_.twice == 0, Struct("n"/Byte, "twice"/Rebuild(Byte, this.n * 2)))', [dict(n=1, twice=0), dict(n=0, twice=0)], {}),
 ('RepeatUntil(obj_.d == 7, Struct("n"/Byte, "d"/Default(Byte, 7)))', [dict(n=1, d=None), dict(n=2, d=7)], {}),
 ('RepeatUntil(obj_ == 0, Rebuild(Byte, 5))', [0], {}),
 ('Struct("a"/Byte, "last"/Pointer(-1, Byte), "b"/Byte, "probe"/Bytes(this.last))', dict(a=16, last=2, b=32, probe=b'AB'), {}),
 ('Struct("off"/Int8sb, "p"/Pointer(this.off, Byte), "t"/Tell, "r"/Bytes(3))', dict(off=-2, p=9, r=b'xyz'), {}),
 ('Struct("off"/Int8sb, "p"/Pointer(this.off, Byte), "t"/Tell, "r"/Bytes(3))', dict(off=2, p=9, r=b'xyz'), {}),
 ('Sequence(Pointer(-2, Int16ub), Byte, Tell, Bytes(2))', [513, 7, None, b'\x02\x01'], {}),
 # the direction flags, read at the level of every composite that makes its own scope and through the wrappers around it
 ('FocusedSeq("c", "n"/Const(b"\\x01"), "c"/Computed(this._parsing))', None, {}),
 ('FocusedSeq("c", "n"/Const(b"\\x01"), "c"/Computed(this._building))', None, {}),
 ('FocusedSeq("c", "n"/Const(b"\\x01"), "c"/Computed(this._sizing))', None, {}),
 ('FocusedSeq("v", "v"/Bytes(1 + 2 * this._parsing + this._building))', b'ab', {}),
 ('FocusedSeq("v", "v"/IfThenElse(this._parsing, Int16ub, Int8ub))', 5, {}),
 ('Sequence(Computed(this._parsing), Computed(this._building), Computed(this._sizing))', [None, None, None], {}),
 ('Sequence(Byte, Bytes(1 + this._parsing))', [1, b'a'], {}),
 ('Union(0, "a"/Byte, "p"/Computed(this._parsing), "q"/Computed(this._building))', dict(a=1), {}),
 ('Struct("s"/FocusedSeq("c", Const(b"x"), "c"/Computed(this._._parsing)), "t"/FocusedSeq("c", Const(b"y"), "c"/Computed(this._building)))', dict(s=None, t=None), {}),
 ('Struct("i"/Struct("p"/Computed(this._parsing), "q"/Computed(this._._building), "r"/Bytes(1 + this._parsing)))', dict(i=dict(r=b'a')), {}),
 ('Array(2, Computed(this._building))', [None, None], {}),
 ('Array(2, FocusedSeq("c", Byte, "c"/Computed(this._parsing)))', [None, None], {}),
 ('Prefixed(Byte, FocusedSeq("c", "c"/Computed(this._parsing)))', None, {}),
 ('Prefixed(Byte, Sequence(Computed(this._parsing), GreedyBytes))', [None, b'xy'], {}),
 ('FixedSized(3, FocusedSeq("v", "v"/Bytes(1 + this._parsing)))', b'a', {}),
 ('Bitwise(FocusedSeq("c", Padding(8), "c"/Computed(this._parsing)))', None, {}),
 ('Switch(this._parsing, {True: Byte, False: Int16ub})', 5, {}),
 ('Struct("k"/Byte, "v"/Switch(this._building, {True: Byte, False: Int16ub}))', dict(k=1, v=5), {}),
 ('GreedyRange(FocusedSeq("x", "x"/Byte, Check(this._parsing)))', [1, 2], {}),
 ('FocusedSeq("x", "x"/Byte, Check(this._building))', 1, {}),
 ('Sequence(Byte, Check(this._building))', [1, None], {}),
 ('Struct("a"/Padded(3, Byte), "b"/Aligned(4, Int16ub, pattern=b"\\xff"))', dict(a=1, b=2), {}),
 ('Struct("a"/Aligned(4, Byte, pattern=b"\\xff"), "b"/Aligned(2, Bytes(3), pattern=b"Q"), "c"/Padded(3, Byte, pattern=b"\\x01"))', dict(a=1, b=b'xyz', c=2), {}),
 ('Aligned(4, Byte, pattern=b"\\xfe")', 1, {}),
 ('Switch(this._params.k, {1: Byte}, default=Int16ub)', 5, dict(k=1)),
 ('Switch(this._params.k, {1: Byte}, default=Int16ub)', 5, dict(k=2)),
 ('Struct("v"/Default(Byte, 0), "w"/Default(Bytes(1), b"\\x00"))', dict(v=0, w=b''), {}),
 ('Struct("f"/Flag, "g"/Flag)', dict(f=0, g=''), {}),
 ('Struct("l"/Bytes(300))', dict(l=b'x'*300), {}),
 ('Struct("n"/Int16ub, "l"/Bytes(this.n))', dict(n=300, l=b'x'*300), {})
]


def run(tier, seed):
    acc = C.Acc('C04', tier, seed)
    rng = C.rng_for(seed, 'C04')
    quick = tier == 'quick'
    ncomp = nrej = nparse_ok = nbuild_ok = 0
    cases = []
    # ---- corpus: every divergence found so far (repaired in /repo) and the constructs around them ----
    for src, obj, kw in CORPUS:
        if 'lambda' in src:
            continue                     # lambdas are not part of the compiler's feature set
        c, cc, why = compiled(src)
        if cc is None:
            continue
        acc.check('compiled_build', src, obj=obj, kw=kw)
        acc.check('compiled_sizeof', src, kw=kw)
        cases.append(dict(src=src, op='cbuild', obj=obj, kw=kw))
        try:
            data = c.build(obj, **kw)
        except Exception:
            continue
        acc.check('compiled_parse', src, data=data, kw=kw)
        acc.check('compiled_parse', src, data=data + b'\x00', kw=kw)
        cases.append(dict(src=src, op='cparse', data=data, kw=kw))
        cases.append(dict(src=src, op='cparse', data=data[:-1], kw=kw))
    # ---- inputs given as bytes (what build emits for these does not reach the interesting member) ----
    for src, data in [('Struct("u"/Union("body", Const(b"M"), "tag"/Byte, "body"/Int32ub, "half"/Int16ub), "after"/Tell, "r"/GreedyBytes)', b'MUVWxyz'),
                      ('Struct("u"/Union("half", "tag"/Byte, Padding(3), Const(b"M"), "half"/Int16ub, "body"/Int32ub), "t"/Byte)', b'MUVWxyz'),
                      ('Sequence(Union("b", Const(b"A"), Const(b"A"), "a"/Int16ub, "b"/Byte), GreedyBytes)', b'ABCD'),
                      ('Struct("u"/Union(2, Const(b"M"), "tag"/Byte, "body"/Int32ub, "half"/Int16ub), "after"/Tell)', b'MUVWxyz'),
                      ('Struct("u"/Union("tag", Const(b"M"), "tag"/Byte, "body"/Int32ub), "after"/Tell)', b'MUVWxyz'),
                      ('Struct("u"/Union(None, Const(b"M"), "tag"/Byte, "body"/Int32ub), "after"/Tell)', b'MUVWxyz'),
                      ('Struct("a"/Byte, "last"/Pointer(-1, Byte), "b"/Byte, "probe"/Bytes(this.last))', b'\x10\x20AB\x02'),
                      ('Struct("off"/Int8sb, "p"/Pointer(this.off, Byte), "t"/Tell, "r"/GreedyBytes)', b'\xfe\x01\x02\x03'),
                      ('Struct("off"/Int8sb, "p"/Pointer(this.off, Int16ub), "t"/Tell, "r"/GreedyBytes)', b'\xfd\x01\x02\x03\x04'),
                      ('Sequence(Pointer(-3, Byte), Pointer(-1, Byte), Byte, Tell)', b'\x01\x02\x03\x04')]:
        c, cc, why = compiled(src)
        if cc is None:
            continue
        acc.check('compiled_parse', src, data=data, kw={})
        cases.append(dict(src=src, op='cparse', data=data, kw={}))
    # ---- two-feature interactions: every wrapper class over every kind of inner construct ----
    _delim = set(x for x, _ in C.pairs(selfdelimiting=True))
    for src, obj in C.pairs():
        if 'lambda' in src or not C.constructible(src):
            continue
        if src.startswith('Lazy') and src not in _delim:
            continue                     # a lazily skipped member behind a read-to-end one: the failure surfaces only on access
        c, cc, why = compiled(src)
        if cc is None:
            continue
        acc.check('compiled_build', src, obj=obj, kw={})
        acc.check('compiled_sizeof', src, kw={})
        cases.append(dict(src=src, op='cbuild', obj=obj, kw={}))
        try:
            data = c.build(obj)
        except BaseException:
            continue
        if src.startswith('Peek('):
            continue                     # builds nothing: every input it is given here is truncated for the inner construct
        acc.check('compiled_parse', src, data=data, kw={})
        if not src.startswith(('Optional(', 'Select(', 'GreedyRange(')):
            # (wrappers that turn a failure of the inner construct into a value see the compiled code read short where the
            #  interpreter raises: nothing is claimed on truncated input, C04_ex_differs_outside)
            acc.check('compiled_parse', src, data=data + b'\x01', kw={})
        cases.append(dict(src=src, op='cparse', data=data, kw={}))
    # ---- expression-parametrised members inside the host ----
    rounds = 6 if quick else 40
    for rd in range(rounds):
        for tsrc, kind in templates(rng):
            if kind == 'skip':
                continue
            src = HOST % tsrc.replace('%%', '%')
            c, cc, why = compiled(src)
            if cc is None:
                nrej += 1
                acc.skipped['compile() does not accept: %s' % why] += 1
                continue
            ncomp += 1
            for _ in range(3 if quick else 6):
                kw = dict(k=rng.choice([0, 1, 2, 5]))
                h = host_value(rng, None)
                h['m'] = member_value(rng, kind, h)
                h['p'] = G.rand_bytes(rng, 4)
                acc.check('compiled_build', src, obj=h, kw=kw)
                cases.append(dict(src=src, op='cbuild', obj=h, kw=kw))
                try:
                    data = c.build(h, **kw)
                    nbuild_ok += 1
                except Exception:
                    data = None
                if data is not None:
                    acc.check('compiled_parse', src, data=data, kw=kw)
                    nparse_ok += 1
                    mut = G.mutate(rng, data)
                    acc.check('compiled_parse', src, data=mut, kw=kw)
                    acc.check('compiled_parse', src, data=data + b'\x00\x01', kw=kw)
                    cases.append(dict(src=src, op='cparse', data=data, kw=kw))
                    cases.append(dict(src=src, op='cparse', data=mut, kw=kw))
            acc.check('compiled_sizeof', src, kw=dict(k=1))
    # ---- generated constructs of the sequential grammar (no expressions beyond sibling references) ----
    for _ in range(150 if quick else 1500):
        node = G.g_node(rng, rng.choice([1, 2, 2, 3]))
        src = node.src
        c, cc, why = compiled(src)
        if cc is None:
            nrej += 1
            acc.skipped['compile() does not accept: %s' % why] += 1
            continue
        ncomp += 1
        for _ in range(3):
            try:
                val = node.val(rng)
            except Exception:
                continue
            acc.check('compiled_build', src, obj=val, kw={})
            cases.append(dict(src=src, op='cbuild', obj=val, kw={}))
            try:
                data = c.build(val)
            except Exception:
                continue
            mut = G.mutate(rng, data)
            acc.check('compiled_parse', src, data=data, kw={})
            acc.check('compiled_parse', src, data=mut, kw={})
            cases.append(dict(src=src, op='cparse', data=data, kw={}))
            cases.append(dict(src=src, op='cparse', data=mut, kw={}))
        acc.check('compiled_sizeof', src, kw={})
    # the model of the emitted code (cparse / cbuild) against the code compile() really emits; a failure is a failure whatever
    # Python raises (the emitted code does not translate exceptions)
    def project(m, i):
        if m[0] == 'RErr' and i[0] == 'RErr':
            return ('RErr',), ('RErr',)
        if m[0] == 'ROkBuild' and i[0] == 'ROkBuild':
            return m[2], i[2]                 # the bytes; the emitted builders return their context
        return m, i
    acc.corr(cases, 'emitted', project=project)
    acc.dist['compilable constructs'] = ncomp
    acc.dist['rejected by compile()'] = nrej
    acc.dist['host inputs the original builds'] = nbuild_ok
    return acc.result(
        rule='every construct that takes a context expression (lengths, counts, conditions, selectors, computed values, predicates over obj_/list_, '
             'offsets) with generated integer / boolean expression trees over this.<field>, this["field"], items, nested and outer scopes, _params, '
             '_root, len_/sum_/min_/max_/abs_, every arithmetic, bitwise and comparison operator, unary minus / plus / not, string / bytes / unicode '
             'constants with quotes and escapes, inside a host Struct whose later probe member depends on values stored by generated code; '
             'plus generated constructs of the sequential grammar to depth 3. For each: compile(); parse of canonical, trailing and mutated '
             'encodings; build of generated values (falsy values, integers for Bytes, labels, flag spellings); sizeof - compiled against '
             'interpreted, only where the interpreter succeeds. distinct = (oracle signature, outcome)',
        fragment='',
        partial=[])


def replay(payload):
    return C.generic_replay(payload)
