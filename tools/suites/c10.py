"""C10: bit-level fields are packed MSB-first across byte boundaries on both code paths."""
import itertools
from . import common as C
import gen as G
import construct
from construct import core


def pattern(w, signed, swapped, v):
    """the w-bit pattern of v as the wire carries it (two's complement; byte-swapped fields reversed per 8-bit group)"""
    p = v & ((1 << w) - 1)
    if swapped:
        p = int.from_bytes(p.to_bytes(w // 8, 'big')[::-1], 'big')
    return p


def in_range(w, signed, v):
    return (-(1 << (w - 1)) <= v < (1 << (w - 1))) if signed else (0 <= v < (1 << w))


def res(f):
    try:
        return ('ok', f())
    except core.ConstructError as e:
        return ('reject', type(e).__name__)
    except Exception as e:
        return ('foreign', type(e).__name__)


BYTEINTS = [('byteint', 1, False, False, 'Int8ub'), ('byteint', 1, True, False, 'Int8sb'), ('byteint', 2, False, False, 'Int16ub'), ('byteint', 2, True, False, 'Int16sb'),
            ('byteint', 2, True, True, 'Int16sl'), ('byteint', 2, False, True, 'Int16ul'), ('byteint', 3, False, False, 'Int24ub'), ('byteint', 3, True, False, 'Int24sb'),
            ('byteint', 3, True, True, 'Int24sl'), ('byteint', 3, False, True, 'Int24ul'), ('byteint', 2, True, False, 'BytesInteger(2, signed=True)'),
            ('byteint', 3, True, True, 'BytesInteger(3, signed=True, swapped=True)'), ('byteint', 1, True, False, 'BytesInteger(1, signed=True)'),
            ('byteint', 2, False, True, 'BytesInteger(2, swapped=True)'), ('byteint', 4, True, False, 'Int32sb'), ('byteint', 4, True, True, 'Int32sl')]


def field_srcs(fields):
    out = []
    for i, f in enumerate(fields):
        nm = 'f%d' % i
        k = f[0]
        if k == 'int':
            _, w, s, sw = f
            out.append('"%s"/BitsInteger(%d, signed=%s, swapped=%s)' % (nm, w, s, sw))
        elif k == 'flag':
            out.append('"%s"/Flag' % nm)
        elif k == 'pad':
            out.append('Padding(%d)' % f[1])
        elif k == 'bytewise':
            out.append('"%s"/Bytewise(Bytes(%d))' % (nm, f[1]))
        elif k == 'byteint':
            out.append('"%s"/Bytewise(%s)' % (nm, f[4]))
        elif k == 'array':
            out.append('"%s"/Array(%d, BitsInteger(%d))' % (nm, f[1], f[2]))
        elif k == 'struct':
            out.append('"%s"/Struct("a"/BitsInteger(%d), "b"/BitsInteger(%d, signed=True))' % (nm, f[1], f[2]))
        elif k == 'nib':
            out.append('"%s"/%s' % (nm, f[1]))
        elif k == 'zero':
            out.append({'pad': 'Padding(0)', 'bytewise': '"%s"/Bytewise(Bytes(0))' % nm, 'array': '"%s"/Array(0, Bit)' % nm,
                        'bytes': '"%s"/Bytes(0)' % nm}[f[1]])
        elif k == 'aligned':
            out.append('"%s"/Aligned(8, BitsInteger(%d))' % (nm, f[1]))
    return out


def expected_bits(fields, vals):
    """-> (total bits, integer) from the field values by big-integer arithmetic"""
    total, acc = 0, 0
    for i, f in enumerate(fields):
        nm = 'f%d' % i
        k = f[0]
        parts = []
        if k == 'int':
            parts = [(f[1], pattern(f[1], f[2], f[3], vals[nm]))]
        elif k == 'flag':
            parts = [(1, 1 if vals[nm] else 0)]
        elif k == 'pad':
            parts = [(f[1], 0)]
        elif k == 'bytewise':
            parts = [(8 * f[1], int.from_bytes(vals[nm], 'big'))]
        elif k == 'byteint':
            parts = [(8 * f[1], pattern(8 * f[1], f[2], f[3], vals[nm]))]
        elif k == 'array':
            parts = [(f[2], x) for x in vals[nm]]
        elif k == 'struct':
            parts = [(f[1], vals[nm]['a']), (f[2], vals[nm]['b'] & ((1 << f[2]) - 1))]
        elif k == 'nib':
            parts = [({'Bit': 1, 'Nibble': 4, 'Octet': 8}[f[1]], vals[nm])]
        elif k == 'aligned':
            parts = [(f[1], vals[nm]), ((-f[1]) % 8, 0)]
        for w, p in parts:
            acc = (acc << w) | p
            total += w
    return total, acc


def width_of(f):
    k = f[0]
    return {'int': lambda: f[1], 'flag': lambda: 1, 'pad': lambda: f[1], 'bytewise': lambda: 8 * f[1], 'byteint': lambda: 8 * f[1], 'array': lambda: f[1] * f[2],
            'struct': lambda: f[1] + f[2], 'nib': lambda: {'Bit': 1, 'Nibble': 4, 'Octet': 8}[f[1]], 'zero': lambda: 0,
            'aligned': lambda: f[1] + (-f[1]) % 8}[k]()


def gen_fields(rng, total):
    fields, left = [], total
    while left > 0:
        r = rng.random()
        if rng.random() < 0.08:
            fields.append(('zero', rng.choice(['pad', 'bytewise', 'array', 'bytes'])))       # zero-width members read nothing
            continue
        if left >= 8 and rng.random() < 0.06:
            f = ('aligned', rng.choice([8, 3, 5, 8]))
            fields.append(f)
            left -= width_of(f)
            continue
        if r < 0.55:
            w = min(left, rng.choice([1, 1, 2, 3, 4, 5, 6, 7, 8, 9, 11, 12, 13, 16, 17, 24]))
            sw = (w % 8 == 0) and rng.random() < 0.4
            f = ('int', w, rng.random() < 0.4, sw)
        elif r < 0.65:
            f = ('flag',)
        elif r < 0.72:
            f = ('pad', min(left, rng.choice([1, 2, 3, 5])))
        elif r < 0.76 and left >= 8:
            f = ('bytewise', rng.choice([1, 2]) if left >= 16 else 1)
        elif r < 0.8 and left >= 8:
            # an integer of the byte level as an island in the bit region: (bytes, signed, swapped, spelling)
            f = rng.choice([x for x in BYTEINTS if 8 * x[1] <= left])
        elif r < 0.87:
            w = rng.choice([1, 2, 3])
            n = rng.choice([1, 2, 3])
            f = ('array', n, w) if n * w <= left else ('flag',)
        elif r < 0.94 and left >= 4:
            a = rng.randint(1, min(7, left - 1))
            b = rng.randint(1, min(9, left - a))
            f = ('struct', a, b)
        else:
            nm = rng.choice(['Bit', 'Nibble', 'Octet'])
            f = ('nib', nm) if {'Bit': 1, 'Nibble': 4, 'Octet': 8}[nm] <= left else ('flag',)
        fields.append(f)
        left -= width_of(f)
    return fields


def gen_vals(rng, fields, exhaustive_index=None):
    vals = {}
    for i, f in enumerate(fields):
        nm = 'f%d' % i
        k = f[0]
        if k == 'int':
            lo, hi = (-(1 << (f[1] - 1)), (1 << (f[1] - 1)) - 1) if f[2] else (0, (1 << f[1]) - 1)
            vals[nm] = G.edge_int(rng, lo, hi)
        elif k == 'flag':
            vals[nm] = rng.random() < 0.5
        elif k == 'bytewise':
            vals[nm] = G.rand_bytes(rng, f[1])
        elif k == 'byteint':
            lo, hi = (-(1 << (8 * f[1] - 1)), (1 << (8 * f[1] - 1)) - 1) if f[2] else (0, (1 << (8 * f[1])) - 1)
            vals[nm] = rng.choice([lo, hi, -1 if f[2] else hi, G.edge_int(rng, lo, hi), G.edge_int(rng, lo, hi)])
        elif k == 'array':
            vals[nm] = [rng.randrange(1 << f[2]) for _ in range(f[1])]
        elif k == 'struct':
            vals[nm] = dict(a=rng.randrange(1 << f[1]), b=rng.randint(-(1 << (f[2] - 1)), (1 << (f[2] - 1)) - 1))
        elif k == 'nib':
            vals[nm] = rng.randrange(1 << {'Bit': 1, 'Nibble': 4, 'Octet': 8}[f[1]])
        elif k == 'zero' and f[1] != 'pad':
            vals[nm] = [] if f[1] == 'array' else b''
        elif k == 'aligned':
            vals[nm] = rng.randrange(1 << f[1])
    return vals


def clean(v):
    if isinstance(v, dict):
        return {k: clean(x) for k, x in v.items() if not str(k).startswith('_')}
    if isinstance(v, list):
        return [clean(x) for x in v]
    return v


@C.oracle('bitpack')
def o_bitpack(src, fields, vals_list, datas):
    sized = C.get(src)
    stream = C.get(src[:-2] + ', Select(Pass)))')          # same layout, size only discoverable while streaming
    fields = [tuple(f) for f in fields]
    for vals in vals_list:
        total, acc = expected_bits(fields, vals)
        exp = acc.to_bytes(total // 8, 'big')
        for which, c in (('pre-read', sized), ('streaming', stream)):
            b = res(lambda: c.build(vals))
            if b != ('ok', exp):
                return '%s region: build(%r) gave %r, MSB-first packing gives %r' % (which, vals, b, exp)
            p = res(lambda: c.parse(exp))
            if p[0] != 'ok':
                return '%s region: parse(%r) raised %s' % (which, exp, p[1])
            got = clean(p[1])
            got.pop(None, None)
            want = {k: (v if not isinstance(v, dict) else v) for k, v in vals.items()}
            if got != want:
                return '%s region: parse(%r) gave %r, the fields are %r' % (which, exp, got, want)
    for d in datas:
        a, b = res(lambda: sized.parse(d)), res(lambda: stream.parse(d))
        if a[0] != b[0] or (a[0] == 'ok' and clean(a[1]) != {k: v for k, v in clean(b[1]).items()}):
            return 'parse(%r): pre-read region gives %r, streaming region gives %r' % (d, a, b)
    return None


@C.oracle('zero_region')
def o_zero_region(src, data, rest):
    """a zero-width bit / swapped region between byte fields reads nothing: what follows sees every remaining byte"""
    p = res(lambda: C.get(src).parse(data))
    if p[0] != 'ok' or bytes(p[1].r) != rest:
        return 'parse(%r) gives %r, the bytes after the zero-width region are %r' % (data, p, rest)
    return None


ZERO_REGIONS = ['BitStruct("c"/Computed(1))', 'Bitwise(Struct())', 'Bitwise(Bytes(0))', 'BitStruct(Padding(0))', 'ByteSwapped(Bytes(0))',
                'BitsSwapped(Struct())', 'Bitwise(Array(0, Bit))', 'BitStruct("x"/Bytewise(Bytes(0)))', 'Transformed(Bytes(0), bytes2bits, 0, bits2bytes, 0)']


@C.oracle('bit_tail')
def o_bit_tail(src, width, signed, data):
    c = C.get(src)
    bits = ''.join('{:08b}'.format(x) for x in data)
    a = int(bits[:width], 2)
    if signed and a >= 1 << (width - 1):
        a -= 1 << width
    rest = bytes(int(ch) for ch in bits[width:])
    p = res(lambda: c.parse(data))
    if p[0] != 'ok' or p[1].a != a or bytes(p[1].rest) != rest:
        return 'parse(%r): %r; the first %d bits are %d and the remaining bits are %r' % (data, p, width, a, rest)
    b = res(lambda: c.build(dict(a=a, rest=rest)))
    if b != ('ok', data):
        return 'build gave %r, expected %r' % (b, data)
    return None


@C.oracle('island')
def o_island(src, data):
    """a byte-level island whose size comes from an earlier bit field, in the MIDDLE of a bit region (the streamed path): it takes its own
    bytes and leaves the bits behind it to the members that follow.  Layout: n:4 p:4 | n bytes | t:8 | the remaining octets"""
    c = C.get(src)
    n, pp = data[0] >> 4, data[0] & 15
    if len(data) < 2 + n:
        return None
    want = dict(n=n, p=pp, d=data[1:1 + n], t=data[1 + n], r=list(data[2 + n:]))
    p = res(lambda: c.parse(data))
    if p[0] != 'ok':
        return 'parse(%r) raised %r; the layout gives %r' % (data, p[1:], want)
    got = dict(n=p[1].n, p=p[1].p, d=bytes(p[1].d), t=p[1].t, r=list(p[1].r))
    if got != want:
        return 'parse(%r) = %r; the layout gives %r' % (data, got, want)
    b = res(lambda: c.build(want))
    if b != ('ok', data):
        return 'build gave %r, expected %r' % (b, data)
    return None


def run(tier, seed):
    acc = C.Acc('C10', tier, seed)
    rng = C.rng_for(seed, 'C10')
    cases = []
    n = 250 if tier == 'quick' else 4000
    totals = [8, 8, 16, 16, 24, 32] if tier == 'quick' else [8, 16, 24, 32, 40, 48, 56, 64]
    for _ in range(n):
        total = rng.choice(totals)
        fields = gen_fields(rng, total)
        src = 'Bitwise(Struct(%s))' % ', '.join(field_srcs(fields))
        vals_list = [gen_vals(rng, fields) for _ in range(6)]
        datas = [G.rand_bytes(rng, total // 8) for _ in range(4)] + [bytes(total // 8), b'\xff' * (total // 8), G.rand_bytes(rng, total // 8 - 1), G.rand_bytes(rng, total // 8 + 1)]
        acc.check('bitpack', src, fields=[list(f) for f in fields], vals_list=vals_list, datas=datas)
        ssrc = src[:-2] + ', Select(Pass)))'
        for v in vals_list[:3]:
            cases.append(dict(src=src, op='build', obj=v))
            cases.append(dict(src=ssrc, op='build', obj=v))
        for d in datas:
            cases.append(dict(src=src, op='parse', data=d))
            cases.append(dict(src=ssrc, op='parse', data=d))
    # a read-to-end member after fields that do not end on a byte boundary (streaming region): it must see every remaining bit
    for _ in range(60 if tier == 'quick' else 600):
        k = rng.choice([1, 2, 3, 4, 5, 6, 7, 9, 11, 13])
        s_ = rng.random() < 0.4
        src = 'Bitwise(Struct("a"/BitsInteger(%d, signed=%s), "rest"/GreedyBytes))' % (k, s_)
        for nbytes in (1, 2, 3):
            if 8 * nbytes < k:
                continue
            d = G.rand_bytes(rng, nbytes)
            acc.check('bit_tail', src, width=k, signed=s_, data=d)
            cases.append(dict(src=src, op='parse', data=d))
            bits = ''.join('{:08b}'.format(x) for x in d)
            a = int(bits[:k], 2)
            if s_ and a >= 1 << (k - 1):
                a -= 1 << k
            cases.append(dict(src=src, op='build', obj=dict(a=a, rest=bytes(int(c) for c in bits[k:]))))
    # byte-level islands of variable size in the middle of a bit region
    for isl in ('Bytewise(Bytes(this.n))', 'Bytewise(FixedSized(this.n, GreedyBytes))', 'Bytewise(Array(this.n, Byte))'):
        src = 'Bitwise(Struct("n"/Nibble, "p"/Nibble, "d"/%s, "t"/Octet, "r"/GreedyRange(Octet)))' % isl
        for n_ in (0, 1, 2, 3):
            for _ in range(2 if tier == 'quick' else 8):
                d = bytes([(n_ << 4) | rng.randrange(16)]) + G.rand_bytes(rng, n_) + G.rand_bytes(rng, 1 + rng.randint(0, 3))
                if 'Array' not in isl:
                    acc.check('island', src, data=d)
                cases.append(dict(src=src, op='parse', data=d))
                cases.append(dict(src=src, op='parse', data=d[:-1]))
    # exhaustive: every value of every region of <= 16 bits made of two or three integer fields
    widths = [(a, b) for a in range(1, 16) for b in range(1, 16) if (a + b) in (8, 16)]
    if tier == 'quick':
        widths = [w for w in widths if w[0] in (1, 3, 7, 8, 9, 12, 15)]
    for a, b in widths:
        for sa, sb in ((False, False), (True, False), (False, True), (True, True)):
            fields = [('int', a, sa, False), ('int', b, sb, False)]
            src = 'Bitwise(Struct(%s))' % ', '.join(field_srcs(fields))
            total = a + b
            datas = [x.to_bytes(total // 8, 'big') for x in (range(1 << total) if (total == 8 or tier == 'thorough') else range(0, 1 << total, 257))]
            vl = []
            for d in datas[::max(1, len(datas) // 64)]:
                x = int.from_bytes(d, 'big')
                va, vb = x >> b, x & ((1 << b) - 1)
                if sa and va >= 1 << (a - 1):
                    va -= 1 << a
                if sb and vb >= 1 << (b - 1):
                    vb -= 1 << b
                vl.append(dict(f0=va, f1=vb))
            acc.check('bitpack', src, fields=[list(f) for f in fields], vals_list=vl, datas=datas)
    # swapped fields of 16/24/32 bits, signed, with values whose top and bottom bytes differ in the top bit
    for w in (16, 24, 32):
        for s in (False, True):
            fields = [('int', 4, False, False), ('int', w, s, True), ('int', 4, False, False)]
            src = 'Bitwise(Struct(%s))' % ', '.join(field_srcs(fields))
            lo, hi = (-(1 << (w - 1)), (1 << (w - 1)) - 1) if s else (0, (1 << w) - 1)
            vl = [dict(f0=rng.randrange(16), f1=v, f2=rng.randrange(16)) for v in [128, -256 if s else 256, lo, hi, 1, 0x80 << (w - 8) if not s else -(0x80 << (w - 16)), 0x0180, -129 if s else 129]
                  if lo <= v <= hi]
            acc.check('bitpack', src, fields=[list(f) for f in fields], vals_list=vl, datas=[G.rand_bytes(rng, (w + 8) // 8) for _ in range(20)])
            for v in vl:
                cases.append(dict(src=src, op='build', obj=v))
            for _ in range(10):
                cases.append(dict(src=src, op='parse', data=G.rand_bytes(rng, (w + 8) // 8)))
    for z in ZERO_REGIONS:
        src = 'Struct("a"/Byte, "z"/%s, "r"/GreedyBytes)' % z
        for d in (b'\x01hello', b'\x01', b'\x01\xff\x00\x80'):
            acc.check('zero_region', src, data=d, rest=d[1:])
            cases.append(dict(src=src, op='parse', data=d))
    acc.corr(cases, 'bits')
    return acc.result(
        rule='random partitions of 8..32 bits (thorough: ..64) into BitsInteger fields of width 1..24 with signed/swapped flags, Flag, Padding, Bit/Nibble/'
             'Octet, nested Struct and Array, Bytewise islands x boundary-biased values; EVERY value of all two-field regions of 8 bits (16 bits '
             'in thorough) for all signedness combinations; signed swapped 16/24/32-bit fields at non-aligned positions; each region built and '
             'parsed on BOTH code paths (pre-read Transformed and streaming Restreamed, forced with an unsized trailing member). Oracle: '
             'big-integer MSB-first concatenation. distinct = (layout, outcome)',
        fragment='packing theorems are over arbitrary field lists (no bound on widths or counts) at the level of the bit/byte functions; the '
                 'BytesInteger = Bitwise(BitsInteger) law is proved at the interpreter level for every width',
        partial=['the RestreamedBytesIO state machine (streaming path) is modelled as a pure function on whole units; its equality with the '
                 'pre-read path is decided by correspondence and the two-path oracle, not proved',
                 'swapped fields: swapbytesinbits is not yet related to byte reversal by a theorem'])


def replay(payload):
    return C.generic_replay(payload)
