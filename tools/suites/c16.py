"""C16: lazy parsing is observationally equal to eager parsing under any access order."""
import io, itertools
from . import common as C
import gen as G
import construct
from construct import core

# members by size class; none refers to a sibling
FIXED = ['Byte', 'Int16ub', 'Int32ul', 'Int24sb', 'Bytes(3)', 'Flag', 'Array(2, Byte)', 'Padded(4, Byte)', 'Const(b"AB")',
         'Enum(Byte, one=1, two=2)', 'BitStruct("x"/Nibble, "y"/Nibble)', 'FixedSized(3, GreedyBytes)', 'Struct("p"/Byte, "q"/Int16ul)',
         'Default(Byte, 7)', 'Aligned(4, Byte)', 'Bytes(0)', 'Computed(5)', 'Padding(2)', 'Hex(Int16ub)', 'ByteSwapped(Int16ub)']
CTXSIZED = ['Bytes(this._params.n)', 'Array(this._params.n, Byte)', 'Padded(this._params.n + 1, Byte)', 'If(this._params.f, Int16ub)',
            'Switch(this._params.n, {2: Int16ub, 3: Bytes(3)}, default=Byte)', 'Bytes(this._.n)', 'FixedSized(this._params.n, GreedyBytes)']
PREFIXED = ['Prefixed(Byte, GreedyBytes)', 'PascalString(Byte, "utf8")', 'PrefixedArray(Byte, Int16ub)', 'Prefixed(VarInt, GreedyBytes)',
            'Prefixed(Int16ub, GreedyBytes, includelength=True)', 'Prefixed(Byte, Struct("a"/Byte, "r"/GreedyBytes))',
            'PrefixedArray(VarInt, Byte)', 'Prefixed(Int16ul, GreedyRange(Int16ub))', 'PrefixedArray(Byte, VarInt)', 'PrefixedArray(Byte, Int24ul)',
            'PrefixedArray(Int16ub, CString("ascii"))',
            # arrays whose elements are themselves length-prefixed, of different lengths
            'PrefixedArray(Byte, PascalString(Byte, "utf8"))', 'PrefixedArray(Byte, Prefixed(Byte, GreedyBytes))', 'PrefixedArray(VarInt, PrefixedArray(Byte, Int16ub))',
            'PrefixedArray(Byte, Prefixed(VarInt, GreedyBytes))', 'PrefixedArray(Byte, Struct("t"/Byte, "v"/Prefixed(Byte, GreedyBytes)))']
UNSIZABLE = ['VarInt', 'CString("utf8")', 'NullTerminated(GreedyBytes)', 'RepeatUntil(obj_ == 0, Byte)',
             'Struct("k"/Byte, "d"/Bytes(this.k))', 'ZigZag', 'Struct("c"/Byte, "a"/Array(this.c, Int16ub))', 'NullTerminated(GreedyBytes, term=b"\\x00\\x00")']
TAIL = ['GreedyBytes', 'GreedyRange(Int16ub)', 'GreedyString("utf8")']

VALS = {
    'Byte': lambda g: g.choice([0, 1, 7, 255, g.randrange(256)]), 'Int16ub': lambda g: g.choice([0, 513, 65535, g.randrange(65536)]),
    'Int32ul': lambda g: g.choice([0, 1, 2 ** 32 - 1, g.randrange(2 ** 32)]), 'Int24sb': lambda g: g.choice([0, -1, 2 ** 23 - 1, -2 ** 23, g.randrange(-2 ** 23, 2 ** 23)]),
    'Bytes(3)': lambda g: G.rand_bytes(g, 3), 'Flag': lambda g: g.random() < 0.5, 'Array(2, Byte)': lambda g: [g.randrange(256), g.randrange(256)],
    'Padded(4, Byte)': lambda g: g.randrange(256), 'Const(b"AB")': lambda g: b'AB', 'Enum(Byte, one=1, two=2)': lambda g: g.choice(['one', 'two', 9]),
    'BitStruct("x"/Nibble, "y"/Nibble)': lambda g: dict(x=g.randrange(16), y=g.randrange(16)), 'FixedSized(3, GreedyBytes)': lambda g: G.rand_bytes(g, g.randint(0, 3)),
    'Struct("p"/Byte, "q"/Int16ul)': lambda g: dict(p=g.randrange(256), q=g.randrange(65536)), 'Default(Byte, 7)': lambda g: g.choice([7, 0, 200]),
    'Aligned(4, Byte)': lambda g: g.randrange(256), 'Bytes(0)': lambda g: b'', 'Computed(5)': lambda g: None, 'Padding(2)': lambda g: None,
    'Hex(Int16ub)': lambda g: g.randrange(65536), 'ByteSwapped(Int16ub)': lambda g: g.randrange(65536),
    'Bytes(this._params.n)': lambda g, n, f: G.rand_bytes(g, n), 'Array(this._params.n, Byte)': lambda g, n, f: [g.randrange(256) for _ in range(n)],
    'Padded(this._params.n + 1, Byte)': lambda g, n, f: g.randrange(256), 'If(this._params.f, Int16ub)': lambda g, n, f: g.randrange(65536) if f else None,
    'Switch(this._params.n, {2: Int16ub, 3: Bytes(3)}, default=Byte)': lambda g, n, f: g.randrange(65536) if n == 2 else G.rand_bytes(g, 3) if n == 3 else g.randrange(256),
    'Bytes(this._.n)': lambda g, n, f: G.rand_bytes(g, n), 'FixedSized(this._params.n, GreedyBytes)': lambda g, n, f: G.rand_bytes(g, g.randint(0, n)),
    'Prefixed(Byte, GreedyBytes)': lambda g: G.rand_bytes(g, g.choice([0, 1, 2, 5, 200])), 'PascalString(Byte, "utf8")': lambda g: G.rand_text(g, 'utf8'),
    'PrefixedArray(Byte, Int16ub)': lambda g: [g.randrange(65536) for _ in range(g.randint(0, 4))], 'Prefixed(VarInt, GreedyBytes)': lambda g: G.rand_bytes(g, g.choice([0, 1, 3, 130, 300])),
    'Prefixed(Int16ub, GreedyBytes, includelength=True)': lambda g: G.rand_bytes(g, g.randint(0, 6)),
    'Prefixed(Byte, Struct("a"/Byte, "r"/GreedyBytes))': lambda g: dict(a=g.randrange(256), r=G.rand_bytes(g, g.randint(0, 4))),
    'PrefixedArray(VarInt, Byte)': lambda g: [g.randrange(256) for _ in range(g.choice([0, 1, 3, 130]))],
    'Prefixed(Int16ul, GreedyRange(Int16ub))': lambda g: [g.randrange(65536) for _ in range(g.randint(0, 3))],
    'PrefixedArray(Byte, VarInt)': lambda g: [g.choice([0, 1, 127, 128, 300, 70000]) for _ in range(g.randint(0, 4))],
    'PrefixedArray(Byte, Int24ul)': lambda g: [g.randrange(2 ** 24) for _ in range(g.randint(0, 3))],
    'PrefixedArray(Int16ub, CString("ascii"))': lambda g: [g.choice(['', 'a', 'xyz']) for _ in range(g.randint(0, 3))],
    'PrefixedArray(Byte, PascalString(Byte, "utf8"))': lambda g: [g.choice(['', 'a', 'xyz', 'hello w', '\xe9t\xe9']) for _ in range(g.randint(0, 4))],
    'PrefixedArray(Byte, Prefixed(Byte, GreedyBytes))': lambda g: [G.rand_bytes(g, g.choice([0, 1, 2, 5, 9])) for _ in range(g.randint(0, 4))],
    'PrefixedArray(VarInt, PrefixedArray(Byte, Int16ub))': lambda g: [[g.randrange(65536) for _ in range(g.randint(0, 3))] for _ in range(g.randint(0, 3))],
    'PrefixedArray(Byte, Prefixed(VarInt, GreedyBytes))': lambda g: [G.rand_bytes(g, g.choice([0, 1, 3, 130])) for _ in range(g.randint(0, 3))],
    'PrefixedArray(Byte, Struct("t"/Byte, "v"/Prefixed(Byte, GreedyBytes)))': lambda g: [dict(t=g.randrange(256), v=G.rand_bytes(g, g.randint(0, 4))) for _ in range(g.randint(0, 3))],
    'VarInt': lambda g: g.choice([0, 1, 127, 128, 300, 2 ** 21, g.randrange(2 ** 30)]), 'CString("utf8")': lambda g: G.rand_text(g, 'utf8'),
    'NullTerminated(GreedyBytes)': lambda g: bytes(g.randrange(1, 256) for _ in range(g.randint(0, 4))),
    'RepeatUntil(obj_ == 0, Byte)': lambda g: [g.randrange(1, 256) for _ in range(g.randint(0, 3))] + [0],
    'Struct("k"/Byte, "d"/Bytes(this.k))': lambda g: (lambda d: dict(k=len(d), d=d))(G.rand_bytes(g, g.randint(0, 4))),
    'ZigZag': lambda g: g.choice([0, -1, 1, -64, 64, g.randrange(-2 ** 20, 2 ** 20)]),
    'Struct("c"/Byte, "a"/Array(this.c, Int16ub))': lambda g: (lambda a: dict(c=len(a), a=a))([g.randrange(65536) for _ in range(g.randint(0, 3))]),
    'NullTerminated(GreedyBytes, term=b"\\x00\\x00")': lambda g: bytes(g.randrange(1, 256) for _ in range(2 * g.randint(0, 3))),
    'GreedyBytes': lambda g: G.rand_bytes(g, g.randint(0, 5)), 'GreedyRange(Int16ub)': lambda g: [g.randrange(65536) for _ in range(g.randint(0, 3))],
    'GreedyString("utf8")': lambda g: G.rand_text(g, 'utf8', nonul=False),
}


# length-prefixed members whose inner construct has a size of its own: an accepted (mutated) input may carry a LONGER region
# than the inner construct needs; what a lazy parse skips must be the region, as the eager parse does
STRETCH = [
    ('Prefixed(Byte, Bytes(2))', lambda k: bytes([2 + k]) + b'\xaa\xbb' + b'\xcc' * k),
    ('Prefixed(Byte, Int16ub)', lambda k: bytes([2 + k]) + b'\x01\x02' + b'\xcd' * k),
    ('Prefixed(Int16ub, Struct("a"/Byte, "b"/Byte), includelength=True)', lambda k: (4 + k).to_bytes(2, 'big') + b'\x03\x04' + b'\xdd' * k),
    ('Prefixed(VarInt, Array(2, Byte))', lambda k: bytes([2 + k]) + b'\x05\x06' + b'\xee' * k),
    ('Prefixed(Byte, Padded(3, Byte))', lambda k: bytes([3 + k]) + b'\x07\x00\x00' + b'\xef' * k),
]
STRETCH_SHAPES = [
    ('%s("m0"/{P}, "m1"/Byte)', lambda e: e + b'\x77', 2),
    ('%s("m0"/Byte, "m1"/{P}, "m2"/{P}, "m3"/Int16ub)', lambda e: b'\x11' + e + e + b'\x22\x33', 4),
    ('%s("m0"/Hex({P}), "m1"/Byte)', lambda e: e + b'\x78', 2),
    ('%s("m0"/Struct("p"/{P}), "m1"/Byte)', lambda e: e + b'\x79', 2),
]


def member_val(m, g, n, f):
    fn = VALS[m]
    return fn(g, n, f) if m in CTXSIZED else fn(g)


def pick_members(rng, k, tier):
    """k members mixing the size classes; a read-to-end member only last"""
    out = []
    for i in range(k):
        last = i == k - 1
        r = rng.random()
        if last and r < 0.15:
            out.append(rng.choice(TAIL))
        elif r < 0.35:
            out.append(rng.choice(FIXED))
        elif r < 0.55:
            out.append(rng.choice(CTXSIZED))
        elif r < 0.78:
            out.append(rng.choice(PREFIXED))
        else:
            out.append(rng.choice(UNSIZABLE))
    return out


def names(k):
    return ['m%d' % i for i in range(k)]


def struct_src(kind, members):
    return '%s(%s)' % (kind, ', '.join('"m%d"/%s' % (i, m) for i, m in enumerate(members)))


def eager_parse(src, data, start, kw):
    st = io.BytesIO(data)
    st.seek(start)
    try:
        v = C.get(src).parse_stream(st, **kw)
    except core.ConstructError as e:
        return None
    return v, st.tell()


def access(res, mode, key, idx):
    if mode == 'index':
        return res[idx]
    if mode == 'name':
        return res[key]
    return getattr(res, key)


@C.oracle('lazystruct')
def o_lazystruct(src, eager, data, start, kw, history, mode):
    """every access of the history returns the eager value and leaves the position where the parse left it"""
    e = eager_parse(eager, data, start, kw)
    if e is None:
        return None
    ev, epos = e
    st = io.BytesIO(data)
    st.seek(start)
    try:
        res = C.get(src).parse_stream(st, **kw)
    except core.ConstructError as ex:
        return 'lazy parse raised %s where the eager parse succeeds' % type(ex).__name__
    if st.tell() != epos:
        return 'lazy parse leaves the stream at %d, the eager parse at %d' % (st.tell(), epos)
    k = len(res)
    nm = names(k)
    for step, i in enumerate(history):
        md = mode if mode != 'mixed' else ('index', 'name', 'attr')[(step + i) % 3]
        try:
            v = access(res, md, nm[i], i)
        except Exception as ex:
            return 'access %d of history %r (%s) raised %s' % (step, history, md, type(ex).__name__)
        if not C.veq(v, ev[nm[i]]):
            return 'access %d of history %r returned %r for member %d, eager value %r' % (step, history, v, i, ev[nm[i]])
        if st.tell() != epos:
            return 'after access %d of history %r the stream is at %d, the parse left it at %d' % (step, history, st.tell(), epos)
    # iteration and bulk views, after the history
    try:
        ks = list(res.keys())
        vs = list(res.values())
        its = list(res.items())
        it2 = list(iter(res))
    except Exception as ex:
        return 'iteration raised %s' % type(ex).__name__
    if ks != nm or it2 != nm:
        return 'keys() gives %r, members are %r' % (ks, nm)
    if not all(C.veq(v, ev[n]) for v, n in zip(vs, nm)) or len(vs) != k:
        return 'values() differ from the eager values'
    if [a for a, _ in its] != nm or not all(C.veq(b, ev[a]) for a, b in its):
        return 'items() differ from the eager items'
    if not all(n in res for n in nm) or ('zz' in res):
        return 'membership test differs from the eager container'
    if not (res == ev):
        return 'lazy result does not compare equal to the eager result'
    if st.tell() != epos:
        return 'after iteration the stream is at %d, the parse left it at %d' % (st.tell(), epos)
    return None


@C.oracle('lazy_anon')
def o_lazy_anon(src, eager, data, order):
    """anonymous members (constants, padding, unnamed measured fields) among the named ones: access by name, attribute, get, iteration
    and == give the eager values, in any order; the parse ends where the eager parse ends"""
    ce, cl = C.get(eager), C.get(src)
    st = io.BytesIO(data)
    try:
        e = ce.parse_stream(st)
        end = st.tell()
    except core.ConstructError:
        return None
    st = io.BytesIO(data)
    try:
        l = cl.parse_stream(st)
    except core.ConstructError as ex:
        return 'lazy parse raised %s where the eager parse succeeds' % type(ex).__name__
    if st.tell() != end:
        return 'lazy parse leaves the stream at %d, the eager parse at %d' % (st.tell(), end)
    keys = [k for k in e if not str(k).startswith('_')]
    for k in [keys[i % len(keys)] for i in order] if keys else []:
        for how, f in (('[name]', lambda: l[k]), ('attribute', lambda: getattr(l, k)), ('get', lambda: l.get(k))):
            try:
                v = f()
            except Exception as ex:
                return 'access %s of %r raised %s' % (how, k, type(ex).__name__)
            if not C.peq(v, e[k]):
                return 'access %s of %r gives %r, the eager value is %r' % (how, k, v, e[k])
        if st.tell() != end:
            return 'after accessing %r the stream stands at %d, the parse left it at %d' % (k, st.tell(), end)
    if list(l.keys()) != keys:
        return 'keys() gives %r, the named members are %r' % (list(l.keys()), keys)
    if not all(C.peq(a, e[k]) for k, a in l.items()):
        return 'items() gives %r, eager %r' % (list(l.items()), [(k, e[k]) for k in keys])
    if not (l == e):
        return 'lazy result does not compare equal to the eager result'
    return None


ANON = [
    ('(Const(b"MZ"), "a"/Int8ub, Padding(1), "b"/Int16ub, "c"/Bytes(2))', b'MZ\x07\x00\x01\x02xy'),
    ('("a"/Byte, PrefixedArray(Byte, VarInt), "c"/Int16ub)', b'\x05\x02\x81\x01\x06\x00\x09'),
    ('(Prefixed(Byte, Bytes(1)), "a"/Byte, Byte, "b"/Byte)', b'\x03xyz\x01\x02\x03'),
    ('("a"/VarInt, Const(b"\\x00"), PrefixedArray(VarInt, Int16ub), Padding(2), "z"/Byte)', b'\x81\x01\x00\x01\x00\x07\x00\x00\x09'),
    ('(Padding(1), Padding(1), "only"/Byte)', b'\x00\x00\x07'),
]


@C.oracle('lazyarray')
def o_lazyarray(src, eager, data, start, kw, history, slices):
    e = eager_parse(eager, data, start, kw)
    if e is None:
        return None
    ev, epos = e
    st = io.BytesIO(data)
    st.seek(start)
    try:
        res = C.get(src).parse_stream(st, **kw)
    except core.ConstructError as ex:
        return 'lazy parse raised %s where the eager parse succeeds' % type(ex).__name__
    if st.tell() != epos:
        return 'lazy parse leaves the stream at %d, the eager parse at %d' % (st.tell(), epos)
    if len(res) != len(ev):
        return 'len() is %d, eager %d' % (len(res), len(ev))
    for step, i in enumerate(history):
        try:
            v = res[i]
        except Exception as ex:
            return 'access %d of history %r raised %s' % (step, history, type(ex).__name__)
        if not C.veq(v, ev[i]):
            return 'access %d of history %r returned %r for element %d, eager value %r' % (step, history, v, i, ev[i])
        if st.tell() != epos:
            return 'after access %d of history %r the stream is at %d, the parse left it at %d' % (step, history, st.tell(), epos)
    for a, b, s in slices:
        try:
            v = res[a:b:s]
        except Exception as ex:
            return 'slice [%r:%r:%r] raised %s' % (a, b, s, type(ex).__name__)
        if not C.veq(list(v), list(ev[a:b:s])):
            return 'slice [%r:%r:%r] returned %r, eager %r' % (a, b, s, v, list(ev[a:b:s]))
        if st.tell() != epos:
            return 'after slice [%r:%r:%r] the stream is at %d, the parse left it at %d' % (a, b, s, st.tell(), epos)
    try:
        vs = list(res)
    except Exception as ex:
        return 'iteration raised %s' % type(ex).__name__
    if not C.veq(vs, list(ev)):
        return 'iteration gives %r, eager %r' % (vs, list(ev))
    if not (res == ev):
        return 'lazy result does not compare equal to the eager result'
    if st.tell() != epos:
        return 'after iteration the stream is at %d, the parse left it at %d' % (st.tell(), epos)
    return None


@C.oracle('lazy_single')
def o_lazy_single(src, eager, data, start, kw, calls):
    e = eager_parse(eager, data, start, kw)
    if e is None:
        return None
    ev, epos = e
    st = io.BytesIO(data)
    st.seek(start)
    try:
        res = C.get(src).parse_stream(st, **kw)
    except core.ConstructError as ex:
        return 'Lazy parse raised %s where the eager parse succeeds' % type(ex).__name__
    if st.tell() != epos:
        return 'Lazy leaves the stream at %d, the eager parse at %d' % (st.tell(), epos)
    for j in range(calls):
        try:
            v = res()
        except Exception as ex:
            return 'call %d raised %s' % (j, type(ex).__name__)
        if not C.veq(v, ev):
            return 'call %d returned %r, eager %r' % (j, v, ev)
        if st.tell() != epos:
            return 'after call %d the stream is at %d, the parse left it at %d' % (j, st.tell(), epos)
    return None


@C.oracle('lazy_rebuild')
def o_rebuild(src, eager, data, kw, history):
    """building from a lazy result (after any accesses) emits the bytes that were parsed, when the eager round trip does"""
    ce, cl = C.get(eager), C.get(src)
    try:
        ev = ce.parse(data, **kw)
        canon = ce.build(ev, **kw)
    except core.ConstructError:
        return None
    if canon != data:
        return None             # not a canonical encoding
    st = io.BytesIO(data)
    try:
        res = cl.parse_stream(st, **kw)
        for i in history:
            res[i]
        out = cl.build(res, **kw)
    except Exception as ex:
        return 'building from the lazy result raised %s: %s' % (type(ex).__name__, str(ex)[:100])
    if out != data:
        return 'building from the lazy result gives %r, parsed from %r' % (out, data)
    return None


@C.oracle('lazy_surrounding')
def o_surrounding(src, eager, data, kw):
    """an enclosing parse whose later expressions read lazy members continues at the right position"""
    e = eager_parse(eager, data, 0, kw)
    if e is None:
        return None
    ev, epos = e
    st = io.BytesIO(data)
    try:
        v = C.get(src).parse_stream(st, **kw)
    except Exception as ex:
        return 'lazy variant raised %s where the eager one parses' % type(ex).__name__
    if st.tell() != epos:
        return 'lazy variant ends at %d, eager at %d' % (st.tell(), epos)
    if not C.veq(v, ev):
        return 'lazy variant gives %r, eager %r' % (v, ev)
    if st.tell() != epos:
        return 'reading the lazy members after the parse moved the stream to %d, the parse left it at %d' % (st.tell(), epos)
    return None


def canonical(rng, eager, members, n, f, kw, arr=None):
    """a value for the member list and its encoding, or None when the value is not buildable"""
    for _ in range(6):
        try:
            if arr is None:
                val = {('m%d' % i): member_val(m, rng, n, f) for i, m in enumerate(members)}
            else:
                val = [member_val(members[0], rng, n, f) for _ in range(arr)]
            return C.get(eager).build(val, **kw)
        except (core.ConstructError, UnicodeError):
            continue
    return None


def histories(rng, k, exhaustive_len, extra):
    """all sequences over k members up to the given length (exhaustive), plus longer random ones"""
    hs = []
    for L in range(0, exhaustive_len + 1):
        hs.extend(itertools.product(range(k), repeat=L))
    for _ in range(extra):
        hs.append(tuple(rng.randrange(k) for _ in range(rng.randint(k, 3 * k + 2)))) if k else None
    return [list(h) for h in hs]


def run(tier, seed):
    acc = C.Acc('C16', tier, seed)
    rng = C.rng_for(seed, 'C16')
    quick = tier == 'quick'
    cases = []
    nstruct = 0
    # ---- LazyStruct ----
    plan = [(1, 6, 1), (2, 10, 2), (3, 12, 3), (4, 8 if quick else 20, 4), (5, 3 if quick else 10, 3 if quick else 5), (6, 2 if quick else 6, 2 if quick else 6)]
    for k, count, exh in plan:
        for _ in range(count):
            members = pick_members(rng, k, tier)
            n, f = rng.choice([0, 1, 2, 3]), rng.random() < 0.5
            kw = dict(n=n, f=f)
            lazy, eager = struct_src('LazyStruct', members), struct_src('Struct', members)
            data = canonical(rng, eager, members, n, f, kw)
            if data is None:
                continue
            nstruct += 1
            inputs = [(data, 0), (data + b'\x05\x00\x81', 0), (b'\xee\x01' + data, 2)]
            for _ in range(2 if quick else 4):
                inputs.append((G.mutate(rng, data), 0))
            hs = histories(rng, k, exh, 6)
            # exhaustive histories on the canonical input, a sample on the others
            for j, (d, start) in enumerate(inputs):
                sel = hs if j == 0 else rng.sample(hs, min(len(hs), 12))
                cap = 700 if quick else 50000
                if len(sel) > cap:
                    sel = rng.sample(sel, cap)
                for h in sel:
                    mode = ('index', 'name', 'attr', 'mixed')[(len(h) + sum(h)) % 4]
                    acc.check('lazystruct', lazy, eager=eager, data=d, start=start, kw=kw, history=h, mode=mode)
                for h in (sel if len(sel) <= 300 else rng.sample(sel, 300)):
                    cases.append(dict(src=lazy, op='lazy', kw=kw, data=d, start=start, history=h))
                cases.append(dict(src=lazy, op='parse', kw=kw, data=d, start=start))
            for h in rng.sample(hs, min(len(hs), 10)):
                acc.check('lazy_rebuild', lazy, eager=eager, data=data, kw=kw, history=h)
            # the enclosing parse reads lazy members from later expressions
            reads = ', '.join('"r%d"/Computed(this.a.m%d)' % (j, i) for j, i in enumerate(rng.sample(range(k), min(k, 3))))
            outer_l = 'Struct("a"/%s, %s, "b"/Int16ub, "c"/Computed(this.a.m0))' % (lazy.replace('this._.n', 'this._._.n'), reads)
            outer_e = 'Struct("a"/%s, %s, "b"/Int16ub, "c"/Computed(this.a.m0))' % (eager.replace('this._.n', 'this._._.n'), reads)
            if members[-1] not in TAIL:
                acc.check('lazy_surrounding', outer_l, eager=outer_e, data=data + b'\x12\x34', kw=kw)
                cases.append(dict(src=outer_l, op='parse', kw=kw, data=data + b'\x12\x34'))
    # ---- LazyArray ----
    elems = FIXED[:14] + CTXSIZED[:5] + PREFIXED + UNSIZABLE
    for el in (elems if not quick else rng.sample(elems, 16)):
        for cnt in ([0, 1, 3] if quick else [0, 1, 2, 4, 6]):
            n, f = rng.choice([1, 2, 3]), rng.random() < 0.5
            kw = dict(n=n, f=f, cnt=cnt)
            csrc = rng.choice(['%d' % cnt, 'this._params.cnt'])
            lazy, eager = 'LazyArray(%s, %s)' % (csrc, el), 'Array(%s, %s)' % (csrc, el)
            if 'this._.n' in el:
                continue
            data = canonical(rng, eager, [el], n, f, kw, arr=cnt)
            if data is None:
                continue
            inputs = [(data, 0), (data + b'\x00\x07', 0), (b'\x09' + data, 1), (G.mutate(rng, data), 0)]
            hs = histories(rng, cnt, min(cnt, 3 if quick else 4), 6)
            for j, (d, start) in enumerate(inputs):
                sel = hs if j == 0 else rng.sample(hs, min(len(hs), 10))
                for h in sel:
                    slices = [(rng.choice([None, 0, 1, 2]), rng.choice([None, 1, 3, cnt, cnt + 2]), rng.choice([None, 1, 2])) for _ in range(2)]
                    slices += [(rng.choice([None, -1, -2, -cnt - 1, cnt - 1, 1]), rng.choice([None, -1, -2, 0, -cnt - 2]), rng.choice([None, -1, -2, 1, 3])) for _ in range(2)]
                    slices += [(None, None, -1), (-2, None, None), (None, -1, None)]
                    acc.check('lazyarray', lazy, eager=eager, data=d, start=start, kw=kw, history=h, slices=slices)
                    cases.append(dict(src=lazy, op='lazy', kw=kw, data=d, start=start, history=h))
                cases.append(dict(src=lazy, op='parse', kw=kw, data=d, start=start))
            acc.check('lazy_rebuild', lazy, eager=eager, data=data, kw=kw, history=[i for i in range(cnt) if i % 2])
    # ---- anonymous members among the named ones ----
    for body, d in ANON:
        for order in ([0], [1, 0], [2, 1, 0, 2], [0, 0, 1]):
            acc.check('lazy_anon', 'LazyStruct' + body, eager='Struct' + body, data=d, order=order)
        for dd in (d, d + b'\x55', d[:-1]):
            cases.append(dict(src='LazyStruct' + body, op='parse', kw={}, data=dd, start=0))
    # unnamed measured elements directly under Lazy / LazyArray (no Renamed in between)
    for el, enc in [('PrefixedArray(Byte, VarInt)', b'\x02\x81\x01\x06'), ('PrefixedArray(Byte, Int24ul)', b'\x01\x01\x02\x03'), ('Prefixed(Byte, Bytes(2))', b'\x03ab\xcc')]:
        acc.check('lazy_single', 'Lazy(%s)' % el, eager=el, data=enc + b'\x09', start=0, kw={}, calls=2)
        acc.check('lazy_surrounding', 'Struct("a"/Byte, "b"/Lazy(%s), "c"/Byte)' % el, eager='Struct("a"/Byte, "b"/%s, "c"/Byte)' % el, data=b'\x01' + enc + b'\x09', kw={})
        for h in ([], [0], [2, 0], [1, 1, 0]):
            acc.check('lazyarray', 'LazyArray(3, %s)' % el, eager='Array(3, %s)' % el, data=enc * 3 + b'\x09', start=0, kw={}, history=h, slices=[(None, None, None)])
    # ---- stretched length prefixes (mutated but accepted inputs) ----
    for P, enc in STRETCH:
        for k in (0, 1, 3):
            for shape, wrap, nm in STRETCH_SHAPES:
                if 'Hex(' in shape and ('Struct(' in P or 'Array(' in P or 'Padded(' in P):
                    continue        # Hex displays integers, bytes and RawCopy results only
                lazy, eager = (shape % 'LazyStruct').replace('{P}', P), (shape % 'Struct').replace('{P}', P)
                d = wrap(enc(k))
                for h in histories(rng, nm, 2, 2):
                    acc.check('lazystruct', lazy, eager=eager, data=d, start=0, kw={}, history=h, mode=('index', 'name', 'attr', 'mixed')[len(h) % 4])
                    cases.append(dict(src=lazy, op='lazy', kw={}, data=d, start=0, history=h))
                cases.append(dict(src=lazy, op='parse', kw={}, data=d, start=0))
            lazy, eager = 'LazyArray(2, %s)' % P, 'Array(2, %s)' % P
            d = enc(k) + enc(0) + b'\x01'
            for h in histories(rng, 2, 2, 1):
                acc.check('lazyarray', lazy, eager=eager, data=d, start=0, kw={}, history=h, slices=[(None, None, None)])
                cases.append(dict(src=lazy, op='lazy', kw={}, data=d, start=0, history=h))
    # ---- Lazy ----
    for el in elems + TAIL:
        if 'this._.n' in el:
            continue
        n, f = rng.choice([1, 2, 3]), rng.random() < 0.5
        kw = dict(n=n, f=f)
        lazy = 'Lazy(%s)' % el
        data = canonical(rng, 'Struct("m0"/%s)' % el, [el], n, f, kw)
        if data is None:
            continue
        for d, start in [(data, 0), (data + b'\x01\x02', 0), (b'\x03\x04\x05' + data, 3), (G.mutate(rng, data), 0)]:
            acc.check('lazy_single', lazy, eager=el, data=d, start=start, kw=kw, calls=3)
            cases.append(dict(src=lazy, op='parse', kw=kw, data=d, start=start))
            if el not in TAIL:
                outer_l = 'Struct("a"/Lazy(%s), "b"/Byte, "c"/Lazy(%s), "d"/Byte)' % (el, el)
                outer_e = 'Struct("a"/%s, "b"/Byte, "c"/%s, "d"/Byte)' % (el, el)
                acc.check('lazy_surrounding', outer_l, eager=outer_e, data=d + b'\x07' + d + b'\x08', kw=kw)
                cases.append(dict(src=outer_l, op='parse', kw=kw, data=d + b'\x07' + d + b'\x08'))
                # the lazy value is read by a later member of the same parse, which then goes on reading
                mid_l = 'Struct("a"/Lazy(%s), "b"/Byte, "p"/Computed(lambda ctx: ctx.a()), "q"/Computed(lambda ctx: ctx.a()), "d"/Int16ub)' % el
                mid_e = 'Struct("a"/%s, "b"/Byte, "p"/Computed(this.a), "q"/Computed(this.a), "d"/Int16ub)' % el
                acc.check('lazy_surrounding', mid_l, eager=mid_e, data=d + b'\x07\x12\x34', kw=kw)
    # the model forces a Lazy where it is parsed, the implementation when the value is read: on inputs both reject
    # the failing member may differ (truncated data behind a skipped field), which the property does not speak about
    def project(m, i):
        if m[0] == 'RErr' and i[0] == 'RErr':
            return ('RErr',), ('RErr',)
        return m, i
    acc.corr(cases, 'lazy', project=project)
    return acc.result(
        rule='LazyStruct over member lists of 1..6 members drawn from fixed-size, context-sized (keyword context), length-prefixed and unsizable '
             'members (a read-to-end member only last) x the canonical encoding of a generated value, the same with trailing bytes, at a non-zero '
             'start offset, and mutated x every access history up to the exhaustive length given per size (all sequences with repetition; all '
             'k^k for k<=4, and for k<=6 in the thorough tier) plus longer random histories, by index, name, attribute and mixed, followed by '
             'keys/values/items/iteration/membership/==; LazyArray over every element class x counts (literal or from the keyword context) x '
             'histories and slices; Lazy over every member x repeated calls; rebuild from the lazy result after partial histories; enclosing '
             'Struct whose later Computed members read lazy members, then parses two more bytes. Each history also runs on the extracted '
             'model (lazy_run). distinct = (construct shape, history or oracle signature, outcome)',
        fragment='history theorems hold for every member list, input and access history of the model; equality with the eager parse is proved '
                 'for members satisfying the stated locality and size-exactness predicates',
        partial=['equality of lazily parsed values with the eager Struct/Array values is proved under hypotheses (Local, SizeExact) that are themselves '
                 'proved for a fragment of members and checked for the rest by the oracles',
                 'negative indices and out-of-range indices of LazyListContainer are not part of the property and are not exercised'])


def replay(payload):
    return C.generic_replay(payload)
