"""C20: result containers and display helpers are faithful."""
import copy, pickle, re, itertools
from . import common as C
import gen as G
import construct
from construct import Container, ListContainer
from construct.lib import hexdump, hexundump
import impl as I

KEYS = ['a', 'b', 'c', 'x', 'keys', 'items', 'values', 'update', 'copy', 'search', 'pop', 'clear', 'get', '_p', '_q', '__r']
LEAVES = [0, 1, -1, 255, True, False, None, 'a', '', b'ab', b'', 2 ** 70, 1.5]


def gen_tree(rng, depth, public_only=False):
    n = rng.randint(0, 4)
    ks = rng.sample([k for k in KEYS if not (public_only and k.startswith('_'))], n)
    d = {}
    for k in ks:
        r = rng.random()
        if depth > 0 and r < 0.3:
            d[k] = gen_tree(rng, depth - 1, public_only)
        elif depth > 0 and r < 0.45:
            d[k] = gen_list(rng, depth - 1, public_only)
        else:
            d[k] = rng.choice(LEAVES)
    return d


def gen_list(rng, depth, public_only):
    """elements: containers, leaves and (a quarter of the time) lists again: lists directly inside lists"""
    out = []
    for _ in range(rng.randint(0, 3)):
        r = rng.random()
        if r < 0.45:
            out.append(gen_tree(rng, depth, public_only))
        elif r < 0.7 and depth >= 0:
            out.append(gen_list(rng, depth - 1, public_only) if depth > -2 else [])
        else:
            out.append(rng.choice(LEAVES))
    return out


def public(v):
    if isinstance(v, dict):
        return {k: public(x) for k, x in dict.items(v) if not (isinstance(k, str) and k.startswith('_'))}
    if isinstance(v, list):
        return [public(x) for x in v]
    return v


def shuffled(rng, v):
    if isinstance(v, dict):
        ks = list(v)
        rng.shuffle(ks)
        return {k: shuffled(rng, v[k]) for k in ks}
    if isinstance(v, list):
        return [shuffled(rng, x) for x in v]
    return v


def with_private(rng, v):
    if isinstance(v, dict):
        d = {k: with_private(rng, x) for k, x in v.items() if not (k.startswith('_') and rng.random() < 0.5)}
        if rng.random() < 0.6:
            d[rng.choice(['_io', '_z', '__w'])] = rng.choice(LEAVES)
        for k in list(d):
            if k.startswith('_') and rng.random() < 0.5:
                d[k] = rng.choice(LEAVES)
        return d
    if isinstance(v, list):
        return [with_private(rng, x) for x in v]
    return v


def perturb(rng, v):
    """change one public thing somewhere"""
    v = copy.deepcopy(v)
    if isinstance(v, dict):
        pub = [k for k in v if not k.startswith('_')]
        r = rng.random()
        if pub and r < 0.4:
            k = rng.choice(pub)
            if isinstance(v[k], (dict, list)) and v[k] and rng.random() < 0.6:
                v[k] = perturb(rng, v[k])
            else:
                v[k] = ('changed', v[k]) if not isinstance(v[k], tuple) else 0
                v[k] = 'CHANGED'
        elif pub and r < 0.7:
            del v[rng.choice(pub)]
        else:
            v['extra'] = 1
        return v
    if isinstance(v, list):
        if v and rng.random() < 0.5:
            i = rng.randrange(len(v))
            v[i] = perturb(rng, v[i]) if isinstance(v[i], (dict, list)) else 'CHANGED'
        else:
            v.append('extra')
        return v
    return 'CHANGED'


@C.oracle('ceq')
def o_ceq(src, a, variants):
    A = I.to_container(a)
    if not (A == A) or (A != A):
        return 'container is not equal to itself'
    cs = [I.to_container(v) for v in variants]
    for v, B in zip(variants, cs):
        exp = public(a) == public(v)
        if (A == B) != exp:
            return '%r == %r is %r, plain-dict equality of the public entries is %r' % (a, v, A == B, exp)
        if (B == A) != exp:
            return 'equality is not symmetric: %r == %r is %r but the reverse is %r' % (v, a, B == A, A == B)
        if (A != B) == exp:
            return '!= is not the negation of == on %r, %r' % (a, v)
        if (A == dict(v) if not any(isinstance(x, (dict, list)) for x in v.values()) else exp) != exp:
            return 'comparison with a plain dict differs'
    for B, D in itertools.combinations(cs, 2):
        if A == B and B == D and not (A == D):
            return 'equality is not transitive'
    return None


@C.oracle('views')
def o_views(src, start, ops):
    c = I.to_container(start)
    ref = dict(start)
    for op in ops:
        if op[0] == 'set':
            c[op[1]] = op[2]
            ref[op[1]] = op[2]
        elif op[0] == 'setattr':
            setattr(c, op[1], op[2])
            ref[op[1]] = op[2]
        elif op[0] == 'del':
            if op[1] in ref:
                del c[op[1]]
                del ref[op[1]]
        elif op[0] == 'delattr':
            if op[1] in ref:
                delattr(c, op[1])
                del ref[op[1]]
        elif op[0] == 'update':
            Container.update(c, op[1])
            ref.update(op[1])
        elif op[0] == 'pop':
            if op[1] in ref:
                Container.pop(c, op[1])
                ref.pop(op[1])
        elif op[0] in ('copy', 'deepcopy', 'pickle'):
            c = {'copy': copy.copy, 'deepcopy': copy.deepcopy, 'pickle': lambda x: pickle.loads(pickle.dumps(x))}[op[0]](c)
        ks = list(ref)
        if list(Container.keys(c)) != ks or [k for k in c] != ks or list(dict.keys(c)) != ks:
            return 'after %r: keys %r / iteration %r, insertion order is %r' % (op, list(Container.keys(c)), [k for k in c], ks)
        if [v for _, v in Container.items(c)] != list(ref.values()) or list(Container.values(c)) != list(ref.values()):
            return 'after %r: items/values out of step with the entries' % (op,)
        for k in ks:
            try:
                av = getattr(c, k)
            except AttributeError:
                return 'after %r: attribute access to %r fails while key access works' % (op, k)
            if av is not c[k] and av != c[k]:
                return 'after %r: attribute %r is %r, key access gives %r' % (op, k, av, c[k])
        if len(c) != len(ref) or (c != Container(ref)):
            return 'after %r: container differs from its entries' % (op,)
    return None


def plain(v):
    if isinstance(v, dict):
        return {k: plain(x) for k, x in dict.items(v)}
    if isinstance(v, list):
        return [plain(x) for x in v]
    return v


def paths(v, prefix=()):
    """all mutable objects of a tree: (path, is_dict)"""
    out = [(prefix, isinstance(v, dict))]
    if isinstance(v, dict):
        for k, x in dict.items(v):
            if isinstance(x, (dict, list)):
                out += paths(x, prefix + (k,))
    else:
        for i, x in enumerate(v):
            if isinstance(x, (dict, list)):
                out += paths(x, prefix + (i,))
    return out


@C.oracle('independent')
def o_independent(src, tree, how):
    orig = I.to_container(tree)
    snap = plain(orig)
    cp = {'copy': copy.copy, 'copy_method': lambda x: Container.copy(x), 'deepcopy': copy.deepcopy, 'pickle': lambda x: pickle.loads(pickle.dumps(x))}[how](orig)
    if not (cp == orig) or plain(cp) != snap:
        return '%s is not equal to the original' % how
    if type(cp) is not type(orig):
        return '%s returned a %s' % (how, type(cp).__name__)
    for k in dict.keys(cp):
        try:
            if getattr(cp, k) is not cp[k]:
                return 'attribute view of the %s differs from its key view at %r' % (how, k)
        except AttributeError:
            return 'attribute access on the %s fails for %r' % (how, k)
    targets = paths(cp)
    if how in ('copy', 'copy_method'):
        targets = [t for t in targets if t[0] == ()]
    for path, isd in targets:
        cp2 = {'copy': copy.copy, 'copy_method': lambda x: Container.copy(x), 'deepcopy': copy.deepcopy, 'pickle': lambda x: pickle.loads(pickle.dumps(x))}[how](orig)
        o = cp2
        for s in path:
            o = o[s]
        if isinstance(o, dict):
            o['mutated'] = 1
            for k in list(dict.keys(o))[:1]:
                o[k] = 'MUT'
        else:
            o.append('mutated')
        if plain(orig) != snap:
            return 'mutating the %s at %r changed the original: %r' % (how, path, plain(orig))
    return None


def _mutables(v, path=()):
    """(path, object) of every mutable object reachable through containers, lists and dicts"""
    out = []
    if isinstance(v, dict):
        out.append((path, v))
        for k in list(dict.keys(v)):
            if not str(k).startswith('_'):
                out.extend(_mutables(dict.__getitem__(v, k), path + (k,)))
    elif isinstance(v, list):
        out.append((path, v))
        for i, x in enumerate(v):
            out.extend(_mutables(x, path + (i,)))
    elif isinstance(v, bytearray):
        out.append((path, v))
    return out


def _frozen(v):
    if isinstance(v, dict):
        return ('d', tuple((k, _frozen(dict.__getitem__(v, k))) for k in dict.keys(v) if not str(k).startswith('_')))
    if isinstance(v, list):
        return ('l', tuple(_frozen(x) for x in v))
    if isinstance(v, bytearray):
        return ('ba', bytes(v))
    return v


@C.oracle('independent_plain')
def o_independent_plain(src, how):
    """deepcopy / pickle of a container whose entries are plain lists, dicts, bytearrays or display dictionaries (what adapters and
    user code store): the copy shares no mutable object with the original, at any depth"""
    import harness as _H
    mk = lambda: eval(src, dict(_H.namespace(), bytearray=bytearray))
    f = {'deepcopy': copy.deepcopy, 'pickle': lambda x: pickle.loads(pickle.dumps(x))}[how]
    orig = mk()
    snap = _frozen(orig)
    cp = f(orig)
    if _frozen(cp) != snap:
        return '%s differs from the original' % how
    ids = {id(o) for _, o in _mutables(orig)}
    for path, o in _mutables(cp):
        if id(o) in ids:
            return 'the %s shares the %s at %r with the original' % (how, type(o).__name__, path)
    for path, o in _mutables(cp):
        if isinstance(o, dict):
            dict.__setitem__(o, 'mutated', 1)
        elif isinstance(o, list):
            o.append('mutated')
        else:
            o.extend(b'!')
        if _frozen(orig) != snap:
            return 'mutating the %s at %r changed the original' % (how, path)
    return None


PLAIN_SRCS = [
    'Container(a=[1, [2, 3]], b=dict(k=[4]), c=bytearray(b"xy"))',
    'Container(n=Container(l=[5], d=dict(z=[6])), lc=ListContainer([[7], dict(y=8), bytearray(b"z")]))',
    'Hex(RawCopy(Byte)).parse(b"\\x07")',
    'Struct("r"/Hex(RawCopy(Int16ub)), "h"/HexDump(RawCopy(Bytes(2)))).parse(b"\\x01\\x02\\x03\\x04")',
    'Struct("f"/FlagsEnum(Byte, a=1, b=2), "x"/Computed(lambda ctx: [1, [2]]), "y"/Computed(lambda ctx: dict(k=[3]))).parse(b"\\x03")',
    'ListContainer([Container(p=[1]), [Container(q=[2])]])',
]


def ref_search(v, pat, all_):
    items = []
    if isinstance(v, dict):
        it = list(dict.items(v))
        for k, x in it:
            if isinstance(x, (Container, ListContainer)):
                r = ref_search(x, pat, all_)
                if r is not None:
                    if all_:
                        items.extend(r)
                    else:
                        return r
            else:
                try:
                    m = pat.match(k)
                except Exception:
                    m = None
                if m:
                    if all_:
                        items.append(x)
                    else:
                        return x
    else:
        for x in v:
            if isinstance(x, (Container, ListContainer)):
                r = ref_search(x, pat, all_)
                if r is not None:
                    if all_:
                        items.extend(r)
                    else:
                        return r
    return items if all_ else None


@C.oracle('search_keys')
def o_search_keys(src, patterns):
    """keys that are not strings (integers, bytes, tuples: a regular expression cannot match them) are passed over, wherever they sit"""
    c = eval(src, dict(Container=Container, ListContainer=ListContainer))
    for p in patterns:
        pat = re.compile(p)
        srch = (lambda x, q: Container.search_all(x, q)) if isinstance(c, Container) else (lambda x, q: ListContainer.search_all(x, q))
        first = (lambda x, q: Container.search(x, q)) if isinstance(c, Container) else (lambda x, q: ListContainer.search(x, q))
        try:
            got_all, got_first = srch(c, p), first(c, p)
        except Exception as e:
            return 'search raised %s: %s' % (type(e).__name__, str(e)[:80])
        if got_all != ref_search(c, pat, True):
            return 'search_all(%r) gave %r, the matching entries in traversal order are %r' % (p, got_all, ref_search(c, pat, True))
        if got_first != ref_search(c, pat, False):
            return 'search(%r) gave %r, the first matching entry is %r' % (p, got_first, ref_search(c, pat, False))
    return None


@C.oracle('cyclic')
def o_cyclic(src, how):
    """containers that are reachable from their own entries (a child carrying a private back-link to its parent, a list that holds the
    container holding it): deepcopy and a pickle round-trip (every protocol) give an equal object with the same entries in the same
    order and the same shape (the link of the copy leads to the copy)"""
    c = Container(a=1, b=b'x')
    c.child = Container(v=2, w=[3])
    c.child._ = c
    c.z = 9
    l = ListContainer([1])
    h = Container(first=0, items_=l, last=2)
    l.append(h)
    f = {'deepcopy': copy.deepcopy}.get(how) or (lambda x: pickle.loads(pickle.dumps(x, int(how[6:]))))
    for name, obj in (('a child linked back to its parent', c), ('a list that holds its holder', h)):
        try:
            r = f(obj)
        except Exception as e:
            return '%s of %s raised %s' % (how, name, type(e).__name__)
        if type(r) is not Container or list(r.keys()) != list(obj.keys()):
            return '%s of %s has entries %r, the original %r' % (how, name, list(r.keys()), list(obj.keys()))
        if obj is c:
            if not (r == c and c == r) or r.child._ is not r or list(r.child.keys()) != ['v', 'w', '_'] or r.child.w != [3] or r.z != 9 or r['a'] != r.a:
                return '%s of %s: equal %r, link leads to the copy %r, child entries %r' % (how, name, r == c, r.child._ is r, list(r.child.keys()))
        else:
            if type(r.items_) is not ListContainer or r.items_[0] != 1 or r.items_[1] is not r or (r.first, r.last) != (0, 2):
                return '%s of %s: list %r, second element is the copy %r' % (how, name, type(r.items_).__name__, r.items_[1] is r)
    return None


@C.oracle('search')
def o_search(src, tree, patterns):
    c = I.to_container(tree)
    for p in patterns:
        pat = re.compile(p)
        if Container.search_all(c, p) != ref_search(c, pat, True):
            return 'search_all(%r) gave %r, the matching entries in traversal order are %r' % (p, Container.search_all(c, p), ref_search(c, pat, True))
        if Container.search(c, p) != ref_search(c, pat, False):
            return 'search(%r) gave %r, the first matching entry is %r' % (p, Container.search(c, p), ref_search(c, pat, False))
    return None


@C.oracle('listcontainer')
def o_listc(src, items):
    l = ListContainer(I.to_container(x) for x in items)
    if not (l == list(l)) or not (list(l) == l) or l != [I.to_container(x) for x in items]:
        return 'ListContainer does not equal the list of its elements'
    if len(l) != len(items) or [x for x in l] != list(l):
        return 'iteration differs'
    l2 = copy.deepcopy(l)
    if l2 != l:
        return 'deepcopy of a ListContainer differs'
    return None


@C.oracle('hexroundtrip')
def o_hex(src, datas, linesizes):
    for d in datas:
        for n in linesizes:
            t = hexdump(d, n)
            try:
                back = hexundump(t, n)
            except Exception as e:
                return 'hexundump(hexdump(<%d bytes>, %d), %d) raised %s' % (len(d), n, n, type(e).__name__)
            if back != d:
                return 'hexundump(hexdump(<%d bytes %r...>, %d), %d) returned %d bytes %r...' % (len(d), d[:8], n, n, len(back), back[:8])
    return None


def run(tier, seed):
    acc = C.Acc('C20', tier, seed)
    rng = C.rng_for(seed, 'C20')
    cases = []
    n = 150 if tier == 'quick' else 2000
    for _ in range(n):
        a = gen_tree(rng, 3)
        variants = [shuffled(rng, a), with_private(rng, a), shuffled(rng, with_private(rng, a)), perturb(rng, a), perturb(rng, with_private(rng, a)), gen_tree(rng, 2)]
        acc.check('ceq', 'Container', a=a, variants=variants)
        for v in variants:
            cases.append(dict(src='this.a == this.b', op='eval', kw=dict(a=a, b=v), containers=True))
            cases.append(dict(src='this.b != this.a', op='eval', kw=dict(a=a, b=v), containers=True))
        # views under operation sequences
        ops = []
        for _ in range(rng.randint(3, 10)):
            r = rng.random()
            k = rng.choice(KEYS)
            if r < 0.3:
                ops.append(('set', k, rng.choice(LEAVES)))
            elif r < 0.45:
                ops.append(('setattr', k, rng.choice(LEAVES)))
            elif r < 0.6:
                ops.append((rng.choice(['del', 'delattr', 'pop']), k))
            elif r < 0.75:
                ops.append(('update', {rng.choice(KEYS): rng.choice(LEAVES) for _ in range(2)}))
            else:
                ops.append((rng.choice(['copy', 'deepcopy', 'pickle']),))
        flat = {k: v for k, v in gen_tree(rng, 0).items()}
        acc.check('views', 'Container', start=flat, ops=ops)
        t = gen_tree(rng, 3, public_only=False)
        if len(acc.oracle_runs) >= 0 and not getattr(acc, '_plain_done', False):
            acc._plain_done = True
            for psrc in PLAIN_SRCS:
                for phow in ('deepcopy', 'pickle'):
                    acc.check('independent_plain', psrc, how=phow)
        for how in ('copy', 'copy_method', 'deepcopy', 'pickle'):
            acc.check('independent', 'Container', tree=t, how=how)
        # the same histories on the heap model
        tp = gen_tree(rng, 2)
        ps = paths(tp)
        cops = [('new', tp), ('copy', 0), ('deepcopy', 0), ('pickle', 0)]
        for _ in range(rng.randint(2, 8)):
            hd = rng.randrange(4)
            path, isd = rng.choice(ps)
            r = rng.random()
            if isd and r < 0.5:
                cops.append(('set', hd, list(path), rng.choice(KEYS[:8]), rng.choice([1, 'v', {'n': 1}, [1, 2]])))
            elif isd and r < 0.7:
                cops.append(('del', hd, list(path), rng.choice(KEYS[:8])))
            elif not isd:
                cops.append(('append', hd, list(path), rng.choice([1, 'v', {'n': 1}])))
            cops.append(('observe', rng.randrange(4)))
            cops.append(('eq', rng.randrange(4), rng.randrange(4)))
            if isd:
                cops.append(('attr', rng.randrange(4), list(path), rng.choice(KEYS[:8])))
        cops += [('observe', i) for i in range(4)]
        cases.append(dict(src='cops', op='cops', ops=cops))
        acc.check('search', 'Container', tree=gen_tree(rng, 3), patterns=['a', '.', 'k.*s', '^_', 'x|b', 'items$', '(', ''] if False else ['a', '.', 'k.*s', '^_', 'x|b', 'items$', ''])
        acc.check('listcontainer', 'ListContainer', items=[gen_tree(rng, 1) if rng.random() < 0.5 else rng.choice(LEAVES) for _ in range(rng.randint(0, 4))])
    for src in ['Container([("aa", 1), (5, 2), ("ab", 3), (b"k", 4), (("t", 1), 5), ("ac", Container([(7, 1), ("a9", 2), ("zz", 3)]))])',
                'Container([(0, "first"), ("a", 1), (None, 2), ("ba", 3)])',
                'ListContainer([Container([(1, 1), ("a", 2)]), Container([("a", 3), (2.5, 4), ("ab", 5)]), [Container([(b"a", 6), ("a", 7)])]])',
                'Container([("x", ListContainer([Container([(9, 9), ("ay", 1)]), 5])), (3, Container(a=4)), ("az", 2)])']:
        acc.check('search_keys', src, patterns=['a', 'ab', '.', 'z', 'a.', '^a$', ''])
    # entries at depth >= 1 whose keys are the names of the containers' own methods and attributes (a Container is its own __dict__)
    for nm in sorted(n for n in set(dir(Container)) | set(dir(ListContainer)) if not n.startswith('__')):
        for src in ['Container(inner=Container(%s=1, x=42), x=44)' % nm, 'ListContainer([Container(x=1), Container(%s=0, x=2)])' % nm,
                    'Container(a=ListContainer([Container(%s=5, xa=6)]), xb=Container(%s=7), xc=8)' % (nm, nm)]:
            acc.check('search_keys', src, patterns=['x', nm, '^x', '.'])
    for how in ['deepcopy'] + ['pickle%d' % k for k in range(pickle.HIGHEST_PROTOCOL + 1)]:
        acc.check('cyclic', 'Container', how=how)
    # hex helpers
    lens = list(range(0, 40)) + [63, 64, 65, 255, 256, 257, 1000]
    datas = [G.rand_bytes(rng, k) for k in lens] + [bytes(range(256)), b' ' * 33, b'\n' * 5, b'""")' * 3]
    sizes = list(range(1, 41)) if tier == 'thorough' else [1, 2, 3, 7, 8, 15, 16, 17, 32, 40]
    acc.check('hexroundtrip', 'hexdump', datas=datas, linesizes=sizes)
    acc.check('hexroundtrip', 'hexdump/long', datas=[bytes(65535), G.rand_bytes(rng, 65536), G.rand_bytes(rng, 70001)], linesizes=[16, 32, 7] if tier == 'thorough' else [16, 7])
    for d in datas[:50]:
        for nsz in (1, 3, 16, 40):
            cases.append(dict(src='hexdump', op='hexdump', data=d, linesize=nsz))
            cases.append(dict(src='hexundump', op='hexundump', data=hexdump(d, nsz).encode('latin1'), linesize=nsz))
    cases.append(dict(src='hexdump', op='hexdump', data=G.rand_bytes(rng, 65600), linesize=16))
    cases.append(dict(src='hexundump', op='hexundump', data=hexdump(G.rand_bytes(rng, 65600), 16).encode('latin1'), linesize=16))
    acc.corr(cases, 'containers')
    return acc.result(
        rule='generated nested key/value trees (public and private keys, keys shadowing keys/items/values/update/copy/search/pop/clear/get, nested '
             'lists) with their shuffled, private-key-perturbed and publicly-perturbed variants: == / != against plain-dict equality of the public '
             'entries, symmetry, transitivity; random set/setattr/del/delattr/pop/update/copy/deepcopy/pickle sequences with the three views '
             'checked after every step; copy / copy() / deepcopy / pickle followed by a mutation at EVERY nested object of the copy; the same '
             'histories on the heap model (extracted) vs the library; search/search_all vs a reference traversal; ListContainer; hexundump(hexdump(d,n),n) '
             'for lengths 0..39, 63..65, 255..257, 1000, 65535, 65536, 70001 x line sizes 1..40. distinct = (case, outcome)',
        fragment='equality theorems are about val_eqb (the model of Container.__eq__); the heap model gives deepcopy/pickle independence for any '
                 'mutation history; hexundump/hexdump is modelled at the character level',
        partial=[])


def replay(payload):
    return C.generic_replay(payload)
