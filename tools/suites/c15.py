"""C15: byte transforms invert exactly and match their definition."""
import zlib, gzip, bz2, lzma
from . import common as C
import gen as G
import construct
from construct import core


def ref_xor(key, d):
    if isinstance(key, int):
        return bytes(b ^ key for b in d)
    return bytes(b ^ key[i % len(key)] for i, b in enumerate(d))


def ref_rotl(amount, group, d):
    """rotate each group of `group` bytes left by `amount` bits, as one big-endian integer"""
    if len(d) % group:
        return None
    w = 8 * group
    a = amount % w
    out = b''
    for i in range(0, len(d), group):
        x = int.from_bytes(d[i:i + group], 'big')
        y = ((x << a) | (x >> (w - a))) & ((1 << w) - 1) if a else x
        out += y.to_bytes(group, 'big')
    return out


def res(f):
    try:
        return ('ok', f())
    except core.ConstructError as e:
        return ('reject', type(e).__name__)
    except Exception as e:
        return ('foreign', type(e).__name__)


@C.oracle('xor')
def o_xor(src, key, datas):
    c = C.get(src)
    for d in datas:
        exp = ref_xor(key, d)
        b = res(lambda: c.build(d))
        if b != ('ok', exp):
            return 'build(%r) with key %r gave %r, cyclic XOR gives %r' % (d, key, b, exp)
        p = res(lambda: c.parse(d))
        if p != ('ok', exp):
            return 'parse(%r) with key %r presented %r to the inner construct, cyclic XOR gives %r' % (d, key, p, exp)
        if res(lambda: c.parse(exp)) != ('ok', d):
            return 'parse does not invert build on %r' % (d,)
    return None


@C.oracle('rotl')
def o_rotl(src, amount, group, datas):
    c = C.get(src)
    for d in datas:
        exp_parse = ref_rotl(amount, group, d)
        exp_build = ref_rotl(-amount, group, d)
        p = res(lambda: c.parse(d))
        b = res(lambda: c.build(d))
        if exp_parse is None:
            if p[0] == 'ok' or b[0] == 'ok':
                return 'length %d is not a multiple of the group %d but parse/build gave %r / %r' % (len(d), group, p, b)
            if p != ('reject', 'RotationError') or b != ('reject', 'RotationError'):
                return 'length %d not a multiple of %d: %r / %r instead of RotationError' % (len(d), group, p, b)
            continue
        if p != ('ok', exp_parse):
            return 'parse(%r) amount %d group %d gave %r, rotating each group left gives %r' % (d, amount, group, p, exp_parse)
        if b != ('ok', exp_build):
            return 'build(%r) amount %d group %d gave %r, the inverse rotation gives %r' % (d, amount, group, b, exp_build)
        if res(lambda: c.parse(exp_build)) != ('ok', d):
            return 'parse does not invert build on %r (amount %d, group %d)' % (d, amount, group)
    return None


@C.oracle('swapped')
def o_swapped(src, inner, mode, values):
    c, i = C.get(src), C.get(inner)
    for v in values:
        try:
            raw = i.build(v)
        except core.ConstructError:
            continue
        exp = raw[::-1] if mode == 'bytes' else bytes(int('{:08b}'.format(b)[::-1], 2) for b in raw)
        b = res(lambda: c.build(v))
        if b != ('ok', exp):
            return 'build(%r) gave %r, the swapped encoding of %r is %r' % (v, b, raw, exp)
        p = res(lambda: c.parse(exp))
        if p[0] != 'ok' or not C.peq(p[1], v):
            return 'parse(%r) gave %r, expected %r' % (exp, p, v)
        p2 = res(lambda: c.parse(raw))
        q = res(lambda: i.parse(raw[::-1] if mode == 'bytes' else bytes(int('{:08b}'.format(x)[::-1], 2) for x in raw)))
        if p2 != q and not (p2[0] == 'ok' and q[0] == 'ok' and C.peq(p2[1], q[1])):
            return 'parse(%r) gave %r, the inner construct on the swapped bytes gives %r' % (raw, p2, q)
    return None


CODECS = {'zlib': (zlib.compress, zlib.decompress), 'gzip': (gzip.compress, gzip.decompress), 'bzip2': (bz2.compress, bz2.decompress), 'lzma': (lzma.compress, lzma.decompress)}


@C.oracle('compressed')
def o_compressed(src, codec, datas):
    c = C.get(src)
    comp, decomp = CODECS[codec]
    for d in datas:
        b = res(lambda: c.build(d))
        if b[0] != 'ok':
            return 'build(%r) failed: %r' % (d, b)
        try:
            if decomp(b[1]) != d:
                return 'what build emitted does not decompress to the inner bytes'
        except Exception as e:
            return 'what build emitted is not a %s stream (%s)' % (codec, type(e).__name__)
        if res(lambda: c.parse(b[1])) != ('ok', d):
            return 'parse does not invert build on %r' % (d,)
        if res(lambda: c.parse(comp(d))) != ('ok', d):
            return 'parse of an independently compressed stream does not give the data'
    return None


def _rev8(b):
    return int('{:08b}'.format(b)[::-1], 2)


@C.oracle('swapped_member')
def o_swapped_member(src, plain, obj, lo, hi):
    """a bit-swapped member of variable size among other members: build emits the plain bytes with bits lo..hi reversed per byte,
    and parse gives the value back (the wrapper consumes exactly the member)"""
    c, pc = C.get(src), C.get(plain)
    want = bytearray(pc.build(obj))
    for i in range(lo, len(want) if hi is None else hi):
        want[i] = _rev8(want[i])
    got = res(lambda: c.build(obj))
    if got != ('ok', bytes(want)):
        return 'build gives %r, the plain encoding with the member bit-swapped is %r' % (got, bytes(want))
    back = res(lambda: c.parse(bytes(want)))
    if back[0] != 'ok' or not C.peq(back[1], pc.parse(pc.build(obj))):
        return 'parse(build(%r)) gives %r' % (obj, back)
    return None


@C.oracle('xor_ctx')
def o_xor_ctx(src, klen, dlen, keys):
    """the key comes from the data: ONE construct object parses and builds records with different keys, one after another and
    as elements of an array; every record is the payload XOR its own key (cycled)"""
    c = C.get(src)
    arr = C.get('Array(%d, FixedSized(%d, %s))' % (len(keys), max(klen, 1) + dlen, src))       # ProcessXor reads to the end of its region
    recs, objs = [], []
    for i, k in enumerate(keys):
        kb = bytes([k]) if klen == 0 else bytes((k + j) & 255 for j in range(klen))
        payload = bytes((17 * i + 3 * j + 1) & 255 for j in range(dlen))
        enc = bytes(b ^ kb[j % len(kb)] for j, b in enumerate(payload))
        recs.append(kb + enc)
        objs.append(dict(k=(k if klen == 0 else kb), d=payload))
    for rnd in range(2):
        for r, o in zip(recs, objs):
            p = res(lambda: c.parse(r))
            if p[0] != 'ok' or p[1].d != o['d']:
                return 'parse(%r) gives %r, the payload XOR the key of that record is %r' % (r, p, o['d'])
            b = res(lambda: c.build(o))
            if b != ('ok', r):
                return 'build(%r) gives %r, expected %r' % (o, b, r)
    p = res(lambda: arr.parse(b''.join(recs)))
    if p[0] != 'ok' or [x.d for x in p[1]] != [o['d'] for o in objs]:
        return 'as array elements: %r, expected payloads %r' % (p, [o['d'] for o in objs])
    b = res(lambda: arr.build(objs))
    if b != ('ok', b''.join(recs)):
        return 'array build gives %r' % (b,)
    return None


@C.oracle('rotl_ctx')
def o_rotl_ctx(src, calls):
    """amount and group size come from the keyword context or from the data: ONE construct object rotates with different parameters one call
    after the other; every call gives the rotation the definition prescribes for ITS parameters"""
    c = C.get(src)
    for rnd in range(2):
        for a, g, d in calls:
            exp_parse, exp_build = ref_rotl(a, g, d), ref_rotl(-a, g, d)
            if 'this._params' in src:
                p, b = res(lambda: c.parse(d, n=a, g=g)), res(lambda: c.build(d, n=a, g=g))
            else:
                p = res(lambda: c.parse(bytes([a & 255, g]) + d))
                p = ('ok', p[1].d) if p[0] == 'ok' else p
                b = res(lambda: c.build(dict(a=a & 255, g=g, d=d)))
                b = ('ok', b[1][2:]) if b[0] == 'ok' else b
            if p != ('ok', exp_parse):
                return 'parse with amount %d, group %d of %r gives %r, the definition gives %r' % (a, g, d, p, exp_parse)
            if b != ('ok', exp_build):
                return 'build with amount %d, group %d of %r gives %r, the definition gives %r' % (a, g, d, b, exp_build)
    return None


@C.oracle('unit_transform')
def o_unit_transform(src, unit, datas):
    """Restreamed / Transformed with a byte-order swap declared over units of several bytes around a read-to-end construct: the wire
    bytes are the payload with every unit reversed, however many units there are, and parse gives the payload back"""
    c = C.get(src)
    for d in datas:
        want = b''.join(d[i:i + unit][::-1] for i in range(0, len(d), unit))
        b = res(lambda: c.build(d))
        if b != ('ok', want):
            return 'build(%r) gives %r, every %d-byte unit reversed is %r' % (d, b, unit, want)
        p = res(lambda: c.parse(want))
        if p[0] != 'ok' or bytes(p[1]) != d:
            return 'parse(%r) gives %r, expected %r' % (want, p, d)
    return None


@C.oracle('byteswapped_int')
def o_byteswapped_int(src, n, signed, swapped, values):
    """ByteSwapped(BytesInteger(n, signed, swapped)) is BytesInteger(n, signed, not swapped): same bytes, same values, same rejections"""
    a, b = C.get(src), construct.BytesInteger(n, signed=signed, swapped=not swapped)
    for v in values:
        x, y = res(lambda: a.build(v)), res(lambda: b.build(v))
        if x != y:
            return 'build(%r): %r, the other byte order written out gives %r' % (v, x, y)
        if x[0] == 'ok':
            p, q = res(lambda: a.parse(x[1])), res(lambda: b.parse(x[1]))
            if p != q:
                return 'parse(%r): %r, the other byte order written out gives %r' % (x[1], p, q)
    return None


SWAPPED_MEMBERS = [
    ('Struct("s"/BitsSwapped(PascalString(Byte, "ascii")), "t"/Int16ub)', 'Struct("s"/PascalString(Byte, "ascii"), "t"/Int16ub)', dict(s='hey', t=513), 0, 4),
    ('Sequence(BitsSwapped(VarInt), GreedyBytes)', 'Sequence(VarInt, GreedyBytes)', [300, b'rest'], 0, 2),
    ('Array(3, BitsSwapped(CString("ascii")))', 'Array(3, CString("ascii"))', ['a', 'bc', ''], 0, None),
    ('Struct("h"/Byte, "a"/BitsSwapped(Prefixed(Byte, GreedyBytes)), "b"/Byte)', 'Struct("h"/Byte, "a"/Prefixed(Byte, GreedyBytes), "b"/Byte)', dict(h=1, a=b'xyz', b=9), 1, 5),
    ('Struct("n"/Byte, "d"/BitsSwapped(Bytes(this.n)), "t"/Byte)', 'Struct("n"/Byte, "d"/Bytes(this.n), "t"/Byte)', dict(n=2, d=b'\x01\x80', t=3), 1, 3),
    ('Struct("a"/ByteSwapped(Int24ub), "b"/BitsSwapped(Int16ub), "c"/Byte)', 'Struct("a"/Int24ul, "b"/BitsSwapped(Int16ub), "c"/Byte)', dict(a=0x010203, b=0x0180, c=7), 0, 0),
]


def run(tier, seed):
    acc = C.Acc('C15', tier, seed)
    rng = C.rng_for(seed, 'C15')
    cases = []
    lens = [0, 1, 2, 3, 7, 8, 63, 64, 65, 100] if tier == 'quick' else list(range(0, 130))
    datas = [G.rand_bytes(rng, n) for n in lens] + [bytes(range(70, 150)), b'\xff' * 66]
    keys = list(range(256))
    bkeys = [bytes([rng.getrandbits(8) for _ in range(n)]) for n in (list(range(1, 81)) if tier == 'thorough' else [1, 2, 3, 5, 8, 16, 63, 64, 65, 66, 80])]
    bkeys += [bytes(n) for n in (1, 2, 63, 64, 65, 80)] + [bytes(64) + b'\x01', bytes(64) + bytes([7, 0, 9]), bytes(70) + b'\xaa', bytes(63) + b'\x01', b'\x00\x01', bytes(79) + b'\x05']
    for k in keys + bkeys:
        src = 'ProcessXor(%r, GreedyBytes)' % (k,)
        acc.check('xor', src, key=k, datas=datas if not isinstance(k, int) or k % 16 == 0 or tier == 'thorough' else datas[:6])
        for d in datas[:5] + datas[-2:]:
            cases.append(dict(src=src, op='parse', data=d))
            cases.append(dict(src=src, op='build', obj=d))
    # long payloads (around every power of two up to 64 KiB, lengths that are not multiples of the key length): the key is cycled to the end
    longs = [G.rand_bytes(rng, n) for n in (255, 256, 257, 511, 513, 1023, 1024, 1025, 1500, 2047, 2049, 4099, 8191, 16385, 32771, 65537)]
    for k in [0x5a, b'\x01\x02', b'\xff\x00\x7f', bytes(range(1, 8)), bytes(range(1, 65)), bytes(range(1, 66)), bytes(range(100, 200)), b'\x00\x00\x09']:
        src = 'ProcessXor(%r, GreedyBytes)' % (k,)
        acc.check('xor', src, key=k, datas=longs if tier == 'thorough' or not isinstance(k, int) else longs[:8])
        for d in (longs[7], longs[11]):
            cases.append(dict(src=src, op='parse', data=d))
            cases.append(dict(src=src, op='build', obj=d))
    for a, g in [(3, 1), (5, 3), (-7, 4), (12, 2), (8, 5), (63, 8)]:
        acc.check('rotl', 'ProcessRotateLeft(%d, %d, GreedyBytes)' % (a, g), amount=a, group=g, datas=[G.rand_bytes(rng, g * m) for m in (300, 1025, 4099)])
    cases.append(dict(src='Struct("k"/Byte, "d"/ProcessXor(this.k, GreedyBytes))', op='parse', data=b'\x5a\x01\x02\x03'))
    cases.append(dict(src='Struct("k"/Bytes(2), "d"/ProcessXor(this.k, Int32ub))', op='parse', data=b'\x5a\xa5\x01\x02\x03\x04'))
    for unit in (2, 3, 4):
        for tmpl in ('Restreamed(GreedyBytes, swapbytes, %d, swapbytes, %d, lambda n: n)', 'Struct("h"/Byte, "r"/Restreamed(GreedyBytes, swapbytes, %d, swapbytes, %d, lambda n: n))'):
            src = tmpl % (unit, unit)
            ds = [G.rand_bytes(rng, unit * k) for k in (0, 1, 2, 3, 5)]
            if src.startswith('Struct'):
                for d in ds:
                    cases.append(dict(src=src, op='build', obj=dict(h=1, r=d)))
                    cases.append(dict(src=src, op='parse', data=b'\x01' + d))
            else:
                acc.check('unit_transform', src, unit=unit, datas=ds)
                for d in ds:
                    cases.append(dict(src=src, op='build', obj=d))
                    cases.append(dict(src=src, op='parse', data=d))
    for n in (2, 3, 4, 8):
        for sg in (False, True):
            for sw in (False, True):
                lo, hi = G.rng_range(sg, n)
                vals = sorted(set([lo, hi, -1, -2, 0, 1, lo + 1, hi - 1, hi + 1, lo - 1, 0x0102030405060708 % (hi + 1)] + [G.edge_int(rng, lo, hi) for _ in range(6)]))
                src = 'ByteSwapped(BytesInteger(%d, signed=%s, swapped=%s))' % (n, sg, sw)
                acc.check('byteswapped_int', src, n=n, signed=sg, swapped=sw, values=vals)
                for v in vals[:8]:
                    cases.append(dict(src=src, op='build', obj=v))
    for nm in ('Int24sb', 'Int24sl', 'Int24ub', 'Int24ul'):
        acc.check('byteswapped_int', 'ByteSwapped(%s)' % nm, n=3, signed=nm[5] == 's', swapped=nm[6] == 'l', values=[-2, -1, 0, 1, 2 ** 23 - 1, -2 ** 23, 2 ** 24 - 2, 66051])
    amounts = list(range(-64, 65)) if tier == 'thorough' else list(range(-17, 18)) + [-64, -63, -33, -32, -24, 24, 31, 32, 33, 40, 63, 64]
    for g in range(1, 9):
        gd = [G.rand_bytes(rng, g * m) for m in (0, 1, 2, 3)] + [bytes(range(1, g * 2 + 1)), G.rand_bytes(rng, g * 2 + 1), G.rand_bytes(rng, max(1, g - 1))]
        for a in amounts:
            src = 'ProcessRotateLeft(%d, %d, GreedyBytes)' % (a, g)
            acc.check('rotl', src, amount=a, group=g, datas=gd)
            for d in gd[1:3] + gd[-2:-1]:
                cases.append(dict(src=src, op='parse', data=d))
                cases.append(dict(src=src, op='build', obj=d))
    for n in range(1, 17):
        vals = [G.rand_bytes(rng, n) for _ in range(6)] + [bytes(range(n)), bytes(n), b'\x80' + bytes(n - 1)]
        acc.check('swapped', 'ByteSwapped(Bytes(%d))' % n, inner='Bytes(%d)' % n, mode='bytes', values=vals)
        acc.check('swapped', 'BitsSwapped(Bytes(%d))' % n, inner='Bytes(%d)' % n, mode='bits', values=vals)
        ivals = [0, 1, 255, 256, 2 ** (8 * n) - 1, 2 ** (8 * n - 1), rng.getrandbits(8 * n)]
        acc.check('swapped', 'ByteSwapped(BytesInteger(%d))' % n, inner='BytesInteger(%d)' % n, mode='bytes', values=ivals)
        acc.check('swapped', 'BitsSwapped(BytesInteger(%d))' % n, inner='BytesInteger(%d)' % n, mode='bits', values=ivals)
        for v in vals[:3]:
            for w in ('ByteSwapped', 'BitsSwapped'):
                cases.append(dict(src='%s(Bytes(%d))' % (w, n), op='build', obj=v))
                cases.append(dict(src='%s(Bytes(%d))' % (w, n), op='parse', data=v))
    acc.check('swapped', 'ByteSwapped(Struct("a"/Byte, "b"/Int16ub))', inner='Struct("a"/Byte, "b"/Int16ub)', mode='bytes', values=[dict(a=1, b=0x0203)])
    acc.check('swapped', 'BitsSwapped(GreedyBytes)', inner='GreedyBytes', mode='bits', values=[b'', b'\x01', b'\x80\x0f\xf0'])
    for src, klen, dlen in [('Struct("k"/Byte, "d"/ProcessXor(this.k, Bytes(4)))', 0, 4), ('Struct("k"/Bytes(1), "d"/ProcessXor(this.k, Bytes(3)))', 1, 3),
                            ('Struct("k"/Bytes(2), "d"/ProcessXor(this.k, Bytes(5)))', 2, 5), ('Struct("k"/Bytes(3), "d"/ProcessXor(this.k, FixedSized(4, GreedyBytes)))', 3, 4)]:
        acc.check('xor_ctx', src, klen=klen, dlen=dlen, keys=[2, 3, 0, 255, 2, 90])
    rcalls = [(a, g, bytes(range(1, 2 * g + 1))) for a, g in [(12, 2), (12, 4), (4, 2), (4, 4), (4, 3), (13, 4), (13, 2), (8, 2), (8, 4), (8, 3), (20, 2), (20, 4), (36, 4), (36, 8), (3, 1), (3, 5), (1, 2), (1, 7)]]
    for src in ('ProcessRotateLeft(this._params.n, this._params.g, GreedyBytes)', 'Struct("a"/Byte, "g"/Byte, "d"/ProcessRotateLeft(this.a, this.g, GreedyBytes))'):
        acc.check('rotl_ctx', src, calls=rcalls)
        acc.check('rotl_ctx', src, calls=rcalls[::-1])
    # zero-size swapped / transformed regions read nothing
    for z in ('ByteSwapped(Bytes(0))', 'BitsSwapped(Bytes(0))', 'ByteSwapped(Struct())', 'BitsSwapped(Array(0, Byte))'):
        zsrc, zplain = 'Struct("z"/%s, "r"/GreedyBytes)' % z, 'Struct("z"/%s, "r"/GreedyBytes)' % z.split('(', 1)[1][:-1]
        for d in (b'hello', b''):
            cases.append(dict(src=zsrc, op='parse', data=d))
        acc.check('swapped_member', zsrc, plain=zplain, obj=dict(z=(b'' if 'Bytes' in z else ([] if 'Array' in z else {})), r=b'hello'), lo=0, hi=0)
    for src, plain, obj, lo, hi in SWAPPED_MEMBERS:
        acc.check('swapped_member', src, plain=plain, obj=obj, lo=lo, hi=hi)
        cases.append(dict(src=src, op='build', obj=obj))
        try:
            cases.append(dict(src=src, op='parse', data=C.get(src).build(obj)))
        except Exception:
            pass
    cdatas = [b'', b'a', bytes(100), bytes(range(256)) * 2, G.rand_bytes(rng, 300)]
    for codec in CODECS:
        acc.check('compressed', 'Compressed(GreedyBytes, %r)' % codec, codec=codec, datas=cdatas)
        acc.check('compressed', 'Prefixed(VarInt, Compressed(GreedyBytes, %r))' % codec, codec=codec, datas=[]) if False else None
    acc.corr(cases, 'transform')
    return acc.result(
        rule='ProcessXor with every integer key 0..255 and byte-string keys of length 1..80 (all-zero keys of length 1..80, keys with 63/64/70/79 '
             'leading zeros and a non-zero tail) x data lengths 0..100; ProcessRotateLeft amounts -64..64 (thorough; quick: -17..17 and selected) x '
             'groups 1..8 x data of 0..3 groups and non-multiples; ByteSwapped/BitsSwapped over Bytes(n)/BytesInteger(n), n = 1..16, and over variable-size members followed by other members; zlib/gzip/'
             'bzip2/lzma round trips. Oracle: independent Python definitions (cyclic XOR, big-integer rotation per group, slicing). distinct = (shape, outcome)',
        fragment='xor involution / shortcuts, byte and bit order involutions; rotation matches its bit-level definition for every amount and group '
                 'size (rot_group_spec), hence inverts (rotate_left_inverse, processrotl_parse_undoes_build), props/C15.v',
        partial=['Compressed: the codecs live outside the model (oracle only)'],
        assumptions=['stdlib zlib/gzip/bz2/lzma decompress(compress(d)) = d'])


def replay(payload):
    return C.generic_replay(payload)
