"""C12: documented construct equivalences hold extensionally."""
import io, enum
from . import common as C
import gen as G
import construct
from construct import core


def side(f):
    try:
        return ('ok', f())
    except core.ConstructError as e:
        _LASTPATH[0] = getattr(e, 'path', None)
        return ('reject',)
    except Exception as e:
        return ('foreign', type(e).__name__)


_LASTPATH = [None]


def plain(v):
    """display subclasses compare equal to the bare values; compare through plain types"""
    if isinstance(v, dict):
        return {k: plain(x) for k, x in v.items() if not str(k).startswith('_')}
    if isinstance(v, list):
        return [plain(x) for x in v]
    if isinstance(v, bool):
        return v
    if isinstance(v, int):
        return int(v)
    if isinstance(v, (bytes, bytearray)):
        return bytes(v)
    if isinstance(v, str):
        return str(v)
    return v


@C.oracle('law')
def o_law(src, right, datas, values, kw=None):
    a, b = C.get(src), C.get(right)
    kw = kw or {}
    renames = 'Renamed(' in right and ' / ' in src
    for d in datas:
        ra, rb = side(lambda: a.parse(d, **kw)), side(lambda: b.parse(d, **kw))
        if ra[0] == 'foreign' or rb[0] == 'foreign':
            if ra[0] != rb[0]:
                return 'parse(%r): left %r, right %r' % (d, ra, rb)
            continue
        if ra[0] != rb[0]:
            return 'parse(%r): left %s, right %s' % (d, ra if ra[0] != 'ok' else 'returns %r' % (ra[1],), rb if rb[0] != 'ok' else 'returns %r' % (rb[1],))
        if ra[0] == 'reject' and renames:
            # the two spellings of a renaming name the same members: the same failure is reported under the same path
            side(lambda: a.parse(d, **kw)); pa = _LASTPATH[0]
            side(lambda: b.parse(d, **kw)); pb = _LASTPATH[0]
            if pa != pb:
                return 'parse(%r) fails in %r on the left and in %r on the right' % (d, pa, pb)
        if ra[0] == 'ok' and not ((C.peq(ra[1], rb[1]) or C.peq(rb[1], ra[1]) or ra[1] != ra[1]) and repr(plain(ra[1])) == repr(plain(rb[1]))):
            return 'parse(%r): left %r, right %r' % (d, ra[1], rb[1])
    for v in values:
        ra, rb = side(lambda: a.build(v, **kw)), side(lambda: b.build(v, **kw))
        if ra[0] == 'foreign' or rb[0] == 'foreign':
            if ra[0] != rb[0]:
                return 'build(%r): left %r, right %r' % (v, ra, rb)
            continue
        if ra != rb:
            return 'build(%r): left %r, right %r' % (v, ra, rb)
    sa, sb = side(lambda: a.sizeof()), side(lambda: b.sizeof())
    return None


def all_bytes(n, rng, cap):
    if 256 ** n <= cap:
        return [x.to_bytes(n, 'big') for x in range(256 ** n)]
    out = set([bytes(n), b'\xff' * n, b'\x80' + bytes(n - 1), b'\x7f' + b'\xff' * (n - 1), bytes(n - 1) + b'\x80'])
    while len(out) < cap:
        out.add(G.rand_bytes(rng, n))
    return sorted(out)


def int_values(n, signed, rng):
    lo, hi = G.rng_range(signed, n)
    vs = set([lo, hi, lo - 1, hi + 1, 0, 1, -1, lo + 1, hi - 1, -lo if -lo <= hi + 1 else 0])
    for _ in range(30):
        vs.add(G.edge_int(rng, lo - 1, hi + 1))
    # values that are not ints but that int() would accept, and other wrong types: both sides must reject them alike
    return sorted(vs) + ['x', None, b'a', 3.7, 2.0, -1.5, '7', b'7', True, [1], float('nan'), construct.EnumIntegerString.new(1, 'one') if hasattr(construct, 'EnumIntegerString') else 'one']


def laws(rng, tier):
    out = []
    cap = 300 if tier == 'quick' else 70000
    widths = [1, 2, 3, 4, 5, 8, 16] if tier == 'quick' else list(range(1, 17))
    for n in widths:
        for s in (False, True):
            for sw in (False, True):
                L = 'BytesInteger(%d, signed=%s, swapped=%s)' % (n, s, sw)
                datas = all_bytes(n, rng, cap if n == 1 else min(cap, 400)) + [G.rand_bytes(rng, n - 1), G.rand_bytes(rng, n + 1)]
                vals = int_values(n, s, rng)
                out.append((L, 'Bitwise(BitsInteger(%d, signed=%s, swapped=%s))' % (8 * n, s, sw), datas, vals))
                out.append(('Bitwise(BitsInteger(%d, signed=%s, swapped=%s))' % (8 * n, s, sw), L, [], vals))
                # BitsInteger(8n) <--> Bytewise(BytesInteger(n)) inside a bit region
                out.append(('Bitwise(BitsInteger(%d, signed=%s, swapped=%s))' % (8 * n, s, sw), 'Bitwise(Bytewise(%s))' % L, datas[:200], vals))
    out.append(('Int24ul', 'ByteSwapped(Int24ub)', all_bytes(3, rng, cap) + [b'', b'ab', b'abcd'], int_values(3, False, rng)))
    out.append(('Int24ul', 'BytesInteger(3, swapped=True)', all_bytes(3, rng, cap), int_values(3, False, rng)))
    out.append(('Int24sl', 'ByteSwapped(Int24sb)', all_bytes(3, rng, cap), int_values(3, True, rng)))
    out.append(('Int24ub', 'ByteSwapped(BytesInteger(3, swapped=True))', all_bytes(3, rng, cap), int_values(3, False, rng)))
    for nm, n, s in G.INT_NAMES:
        e = nm[-1] if (nm.startswith('Int') and len(nm) > 3) else 'b'
        swapped = {'b': 'False', 'l': 'True', 'n': 'True'}[e]      # this platform is little-endian (checked by gen/Platform.v)
        out.append((nm, 'BytesInteger(%d, signed=%s, swapped=%s)' % (n, s, swapped), all_bytes(n, rng, cap if n == 1 else 300) + [bytes(n - 1)], int_values(n, s, rng)))
        fmt = ('>' if e == 'b' else '<' if e == 'l' else '=') + {(1, False): 'B', (1, True): 'b', (2, False): 'H', (2, True): 'h', (3, False): None, (3, True): None,
                                                                  (4, False): 'L', (4, True): 'l', (8, False): 'Q', (8, True): 'q'}.get((n, s), None) if n != 3 else None
        if n != 3:
            out.append((nm, 'FormatField(%r, %r)' % (fmt[0], fmt[1]), all_bytes(n, rng, 300), int_values(n, s, rng)))
    import struct
    for nm, n, code in G.FLOAT_NAMES:
        e = nm[-1] if nm.startswith('Float') else 'b'
        pats = all_bytes(n, rng, 300)
        fv = [G.float_val(code)(rng) for _ in range(40)] + [0.0, 1e300, 65520.0, 'x', None, 2 ** 70]
        out.append((nm, 'FormatField(%r, %r)' % ('>' if e == 'b' else '<' if e == 'l' else '=', code), pats, fv))
    for nm, bits in (('Bit', 1), ('Nibble', 4), ('Octet', 8)):
        out.append(('Bitwise(Array(%d, %s))' % (8 // bits, nm), 'Bitwise(Array(%d, BitsInteger(%d)))' % (8 // bits, bits), all_bytes(1, rng, 300), [[0] * (8 // bits), [1] * (8 // bits), [2 ** bits - 1] * (8 // bits), [2 ** bits] * (8 // bits)]))
    subs = ['Byte', 'Int16ub', 'Bytes(2)', 'Const(b"\\x01")', 'VarInt', 'PascalString(Byte, "ascii")', 'Struct("a"/Byte)']
    for x in subs:
        datas = [b'', b'\x01', b'\x00\x02', b'\x01\x02\x03', b'\xff\xff', b'\x02ab', b'\x80']
        vals = [None, 0, 1, 255, 256, b'ab', b'a', 'ab', dict(a=1), dict(), 70000]
        out.append(('Optional(%s)' % x, 'Select(%s, Pass)' % x, datas, vals))
        out.append(('Struct("f"/Flag, "v"/If(this.f, %s))' % x, 'Struct("f"/Flag, "v"/IfThenElse(this.f, %s, Pass))' % x,
                    [b'\x00' + d for d in datas] + [b'\x01' + d for d in datas], [dict(f=f, v=v) for f in (True, False) for v in vals] + [dict(f=False), dict(f=True), dict()]))
        out.append(('Struct("f"/Byte, "x"/If(this.f, %s), "t"/Byte)' % x, 'Struct("f"/Byte, "x"/IfThenElse(this.f, %s, Pass), "t"/Byte)' % x,
                    [], [dict(f=0, t=9), dict(f=1, t=9), dict(f=0, x=None, t=9), dict(t=9)]))
        out.append(('Struct("s"/Optional(%s), "t"/Byte)' % x, 'Struct("s"/Select(%s, Pass), "t"/Byte)' % x, [], [dict(t=9), dict(s=None, t=9)]))
        out.append(('PrefixedArray(Byte, %s)' % x, 'FocusedSeq("items", "count"/Rebuild(Byte, len_(this.items)), "items"/%s[this.count])' % (x if '(' not in x or x.startswith('Const') or True else x),
                    [bytes([k]) + d * k for k in (0, 1, 2, 3) for d in datas], [[], [v for v in vals[:1]], [1, 2], [b'ab', b'cd'], ['ab'], [dict(a=1)], None, 5]))
        out.append(('%s[2]' % x if '(' not in x else '(%s)[2]' % x, 'Array(2, %s)' % x, [d + d for d in datas], [[1, 2], [b'ab', b'cd'], [None, None], ['ab', 'a'], [dict(a=1), dict(a=2)], [1]]))
        out.append(('"n" / %s' % x if '(' not in x else '"n" / (%s)' % x, 'Renamed(%s, "n")' % x, datas, vals))
        for w in ('Hex', 'HexDump'):
            out.append(('%s(%s)' % (w, x), x, datas + [b'\xac\x02', b'\xff\xff\xff\x01'], vals))
    # renaming what is already named keeps both names (the inner one stays in error paths)
    for inner in ('Byte', 'Int16ub', 'Struct("q"/Byte)', 'Const(b"Z")'):
        out.append(('"b" / ("a" / %s)' % inner, 'Renamed(Renamed(%s, "a"), "b")' % inner, [b'', b'\x01', b'\x01\x02', b'Z'], [1, None, 'x', 300, dict(q=1)]))
        out.append(('Struct("s" / ("b" / ("a" / %s)), "t"/Byte)' % inner, 'Struct("s" / Renamed(Renamed(%s, "a"), "b"), "t"/Byte)' % inner, [b'', b'\x01', b'Z'], [dict(s=1, t=300), dict(s=None, t=1)]))
    for n in (0, 1, 3, 7):
        out.append(('Padding(%d)' % n, 'Padded(%d, Pass)' % n, [bytes(k) for k in range(0, n + 2)] + [b'\xff' * n], [None, b'', 5]))
    out.append(('Byte + Int16ub', 'Struct(Byte, Int16ub)', [b'\x01\x02\x03', b'\x01'], [dict(), None]))
    out.append(('"a"/Byte + "b"/Int16ub', 'Struct("a"/Byte, "b"/Int16ub)', [b'\x01\x02\x03', b'\x01'], [dict(a=1, b=2), dict(a=1), None]))
    out.append(('Byte >> Int16ub', 'Sequence(Byte, Int16ub)', [b'\x01\x02\x03', b'\x01'], [[1, 2], [1], None]))
    out.append(('Byte >> Int16ub >> Flag', 'Sequence(Byte, Int16ub, Flag)', [b'\x01\x02\x03\x01', b'\x01'], [[1, 2, True], [1]]))
    # operands that are composites of ANOTHER kind stay one member (only Struct + Struct and Sequence >> Sequence merge)
    d3 = [b'\x01\x02\x03', b'\x01\x02', b'\x01', b'\x01\x02\x03\x04']
    out.append(('Byte >> Struct("a"/Byte, "b"/Byte)', 'Sequence(Byte, Struct("a"/Byte, "b"/Byte))', d3, [[1, dict(a=2, b=3)], [1], [1, 2, 3]]))
    out.append(('Struct("a"/Byte, "b"/Byte) >> Byte', 'Sequence(Struct("a"/Byte, "b"/Byte), Byte)', d3, [[dict(a=2, b=3), 1], [1, 2, 3]]))
    out.append(('Byte >> Select(Int16ub, Byte)', 'Sequence(Byte, Select(Int16ub, Byte))', d3, [[1, 2], [1, 70000], [1, 2, 3]]))
    out.append(('Byte >> FocusedSeq("x", "x"/Byte, "y"/Const(b"\\x00"))', 'Sequence(Byte, FocusedSeq("x", "x"/Byte, "y"/Const(b"\\x00")))', d3 + [b'\x01\x02\x00'], [[1, 2], [1, 2, None]]))
    out.append(('Byte >> Union(None, "a"/Byte, "b"/Int16ub)', 'Sequence(Byte, Union(None, "a"/Byte, "b"/Int16ub))', d3, [[1, dict(a=2)], [1, dict(b=2)], [1, 2, 2]]))
    out.append(('Sequence(Byte, Byte) >> Byte', 'Sequence(Byte, Byte, Byte)', d3, [[1, 2, 3], [[1, 2], 3]]))
    out.append(('"h"/Byte + "q"/Sequence(Byte, Byte)', 'Struct("h"/Byte, "q"/Sequence(Byte, Byte))', d3, [dict(h=1, q=[2, 3]), dict(h=1)]))
    out.append(('"h"/Byte + Sequence("x"/Byte, "y"/Byte)', 'Struct("h"/Byte, Sequence("x"/Byte, "y"/Byte))', d3, [dict(h=1, x=2, y=3), dict(h=1)]))
    out.append(('Sequence("x"/Byte, "y"/Byte) + "h"/Byte', 'Struct(Sequence("x"/Byte, "y"/Byte), "h"/Byte)', d3, [dict(h=1, x=2, y=3), dict(h=1)]))
    out.append(('"h"/Byte + Union(None, "a"/Byte, "b"/Int16ub)', 'Struct("h"/Byte, Union(None, "a"/Byte, "b"/Int16ub))', d3, [dict(h=1, a=2), dict(h=1)]))
    out.append(('"h"/Byte + Select("a"/Int16ub, "b"/Byte)', 'Struct("h"/Byte, Select("a"/Int16ub, "b"/Byte))', d3, [dict(h=1), dict(h=1, a=2)]))
    out.append(('Struct("a"/Byte) + Struct("b"/Byte)', 'Struct("a"/Byte, "b"/Byte)', d3, [dict(a=1, b=2), dict(a=1)]))
    out.append(('"s"/Struct("a"/Byte) + "t"/Byte', 'Struct("s"/Struct("a"/Byte), "t"/Byte)', d3, [dict(s=dict(a=1), t=2), dict(a=1, t=2)]))
    # the equivalences also hold where the size is measured instead of parsed (lazy positions), and with context-dependent options
    exp = 'FocusedSeq("items", "count"/Rebuild(%s, len_(this.items)), "items"/Array(this.count, %s))'
    for cf, el, d in [('Byte', 'Int16ub', b'\x02\x00\x01\x00\x02\x63\x64'), ('VarInt', 'Int24ul', b'\x01\x01\x02\x03\x63\x64'), ('Byte', 'VarInt', b'\x02\x81\x01\x05\x63\x64'),
                      ('Int16ub', 'Byte', b'\x00\x03\x01\x02\x03\x63')]:
        pa, ex = 'PrefixedArray(%s, %s)' % (cf, el), exp % (cf, el)
        for w in ('FocusedSeq("b", "a"/Lazy(%s), "b"/Byte)', 'FocusedSeq("t", "s"/LazyStruct(%s, "b"/Byte), "t"/Byte)', 'FocusedSeq("t", "s"/LazyArray(1, %s), "t"/Byte)',
                  'FocusedSeq("t", "s"/LazyStruct("m"/%s, "b"/Byte), "t"/Byte)'):
            out.append((w % pa, w % ex, [d, d + b'\x07'], [None]))
    out.append(('Struct("le"/Flag, "v"/ByteSwapped(BytesInteger(3, swapped=this.le)))', 'Struct("le"/Flag, "v"/IfThenElse(this.le, Int24ub, Int24ul))',
                [b'\x00\x01\x02\x03', b'\x01\x01\x02\x03', b'\x01\x80\x00\x01'], [dict(le=True, v=0x010203), dict(le=False, v=0x010203), dict(le=False, v=0x800001)]))
    out.append(('Struct("le"/Flag, "v"/ByteSwapped(BytesInteger(2, signed=True, swapped=this.le)))', 'Struct("le"/Flag, "v"/IfThenElse(this.le, Int16sb, Int16sl))',
                [b'\x00\x80\x01', b'\x01\x80\x01'], [dict(le=True, v=-2), dict(le=False, v=-2), dict(le=False, v=258)]))
    out.append(('Struct("le"/Flag, "v"/Bitwise(BitsInteger(16, swapped=this.le)))', 'Struct("le"/Flag, "v"/IfThenElse(this.le, Int16ul, Int16ub))',
                [b'\x00\x80\x01', b'\x01\x80\x01'], [dict(le=True, v=258), dict(le=False, v=258)]))
    # options given by the call's keyword arguments, read from inside a structure (one and two levels down)
    for ref, wrap in [('this._params.sw', 'Struct("a"/Byte, "v"/%s)'), ('this._.sw', 'Struct("a"/Byte, "v"/%s)'), ('this._params.sw', 'Struct("a"/Byte, "s"/Struct("v"/%s))'),
                      ('this._._.sw', 'Struct("a"/Byte, "s"/Struct("v"/%s))'), ('this._root._.sw', 'Sequence(Byte, Sequence(%s))'), ('this._params.sw', 'Array(2, %s)')]:
        for n in (2, 3):
            for sg in (False, True):
                bi = 'BytesInteger(%d, signed=%s, swapped=%s)' % (n, sg, ref)
                bw = 'Bitwise(BitsInteger(%d, signed=%s, swapped=%s))' % (8 * n, sg, ref)
                by = 'Bitwise(Bytewise(%s))' % bi
                bs = 'ByteSwapped(BytesInteger(%d, signed=%s, swapped=(%s == False)))' % (n, sg, ref)
                ds = [b'\x07' + (b'\x80\x01\x02\x03' * 2)[:k] for k in (2 * n, n, 2 * n + 1)] + [(b'\x80\x01\x02\xff' * 2)[:2 * n]]
                for sw in (True, False):
                    for other in (bw, by, bs):
                        out.append((wrap % bi, wrap % other, ds, [], dict(sw=sw)))
    out.append(('BitStruct("a"/BitsInteger(3), "b"/Flag, "c"/Nibble)', 'Bitwise(Struct("a"/BitsInteger(3), "b"/Flag, "c"/Nibble))', all_bytes(1, rng, 300) + [b''],
                [dict(a=a, b=b, c=c) for a in (0, 7, 8) for b in (True, False) for c in (0, 15, 16)]))
    out.append(('BitStruct("a"/BitsInteger(12, signed=True), "b"/BitsInteger(4))', 'Bitwise(Struct("a"/BitsInteger(12, signed=True), "b"/BitsInteger(4)))',
                all_bytes(2, rng, 400), [dict(a=a, b=b) for a in (-2048, -1, 0, 2047, 2048) for b in (0, 15)]))
    out.append(('AlignedStruct(4, "a"/Byte, "b"/Int16ub)', 'Struct("a"/Aligned(4, Byte), "b"/Aligned(4, Int16ub))', [bytes(range(8)), bytes(7)], [dict(a=1, b=2)]))
    out.append(('Enum(Int16ub, E)', 'Enum(Int16ub, one=1, two=2, big=300)', [x.to_bytes(2, 'big') for x in range(0, 400)], ['one', 'two', 'big', 1, 300, 5, 'zzz', None]))
    out.append(('FlagsEnum(Byte, F)', 'FlagsEnum(Byte, a=1, b=2, c=8)', all_bytes(1, rng, 300), [dict(a=True), dict(a=True, c=True), 'a|b', 'c', 11, 'zz', dict(zz=True), None, '']))
    out.append(('FlagsEnum(Byte, Z)', 'FlagsEnum(Byte, none=0, read=1, write=2, rw=3, hi=128)', all_bytes(1, rng, 300),
                [dict(none=True), dict(read=True, none=True), 'none', 'none|read', 'rw', 'hi|none', 0, 3, 131, 'zz', dict(zz=True), None, '', dict()]))
    out.append(('Enum(Byte, Z)', 'Enum(Byte, none=0, read=1, write=2, rw=3, hi=128)', all_bytes(1, rng, 300), ['none', 'read', 'rw', 'hi', 0, 3, 7, 'zz', None]))
    out.append(('Bitwise(GreedyBytes)', 'Restreamed(GreedyBytes, bytes2bits, 1, bits2bytes, 8, lambda n: n // 8)', [b'', b'\x01', b'\xff\x80'], [b'', b'\x00\x01' * 4, b'\x01' * 3, b'\x02' * 8]))
    out.append(('Bitwise(Bytes(16))', 'Transformed(Bytes(16), bytes2bits, 2, bits2bytes, 2)', [b'\xa5\x5a', b'\x01', b'\x01\x02\x03'], [b'\x01' * 16, b'\x00' * 15, b'\x02' * 16]))
    return out


def run(tier, seed):
    acc = C.Acc('C12', tier, seed)
    rng = C.rng_for(seed, 'C12')
    cases = []
    for law in laws(rng, tier):
        L, R, datas, vals = law[:4]
        kw = law[4] if len(law) > 4 else {}
        if kw:
            acc.check('law', L, right=R, datas=datas, values=vals, kw=kw)
        else:
            acc.check('law', L, right=R, datas=datas, values=vals)
        if kw:
            continue        # options that are functions of the context are outside the model's syntax: side against side on the implementation only
        for d in datas[:40]:
            cases.append(dict(src=L, op='parse', data=d, kw=kw))
            cases.append(dict(src=R, op='parse', data=d, kw=kw))
        for v in vals[:20]:
            cases.append(dict(src=L, op='build', obj=v, kw=kw))
            cases.append(dict(src=R, op='build', obj=v, kw=kw))
    acc.corr(cases, 'laws')
    return acc.result(
        rule='every stated law (BytesInteger vs Bitwise(BitsInteger) and the Bytewise spelling for widths 1..16 x signed x swapped; Int24*, all Int*/'
             'Float*/Byte.. names vs BytesInteger and FormatField; Bit/Nibble/Octet; Optional, If, Padding, PrefixedArray, BitStruct, AlignedStruct, '
             'Enum/FlagsEnum from classes; Hex/HexDump; operator spellings; Bitwise vs Transformed/Restreamed) x all byte strings of the width '
             '(exhaustive for 1 byte; 2..3 bytes in thorough) +-1 byte x boundary values lo-1..hi+1 and wrong-typed values; side against side '
             'on the implementation, both sides against the extracted model. distinct = (law shape, outcome)',
        fragment='definitional laws are proved about the names REGENERATED from the library (gen/Names.v); FormatField vs BytesInteger, '
                 'ByteSwapped(Int24ub), Hex/HexDump are proved on the interpreters',
        partial=['BytesInteger(n) vs Bitwise(BitsInteger(8n)) for all n is decided by oracle + correspondence here; its bit-level lemma belongs to C10'])


def replay(payload):
    return C.generic_replay(payload)
