"""C11: context expressions mean what their Python spelling means, and print as it."""
import operator, itertools
from . import common as C
import harness as H
import construct
from construct import this, obj_, len_, sum_, min_, max_, abs_, list_

BIN = [('+', operator.add), ('-', operator.sub), ('*', operator.mul), ('/', operator.truediv), ('//', operator.floordiv),
       ('%', operator.mod), ('**', operator.pow), ('^', operator.xor), ('<<', operator.lshift), ('>>', operator.rshift),
       ('&', operator.and_), ('|', operator.or_), ('<', operator.lt), ('<=', operator.le), ('>', operator.gt),
       ('>=', operator.ge), ('==', operator.eq), ('!=', operator.ne)]
UN = [('-', operator.neg), ('+', operator.pos), ('~', operator.not_)]     # ~ is the documented logical not
FUNCS = [('len_', len), ('sum_', sum), ('min_', min), ('max_', max), ('abs_', abs)]


# a tree: ('leaf', source text, native lambda env -> value, is_expr) | ('bin', sym, l, r) | ('un', sym, t) | ('fn', name, t)
def leaves(family):
    if family == 'this':
        return [('leaf', 'this.a', lambda e: e['a'], True), ('leaf', 'this["b"]', lambda e: e['b'], True),
                ('leaf', 'this.l[1]', lambda e: e['l'][1], True), ('leaf', 'this.l[-1]', lambda e: e['l'][-1], True),
                ('leaf', 'this.l[0]', lambda e: e['l'][0], True)]
    return [('leaf', 'obj_', lambda e: e, True), ('leaf', 'obj_', lambda e: e, True)]


CONSTS = [-3, -1, 0, 1, 2, 3, True, False, 'ab', b'ab', -2.5]


def const_leaf(v):
    r = repr(v)
    if r.startswith('-'):
        r = '(%s)' % r        # the literal -3, not the unary minus applied to 3 (which binds looser than **)
    return ('leaf', r, lambda e, v=v: v, False)


def src_of(t):
    k = t[0]
    if k == 'leaf':
        return t[1]
    if k == 'bin':
        return '(%s %s %s)' % (src_of(t[2]), t[1], src_of(t[3]))
    if k == 'un':
        return '(%s%s)' % (t[1], src_of(t[2]))
    return '%s(%s)' % (t[1], src_of(t[2]))


def is_expr(t):
    k = t[0]
    if k == 'leaf':
        return t[3]
    if k == 'bin':
        return is_expr(t[2]) or is_expr(t[3])
    return True if k == 'fn' else is_expr(t[2])


def native(t, env):
    k = t[0]
    if k == 'leaf':
        return t[2](env)
    if k == 'bin':
        return dict(BIN)[t[1]](native(t[2], env), native(t[3], env))
    if k == 'un':
        return dict(UN)[t[1]](native(t[2], env))
    return dict(FUNCS)[t[1]](native(t[2], env))


def outcome(f):
    try:
        v = f()
        if isinstance(v, float) and v != v:
            return ('ok', 'nan')
        return ('ok', v, type(v).__name__ if not isinstance(v, (bool, int)) else 'int')
    except RecursionError:
        return ('exc', 'RecursionError')
    except Exception as e:
        return ('exc', type(e).__name__)


NS = dict(this=this, obj_=obj_, len_=len_, sum_=sum_, min_=min_, max_=max_, abs_=abs_, list_=list_)


@C.oracle('expr')
def o_expr(src, envs, family):
    """src: the Python spelling; evaluate natively and through the expression object, and through eval(repr)"""
    t = TREES[src]
    try:
        e = eval(src, dict(NS))
    except Exception:
        return None          # a constant-only sub-tree that Python itself rejects: not an expression object
    if not callable(e):
        return None
    r = repr(e)
    for env in envs:
        nat = outcome(lambda: native(t, env))
        got = outcome(lambda: e(env))
        if nat != got:
            return 'in context %r the expression object gives %r, the same operator tree natively gives %r' % (env, got, nat)
        if family == 'this':
            binding = dict(this=env, len_=len, sum_=sum, min_=min, max_=max, abs_=abs)
        else:
            binding = dict(obj_=env, len_=len, sum_=sum, min_=min, max_=max, abs_=abs)
        rep = outcome(lambda: eval(r, {'__builtins__': {}}, binding))
        if rep != got and not (rep[0] == 'exc' and got[0] == 'exc'):
            return 'repr %r evaluates to %r in context %r, the expression gives %r' % (r, rep, env, got)
        if rep[0] == 'exc' and got[0] == 'exc' and rep != got and 'SyntaxError' in rep[1]:
            return 'repr %r is not a Python expression' % r
    if str(e) != r and 'FuncPath' not in type(e).__name__:
        try:
            sv = outcome(lambda: eval(str(e), {'__builtins__': {}}, binding))
        except Exception:
            sv = None
        if sv != rep and not (sv and sv[0] == 'exc' and rep[0] == 'exc'):
            return 'str %r denotes %r but repr %r denotes %r' % (str(e), sv, r, rep)
    return None


# the three-argument calling convention predicate(obj, list, context) that RepeatUntil uses: obj_ and list_ in one expression,
# under every kind of node (unary, binary, function, item)
THREE = [
    ('-list_[-1]', lambda o, l, c: -l[-1]), ('+list_[0]', lambda o, l, c: +l[0]), ('~(list_[-1] == 255)', lambda o, l, c: not (l[-1] == 255)),
    ('-len_(list_)', lambda o, l, c: -len(l)), ('-(list_[0] + obj_)', lambda o, l, c: -(l[0] + o)), ('abs_(-list_[-1])', lambda o, l, c: abs(-l[-1])),
    ('-(obj_ - list_[-2])', lambda o, l, c: -(o - l[-2])), ('list_[-1] * -obj_', lambda o, l, c: l[-1] * -o),
    ('~(obj_ == list_[-1])', lambda o, l, c: not (o == l[-1])), ('-(-list_[0])', lambda o, l, c: -(-l[0])), ('+(-(+list_[1]))', lambda o, l, c: +(-(+l[1]))),
    ('sum_(list_) - obj_', lambda o, l, c: sum(l) - o), ('-sum_(list_)', lambda o, l, c: -sum(l)), ('max_(list_) == obj_', lambda o, l, c: max(l) == o),
    ('(list_[0] < obj_) & ~(list_[-1] > 3)', lambda o, l, c: (l[0] < o) & (not (l[-1] > 3))), ('-obj_', lambda o, l, c: -o), ('len_(list_) >= -(-2)', lambda o, l, c: len(l) >= 2),
]


@C.oracle('expr3')
def o_expr3(src, idx, envs):
    e = eval(src, dict(NS))
    nat_f = THREE[idx][1]
    for o, l, c in envs:
        ctx = construct.Container(c)
        nat = outcome(lambda: nat_f(o, l, c))
        got = outcome(lambda: e(o, l, ctx))
        if nat != got:
            return 'called as predicate(%r, %r, %r) the expression gives %r, natively %r' % (o, l, c, got, nat)
    return None


@C.oracle('repeat_pred')
def o_repeat_pred(src, data, want):
    try:
        got = list(C.get(src).parse(data))
    except Exception as e:
        return 'parse raised %s: %s' % (type(e).__name__, str(e)[:80])
    if got != want:
        return 'parse(%r) = %r, the predicate spelled in Python stops at %r' % (data, got, want)
    return None


TREES = {}


def gen_trees(rng, family, n, tier):
    ls = leaves(family)
    out = []

    def rand_tree(d):
        r = rng.random()
        if d == 0 or r < 0.15:
            if rng.random() < 0.6:
                return rng.choice(ls)
            return const_leaf(rng.choice(CONSTS))
        if r < 0.72:
            sym = rng.choice(BIN)[0]
            return ('bin', sym, rand_tree(d - 1), rand_tree(d - 1))
        if r < 0.95:
            usym, sub = rng.choice(UN)[0], rand_tree(d - 1)
            if usym == '~' and not is_expr(sub):
                sub = rng.choice(ls)      # ~ on a plain constant is Python's bitwise invert, not an expression object
            return ('un', usym, sub)
        if family == 'this':
            f = rng.choice(FUNCS)[0]
            if f != 'abs_':
                return ('fn', f, ('leaf', 'this.l', lambda e: e['l'], True))
            t = rand_tree(d - 1)
            return ('fn', f, t) if is_expr(t) else ('fn', f, rng.choice(ls))
        return ('un', '-', rand_tree(d - 1))
    # exhaustive depth <= 2 skeletons over a reduced leaf set: every binary operator with an expression on
    # either side and a constant on the other; every unary inside every binary on either side; unary of unary
    x = ls[0]
    for sym, _ in BIN:
        for c in (-3, 2, True, 'ab', b'ab'):
            out.append(('bin', sym, x, const_leaf(c)))
            out.append(('bin', sym, const_leaf(c), x))
        out.append(('bin', sym, x, ls[1]))
        for usym, _ in UN:
            out.append(('bin', sym, ('un', usym, x), const_leaf(2)))
            out.append(('bin', sym, const_leaf(2), ('un', usym, x)))
            out.append(('bin', sym, ('un', usym, x), ('un', usym, ls[1])))
            out.append(('un', usym, ('bin', sym, x, const_leaf(2))))
            for sym2, _ in BIN[:12]:
                out.append(('bin', sym2, ('bin', sym, ('un', usym, x), const_leaf(2)), ls[1]))
    for u1, _ in UN:
        out.append(('un', u1, x))
        for u2, _ in UN:
            out.append(('un', u1, ('un', u2, x)))
            for u3, _ in UN:
                out.append(('un', u1, ('un', u2, ('un', u3, x))))
    for _ in range(n):
        out.append(rand_tree(rng.choice([2, 3, 3, 4])))

    def formats(t):
        # 'ab' % <expression object> / b'ab' % <expression object>: Python's formatting operator accepts any object with
        # __getitem__ as a mapping and returns the string itself, so no expression object is ever built for this tree
        if t[0] == 'bin':
            if t[1] == '%' and t[2][0] == 'leaf' and not t[2][3] and t[2][1][:1] in ('"', "'", 'b'):
                return True
            return formats(t[2]) or formats(t[3])
        if t[0] in ('un', 'fn'):
            return formats(t[2])
        return False
    return [t for t in out if is_expr(t) and not formats(t)]


ATOMS = ["this['a']", "this['l'][-1]", "this['l'][1]", 'obj_', 'list_[0]', '3', '0', 'True', 'None', "'ab'", "b'x'"]
BINSYMS = [b[0] for b in BIN] + ['in']


def rand_text(rng, d):
    """expression text in Python's grammar over the printed vocabulary, with arbitrary (also missing) parentheses"""
    def atom(d):
        r = rng.random()
        if d == 0 or r < 0.45:
            return rng.choice(ATOMS)
        if r < 0.8:
            return '(' + expr(d - 1) + ')'
        if r < 0.9:
            return rng.choice(['len_', 'sum_', 'min_', 'max_', 'abs_']) + '(' + expr(d - 1) + ')'
        return atom(d - 1) + '[' + rng.choice(["'k'", '0', '-2', '1 + 1']) + ']'

    def factor(d):
        r = rng.random()
        if r < 0.3:
            return rng.choice(['-', '+', '- ', '+ ']) + factor(max(d - 1, 0))
        a = atom(d)
        if rng.random() < 0.25:
            a += ' ** ' + factor(max(d - 1, 0))
        return a

    def expr(d):
        parts = [factor(d)]
        for _ in range(rng.choice([0, 1, 1, 2, 3])):
            parts.append(rng.choice(BINSYMS))
            parts.append(factor(d))
        s = ' '.join(parts)
        if rng.random() < 0.15:
            s = 'not ' + s
        return s
    return expr(d)


def run(tier, seed):
    acc = C.Acc('C11', tier, seed)
    rng = C.rng_for(seed, 'C11')
    n = 1500 if tier == 'quick' else 30000
    cases = []
    envs_this = [dict(a=a, b=b, l=[a, b, 3]) for a in (-3, -1, 0, 1, 2) for b in (-2, 0, 1, 3)]
    envs_obj = [-3, -1, 0, 1, 2, 3]
    if tier == 'quick':
        envs_this = envs_this[::3]
    # sequence-valued contexts: + and * do not commute on bytes, strings and lists
    envs_this += [dict(a=b'cd', b=b'e', l=[b'x', b'y', b'z']), dict(a='cd', b='e', l=['x', 'y', 'z']), dict(a=[1, 2], b=[3], l=[[4], [5], [6]])]
    for family, envs in (('this', envs_this), ('obj_', envs_obj)):
        for t in gen_trees(rng, family, n if family == 'this' else n // 5, tier):
            src = src_of(t)
            if src in TREES:
                continue
            TREES[src] = t
            acc.check('expr', src, envs=envs, family=family)
            if family == 'this':
                for env in envs[:3]:
                    cases.append(dict(src=src, op='eval', kw=env))
    # constants that are containers, None or floats (no literal in the model's printer: oracle only), on either side of an operator;
    # item paths whose keys are falsy (0, False, '', b'') at any position
    oracle_only = set()
    x = leaves('this')[0]
    cenvs = [dict(a=(5,), b=1, l=[1]), dict(a=[1], b=2, l=[]), dict(a=2, b=0, l=[0]), dict(a=(1, 2), b=1, l=[1]), dict(a=None, b=1, l=[1]), dict(a=(), b=3, l=[2]), dict(a=2.5, b=1, l=[1])]
    for c in [(5,), (1, 2), (), [1], [], [1, 2], None, 2.5, {'k': 1}, ((1,),), (None,), ('%s',), ('a', 'b')]:
        for sym in ('==', '!=', '+', '*', '<', '>=', '&', '|'):
            for t in (('bin', sym, x, const_leaf(c)), ('bin', sym, const_leaf(c), x), ('un', '-', ('bin', sym, x, const_leaf(c))),
                      ('bin', '+', ('bin', sym, const_leaf(c), x), const_leaf(c))):
                src = src_of(t)
                if src not in TREES:
                    TREES[src] = t
                    oracle_only.add(src)
                    acc.check('expr', src, envs=cenvs, family='this')
    penvs = [{'l': [7, 8], '': 3, 0: 4, False: 4, b'': 5, 'm': {'': [9], 0: {'': 6}, 'k': 1}, 'z': 0}]
    for psrc, nat in [('this.l[0]', lambda e: e['l'][0]), ('this[""]', lambda e: e['']), ('this[0]', lambda e: e[0]), ('this[False]', lambda e: e[False]), ('this[b""]', lambda e: e[b'']),
                      ('this.m[""][0]', lambda e: e['m'][''][0]), ('this.m[0][""]', lambda e: e['m'][0]['']), ('this.m[0][""] + this.l[0]', lambda e: e['m'][0][''] + e['l'][0]),
                      ('this.l[this.z]', None), ('this.m.k', lambda e: e['m']['k']), ('this.l[0] * this[0] - this[""]', lambda e: e['l'][0] * e[0] - e[''])]:
        if nat is None:
            continue
        t = ('leaf', psrc, nat, True)
        if psrc not in TREES:
            TREES[psrc] = t
            oracle_only.add(psrc)
            acc.check('expr', psrc, envs=penvs, family='this')
    for psrc, penv, nat in [('obj_[0]', [5, 6], lambda e: e[0]), ('obj_[0][0]', [[5], 6], lambda e: e[0][0]), ('obj_[""]', {'': 1}, lambda e: e['']), ('-obj_[0] + obj_[1]', [5, 6], lambda e: -e[0] + e[1])]:
        if psrc not in TREES:
            TREES[psrc] = ('leaf', psrc, nat, True)
            oracle_only.add(psrc)
            acc.check('expr', psrc, envs=[penv], family='obj_')
    # nested scopes: this._.c through real Structs (parse-based)
    for src in ['Struct("c"/Computed(7), "s"/Struct("v"/Computed((this._.c + 1) * -this._.c)))',
                'Struct("c"/Byte, "s"/Struct("d"/Byte, "v"/Computed((-this._.c) ** this.d)), "w"/Computed(~this.s.v | this.c & 1))']:
        for b in range(0, 256, 17):
            cases.append(dict(src=src, op='parse', data=bytes([b % 7, (b >> 4) % 5])))

    # printing: the model's printer against tokenize(repr(e)), and the model of Python's grammar against ast.parse,
    # on what repr prints and on free-form expression text (random parenthesisation, unary and comparison mixes)
    pcases = []
    for src in list(TREES):
        if src in oracle_only:
            continue
        pcases.append(dict(src=src, op='expr_print'))
        try:
            e = eval(src, dict(NS))
        except Exception:
            continue
        if callable(e):
            pcases.append(dict(src=repr(e), op='expr_read'))
    seen = set()
    for _ in range(1500 if tier == 'quick' else 40000):
        t = rand_text(rng, rng.choice([1, 2, 2, 3, 3, 4]))
        if t not in seen:
            seen.add(t)
            pcases.append(dict(src=t, op='expr_read'))
    acc.corr(pcases, 'print')

    def proj(m, i):
        # foreign exception classes are compared as a class; values exactly
        f = lambda r: ('exc',) if r[0] == 'RErr' else r
        return (f(m), f(i)) if (m[0] == 'RErr' and i[0] == 'RErr') else (m, i)
    acc.corr(cases, 'eval', project=proj)
    envs3 = [(5, [1, 2, 5], dict(k=3)), (0, [255, 0], dict(k=0)), (-7, [3, -7], dict(k=2)), (255, [254, 255], dict(k=1)), (1, [1], dict(k=3)), (2, [], dict(k=0))]
    for i, (src, _) in enumerate(THREE):
        acc.check('expr3', src, idx=i, envs=envs3)
        # and as the predicate of a RepeatUntil, where the library itself makes the three-argument call
    for pred, data, want in [('-list_[-1] == -3', b'\x01\x02\x03\x04', [1, 2, 3]), ('~(list_[-1] != 2)', b'\x01\x02\x03', [1, 2]),
                             ('-len_(list_) == -2', b'\x09\x08\x07', [9, 8]), ('+obj_ == 4', b'\x01\x04\x05', [1, 4]),
                             ('abs_(-list_[0]) + obj_ == 10', b'\x03\x04\x07\x01', [3, 4, 7])]:
        acc.check('repeat_pred', 'RepeatUntil(%s, Byte)' % pred, data=data, want=want)
    return acc.result(
        rule='expression trees: every binary operator with an expression on either side and int/bool/str/bytes/negative constants on the '
             'other, every unary inside every binary on either side, unary chains to depth 3, two-level binary nests, plus PRNG trees of '
             'depth 2..4 with len_/sum_/min_/max_/abs_ and item paths; contexts a in {-3..2} x b in {-2..3}. Oracle: expr(ctx) vs the same '
             'operator tree evaluated natively, and eval(repr(expr)) / eval(str(expr)) with the placeholders bound. distinct = (tree shape, outcome)',
        fragment='operator table and symbol table regenerated from expr.py and proved equal to the Python data model table (finite, kernel-checked)',
        partial=['the printing theorem (PyExprFacts.C11_repr_denotes_the_expression) is about model/PyExpr.v: its printer is tied to repr() '
                 'through tokenize and its grammar to CPython through ast.parse by correspondence on every run; float, container and label '
                 'constants have no literal spelling in the model (inf/nan have none in Python) and stay with the oracle; '
                 'BinExpr(operator.contains) is outside the operator table of the property and its spelling is refuted (print_contains_refuted)'])


def replay(payload):
    for v in payload.get('violations', []):
        pass
    # the trees are regenerated from the source text for replays
    ok = True
    for v in payload.get('violations', []):
        if v['kind'] == 'expr':
            args = {k: C.unlit(x) for k, x in v['args'].items()}
            e = eval(v['src'], dict(NS))
            import ast
            bad = None
            for env in args['envs']:
                binding = dict(this=env, obj_=env, len_=len, sum_=sum, min_=min, max_=max, abs_=abs)
                got = outcome(lambda: e(env))
                nat = outcome(lambda: eval(v['src'].replace('~', ' not '), {'__builtins__': {}}, {**binding, 'this': _Attr(env)} if args['family'] == 'this' else binding))
                rep = outcome(lambda: eval(repr(e), {'__builtins__': {}}, binding))
                if got != rep and not (got[0] == 'exc' and rep[0] == 'exc'):
                    bad = 'repr %r gives %r, expression gives %r in %r' % (repr(e), rep, got, env)
                if got != nat and not (got[0] == 'exc' and nat[0] == 'exc'):
                    bad = 'native %r, expression %r in %r' % (nat, got, env)
            if bad:
                print('  ' + bad)
                ok = False
    return ok and C.generic_replay(dict(payload, violations=[]))


class _Attr(dict):
    def __getattr__(self, k):
        return self[k]
