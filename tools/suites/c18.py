"""C18: errors name the member in which parsing or building failed."""
import io
from . import common as C
import gen as G
import impl as I
import construct
from construct import core

NAMES = ['a', 'b', 'data', 'hdr']
LEAVES = [('Byte', 1, lambda g: g.randint(0, 255), 300), ('Int16ub', 2, lambda g: g.randint(0, 65535), -1), ('Bytes(2)', 2, lambda g: G.rand_bytes(g, 2), b'abc'),
          ('PaddedString(3, "ascii")', 3, lambda g: g.choice(['', 'ab']), 'toolong'), ('Int24ul', 3, lambda g: g.randint(0, 2 ** 24 - 1), 2 ** 24),
          ('Flag', 1, lambda g: g.random() < 0.5, None), ('Enum(Byte, x=1)', 1, lambda g: 'x', 'nolabel')]


class T:
    """a shape: src, value, bytes, and for every byte offset the names leading to the member that reads it"""

    def __init__(self, src, val, size, owner, leafpaths, unsized=None):
        self.src, self.val, self.size, self.owner, self.leafpaths = src, val, size, owner, leafpaths


def gen_shape(rng, depth):
    """-> (src, value, size, owner: list of name-paths per byte, bad: list of (path names, bad value builder))"""
    if depth == 0 or rng.random() < 0.25:
        src, size, gv, bad = rng.choice(LEAVES)
        v = gv(rng)
        return src, v, size, [()] * size, [((), bad)] if bad is not None else []
    kind = rng.choice(['Struct', 'Struct', 'Sequence', 'Array', 'Prefixed', 'FixedSized', 'IfThenElse', 'Switch'])
    if kind in ('Struct', 'Sequence'):
        k = rng.randint(1, 3)
        names = [rng.choice(NAMES) for _ in range(k)]
        if kind == 'Struct':
            seen = []
            names = [n for n in names if not (n in seen or seen.append(n))]
        subs = [gen_shape(rng, depth - 1) for _ in names]
        src = '%s(%s)' % (kind, ', '.join('%r / %s' % (n, s[0]) for n, s in zip(names, subs)))
        val = {n: s[1] for n, s in zip(names, subs)} if kind == 'Struct' else [s[1] for s in subs]
        owner, bads = [], []
        for i, (n, s) in enumerate(zip(names, subs)):
            owner += [(n,) + o for o in s[3]]
            for path, bad in s[4]:
                bads.append(((n,) + path, ((i if kind == 'Sequence' else n), bad)))
        return src, val, sum(s[2] for s in subs), owner, [(p, b) for p, b in bads]
    if kind == 'Array':
        s = gen_shape(rng, depth - 1)
        cnt = rng.choice([1, 2])
        vals = [s[1] for _ in range(cnt)]
        bads = [(path, (0, bad)) for path, bad in s[4]]
        return 'Array(%d, %s)' % (cnt, s[0]), vals, s[2] * cnt, s[3] * cnt, bads
    if kind == 'Prefixed':
        s = gen_shape(rng, depth - 1)
        # the delimiter reads the whole region before the inner construct runs: every byte of it is read by the delimiter
        bads = [(path, ('same', bad)) for path, bad in s[4]]
        return 'Prefixed(Byte, %s)' % s[0], s[1], 1 + s[2], [()] * (1 + s[2]), bads
    if kind == 'FixedSized':
        s = gen_shape(rng, depth - 1)
        bads = [(path, ('same', bad)) for path, bad in s[4]]
        return 'FixedSized(%d, %s)' % (s[2] + 1, s[0]), s[1], s[2] + 1, [()] * (s[2] + 1), bads
    if kind == 'IfThenElse':
        s = gen_shape(rng, depth - 1)
        bads = [(path, ('same', bad)) for path, bad in s[4]]
        return 'IfThenElse(True, %s, Byte)' % s[0], s[1], s[2], s[3], bads
    s = gen_shape(rng, depth - 1)
    bads = [(path, ('same', bad)) for path, bad in s[4]]
    return 'Switch(1, {1: %s, 2: Byte})' % s[0], s[1], s[2], s[3], bads


def set_bad(v, step):
    """replace the designated leaf value by the bad one, following the recorded steps"""
    key, inner = step
    if key == 'same':
        return set_bad(v, inner) if isinstance(inner, tuple) and len(inner) == 2 and (isinstance(inner[0], (str, int)) and (inner[0] == 'same' or isinstance(v, (dict, list)))) else inner
    if isinstance(v, dict):
        d = dict(v)
        d[key] = set_bad(v[key], inner) if isinstance(inner, tuple) and len(inner) == 2 and isinstance(v[key], (dict, list)) else (set_bad(v[key], inner) if isinstance(inner, tuple) and len(inner) == 2 and inner[0] == 'same' else inner)
        return d
    l = list(v)
    l[key] = set_bad(v[key], inner) if isinstance(inner, tuple) and len(inner) == 2 and isinstance(v[key], (dict, list)) else (set_bad(v[key], inner) if isinstance(inner, tuple) and len(inner) == 2 and inner[0] == 'same' else inner)
    return l


def path_of(e):
    parts = e.path.split(' -> ') if e.path is not None else None
    return parts


@C.oracle('trunc_path')
def o_trunc_path(src, obj, owner):
    c = C.get(src)
    data = c.build(obj)
    if len(data) != len(owner):
        return None       # the layout bookkeeping of the generator does not apply (should not happen)
    for k in range(len(data)):
        try:
            I.to_val(c.parse(data[:k]))
            return 'the %d-byte prefix was accepted' % k
        except core.ConstructError as e:
            got = path_of(e)
        exp = ['(parsing)'] + list(owner[k])
        if got != exp:
            return 'truncated at byte %d of %r: path %r, the member whose extent contains that offset is %r' % (k, data, ' -> '.join(got) if got else got, ' -> '.join(exp))
    return None


@C.oracle('build_path')
def o_build_path(src, obj, names):
    c = C.get(src)
    try:
        c.build(obj)
        return None        # the substituted value happened to be buildable
    except core.ConstructError as e:
        got = path_of(e)
    except Exception as e:
        return None
    exp = ['(building)'] + list(names)
    if got != exp:
        return 'unbuildable value in member %r: path %r, expected %r' % ('.'.join(names), ' -> '.join(got) if got else got, ' -> '.join(exp))
    return None


@C.oracle('sizeof_path')
def o_sizeof_path(src, kw, names):
    c = C.get(src)
    try:
        c.sizeof(**kw)
        return 'sizeof answered although member %r has no size' % ('.'.join(names),)
    except core.SizeofError as e:
        got = path_of(e)
    except Exception as e:
        return 'sizeof raised %s' % type(e).__name__
    exp = ['(sizeof)'] + list(names)
    if got != exp:
        return 'unsized member %r: path %r, expected %r' % ('.'.join(names), ' -> '.join(got) if got else got, ' -> '.join(exp))
    return None


SIZEOF_CASES = [
    ('Struct("a"/Byte, "b"/Struct("c"/VarInt))', {}, ['b', 'c']),
    ('Struct("data"/Struct("data"/Struct("lo"/CString("ascii"))))', {}, ['data', 'data', 'lo']),
    ('Struct("a"/Array(2, Struct("b"/GreedyBytes)))', {}, ['a', 'b']),
    ('Struct("hdr"/Struct("n"/Byte), "extra"/If(this.missing, Byte))', {}, ['extra']),
    ('Struct("hdr"/Struct("body"/Struct("length"/IfThenElse(this.nokey, Byte, Int16ub))))', {}, ['hdr', 'body', 'length']),
    ('Struct("x"/Sequence("y"/Bytes(this.nokey)))', {}, ['x', 'y']),
    ('Struct("p"/Prefixed(Byte, Struct("q"/VarInt)))', {}, ['p', 'q']),
    ('Struct("f"/FixedSized(this.nokey, GreedyBytes))', {}, ['f']),
    ('Struct("s"/Switch(this.nokey, {1: Byte}))', {}, ['s']),
    ('Sequence("a"/Byte, "b"/Padded(this.nokey, Byte))', {}, ['b']),
    ('Struct("a"/Aligned(4, Struct("z"/ZigZag)))', {}, ['a', 'z']),
    ('Struct("u"/Union(None, "v"/Byte))', {}, ['u']),
    # the branch is known while sizing and the unsized member is BELOW it: the path goes down to that member
    ('Struct("payload"/Switch(1, {1: Struct("name"/CString("ascii"))}))', {}, ['payload', 'name']),
    ('Struct("p"/Switch(this._params.k, {1: Struct("n"/VarInt)}, default=Struct("d"/GreedyBytes)))', dict(k=1), ['p', 'n']),
    ('Struct("p"/Switch(this._params.k, {1: Struct("n"/VarInt)}, default=Struct("d"/GreedyBytes)))', dict(k=5), ['p', 'd']),
    ('Struct("p"/IfThenElse(this._params.f, Struct("n"/VarInt), Byte))', dict(f=True), ['p', 'n']),
    ('Struct("p"/IfThenElse(this._params.f, Byte, Struct("e"/Struct("z"/ZigZag))))', dict(f=False), ['p', 'e', 'z']),
    ('Struct("a"/Array(2, Switch(2, {2: Struct("q"/Prefixed(Byte, Struct("r"/GreedyBytes)))})))', {}, ['a', 'q', 'r']),
    ('Struct("o"/Aligned(4, Switch(0, {}, default=Struct("i"/VarInt))))', {}, ['o', 'i']),
    ('Struct("l"/Prefixed(VarInt, Byte, includelength=True))', {}, ['l']),
]

# operations that size a part of the construct WHILE parsing / building: the error keeps the operation and the member path
MIXED_CASES = [
    ('Struct("rec"/Struct("body"/Prefixed(VarInt, GreedyBytes, includelength=True)))', b'\x05abcd', dict(rec=dict(body=b'abc')), ['rec', 'body']),
    ('Struct("a"/Array(1, Struct("p"/Prefixed(ZigZag, Bytes(1), includelength=True))))', b'\x04a', dict(a=[dict(p=b'a')]), ['a', 'p']),
    ('Struct("h"/Hex(Struct("v"/VarInt)))', b'\x05', None, ['h']),
    ('Struct("x"/Struct("l"/Lazy(Prefixed(VarInt, GreedyBytes, includelength=True))))', b'\x03ab', None, ['x', 'l']),
]


def run(tier, seed):
    acc = C.Acc('C18', tier, seed)
    rng = C.rng_for(seed, 'C18')
    cases = []
    n = 300 if tier == 'quick' else 5000
    for _ in range(n):
        src, val, size, owner, bads = gen_shape(rng, rng.choice([1, 2, 2, 3, 3]))
        try:
            data = C.get(src).build(val)
        except Exception:
            continue
        acc.check('trunc_path', src, obj=val, owner=[list(o) for o in owner])
        for k in range(len(data)):
            cases.append(dict(src=src, op='parse', data=data[:k]))
        cases.append(dict(src=src, op='parse', data=G.mutate(rng, data)))
        for path, step in bads[:4]:
            try:
                bv = set_bad(val, step) if isinstance(step, tuple) else step
            except Exception:
                continue
            acc.check('build_path', src, obj=bv, names=list(path))
            cases.append(dict(src=src, op='build', obj=bv))
    for src, kw, names in SIZEOF_CASES:
        acc.check('sizeof_path', src, kw=kw, names=names)
        cases.append(dict(src=src, op='sizeof', kw=kw))
    for src, data, obj, names in MIXED_CASES:
        acc.check('parse_path', src, data=data, names=names)
        cases.append(dict(src=src, op='parse', data=data))
        if obj is not None:
            acc.check('build_path', src, obj=obj, names=names)
            cases.append(dict(src=src, op='build', obj=obj))
    # wrong number of elements (too few, too many) at any depth, constant and computed counts
    for src, obj, names in [('Struct("hdr"/Struct("items"/Array(2, Byte)))', dict(hdr=dict(items=[1, 2, 3])), ['hdr', 'items']),
                            ('Struct("hdr"/Struct("items"/Array(2, Byte)))', dict(hdr=dict(items=[1])), ['hdr', 'items']),
                            ('Struct("n"/Byte, "a"/Array(this.n, Int16ub))', dict(n=1, a=[1, 2]), ['a']),
                            ('Struct("n"/Byte, "a"/Array(this.n, Int16ub))', dict(n=3, a=[1, 2]), ['a']),
                            ('Struct("p"/Prefixed(Byte, Struct("v"/Array(1, Struct("x"/Byte)))))', dict(p=dict(v=[dict(x=1), dict(x=2)])), ['p', 'v']),
                            ('Sequence("a"/Array(0, Byte), "b"/Byte)', [[5], 1], ['a']),
                            ('Struct("s"/Switch(1, {1: "arr"/Array(2, Byte)}))', dict(s=[1, 2, 3, 4]), ['s', 'arr']),
                            ('Struct("l"/LazyArray(2, Byte))', dict(l=[1, 2, 3]), ['l']),
                            ('Struct("o"/Struct("i"/Array(3, "e"/Byte)))', dict(o=dict(i=[1, 2, 3, 4, 5])), ['o', 'i'])]:
        acc.check('build_path', src, obj=obj, names=names)
        cases.append(dict(src=src, op='build', obj=obj))
    # a failing field under a wrapper that stands between two names: the wrapper neither drops the names around it nor adds one
    inner = 'Struct("kind"/Byte, "size"/Int16ub)'
    for w, mk, parse_too in [('RawCopy(%s)', 'value', True), ('Prefixed(Byte, %s)', None, False), ('FixedSized(8, %s)', None, False), ('Padded(8, %s)', None, False),
                             ('Aligned(4, %s)', None, True), ('NullTerminated(%s)', None, False), ('Bitwise(Bytewise(%s))', None, False), ('Pointer(2, %s)', None, False),
                             ('ByteSwapped(%s)', None, False), ('IfThenElse(True, %s, Pass)', None, True), ('Switch(1, {1: %s})', None, True), ('Lazy(%s)', None, False),
                             ('Hex(%s)', None, True), ('Default(%s, None)', None, True), ('Array(1, %s)', 'list', True), ('ProcessXor(1, %s)', None, False),
                             ('LazyBound(lambda: %s)', None, True), ('NullStripped(%s)', None, False), ('Compressed(%s, "zlib")', None, False), ('RawCopy(RawCopy(%s))', 'value2', True),
                             ('Prefixed(Byte, RawCopy(%s))', 'value', False), ('RawCopy(Prefixed(Byte, %s))', 'value', False)]:
        wsrc = 'Struct("hdr"/Struct("k"/Byte, "fields"/%s), "t"/Byte)' % (w % inner)
        for size, good in ((70000, False), (513, True)):
            v = dict(kind=1, size=size)
            v = dict(value=v) if mk == 'value' else dict(value=dict(value=v)) if mk == 'value2' else [v] if mk == 'list' else v
            obj = dict(hdr=dict(k=1, fields=v), t=2)
            if not good:
                acc.check('build_path', wsrc, obj=obj, names=['hdr', 'fields', 'size'])
                cases.append(dict(src=wsrc, op='build', obj=obj))
            elif parse_too:
                d = C.get(wsrc).build(obj)
                acc.check('parse_path', wsrc, data=d[:3], names=['hdr', 'fields', 'size'])
                cases.append(dict(src=wsrc, op='parse', data=d[:3]))
    # a delimited window that is wholly present but too small for what it holds: the member inside the window that ran out is named
    win = 'Struct("a"/Byte, "b"/Int16ub, "c"/Byte)'
    for wsrc, d, names in [('Struct("n"/Byte, "body"/FixedSized(this.n, %s))' % win, b'\x02\x01\x00\x02\x03\xff', ['body', 'b']),
                           ('Struct("n"/Byte, "body"/FixedSized(this.n, %s))' % win, b'\x03\x01\x00\x02\x03\xff', ['body', 'c']),
                           ('Struct("n"/Byte, "body"/FixedSized(this.n, %s))' % win, b'\x00\x01\x00\x02\x03\xff', ['body', 'a']),
                           ('Struct("body"/FixedSized(2, %s), "t"/Byte)' % win, b'\x01\x00\x02\x03\xff', ['body', 'b']),
                           ('Struct("p"/Prefixed(Byte, %s), "t"/Byte)' % win, b'\x02\x01\x00\x02\x03\xff', ['p', 'b']),
                           ('Struct("p"/Prefixed(VarInt, %s), "t"/Byte)' % win, b'\x03\x01\x00\x02\x03\xff', ['p', 'c']),
                           ('Struct("s"/NullTerminated(%s), "t"/Byte)' % win, b'\x01\x07\x00\x03\xff', ['s', 'b']),
                           ('Struct("s"/NullStripped(%s))' % win, b'\x01\x07\x02\x00\x00', ['s', 'c']),
                           ('Struct("o"/Struct("w"/FixedSized(1, Array(2, "e"/Byte))))', b'\x01\x02\x03', ['o', 'w', 'e']),
                           ('Struct("h"/Byte, "x"/Bitwise(FixedSized(8, Struct("u"/Nibble, "v"/Octet))))', b'\x01\x02\x03', ['x', 'v'])]:
        acc.check('parse_path', wsrc, data=d, names=names)
        cases.append(dict(src=wsrc, op='parse', data=d))
    for vsrc, d, names in [('Struct("blob"/Prefixed(VarInt, GreedyBytes))', b'\xac', ['blob']), ('Struct("blob"/Prefixed(VarInt, GreedyBytes))', b'\xac\x82', ['blob']),
                           ('Struct("h"/Struct("v"/VarInt), "t"/Byte)', b'\x80\x80', ['h', 'v']), ('Struct("h"/Struct("k"/Byte, "z"/ZigZag))', b'\x01\xff\xff', ['h', 'z']),
                           ('Struct("a"/Array(2, "e"/VarInt))', b'\x01\x81', ['a', 'e']), ('Struct("s"/PascalString(VarInt, "utf8"))', b'\x85', ['s']),
                           # one object used as two members (and below a second parent): the path is that of the occurrence that failed
                           ('Struct("first"/S0, "second"/S0)', b'\x00\x02a', ['second', 'd']), ('Struct("first"/S0, "second"/S0)', b'\x02a', ['first', 'd']),
                           ('Struct("p"/Struct("m"/S0), "q"/Struct("m"/S0), "r"/S0)', b'\x00\x00\x03ab', ['r', 'd']),
                           ('Struct("p"/Struct("m"/S0), "q"/Struct("m"/S0), "r"/S0)', b'\x00\x03ab', ['q', 'm', 'd']),
                           ('Sequence("a"/S0, Array(2, "e"/S0))', b'\x00\x00\x02x', ['e', 'd'])]:
        acc.check('parse_path', vsrc, data=d, names=names)
        cases.append(dict(src=vsrc, op='parse', data=d))
    for bsrc2, obj, names in [('Struct("first"/S0, "second"/S0)', dict(first=dict(n=0, d=b''), second=dict(n=300, d=b'')), ['second', 'n']),
                              ('Struct("first"/S0, "second"/S0)', dict(first=dict(n=300, d=b''), second=dict(n=0, d=b'')), ['first', 'n']),
                              ('Struct("p"/Struct("m"/S0), "q"/Struct("m"/S0))', dict(p=dict(m=dict(n=0, d=b'')), q=dict(m=dict(n=1, d=b'toolong'))), ['q', 'm', 'd'])]:
        acc.check('build_path', bsrc2, obj=obj, names=names)
        acc.check('build_path', bsrc2, obj=obj, names=names)          # twice: what a first use left behind must not show in the second
        cases.append(dict(src=bsrc2, op='build', obj=obj))
    # bit-level members of variable size (the streamed path), cut at every byte: the member that runs out of bits is named
    bsrc = 'Struct("bits"/Bitwise(Struct("n"/Nibble, "rsv"/Nibble, "items"/Array(this.n, "it"/BitsInteger(12)))), "t"/Byte)'
    bdata = C.get(bsrc).build(dict(bits=dict(n=2, rsv=0, items=[1, 2]), t=7))
    for k, names in [(1, ['bits', 'items', 'it']), (2, ['bits', 'items', 'it']), (3, ['bits', 'items', 'it']), (4, ['t']), (0, ['bits', 'n'])]:
        acc.check('parse_path', bsrc, data=bdata[:k], names=names)
    for src, obj in [(bsrc, dict(bits=dict(n=2, rsv=0, items=[1, 2]), t=7)), (bsrc, dict(bits=dict(n=4, rsv=0, items=[1, 2, 3, 4]), t=7)),
                     ('Struct("h"/Byte, "b"/BitStruct("k"/BitsInteger(4), "v"/BitsInteger(this.k * 4), Padding(4)))', dict(h=1, b=dict(k=5, v=99))),
                     ('Struct("w"/Bitwise(Struct("a"/Bit, "raw"/Bytewise(Prefixed(Byte, GreedyBytes)), "z"/BitsInteger(7))))', dict(w=dict(a=1, raw=b'xyz', z=3)))]:
        try:
            data = C.get(src).build(obj)
        except Exception:
            continue
        for k in range(len(data)):
            cases.append(dict(src=src, op='parse', data=data[:k]))
    # string members (codec failures must carry the path too)
    for src, data, names in [('Struct("s"/PaddedString(2, "ascii"))', b'\xff\xff', ['s']), ('Struct("h"/Struct("t"/CString("utf8")))', b'\xff\x00', ['h', 't']),
                             ('Struct("a"/Array(2, Struct("n"/PascalString(Byte, "utf_16_le"))))', b'\x01a\x00', ['a', 'n'])]:
        acc.check('parse_path', src, data=data, names=names)
        cases.append(dict(src=src, op='parse', data=data))
    acc.corr(cases, 'paths')
    return acc.result(
        rule='random nests to depth 3 of Struct / Sequence / Array / Prefixed / FixedSized / IfThenElse / Switch over 7 leaf kinds with member names drawn '
             'from a small pool (so that parent and child often share a name); every truncation offset of the canonical encoding (expected path: the names '
             'down to the member, or delimiter, that reads that byte); every leaf made unbuildable in turn; sizeof over unsized / key-less members; codec '
             'failures in string members. The extracted model is compared on the exact path of every error. distinct = (case, outcome)',
        fragment='parse_path_extends / sizeof_path_extends hold for every construct of the model: no wrapper drops or reorders enclosing names; Renamed appends exactly its name',
        partial=['the exact-path (names_along) theorem and the truncation-extent theorem are decided by oracle + exact-path correspondence, not proved',
                 'build paths: Select re-enters build with a fresh path (modelled; excluded from the theorem)'])


@C.oracle('parse_path')
def o_parse_path(src, data, names):
    try:
        C.get(src).parse(data)
        return None
    except core.ConstructError as e:
        got = path_of(e)
    exp = ['(parsing)'] + list(names)
    return None if got == exp else 'path %r, expected %r' % (got, exp)


def replay(payload):
    return C.generic_replay(payload)
