"""C06: malformed, truncated or failing input is always reported as ConstructError."""
import io
from . import common as C
import gen as G
import impl as I
import construct
from construct import core


def outcome(f):
    try:
        return ('ok', f())
    except core.ConstructError as e:
        return ('construct', type(e).__name__)
    except I.Budget:
        raise
    except Exception as e:
        return ('foreign', type(e).__name__)


@C.oracle('only_construct_errors')
def o_only(src, datas, kw):
    c = C.get(src)
    for d in datas:
        r = outcome(lambda: I.to_val(c.parse(d, **kw)))
        if r[0] == 'foreign':
            return 'parse(%r) raised %s, which is not a ConstructError' % (d, r[1])
    return None


@C.oracle('only_construct_errors_build')
def o_only_build(src, objs, kw):
    c = C.get(src)
    for v in objs:
        r = outcome(lambda: c.build(v, **kw))
        if r[0] == 'foreign':
            return 'build(%r) raised %s, which is not a ConstructError' % (v, r[1])
    return None


@C.oracle('terminates')
def o_terminates(src, data):
    c = C.get(src)
    try:
        I.with_budget(lambda: outcome(lambda: c.parse(data)))
    except I.Budget:
        return 'parse(%r) does not terminate (no progress is made by the repeated element)' % (data,)
    return None


@C.oracle('truncation')
def o_truncation(src, obj):
    c = C.get(src)
    try:
        data = c.build(obj)
    except core.ConstructError:
        return None
    for k in range(len(data)):
        r = outcome(lambda: I.to_val(c.parse(data[:k])))
        if r[0] == 'ok':
            return 'the %d-byte prefix %r of the %d-byte encoding %r was accepted: %r' % (k, data[:k], len(data), data, r[1])
        if r != ('construct', 'StreamError'):
            return 'the %d-byte prefix of %r was rejected with %s, not a stream error' % (k, data, r[1])
    return None


class Faulty(io.BytesIO):
    """io.BytesIO whose k-th operation of a kind misbehaves"""

    def __init__(self, data=b'', plan=None):
        super().__init__(data)
        self.plan = plan or ('none', -1)
        self.count = 0
        self.log = []

    def _tick(self, op, n=None):
        k = self.count
        self.count += 1
        self.log.append((op, n))
        return k

    def read(self, n=-1):
        k = self._tick('read', n)
        kind, at = self.plan
        if kind == 'raise' and k == at:
            raise OSError('injected read failure')
        if kind == 'short' and k == at and n is not None and n > 0:
            return super().read(n - 1)
        if kind == 'empty' and k == at and n is not None and n > 0:
            return b''
        return super().read(n)

    def write(self, d):
        k = self._tick('write')
        kind, at = self.plan
        if kind == 'raise' and k == at:
            raise OSError('injected write failure')
        if kind == 'short' and k == at and len(d) > 0:
            super().write(d[:-1])
            return len(d) - 1
        return super().write(d)

    def seek(self, off, whence=0):
        k = self._tick('seek')
        kind, at = self.plan
        if kind == 'noseek' or (kind == 'raise' and k == at):
            raise OSError('injected seek failure')
        return super().seek(off, whence)

    def tell(self):
        k = self._tick('tell')
        kind, at = self.plan
        if kind == 'notell' or (kind == 'raise' and k == at):
            raise OSError('injected tell failure')
        return super().tell()


SWALLOWING = ('GreedyRange', 'Select', 'Optional', 'Peek', 'Union')


@C.oracle('faults_parse')
def o_faults_parse(src, data, swallowing_ok=True):
    c = C.get(src)
    st = Faulty(data)
    base = outcome(lambda: I.to_val(c.parse_stream(st)))
    nops = st.count
    log = list(st.log)
    plans = [('noseek', -1), ('notell', -1)] + [(kind, k) for k in range(nops) for kind in ('raise', 'short', 'empty')]
    for plan in plans:
        st = Faulty(data, plan)
        r = outcome(lambda: I.to_val(c.parse_stream(st)))
        if r[0] == 'foreign':
            return 'stream fault %r during parse(%r): %s escaped instead of StreamError' % (plan, data, r[1])
        if r[0] == 'ok' and (base[0] != 'ok' or r[1] != base[1]):
            kind, k = plan
            if kind in ('short', 'empty') and log[k][0] == 'read' and (kind == 'empty' or log[k][1] is None or log[k][1] <= 1):
                continue      # an empty read IS the end-of-stream indication: readers that probe for EOF cannot tell the difference
            if swallowing_ok and any(w in src for w in SWALLOWING):
                continue      # recorded known finding: these constructs treat a failing stream operation like a failing element / alternative
            return 'stream fault %r during parse(%r): returned %r, the fault-free run gives %r' % (plan, data, r[1], base[1:] and base[1])
    return None


@C.oracle('faults_build')
def o_faults_build(src, obj):
    c = C.get(src)
    st = Faulty()
    base = outcome(lambda: c.build_stream(obj, st))
    good = st.getvalue()
    nops = st.count
    plans = [('noseek', -1), ('notell', -1)] + [(kind, k) for k in range(nops) for kind in ('raise', 'short')]
    for plan in plans:
        st = Faulty(b'', plan)
        r = outcome(lambda: c.build_stream(obj, st))
        if r[0] == 'foreign':
            return 'stream fault %r during build(%r): %s escaped instead of StreamError' % (plan, obj, r[1])
        if r[0] == 'ok' and base[0] == 'ok' and st.getvalue() != good:
            return 'stream fault %r during build(%r): wrote %r without an error (fault-free: %r)' % (plan, obj, st.getvalue(), good)
    return None


def strict(node):
    """no greedy, optional or look-ahead part, and no region whose end is discovered by reaching the end of the stream"""
    s = node.src
    return not node.greedy and not any(w in s for w in ('Greedy', 'Optional', 'Select', 'Peek', 'Pointer', 'NullStripped', 'ProcessXor', 'OffsettedEnd', 'Lazy', 'Union', 'Terminated', 'GreedyRange', 'RepeatUntil'))


FAULT_SRCS = [
    ('Struct("a"/Int16ub, "b"/Bytes(this.a), "c"/VarInt)', dict(a=2, b=b'xy', c=300)),
    ('Struct("p"/Prefixed(Byte, GreedyBytes), "t"/Terminated)', dict(p=b'abc')),
    ('Sequence(GreedyRange(Int16ub), Terminated)', [[1, 2], None]),
    ('Struct("x"/Peek(Byte), "y"/Pointer(1, Byte), "z"/Int16ul)', dict(z=5)),
    ('Struct("r"/RawCopy(Int16ub), "t"/Tell)', dict(r=dict(value=7))),
    ('Struct("s"/Select(Const(b"AB"), Byte), "n"/NullTerminated(GreedyBytes))', dict(s=1, n=b'hi')),
    ('Struct("o"/Optional(Int32ub), "g"/GreedyBytes)', dict(o=None, g=b'ab')),
    ('Padded(4, CString("ascii"))', 'a'),
    ('Aligned(4, PascalString(VarInt, "utf8"))', 'héllo'),
    ('Bitwise(Struct("a"/BitsInteger(3), "b"/Flag, "c"/Nibble))', dict(a=5, b=True, c=9)),
    ('Bitwise(Struct("a"/BitsInteger(3), "rest"/GreedyBytes))', dict(a=1, rest=b'\x00\x01\x00\x01\x00')),
    ('ByteSwapped(Int32ub)', 7), ('Union(0, "a"/Int16ub, "b"/Bytes(2))', dict(a=5)),
    ('LazyStruct("a"/Byte, "b"/Prefixed(Byte, GreedyBytes), "c"/VarInt)', dict(a=1, b=b'xy', c=3)),
    ('Lazy(Int16ub)', 5), ('LazyArray(2, Int16ub)', [1, 2]),
    ('FixedSized(4, NullStripped(GreedyBytes))', b'ab'), ('OffsettedEnd(-1, GreedyBytes)', b'ab'),
    ('Struct("k"/Byte, "d"/ProcessXor(this.k, GreedyBytes))', dict(k=3, d=b'abc')),
    ('Checksum(Byte, sum8, lambda ctx: b"ab")', None),
    ('Seek(2)', None), ('Struct("a"/Byte, Seek(0), "b"/Byte)', dict(a=1, b=1)),
    ('Enum(Int24ub, a=1)', 'a'), ('Float32b', 1.5), ('Hex(VarInt)', 300),
]


def run(tier, seed):
    acc = C.Acc('C06', tier, seed)
    G.CANON_VALUES = True
    rng = C.rng_for(seed, 'C06')
    cases = []
    n = 500 if tier == 'quick' else 8000
    for _ in range(n):
        node = G.g_node(rng, rng.choice([0, 1, 2, 2, 3, 3]), True)
        datas = [G.rand_bytes(rng, rng.randint(0, 12)) for _ in range(3)] + [b'', bytes(9), b'\xff' * 9, b'\x80' * 9, b'\xff\xff\xff\xff\x7f' + bytes(4), b'\x7f\xff\xff\xff' * 3]
        vals = []
        for _ in range(2):
            try:
                v = node.val(rng)
                d = C.get(node.src).build(v)
                vals.append(v)
                datas += [d, G.mutate(rng, d), G.mutate(rng, d), d[:len(d) // 2]]
            except Exception:
                pass
        acc.check('only_construct_errors', node.src, datas=datas, kw={})
        for d in datas[:6]:
            cases.append(dict(src=node.src, op='parse', data=d))
        if strict(node):
            for v in vals:
                acc.check('truncation', node.src, obj=v)
    # huge length fields and missing context keys
    for src in ['Prefixed(Int64ub, GreedyBytes)', 'PrefixedArray(Int64ub, Byte)', 'Struct("n"/Int64ub, "d"/Bytes(this.n))', 'Struct("n"/BytesInteger(16), "a"/Array(this.n, Byte))',
                'Prefixed(VarInt, GreedyBytes)', 'PrefixedArray(VarInt, Int16ub)', 'Struct("n"/Int32ub, "p"/Padded(this.n, Byte))', 'Struct("n"/Int64sb, "f"/FixedSized(this.n, GreedyBytes))',
                'Struct("n"/Int64ub, "a"/Aligned(this.n, Byte))', 'Struct("n"/Int32ub, "r"/ProcessRotateLeft(this.n, this.n, GreedyBytes))',
                'Struct("n"/Int64ub, "b"/BitsInteger(this.n))', 'Struct("n"/Int64ub, "b"/BytesInteger(this.n))', 'Bitwise(Struct("n"/BitsInteger(64), "d"/Bytes(this.n)))',
                'Struct("n"/Int8sb, "d"/Bytes(this.n))', 'Struct("n"/Int8sb, "a"/Array(this.n, Byte))', 'Pointer(2 ** 70, Byte)', 'Struct("n"/Int64ub, "p"/Pointer(this.n, Byte))',
                'Struct("n"/Int64sb, "p"/Pointer(this.n, Byte))', 'Struct("n"/Int64ub, "s"/Seek(this.n), "b"/Byte)', 'Struct("n"/Int64sb, "s"/Seek(this.n, 1))',
                'Struct("n"/Int8ub, "s"/Seek(0, this.n))', 'PaddedString(4, "utf8")', 'CString("utf16")', 'GreedyString("utf32")', 'PascalString(Byte, "ascii")',
                'Struct("t"/Byte, "v"/Switch(this.t, {1: Byte}))', 'Struct("t"/Bytes(1), "v"/Mapping(Byte, {"a": 1}))', 'Enum(Byte, a=1)', 'Struct("k"/Int16ub, "x"/ProcessXor(this.k, GreedyBytes))']:
        datas = [b'\xff' * 20, b'\x7f' + b'\xff' * 19, b'\x80' + bytes(19), bytes(20), b'\x00' * 7 + b'\x05abcdefgh', b'\xff\xff\xff\xff\x0f' + bytes(8), b'\x01', b'']
        datas += [G.rand_bytes(rng, 20) for _ in range(4)]
        acc.check('only_construct_errors', src, datas=datas, kw={})
        for d in datas[:8]:
            cases.append(dict(src=src, op='parse', data=d))
    # lookups keyed by what a composite parsed (lists, containers: unhashable), on parse and on build
    for src in ['Mapping(Array(2, Byte), {"a": 1})', 'Mapping(Struct("x"/Byte), {"a": 1})', 'Mapping(PrefixedArray(Byte, Byte), {"a": 0})',
                'Struct("m"/Mapping(GreedyRange(Byte), {"a": 1}), "t"/Pass)', 'Mapping(Sequence(Byte, Byte), {"k": 3})']:
        datas = [b'\x01\x02', b'\x00', b'', b'\x02\x01\x02\x03', b'\xff' * 4] + [G.rand_bytes(rng, 3) for _ in range(3)]
        acc.check('only_construct_errors', src, datas=datas, kw={})
        objs = [dict(m=[1, 2], t=None), dict(m=dict(x=1), t=None)] if src.startswith('Struct') else [[1, 2], dict(x=1), [[1]], []]
        acc.check('only_construct_errors_build', src, objs=objs, kw={})
        for d in datas[:5]:
            cases.append(dict(src=src, op='parse', data=d))
    # every field class (FormatField, BytesInteger, BitsInteger, Bytes, GreedyBytes, the string classes, Enum, FlagsEnum, Mapping), alone, nested and
    # under wrappers that pass the value through: a value it cannot encode (wrong type, out of range, not finite, too large for the float format)
    # is refused with a ConstructError. (Composites given a value of the wrong shape are outside this: the build docstring allows "some list and
    # dict lookups" on the supplied value to raise IndexError and KeyError, e.g. Struct.build({}).)
    bad = [None, 'x', b'x', '', 1e39, -3.5e38, 65520.0, -65520.0, 1e308, float('inf'), float('-inf'), float('nan'), -1, 256, 2 ** 64, -2 ** 63 - 1, 2 ** 200,
           2.5, [1], {}, (1,), True, 1 + 2j, bytearray(b'ab'), b'ab', 'ab', {'a': 1}, [b'a', 1]]
    plain = [nm for nm, _, _ in G.INT_NAMES] + [nm for nm, _, _ in G.FLOAT_NAMES] + ['BytesInteger(3)', 'BytesInteger(2, signed=True, swapped=True)']
    leafs = plain + ['Bytes(2)', 'Bytes(0)', 'GreedyBytes', 'HexDump(Bytes(2))', 'Hex(GreedyBytes)', 'Enum(Byte, a=1)', 'Enum(Int16ub, E)', 'FlagsEnum(Byte, a=1)', 'Flag',
             'Prefixed(Byte, GreedyBytes)', 'FixedSized(3, GreedyBytes)', 'NullTerminated(GreedyBytes)', 'VarInt', 'ZigZag', 'Bitwise(BitsInteger(8))', 'Bitwise(BitsInteger(16, signed=True, swapped=True))', 'CString("utf8")', 'PascalString(Byte, "ascii")',
             'PaddedString(4, "utf8")', 'GreedyString("utf_16_le")', 'Mapping(Byte, {"a": 1})', 'Const(2, Byte)', 'Hex(Int16ub)', 'Padded(4, Int16ub)', 'Aligned(4, Float32b)',
             'Prefixed(Byte, Float16b)', 'NullTerminated(Int16ub)', 'ByteSwapped(Float32l)', 'Default(Float32b, 1.0)', 'Rebuild(Float16b, 1e9)', 'Rebuild(Float32l, -1e39)',
             'Optional(Float32b)', 'Select(Float16b, Float32b)', 'OneOf(Float32b, [1.0])', 'IfThenElse(True, Float32l, Byte)', 'Switch(1, {1: Float16l})', 'Pointer(1, Float32b)',
             'ProcessXor(1, Float32b)', 'FixedSized(4, Float32b)', 'Compressed(Float32b, "zlib")', 'Bitwise(Bytewise(Float16b))']
    for lf in leafs:
        if not C.constructible(lf):
            continue
        acc.check('only_construct_errors_build', lf, objs=list(bad), kw={})
        if lf in plain:
            for tmpl, mk in (('Struct("a"/Byte, "v"/%s)', lambda v: dict(a=1, v=v)), ('Array(2, %s)', lambda v: [v, v]), ('Sequence(Byte, %s)', lambda v: [1, v]),
                             ('Prefixed(Byte, Struct("v"/%s))', lambda v: dict(v=v)), ('FocusedSeq("v", "v"/%s)', lambda v: v), ('GreedyRange(%s)', lambda v: [v]),
                             ('LazyStruct("v"/%s)', lambda v: dict(v=v)), ('Union(0, "v"/%s)', lambda v: dict(v=v)), ('RawCopy(%s)', lambda v: dict(value=v))):
                acc.check('only_construct_errors_build', tmpl % lf, objs=[mk(v) for v in bad], kw={})
    # two-feature interactions: every wrapper class over every kind of inner construct, on what it builds, cut short, and mutated
    for src, v in C.pairs():
        if not C.constructible(src):
            continue
        try:
            d = C.get(src).build(v)
        except BaseException:
            continue
        datas = [d, d[:-1], d[:len(d) // 2], d + b'\x00', G.mutate(rng, d), G.mutate(rng, d), b'\xff' * (len(d) + 1)]
        acc.check('only_construct_errors', src, datas=datas, kw={})
        cases.append(dict(src=src, op='parse', data=d[:-1]))
        cases.append(dict(src=src, op='parse', data=datas[4]))
    # every codec name a string field may be given: common, uncommon (their own error classes), non-text and unknown ones
    for enc in ['utf8', 'utf16', 'utf32', 'ascii', 'latin1', 'cp1252', 'utf_7', 'utf_16_be', 'utf_32_le', 'shift_jis', 'gb18030', 'big5', 'euc_kr',
                'punycode', 'idna', 'raw_unicode_escape', 'unicode_escape', 'hex', 'base64', 'rot13', 'zlib', 'undefined', 'utf-9', 'no-such-codec']:
        for tmpl in ('GreedyString(%r)', 'PascalString(Byte, %r)', 'Struct("s"/Prefixed(VarInt, GreedyString(%r)), "t"/Byte)'):
            src = tmpl % enc
            datas = [b'a..b', b'\x06xn--a-', b'xn--', b'\x04xn--\x00', b'\xff\xfe\xfd', b'\x80abc', b'+2D', b'\\u12', b'\\x', b'\x81', b'\x03\x8f\xa1\xa1', b'', b'\x02ab\x01',
                     b'\x05\xe3\x81\x82\xe3\x81', b'\x82\xa0\x82', b'\x07.a..b.-'] + [G.rand_bytes(rng, rng.randint(1, 9)) for _ in range(4)]
            acc.check('only_construct_errors', src, datas=datas, kw={})
        acc.check('only_construct_errors_build', 'GreedyString(%r)' % enc, objs=['a..b', '', 'abc', 'h\u00e9llo', '\u3042', '\ud800', 'a' * 70 + '.b', '-x.', 'xn--a'], kw={})
    # truncation of strict templates
    for src, v in [('Struct("a"/Int16ub, "b"/Padded(8, Int16ub), Padding(3))', dict(a=1, b=2)), ('AlignedStruct(4, "a"/Byte, "b"/Int16ub)', dict(a=1, b=2)),
                   ('Struct("tag"/Int16ub, "body"/Padded(8, Int16ub))', dict(tag=1, body=2)), ('Aligned(4, Byte)', 1), ('Padding(5)', None),
                   ('Struct("n"/Byte, "a"/Array(this.n, Struct("x"/VarInt, "y"/CString("ascii"))))', dict(n=2, a=[dict(x=300, y='ab'), dict(x=1, y='')])),
                   ('Prefixed(VarInt, Struct("a"/Int24ul, "s"/PascalString(Byte, "utf8")))', dict(a=5, s='hé')),
                   ('FixedSized(6, Struct("a"/Byte))', dict(a=1)), ('BitStruct("a"/BitsInteger(12), "b"/Nibble)', dict(a=5, b=1)),
                   ('Struct("c"/Const(b"MAGIC"), "v"/Float64b)', dict(v=1.5)), ('PrefixedArray(Byte, Int16ub)', [1, 2, 3]),
                   ('NullTerminated(Bytes(3))', b'abc'), ('Struct("s"/CString("utf_16_le"), "n"/Byte)', dict(s='ab', n=1)),
                   # tag-length-value (TruncDep): the payload is chosen by the tag and sized by the length
                   ('Struct("t"/Byte, "n"/Byte, "v"/Switch(this.t, {1: Bytes(this.n), 2: Array(this.n, Int16ub)}, default=Pass), "f"/IfThenElse(this.t, VarInt, Byte))', dict(t=2, n=2, v=[258, 3], f=300)),
                   ('Struct("t"/Byte, "n"/Byte, "v"/Switch(this.t, {1: Bytes(this.n), 2: Array(this.n, Int16ub)}, default=Pass), "f"/IfThenElse(this.t, VarInt, Byte))', dict(t=0, n=9, v=None, f=7)),
                   ('Array(2, Struct("k"/VarInt, "b"/Switch(this.k, {0: Struct("n"/Int16ul, "d"/Bytes(this.n)), 300: Padded(4, Byte)}, default=Int32sb)))', [dict(k=0, b=dict(n=2, d=b'hi')), dict(k=300, b=7)])]:
        acc.check('truncation', src, obj=v)
        acc.check('only_construct_errors', src, datas=[C.get(src).build(v)[:k] for k in range(0, 12)] + [bytes([b]) * 9 for b in (0, 1, 2, 255)], kw={})
    # stream faults: every k-th operation, four kinds, parse and build
    for src, obj in FAULT_SRCS:
        if 'lambda' in src:
            continue
        try:
            d = C.get(src).build(obj)
        except Exception:
            continue
        acc.check('faults_parse', src, data=d)
        acc.check('faults_parse', src, data=d + b'\x01')
        acc.check('faults_build', src, obj=obj)
    nf = 60 if tier == 'quick' else 600
    for _ in range(nf):
        node = G.g_node(rng, rng.choice([1, 2, 2]), True)
        try:
            v = node.val(rng)
            d = C.get(node.src).build(v)
        except Exception:
            continue
        if len(d) > 40:
            continue
        acc.check('faults_parse', node.src, data=d)
        acc.check('faults_build', node.src, obj=v)
    # known findings: the repeated element makes no progress
    acc.check('terminates', 'GreedyRange(Pass)', data=b'')
    acc.check('faults_parse', 'GreedyRange(Byte)', data=b'\x01\x02\x03', swallowing_ok=False)
    acc.check('only_construct_errors', 'LazyStruct("n"/Byte, "d"/Bytes(this.n))', datas=[b'\x02ab'], kw={})

    def proj(m, i):
        # the property speaks about the outcome class: value, ConstructError (any subclass), foreign, non-termination
        def cls(r):
            if r[0] != 'RErr':
                return r
            e = r[1][0]
            if e in ('EKey', 'EType', 'EAttr', 'EValue', 'EIndexErr', 'EZeroDiv', 'EOverflow', 'EForeign'):
                return ('foreign',)
            if e == 'EDiverge':
                return ('diverge',)
            return ('construct', 'EStream' if e == 'EStream' else 'other')
        return cls(m), cls(i)
    acc.corr(cases, 'errors', project=proj)
    return acc.result(
        rule='(a) generated core constructs x random, all-zero, all-ff, continuation-bit, huge-length, canonical, mutated and half-truncated inputs; length/count/'
             'offset/whence fields taken from 64-bit and 128-bit and negative data; outcome must be a value or a ConstructError. (b) every strict prefix of the '
             'canonical encodings of strict constructs (no greedy, optional, look-ahead part) must be StreamError. (c) instrumented stream: for every k up to '
             'the number of stream operations of the fault-free run, the k-th operation raises / returns one byte short / returns nothing; seek or tell '
             'always fail; for parse and build: StreamError or the fault-free result. distinct = (case, outcome)',
        fragment='parse_only_construct_errors / truncation_fragment: every construct of the closed sequential fragment, every input / every strict '
                 'prefix of what it builds; dep_parse_only_construct_errors / dep_truncation: the same for the dependent fragment (sizes and '
                 'Switch / IfThenElse choices read from earlier integer fields), props/C06.v',
        partial=['outside frag / dfrag the error class is decided by oracle and correspondence (outcome class)',
                 'the stream fault plans exist only in the harness (Python), not in model/Stream.v'])


def replay(payload):
    return C.generic_replay(payload)
