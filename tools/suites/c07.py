"""C07: context expressions resolve identically when parsing, building and sizing."""
import io, itertools
from . import common as C
import gen as G
import construct
from construct import core

# A shape is a nest of scope-pushing / repeating wrappers.  Level k (1 = outermost structure) stores a
# marker member "m" = Computed(k) (or a parsed byte), and the innermost level holds probes whose
# expected values are known by construction.
PUSHERS = ['Struct', 'Sequence', 'FocusedSeq', 'Union', 'LazyStruct']
REPEATERS = ['Array', 'GreedyRange', 'RepeatUntil', None, None]


def probes(depth, kwk):
    """(name, expression source, expected value function(level, mode, index))"""
    out = [('p_this', 'this.m', lambda L, mode, idx: L)]
    for j in range(1, depth):
        out.append(('p_up%d' % j, 'this' + '._' * j + '.m', lambda L, mode, idx, j=j: L - j))
    out.append(('p_root', 'this._root.m', lambda L, mode, idx: 1))
    out.append(('p_par', 'this._params.%s' % kwk, lambda L, mode, idx: 42))
    out.append(('p_par2', 'this._params._params.%s' % kwk, lambda L, mode, idx: 42))
    out.append(('p_upar', 'this' + '._' * depth + '.%s' % kwk, lambda L, mode, idx: 42))     # depth steps up reach the call context
    out.append(('p_fp', 'this._parsing', lambda L, mode, idx: mode == 'parse'))
    out.append(('p_fb', 'this._building', lambda L, mode, idx: mode == 'build'))
    out.append(('p_fs', 'this._sizing', lambda L, mode, idx: mode == 'sizeof'))
    out.append(('p_sum', 'this.m + this._root.m * 10', lambda L, mode, idx: L + 10))
    return out


def make(pushers, repeaters, kwk='k'):
    """-> (source, depth, probe list, extractor) ; innermost level is always a Struct holding the probes"""
    depth = len(pushers)
    pr = probes(depth, kwk)
    inner_members = ['"m"/Computed(%d)' % depth] + ['"%s"/Computed(%s)' % (n, e) for n, e, _ in pr]
    has_rep = any(repeaters)
    if has_rep:
        inner_members.append('"p_idx"/Computed(this._index)')
    src = 'Struct(%s)' % ', '.join(inner_members)
    path = []          # how to reach the innermost value from the parse result
    for level in range(depth - 1, 0, -1):
        rep = repeaters[level]
        if rep == 'Array':
            src = 'Array(2, %s)' % src
            path.insert(0, ('idx', 1))
        elif rep == 'GreedyRange':
            src = 'Array(2, %s)' % src        # a non-consuming element would not terminate in GreedyRange: bounded form
            path.insert(0, ('idx', 1))
        elif rep == 'RepeatUntil':
            src = 'RepeatUntil(len_(list_) == 2, %s)' % src
            path.insert(0, ('idx', 1))
        p = pushers[level - 1]
        if p == 'Struct':
            src = 'Struct("m"/Computed(%d), "c"/%s)' % (level, src)
            path.insert(0, ('key', 'c'))
        elif p == 'LazyStruct':
            # the marker is made unsizable (NullStripped over an empty stream) so that LazyStruct parses it eagerly: a lazily skipped sibling is not
            # visible to later expressions (documented LazyStruct restriction, recorded as a known finding)
            src = 'LazyStruct("m"/NullStripped(Computed(%d)), "c"/%s)' % (level, src)
            path.insert(0, ('key', 'c'))
        elif p == 'Sequence':
            src = 'Sequence("m"/Computed(%d), "c"/%s)' % (level, src)
            path.insert(0, ('idx', 1))
        elif p == 'FocusedSeq':
            src = 'FocusedSeq("c", "m"/Computed(%d), "c"/%s)' % (level, src)
        elif p == 'Union':
            src = 'Union(None, "m"/Computed(%d), "c"/%s)' % (level, src)
            path.insert(0, ('key', 'c'))
    return src, depth, pr, path, has_rep


def reach(v, path):
    for kind, k in path:
        v = v[k]
    return v


@C.oracle('scope')
def o_scope(src, pushers, repeaters):
    _, depth, pr, path, has_rep = make(pushers, repeaters)
    c = C.get(src)
    kw = dict(k=42)
    try:
        v = c.parse(b'', **kw)
    except core.ConstructError as e:
        return 'parse raised %s: %s' % (type(e).__name__, str(e)[:120])
    inner = reach(v, path)
    for n, e, f in pr:
        exp = f(depth, 'parse', 1)
        if inner[n] != exp:
            return 'parse: %s = %s resolved to %r, expected %r' % (n, e, inner[n], exp)
    if has_rep and inner['p_idx'] != 1:
        return 'parse: this._index resolved to %r, expected 1' % (inner['p_idx'],)
    if 'Union' in pushers[:-1] or 'FocusedSeq' in pushers[:-1]:
        return None           # building needs the supplied selection; parse-side resolution checked above
    # build from nothing (all members derive themselves); Struct._build returns the context with the computed members
    def skeleton(level):
        if level == depth:
            return None
        p = pushers[level - 1]
        child = skeleton(level + 1)
        if repeaters[level]:
            child = [child, child]
        if p in ('Struct', 'LazyStruct'):
            return dict(c=child)
        if p == 'Sequence':
            return [None, child]
        return child
    st = io.BytesIO()
    ctx = construct.Container(**kw)
    ctx._parsing, ctx._building, ctx._sizing, ctx._params = False, True, False, ctx
    try:
        r = c._build(skeleton(1), st, ctx, '(building)')
    except core.ConstructError as e:
        return 'build raised %s: %s' % (type(e).__name__, str(e)[:120])
    inner = reach(r, path)
    for n, e, f in pr:
        exp = f(depth, 'build', 1)
        if inner[n] != exp:
            return 'build: %s = %s resolved to %r, expected %r' % (n, e, inner[n], exp)
    if has_rep and inner['p_idx'] != 1:
        return 'build: this._index resolved to %r, expected 1' % (inner['p_idx'],)
    return None


@C.oracle('sizing')
def o_sizing(src, kw, expected):
    c = C.get(src)
    try:
        n = c.sizeof(**kw)
    except core.ConstructError as e:
        n = type(e).__name__
    if n != expected:
        return 'sizeof(**%r) = %r, the referenced values give %r' % (kw, n, expected)
    return None


@C.oracle('coherent')
def o_coherent(src, obj, kw):
    """a length / count / selector computed from other fields selects the same layout in build and parse"""
    c = C.get(src)
    try:
        data = c.build(obj, **kw)
    except core.ConstructError:
        return None
    try:
        back = c.parse(data, **kw)
    except core.ConstructError as e:
        return 'what build emitted (%r) does not parse: %s' % (data, type(e).__name__)
    def sub(a, b):
        if callable(b) and not isinstance(b, (dict, list)):
            b = b()           # Lazy
        if isinstance(a, dict):
            try:
                return all(sub(v, b[k]) for k, v in a.items() if v is not None and not str(k).startswith('_'))
            except (KeyError, IndexError):
                return False
        if isinstance(a, list):
            return len(a) == len(b) and all(sub(x, y) for x, y in zip(a, b))
        return a == b
    if not sub(obj, back):
        return 'built %r -> %r parses back as %r' % (obj, data, back)
    if c.build(back, **kw) != data:
        return 'rebuilding the parsed value gives different bytes'
    return None


@C.oracle('entry_points')
def o_entry_points(src, obj, kw):
    """keyword arguments reach the context the same way through every public entry point: build / build_stream / build_file emit the same
    bytes, parse / parse_stream / parse_file return the same value, sizeof sees the same keys"""
    import io, os, tempfile
    c = C.get(src)

    def run(f):
        try:
            return ('ok', f())
        except Exception as e:
            return ('err', type(e).__name__)
    b0 = run(lambda: c.build(obj, **kw))

    def via_stream():
        st = io.BytesIO()
        c.build_stream(obj, st, **kw)
        return st.getvalue()
    fd, fn = tempfile.mkstemp(prefix='c07_')
    os.close(fd)
    try:
        def via_file():
            c.build_file(obj, fn, **kw)
            return open(fn, 'rb').read()
        b1, b2 = run(via_stream), run(via_file)
        if b1 != b0:
            return 'build_stream gives %r where build gives %r' % (b1, b0)
        if b2 != b0:
            return 'build_file gives %r where build gives %r' % (b2, b0)
        if b0[0] != 'ok':
            return None
        data = b0[1]
        open(fn, 'wb').write(data)
        p0 = run(lambda: c.parse(data, **kw))
        p1 = run(lambda: c.parse_stream(io.BytesIO(data), **kw))
        p2 = run(lambda: c.parse_file(fn, **kw))
        same = lambda a, b: a[0] == b[0] and (C.veq(a[1], b[1]) if a[0] == 'ok' else a[1] == b[1])
        if not same(p1, p0):
            return 'parse_stream gives %r where parse gives %r' % (p1, p0)
        if 'Lazy' not in src and not same(p2, p0):          # parse_file closes the file before a lazy result can be read (DESIGN 0.7, C17)
            return 'parse_file gives %r where parse gives %r' % (p2, p0)
    finally:
        os.unlink(fn)
    return None


@C.oracle('lazy_sibling')
def o_lazy_sibling(src, eager, data):
    """this.x sees an earlier sibling also when the structure is lazy"""
    e = C.get(eager).parse(data)
    try:
        v = C.get(src).parse(data)
        got = {k: v[k] for k in e if not str(k).startswith('_')}
    except Exception as ex:
        return 'LazyStruct: %s where the eager Struct resolves this.<earlier sibling>' % type(ex).__name__
    want = {k: e[k] for k in e if not str(k).startswith('_')}
    return None if got == want else 'lazy %r, eager %r' % (got, want)


@C.oracle('discard')
def o_discard(src, elem, rep, objs, kw):
    """_index is the repetition index whether or not the results are kept: discard=True selects the same layout"""
    def mk(disc):
        d = ', discard=True' if disc else ''
        if rep == 'Array':
            inner = 'Array(%d, %s%s)' % (len(objs), elem, d)
        elif rep == 'GreedyRange':
            inner = 'Prefixed(Byte, GreedyRange(%s%s))' % (elem, d)
        else:
            inner = 'RepeatUntil(lambda x, lst, ctx: ctx._index == %d, %s%s)' % (len(objs) - 1, elem, d)
        return 'Struct("a"/%s, "t"/Tell)' % inner
    plain, disc = C.get(mk(False)), C.get(mk(True))
    def run(f):
        try:
            return ('ok', f())
        except core.ConstructError as e:
            return ('err', type(e).__name__)
    b1 = run(lambda: plain.build(dict(a=objs), **kw))
    b2 = run(lambda: disc.build(dict(a=objs), **kw))
    if b1 != b2:
        return 'building %r: kept results give %r, discard=True gives %r' % (objs, b1, b2)
    if b1[0] != 'ok':
        return None
    p1 = run(lambda: plain.parse(b1[1] + b'\x99', **kw))
    p2 = run(lambda: disc.parse(b1[1] + b'\x99', **kw))
    if p1[0] != p2[0] or (p1[0] == 'ok' and (p1[1].t != p2[1].t or list(p2[1].a) != [])):
        return 'parsing %r: kept results give %r, discard=True gives %r' % (b1[1], p1, p2)
    return None


@C.oracle('union_selfref')
def o_union_selfref(src, const_src, data):
    """Union(parsefrom = an expression over the union's own members): the members are in scope when it is evaluated"""
    def run(x):
        st = io.BytesIO(data)
        try:
            v = C.get(x).parse_stream(st)
            return ('ok', {k: v[k] for k in v if not str(k).startswith('_')}, st.tell())
        except core.ConstructError as e:
            return ('err', type(e).__name__)
        except Exception as e:
            return ('foreign', type(e).__name__)
    a, b = run(src), run(const_src)
    return None if a == b else 'parsefrom as an expression over the members gives %r, the constant it evaluates to gives %r' % (a, b)


UNION_SELFREF = [
    ('Union(this.sel - 96, "sel"/Byte, "short"/Bytes(2), "long"/Bytes(4))', 'Union(1, "sel"/Byte, "short"/Bytes(2), "long"/Bytes(4))', b'ab\x07\x08\x09'),
    ('Union(this.sel - 95, "sel"/Byte, "short"/Bytes(2), "long"/Bytes(4))', 'Union(2, "sel"/Byte, "short"/Bytes(2), "long"/Bytes(4))', b'ab\x07\x08\x09'),
    ('Union(lambda ctx: "short" if ctx.sel == 97 else "long", "sel"/Byte, "short"/Bytes(2), "long"/Bytes(4))', 'Union("short", "sel"/Byte, "short"/Bytes(2), "long"/Bytes(4))', b'ab\x07\x08\x09'),
    ('Struct("k"/Byte, "u"/Union(this.n, "n"/Byte, "a"/Int16ub, "b"/Int32ub), "t"/Byte)', 'Struct("k"/Byte, "u"/Union(1, "n"/Byte, "a"/Int16ub, "b"/Int32ub), "t"/Byte)', b'\x09\x01\x02\x03\x04\x05'),
    ('Struct("k"/Byte, "u"/Union(this._.k, "n"/Byte, "a"/Int16ub, "b"/Int32ub), "t"/Byte)', 'Struct("k"/Byte, "u"/Union(2, "n"/Byte, "a"/Int16ub, "b"/Int32ub), "t"/Byte)', b'\x02\x01\x02\x03\x04\x05'),
]

DISCARD = [
    ('Bytes(this._index + 1)', [b'a', b'bb', b'ccc']),
    ('Struct("i"/Index, "b"/Bytes(this.i))', [dict(b=b''), dict(b=b'x'), dict(b=b'yz')]),
    ('Switch(this._index, {0: Byte, 1: Int16ub}, default=Int24ub)', [1, 2, 3]),
    ('Struct("x"/Struct("b"/Bytes(this._._index)))', [dict(x=dict(b=b'')), dict(x=dict(b=b'q'))]),
    ('If(this._index == 1, Byte)', [None, 7, None]),
    ('Byte', [5, 6, 7]),
]

SIZING = [
    ('Struct("a"/Bytes(this._params.n), "s"/Struct("b"/Bytes(this._._params.n), "c"/Bytes(this._params.n)))', dict(n=2), 6),
    ('Struct("s"/Struct("t"/Struct("b"/Bytes(this._._._.n))))', dict(n=3), 3),
    ('Struct("s"/Struct("b"/If(this._sizing, Bytes(4))))', {}, 4),
    ('Struct("s"/Struct("b"/If(this._parsing, Bytes(4))))', {}, 0),
    ('Struct("s"/Struct("b"/If(this._building, Bytes(4))), "t"/IfThenElse(this._root._sizing, Byte, Int16ub))', {}, 1),
    ('Sequence(Bytes(this._.n), Sequence(Bytes(this._._.n)))', dict(n=2), 4),
    ('FocusedSeq("x", "x"/Bytes(this._.n), "y"/Struct("z"/Bytes(this._._.n)))', dict(n=1), 2),
    ('LazyStruct("a"/Bytes(this._.n), "s"/LazyStruct("b"/Bytes(this._._.n)))', dict(n=2), 4),
    ('Struct("a"/Array(this._.n, Struct("b"/Bytes(this._._.n))))', dict(n=2), 4),
    ('Struct("a"/Bytes(this._.missing))', dict(n=2), 'SizeofError'),
    ('Struct("keys"/Byte, "data"/Bytes(this.keys))', {}, 'SizeofError'),
    ('Struct("d"/Bytes(this._.items), "e"/Bytes(this._params.values))', dict(items=2, values=3), 5),
    ('Struct("d"/Bytes(this._.items))', {}, 'SizeofError'),
]

COHERENT = [
    ('Struct("n"/Byte, "d"/Bytes(this.n))', dict(n=3, d=b'abc'), {}),
    ('Struct("n"/Byte, "s"/Struct("m"/Byte, "d"/Bytes(this._.n + this.m)))', dict(n=1, s=dict(m=2, d=b'abc')), {}),
    ('Struct("n"/Byte, "a"/Array(this.n, Struct("k"/Byte, "d"/Bytes(this.k + this._.n - this._.n))))', dict(n=2, a=[dict(k=1, d=b'x'), dict(k=0, d=b'')]), {}),
    ('Struct("t"/Byte, "v"/Switch(this.t, {1: Byte, 2: Int16ub}), "w"/If(this.t == 2, Byte))', dict(t=2, v=513, w=7), {}),
    ('Struct("n"/Rebuild(Byte, len_(this.d)), "d"/Bytes(this.n))', dict(d=b'abcd'), {}),
    ('Struct("n"/Rebuild(Byte, len_(this._raw)), "_raw"/Bytes(this.n))', dict(_raw=b'abc'), {}),
    ('Struct("c"/Rebuild(Byte, len_(this.items)), "items"/Array(this.c, Struct("l"/Rebuild(Byte, len_(this.s)), "s"/Bytes(this.l))))', dict(items=[dict(s=b'ab'), dict(s=b'')]), {}),
    ('Struct("h"/Struct("n"/Byte), "d"/Bytes(this.h.n), "e"/Struct("f"/Bytes(this._.h.n)))', dict(h=dict(n=2), d=b'xy', e=dict(f=b'zw')), {}),
    ('Struct("d"/Bytes(this._params.n), "s"/Sequence(Bytes(this._._params.n), Byte))', dict(d=b'ab', s=[b'cd', 1]), dict(n=2)),
    ('Sequence("n"/Byte, "d"/Bytes(this.n), Array(this.n, Byte))', [2, b'ab', [1, 2]], {}),
    ('Struct("a"/Array(3, Struct("i"/Computed(this._index), "b"/Bytes(this._index))))', dict(a=[dict(b=b''), dict(b=b'x'), dict(b=b'yz')]), {}),
    ('Struct("x"/Byte, "r"/RepeatUntil(obj_ == 3, Byte), "t"/Bytes(this.r[1]))', dict(x=3, r=[1, 2, 3], t=b'ab'), {}),
    ('Struct("x"/Byte, "g"/Prefixed(Byte, GreedyRange(Struct("y"/Bytes(this._.x)))))', dict(x=2, g=[dict(y=b'ab'), dict(y=b'cd')]), {}),
    ('Struct("f"/Flag, "a"/Lazy(Struct("g"/If(this._parsing | this._building, Byte), "h"/If(this._._parsing | this._._building, Byte))), "b"/Byte)', dict(f=True, a=dict(g=4, h=5), b=9), {}),
    ('Struct("a"/LazyStruct("g"/Struct("q"/If(this._parsing | this._building, Byte)), "h"/Byte), "b"/Byte)', dict(a=dict(g=dict(q=1), h=2), b=3), {}),
    ('Struct("a"/LazyArray(2, Struct("q"/If(this._parsing | this._building, Byte))), "b"/Byte)', dict(a=[dict(q=1), dict(q=2)], b=3), {}),
    # members named like the attributes of the objects that hold them (values are given as plain dicts when building, Containers when parsing)
    ('Struct("keys"/Byte, "items"/Bytes(this.keys), "values"/Struct("get"/Byte, "pop"/Bytes(this.get + this._.keys)))', dict(keys=2, items=b'ab', values=dict(get=1, pop=b'xyz')), {}),
    ('Struct("n"/Rebuild(Byte, len_(this.payload.items)), "payload"/Struct("items"/Bytes(this._.n)))', dict(payload=dict(items=b'abc')), {}),
    ('Struct("copy"/Byte, "update"/Array(this.copy, Byte), "clear"/If(this.copy == 2, Byte), "search"/Bytes(this.update[0]))', dict(copy=2, update=[1, 2], clear=5, search=b'z'), {}),
    ('Struct("hdr"/LazyStruct("values"/Byte, "x"/Byte), "d"/Bytes(this.hdr.values))', dict(hdr=dict(values=2, x=1), d=b'ab'), {}),
    ('Struct("s"/Struct("setdefault"/Byte), "t"/Struct("d"/Bytes(this._.s.setdefault), "e"/Bytes(this._root.s.setdefault)))', dict(s=dict(setdefault=1), t=dict(d=b'a', e=b'b')), {}),
    ('Sequence("items"/Byte, "d"/Bytes(this.items), Struct("e"/Bytes(this._.items)))', [1, b'a', dict(e=b'b')], {}),
]

# oracle only: the model scopes _index to the repeater (it is None again after the loop), the library leaves the last index in the context
AFTER_LOOP = [
    # the repetition index a repeater leaves behind is the same after parsing and after building
    ('Struct("items"/RepeatUntil(obj_ == 0, Byte), "tail"/Bytes(this._index + 1))', dict(items=[5, 6, 0], tail=b'abc'), {}),
    ('Struct("a"/Array(2, Byte), "tail"/Bytes(this._index + 1))', dict(a=[1, 2], tail=b'xy'), {}),
    ('Array(2, Struct("items"/RepeatUntil(obj_ == 0, Byte), "tail"/Bytes(this._index + 1)))', [dict(items=[0], tail=b'a'), dict(items=[1, 0], tail=b'ab')], {}),
    ('Struct("r"/RepeatUntil(obj_ == 0, Byte), "i"/Index, "s"/Struct("j"/Index, "b"/Bytes(this._index)))', dict(r=[9, 9, 9, 0], s=dict(b=b'xyz')), {}),
    ('Sequence(RepeatUntil(obj_ == 0, Byte), Bytes(this._index), Index)', [[7, 0], b'q', 1], {}),
    ('FocusedSeq("t", "r"/Rebuild(RepeatUntil(obj_ == 0, Byte), [5, 0]), "t"/Bytes(this._index + 1))', b'ab', {}),
]


def run(tier, seed):
    acc = C.Acc('C07', tier, seed)
    rng = C.rng_for(seed, 'C07')
    cases = []
    shapes = []
    maxd = 3 if tier == 'quick' else 4
    for depth in range(1, maxd + 1):
        for ps in itertools.product(PUSHERS, repeat=depth - 1):
            for rs in itertools.product(['Array', 'RepeatUntil', None], repeat=depth - 1):
                shapes.append((list(ps) + ['Struct'], [None] + list(rs)))
    if tier == 'quick' and len(shapes) > 320:
        rng.shuffle(shapes)
        shapes = shapes[:320]
    for ps, rs in shapes:
        src = make(ps, rs)[0]
        acc.check('scope', src, pushers=ps, repeaters=rs)
        cases.append(dict(src=src, op='parse', data=b'', kw=dict(k=42)))
        cases.append(dict(src=src, op='sizeof', kw=dict(k=42)))
    for src, kw, exp in SIZING:
        acc.check('sizing', src, kw=kw, expected=exp)
        cases.append(dict(src=src, op='sizeof', kw=kw))
        cases.append(dict(src=src, op='sizeof', kw={}))
    for src, obj, kw in COHERENT:
        acc.check('coherent', src, obj=obj, kw=kw)
        cases.append(dict(src=src, op='build', obj=obj, kw=kw))
        try:
            cases.append(dict(src=src, op='parse', data=C.get(src).build(obj, **kw), kw=kw))
        except Exception:
            pass
    for src, obj, kw in COHERENT + [
            ('Struct("d"/Bytes(this._params.n), "t"/Byte)', dict(d=b'ab', t=1), dict(n=2)),
            ('Struct("s"/Struct("d"/Bytes(this._.k)), "a"/Array(this.k, Byte))', dict(s=dict(d=b'abc'), a=[1, 2, 3]), dict(k=3)),
            ('Struct("s"/Struct("q"/Struct("d"/Bytes(this._root._.k))), "t"/Byte)', dict(s=dict(q=dict(d=b'xy')), t=7), dict(k=2)),
            ('Sequence(Bytes(this._.n), IfThenElse(this._params.big, Int32ub, Byte))', [b'ab', 70000], dict(n=2, big=True)),
            ('Struct("x"/Switch(this._params.kind, {"a": Byte, "b": Int16ub}), "p"/Padded(this._.w, Byte))', dict(x=300, p=1), dict(kind='b', w=3))]:
        if any(n in src for n in ('"keys"', '"items"', '"values"', '"copy"', '"setdefault"')):
            continue          # the comparison helper reads containers through .items(), which such a member shadows
        acc.check('entry_points', src, obj=obj, kw=kw)
    for src, obj, kw in AFTER_LOOP:
        acc.check('coherent', src, obj=obj, kw=kw)
    for src, csrc, data in UNION_SELFREF:
        acc.check('union_selfref', src, const_src=csrc, data=data)
        if 'lambda' not in src:
            cases.append(dict(src=src, op='parse', data=data))
    for elem, objs in DISCARD:
        for rep in ('Array', 'GreedyRange', 'RepeatUntil'):
            acc.check('discard', '%s over %s' % (rep, elem), elem=elem, rep=rep, objs=objs, kw={})
    # known finding: a lazily skipped sibling is not visible (documented LazyStruct restriction)
    acc.check('lazy_sibling', 'LazyStruct("n"/Byte, "d"/Bytes(this.n))', eager='Struct("n"/Byte, "d"/Bytes(this.n))', data=b'\x02ab')
    acc.corr(cases, 'scope')
    return acc.result(
        rule='all nesting shapes to depth %d of Struct/Sequence/FocusedSeq/Union/LazyStruct with Array/RepeatUntil repetition between levels '
             '(GreedyRange over a non-consuming probe is replaced by its bounded form), each holding probes this.m, this._.m .. this._^d.m, '
             'this._root.m, this._params.k (+ via _params._params and via d steps up), the three flags, _index, a mixed expression; evaluated by '
             'parse, by build (returned context) and, for size-affecting references, by sizeof; plus dependent-layout structs (lengths, counts, '
             'selectors from fields; forward references when building; flags inside Lazy*/LazyStruct sizing during parse); _index-dependent elements under Array/GreedyRange/RepeatUntil with and without discard=True. distinct = (shape, outcome)' % maxd,
        fragment='scope-chain theorems hold for every context; eval_mode_independent: every expression without flag names evaluates identically in '
                 'parse, build and sizeof contexts with the same scope chain',
        partial=['that the three interpreters build the same scope chain is visible in the model definitions and checked by correspondence; '
                 'C07_coherence (build/parse pick the same layout) is proved only as part of C01 for the closed fragment'])


def replay(payload):
    return C.generic_replay(payload)
