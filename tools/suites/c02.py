"""C02: re-encoding parsed data is canonical and stable."""
import io, os, sys
from . import common as C
import gen as G
import impl as I
import construct
from construct import core


def force(v):
    """evaluate lazies, so that equality compares values"""
    if callable(v) and not isinstance(v, (dict, list)):
        return force(v())
    return v


def no_positions(v):
    """RawCopy reports where its bytes were (offset1, offset2): positions move when an earlier field is normalised to an encoding of
    another length, which is not a difference of value (C08 / C14 are about the offsets themselves)"""
    if callable(v) and not isinstance(v, (dict, list)):
        v = v()
    if isinstance(v, dict):
        keys = set(k for k in v.keys() if not str(k).startswith('_'))
        drop = {'offset1', 'offset2'} if {'data', 'value', 'offset1', 'offset2', 'length'} <= keys else set()
        return {k: no_positions(x) for k, x in v.items() if k not in drop and not str(k).startswith('_')}
    if isinstance(v, (list, tuple)):
        return [no_positions(x) for x in v]
    return v


@C.oracle('canonical')
def o_canonical(src, data):
    c = C.get(src)
    try:
        v = c.parse(data)
        I.to_val(v)
    except core.ConstructError:
        return None
    try:
        b1 = c.build(v)
    except core.ConstructError as e:
        return 'parse accepted %r (-> %r) but build rejects the value: %s' % (data, v, type(e).__name__)
    try:
        v2 = c.parse(b1)
    except core.ConstructError as e:
        return 'build(parse(%r)) = %r does not parse: %s' % (data, b1, type(e).__name__)
    if not C.veq(no_positions(v2), no_positions(v)):
        return 'parse(build(parse(%r))) = %r differs from %r' % (data, v2, v)
    try:
        b2 = c.build(v2)
    except core.ConstructError as e:
        return 'second build rejected: %s' % type(e).__name__
    if b2 != b1:
        return 'build is not stable: %r then %r (input %r)' % (b1, b2, data)
    return None


@C.oracle('reproduce')
def o_reproduce(src, obj):
    """bytes that the construct itself produced are reproduced exactly"""
    c = C.get(src)
    try:
        b = c.build(obj)
    except core.ConstructError:
        return None
    try:
        v = c.parse(b)
        b2 = c.build(v)
    except core.ConstructError as e:
        return 'bytes built from %r (%r) are not re-encoded: %s' % (obj, b, type(e).__name__)
    if b2 != b:
        return 'built %r -> %r, parse and rebuild gives %r' % (obj, b, b2)
    return None


GALLERY = [('deprecated', 'png_file', 'sample.png'), ('deprecated', 'emf_file', 'emf1.emf'), ('deprecated', 'bitmap_file', 'bitmap1.bmp'),
           ('deprecated', 'bitmap_file', 'bitmap4.bmp'), ('deprecated', 'bitmap_file', 'bitmap8.bmp'), ('deprecated', 'bitmap_file', 'bitmap24.bmp'),
           ('deprecated', 'wmf_file', 'wmf1.wmf'), ('deprecated', 'gif_file', 'sample.gif'), ('deprecated', 'mbr_format', 'mbr1'),
           ('deprecated', 'snoop_file', 'snoop1'), ('deprecated', 'pe32_file', 'sqlite3.dll'), ('deprecated', 'pe32_file', 'NOTEPAD.EXE'),
           ('deprecated', 'elf32_file', 'ctypes.so'), ('new', 'pe32file', 'sqlite3.dll'), ('new', 'pe32file', 'python37-win32.exe')]


@C.oracle('gallery')
def o_gallery(src, which, name, blob):
    kind = which
    repo = os.environ.get('VERIF_REPO', '/repo')
    if repo not in sys.path:
        sys.path.insert(0, repo)
    import importlib
    mod = importlib.import_module('deprecated_gallery' if kind == 'deprecated' else 'gallery')
    fmt = getattr(mod, name)
    data = open(os.path.join(repo, 'tests', ('deprecated_gallery' if kind == 'deprecated' else 'gallery'), 'blobs', blob), 'rb').read()
    v = fmt.parse(data)
    b1 = fmt.build(v)
    v2 = fmt.parse(b1)
    if not C.veq(v2, v):
        return '%s: parse(build(parse(blob))) differs from parse(blob)' % blob
    if fmt.build(v2) != b1:
        return '%s: build is not stable' % blob
    return None


NONCANON = [
    ('VarInt', [b'\x80\x00', b'\x81\x80\x00', b'\xff\x80\x80\x00', b'\x80\x80\x80\x80\x00']),
    ('ZigZag', [b'\x80\x00', b'\x81\x00']),
    ('Flag', [bytes([b]) for b in range(256)]),
    ('Struct("f"/Flag, "g"/Flag)', [b'\x02\xff', b'\x00\x80']),
    ('Padded(4, Byte)', [b'\x01abc', b'\x01\xff\xff\xff']),
    ('Padded(4, Byte, pattern=b"\\xaa")', [b'\x01abc', b'\x01\x00\x00\x00']),
    ('Aligned(4, Int16ub)', [b'\x00\x01zz']),
    ('FixedSized(5, Byte)', [b'\x01abcd']),
    ('Prefixed(Byte, Byte)', [b'\x03\x01zz', b'\x01\x05']),
    ('Prefixed(Byte, Int16ub, includelength=True)', [b'\x05\x00\x01zz']),
    ('Prefixed(VarInt, Byte)', [b'\x82\x00\x07z', b'\x80\x81\x00' + bytes(128)]),
    ('PrefixedArray(VarInt, Byte)', [b'\x82\x00\x07\x08']),
    ('PaddedString(6, "ascii")', [b'ab\x00cd\x00', b'ab\x00\x00\x00\x00', b'abcdef']),
    ('PaddedString(6, "utf_16_le")', [b'a\x00b\x00\x00\x00', b'a\x00\x00\x00b\x00']),
    ('CString("utf8")', [b'ab\x00trailing', b'\x00']),
    ('NullTerminated(GreedyBytes, term=b"ab")', [b'xyabzz', b'xaybab']),
    ('NullStripped(GreedyBytes)', [b'ab\x00\x00', b'\x00\x00', b'']),
    ('Struct("a"/NullStripped(GreedyBytes, pad=b"ab"))', [b'xyabab', b'xyaba']),
    ('Enum(Byte, a=1, b=1, c=2)', [b'\x01', b'\x02', b'\x03']),
    ('FlagsEnum(Byte, r=1, w=2, rw=3, hi=0xf0, none=0)', [bytes([b]) for b in range(256)]),
    ('FlagsEnum(Byte, a=1, b=2)', [bytes([b]) for b in range(0, 256, 5)]),
    ('Mapping(Byte, {"x": 1, "y": 1, "z": 2})', [b'\x01', b'\x02']),
    ('Select(Int16ub, Byte)', [b'\x01', b'\x01\x02']),
    ('Optional(Int16ub)', [b'\x01', b'\x01\x02', b'']),
    ('Struct("a"/Optional(Const(b"AB")), "b"/GreedyBytes)', [b'ABxy']),
    ('Select(Struct("size"/Byte, Const(b"V1"), "x"/Byte), Struct("size"/Byte, Const(b"V2"), "y"/Int16ub))', [b'\x05V1\x07', b'\x06V2\x00\x09']),
    ('Struct("n"/Int8sb, "d"/Bytes(this.n))', [b'\x02ab', b'\x00', b'\xff']),
    # anonymous constants and padding among the named members (Stable.anon_det): junk in the padding, non-minimal VarInt
    ('Struct(Const(b"MZ"), "a"/Int16ul, Padding(2), "d"/VarInt, Const(7, Byte))', [b'MZ\x01\x00\xaa\xbb\x85\x00\x07', b'MZ\x00\x00\x00\x00\x01\x07', b'MQ\x00\x00\x00\x00\x01\x07']),
    ('Struct(Const(b"TL"), "t"/Byte, "n"/Byte, "v"/Switch(this.t, {1: Bytes(this.n), 2: Array(this.n, Int16ub)}, default=Pass), Padding(1))', [b'TL\x01\x03abc\xee', b'TL\x02\x01\x00\x05\x00', b'TL\x09\x09\xff']),
    # optional terminators: what build writes must still delimit the field when something follows
    ('Struct("s"/NullTerminated(GreedyBytes, require=False), "n"/Byte)', [b'ab\x00\x07', b'\x00\x07']),
    ('Array(2, NullTerminated(GreedyBytes, require=False))', [b'ab\x00c\x00', b'\x00\x00']),
    ('Prefixed(Byte, Struct("s"/NullTerminated(GreedyBytes, term=b"\\r\\n", require=False), "g"/GreedyBytes))', [b'\x06ab\r\nxy', b'\x02\r\n']),
    ('Struct("s"/NullTerminated(Int16ub, require=False), "t"/Const(b"!"))', [b'\x01\x02\x00!']),
    # underscore-named members referred to before they are built (Rebuild / Default over the value being built)
    ('Struct("count"/Rebuild(Byte, len_(this._items)), "_items"/Array(this.count, Byte))', [b'\x02\x01\x02', b'\x00']),
    ('Struct("n"/Rebuild(VarInt, len_(this._d)), "_d"/Bytes(this.n), "z"/Byte)', [b'\x82\x00ab\x07', b'\x00\x07']),
    ('Struct("h"/Struct("l"/Rebuild(Byte, len_(this._._body))), "_body"/Bytes(this.h.l))', [b'\x03abc']),
    ('Struct("k"/Default(Byte, this._v + 1), "_v"/Byte)', [b'\x05\x04', b'\x00\x09']),
    # fields that only build evaluates (Rebuild): constants on the LEFT of -, //, %, **, <<, >> and of comparisons over the parsed members
    ('Struct("free"/Rebuild(Byte, 8 - len_(this.its)), "its"/PrefixedArray(VarInt, Byte))', [b'\x06\x02\x01\x02', b'\x08\x00', b'\x05\x03\x01\x02\x03']),
    ('Struct("a"/Byte, "r"/Rebuild(Byte, 200 - this.a), "s"/Rebuild(Byte, 100 // (this.a + 1)), "t"/Rebuild(Byte, 17 % (this.a + 2)), "u"/Rebuild(Byte, 2 ** (this.a % 4)))',
     [b'\x03\xc5\x19\x02\x08', b'\x00\xc8\x64\x01\x01']),
    ('Struct("a"/Byte, "r"/Rebuild(Int16ub, 1 << (this.a % 8)), "s"/Rebuild(Byte, 255 >> (this.a % 8)), "f"/Rebuild(Flag, 5 < this.a), "g"/Rebuild(Flag, 5 >= this.a))',
     [b'\x03\x00\x08\x1f\x00\x01', b'\x09\x00\x02\x7f\x01\x00']),
    # tag-length-value (StableDep): payload chosen by the tag and sized by the length; non-minimal VarInts, non-zero padding
    ('Struct("t"/Byte, "n"/Byte, "v"/Switch(this.t, {1: Bytes(this.n), 2: Array(this.n, Int16ub)}, default=Pass), "f"/IfThenElse(this.t, VarInt, Pass))',
     [b'\x02\x02\x01\x02\x00\x03\xac\x82\x00', b'\x01\x03abc\x80\x00', b'\x00\x09', b'\x07\x00\x81\x80\x00', b'\x01\x05ab']),
    ('Array(2, Struct("k"/VarInt, "b"/Switch(this.k, {0: Struct("n"/Int16ul, "d"/Bytes(this.n)), 300: Padded(4, Byte)}, default=Int32sb)))',
     [b'\x80\x00\x02\x00hi\xac\x02\x07zzz', b'\x05\xff\xff\xff\xf7\x00\x00\x00', b'\xac\x82\x00\x01\x01\x01\x01\x80\x80\x00\x00\x00']),
    ('BitStruct("a"/BitsInteger(3), Padding(5))', [bytes([b]) for b in range(0, 256, 7)]),
    ('Struct("c"/Const(b"\\x01"), "v"/Default(Byte, 7), "n"/Rebuild(Byte, len_(this.d)), "d"/Bytes(this.n))', [b'\x01\x02\x03abc', b'\x01\x00\x00']),
    ('Float32b', [b'\x7f\x80\x00\x00', b'\x00\x00\x00\x01', b'\x80\x00\x00\x00']),
    ('Float16l', [b'\x01\x00', b'\x00\x7c', b'\xff\x7b']),
    ('PascalString(Byte, "utf8")', [b'\x02\xc3\xa9', b'\x00']),
    ('GreedyString("utf_16_le")', [b'a\x00b\x00', b'']),
    ('RawCopy(Prefixed(Byte, GreedyBytes))', [b'\x02abzz']),
    ('Hex(Int16ub)', [b'\x00\x01']), ('HexDump(Bytes(3))', [b'abc']),
    ('Lazy(Int16ub)', [b'\x00\x01']), ('LazyStruct("a"/Byte, "b"/Int16ub)', [b'\x01\x00\x02']), ('LazyArray(2, Int16ub)', [b'\x00\x01\x00\x02']),
]


def run(tier, seed):
    acc = C.Acc('C02', tier, seed)
    G.CANON_VALUES = True
    rng = C.rng_for(seed, 'C02')
    cases = []
    for src, datas in NONCANON:
        for d in datas:
            acc.check('canonical', src, data=d)
            cases.append(dict(src=src, op='parse', data=d))
    n = 700 if tier == 'quick' else 2500      # 12000 until the open issue of DESIGN 0.7 (the run dies in the correspondence pool) is understood
    for _ in range(n):
        node = G.g_node(rng, rng.choice([0, 1, 2, 2, 3, 3]), True)
        if any(t in node.tags for t in ()) or 'PaddedString' in node.src and ('utf16"' in node.src or 'utf32"' in node.src or "'utf16'" in node.src or "'utf32'" in node.src or "'u16'" in node.src):
            continue          # BOM codecs in a fixed-size field: recorded known finding
        datas = [G.rand_bytes(rng, rng.randint(0, 12)), bytes(rng.randint(0, 8)), b'\xff' * rng.randint(1, 8)]
        for _ in range(2):
            try:
                v = node.val(rng)
                acc.check('reproduce', node.src, obj=v)
                d = C.get(node.src).build(v)
            except Exception:
                continue
            datas.append(d)
            for _ in range(3):
                datas.append(G.mutate(rng, d))
            datas.append(d + G.rand_bytes(rng, rng.randint(1, 3)))
            if tier == 'thorough' and len(d) <= 6:
                for i in range(len(d)):
                    for k in range(8):
                        datas.append(d[:i] + bytes([d[i] ^ (1 << k)]) + d[i + 1:])
        for d in datas:
            acc.check('canonical', node.src, data=d)
            cases.append(dict(src=node.src, op='parse', data=d))
    # two-feature interactions: every wrapper class over every kind of inner construct, on what it builds and on mutations of that
    for src, v in C.pairs(selfdelimiting=True):
        if not C.constructible(src):
            continue
        try:
            d = C.get(src).build(v)
        except BaseException:
            continue
        xs = (d, d + b'\x00', G.mutate(rng, d), G.mutate(rng, d))
        if src.startswith('Peek('):
            continue           # builds nothing, by design
        if src.startswith(('Rebuild(', 'Restreamed(', 'Transformed(', 'NullStripped(')) or (src.startswith('NullTerminated(') and 'term=' in src):
            xs = (d,)          # recomputed on build / unit-wise streams / payloads that must not end in the pad byte: only what they
                               # build themselves is in their domain
        if src.startswith(('Optional(', 'Select(')):
            xs = (d,)          # an input the first alternative rejects parses as None, which builds as that alternative again when it
                               # builds from nothing: recorded known finding (Optional(Const(..))), not multiplied here
        for x in xs:
            acc.check('canonical', src, data=x)
            cases.append(dict(src=src, op='parse', data=x))
    for kind, name, blob in GALLERY:
        acc.check('gallery', '%s.%s' % (kind, name), which=kind, name=name, blob=blob)
    # known findings (recorded, not repaired): probes
    acc.check('canonical', 'PaddedString(4, "utf16")', data=b'a\x00b\x00')
    acc.check('canonical', 'Struct("a"/NullTerminated(GreedyBytes, include=True), "b"/Byte)', data=b'xy\x00\x07')
    acc.check('canonical', 'Struct("a"/Optional(Const(b"AB")), "b"/GreedyBytes)', data=b'Axy')
    acc.corr(cases, 'canon')
    return acc.result(
        rule='for every accepted input x: build(parse(x)) succeeds, parses back to an equal value and builds to the same bytes. Inputs: non-minimal '
             'VarInts, all 256 flag/flags-enum bytes, arbitrary padding, trailing bytes in delimited regions, duplicate enum values, alternative '
             'orders in Select/Optional, signed lengths, special floats; generated constructs of the sequential grammar x (random, all-zero, all-ff, '
             'canonical encodings, 3 mutations each, trailing garbage; thorough: every single-bit flip of short encodings); 15 gallery formats on '
             'their blobs. distinct = (shape, input, outcome)',
        fragment='rebuild_fragment: build after parse is stable for every construct of the closed sequential fragment with named members '
                 'or anonymous constants / padding (Stable.sfrag); dep_rebuild: the same for the dependent fragment (sizes and Switch / IfThenElse choices read from earlier integer '
                 'fields); integers, VarInt, Flag canonical forms (PrimFacts); Float16 exhaustively (FloatFacts), props/C02.v',
        partial=['outside sfrag / dfrag (strings, enums, flags, adapters, bit-level, anonymous members) idempotence is decided by the oracle on '
                 'canonical and non-canonical inputs'],
        assumptions=['gallery format cap.py is excluded: its timestamp adapter is user code doing float arithmetic'])


def replay(payload):
    return C.generic_replay(payload)
