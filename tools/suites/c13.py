"""C13: constants, validators and label mappings are enforced in both directions."""
import io
from . import common as C
import gen as G
import construct
from construct import core


def attempt(f):
    try:
        return ('ok', f())
    except core.ExplicitError:
        return ('explicit',)
    except core.ConstructError as e:
        return ('err', type(e).__name__)


@C.oracle('const')
def o_const(src, value, sub, candidates):
    c, s = C.get(src), C.get(sub)
    canon = s.build(value)
    b = attempt(lambda: c.build(None))
    if b != ('ok', canon):
        return 'Const.build(None) gave %r, the encoding of the constant is %r' % (b, canon)
    for x in candidates:
        r = attempt(lambda: c.build(x))
        same = (x is None) or (type(x) is not bool and x == value and type(x) == type(value)) or (x == value)
        if same:
            if r != ('ok', canon):
                return 'Const.build(%r) gave %r, expected the constant encoding' % (x, r)
        elif r[0] == 'ok':
            return 'Const.build(%r) was accepted (emitted %r) although the constant is %r' % (x, r[1], value)
    # parse: every input of the same length (1 or 2 bytes exhaustively sampled) is accepted iff it is the canonical encoding
    n = len(canon)
    probes = [canon] + [canon[:i] + bytes([canon[i] ^ (1 << k)]) + canon[i + 1:] for i in range(n) for k in range(8)]
    for d in probes:
        r = attempt(lambda: c.parse(d))
        sv = attempt(lambda: s.parse(d))
        should = sv[0] == 'ok' and sv[1] == value
        if should != (r[0] == 'ok'):
            return 'Const.parse(%r): %r, but the sub-construct yields %r and the constant is %r' % (d, r, sv, value)
    return None


@C.oracle('validator')
def o_validator(src, sub, pred_src, values):
    c, s = C.get(src), C.get(sub)
    pred = eval(pred_src)
    for v in values:
        try:
            enc = s.build(v)
        except core.ConstructError:
            continue
        holds = bool(pred(v))
        p = attempt(lambda: c.parse(enc))
        b = attempt(lambda: c.build(v))
        if holds:
            if p[0] != 'ok' or not C.peq(p[1], v):
                return 'value %r satisfies the predicate but parse gives %r' % (v, p)
            if b != ('ok', enc):
                return 'value %r satisfies the predicate but build gives %r' % (v, b)
        else:
            if p[0] == 'ok':
                return 'value %r violates the predicate but parse returned %r' % (v, p[1])
            if b[0] == 'ok':
                return 'value %r violates the predicate but build serialised it' % (v,)
    return None


@C.oracle('enum')
def o_enum(src, sub, table, width):
    c, s = C.get(src), C.get(sub)
    inv = {}
    for k, v in table.items():
        inv[v] = k           # last label wins for parse
    for label, v in table.items():
        b = attempt(lambda: c.build(label))
        if b != ('ok', s.build(v)):
            return 'build(%r) gave %r, the table says %d' % (label, b, v)
        p = attempt(lambda: c.parse(s.build(v)))
        if p[0] != 'ok' or str(p[1]) != inv[v] or int(p[1]) != v:
            return 'parse of %d gave %r, the table says %r' % (v, p, inv[v])
    for bad in ('nosuchlabel', '', 'A', b'a', 1.5, None):
        if bad in table:
            continue
        b = attempt(lambda: c.build(bad))
        if b[0] == 'ok':
            return 'build(%r) (unknown label) was accepted: %r' % (bad, b[1])
    # label objects handed out by ANOTHER enum (same names, other numbers; one name this enum does not have): the name decides
    names = list(table)
    other_table = {n: (table[names[(i + 1) % len(names)]] + 3) % (256 ** width) for i, n in enumerate(names)}
    other_table['extra_zz'] = 77 % (256 ** width)
    other = construct.Enum(s, **other_table)
    for L, ov in other_table.items():
        for obj in (getattr(other, L), other.parse(s.build(ov))):
            if str(obj) != L:
                continue
            b = attempt(lambda: c.build(obj))
            if L in table:
                if b != ('ok', s.build(table[L])):
                    return 'build(label %r of another enum, number %d there) gave %r, this enum maps %r to %d' % (L, ov, b, L, table[L])
            elif b[0] == 'ok':
                return 'build(label %r of another enum) was accepted although this enum has no such label: %r' % (L, b[1])
    top = 256 ** width
    for v in list(range(0, min(top, 256))) + [top - 1, top // 2, 300 % top, 65535 % top]:
        d = s.build(v)
        p = attempt(lambda: c.parse(d))
        if p[0] != 'ok' or int(p[1]) != v:
            return 'parse of integer %d gave %r' % (v, p)
        if v not in inv and (isinstance(p[1], str) or p[1] != v):
            return 'unmapped integer %d was not preserved: %r' % (v, p[1])
        b = attempt(lambda: c.build(v))
        if b != ('ok', d):
            return 'build of integer %d gave %r' % (v, b)
        rb = attempt(lambda: c.build(p[1]))
        if rb != ('ok', d):
            return 'build(parse(%r)) gave %r' % (d, rb)
    return None


@C.oracle('flagsenum')
def o_flags(src, sub, table):
    c, s = C.get(src), C.get(sub)
    for v in range(256):
        d = s.build(v)
        p = attempt(lambda: c.parse(d))
        if p[0] != 'ok':
            return 'parse of %d raised %s' % (v, p[1:])
        for label, mask in table.items():
            exp = (v & mask) == mask
            if bool(p[1][label]) != exp:
                return 'parse of %#x reports %s=%r, the mask %#x says %r' % (v, label, p[1][label], mask, exp)
    for label, mask in table.items():
        b = attempt(lambda: c.build({label: True}))
        if b != ('ok', s.build(mask)):
            return 'build({%s: True}) gave %r' % (label, b)
        b = attempt(lambda: c.build(label))
        if b != ('ok', s.build(mask)):
            return 'build(%r) gave %r' % (label, b)
    labels = list(table)
    if len(labels) >= 2:
        sp = '%s | %s' % (labels[0], labels[-1])
        b = attempt(lambda: c.build(sp))
        if b != ('ok', s.build(table[labels[0]] | table[labels[-1]])):
            return 'build(%r) gave %r' % (sp, b)
    # every pair and triple of labels, repeated labels included: the spelling 'p|q' means the union of the masks, as the dict spelling does
    import itertools
    for combo in list(itertools.product(labels, repeat=2)) + list(itertools.product(labels[:3], repeat=3)):
        want = 0
        for l in combo:
            want |= table[l]
        sp = '|'.join(combo)
        b = attempt(lambda: c.build(sp))
        if b != ('ok', s.build(want)):
            return 'build(%r) gave %r, the union of the masks is %#x' % (sp, b, want)
        b2 = attempt(lambda: c.build({l: True for l in combo}))
        if b2 != b:
            return 'build(%r) gave %r but the dict spelling of the same labels gave %r' % (sp, b, b2)
    for bad in ('nosuch', 'a|nosuch' if 'a' in table else 'x|y', {'nosuch': True}):
        b = attempt(lambda: c.build(bad))
        if b[0] == 'ok':
            return 'build(%r) (unknown label) was accepted: %r' % (bad, b[1])
    return None


@C.oracle('mapping')
def o_mapping(src, sub, table):
    c, s = C.get(src), C.get(sub)
    for k, v in table.items():
        b = attempt(lambda: c.build(k))
        if b != ('ok', s.build(v)):
            return 'build(%r) gave %r' % (k, b)
        p = attempt(lambda: c.parse(s.build(v)))
        if p != ('ok', k):
            return 'parse of %r gave %r, expected %r' % (v, p, k)
    enc = set(table.values())
    for v in range(256):
        if v in enc:
            continue
        p = attempt(lambda: c.parse(s.build(v)))
        if p[0] == 'ok':
            return 'parse of unmapped value %d returned %r' % (v, p[1])
    for bad in ('nosuch', 77, None, b'zz'):
        if bad in table:
            continue
        b = attempt(lambda: c.build(bad))
        if b[0] == 'ok':
            return 'build(%r) (unknown) was accepted' % (bad,)
    return None


@C.oracle('explicit')
def o_explicit(src, data, obj):
    c = C.get(src)
    p = attempt(lambda: c.parse(data))
    if p[0] != 'explicit':
        return 'parse did not abort with ExplicitError: %r' % (p,)
    b = attempt(lambda: c.build(obj))
    if b[0] != 'explicit':
        return 'build did not abort with ExplicitError: %r' % (b,)
    return None


def run(tier, seed):
    acc = C.Acc('C13', tier, seed)
    rng = C.rng_for(seed, 'C13')
    cases, checks = [], []
    consts = [('Const(255, Byte)', 255, 'Byte'), ('Const(0, Byte)', 0, 'Byte'), ('Const(2, Int16ub)', 2, 'Int16ub'),
              ('Const(513, Int16ul)', 513, 'Int16ul'), ('Const(b"MZ")', b'MZ', 'Bytes(2)'), ('Const(b"\\x00")', b'\x00', 'Bytes(1)'),
              ('Const(b"")', b'', 'Bytes(0)'), ('Const("ab", PaddedString(4, "ascii"))', 'ab', 'PaddedString(4, "ascii")'),
              ('Const(-1, Int8sb)', -1, 'Int8sb'), ('Const(1, VarInt)', 1, 'VarInt'), ('Const(True, Flag)', True, 'Flag'),
              ('Const(False, Flag)', False, 'Flag'), ('Const("a", Enum(Byte, a=1))', 'a', 'Enum(Byte, a=1)')]
    cand = [None, 0, 1, 2, 255, 513, -1, False, True, b'', b'MZ', b'\x00', b'mz', 'ab', '', 'a', 0.0, 1.0, [], 256]
    for src, val, sub in consts:
        checks.append(('const', src, dict(value=val, sub=sub, candidates=cand)))
        for x in cand:
            cases.append(dict(src=src, op='build', obj=x))
            cases.append(dict(src='Struct("v"/%s, "w"/Byte)' % src, op='build', obj=dict(v=x, w=1)))
        for b in range(256):
            cases.append(dict(src=src, op='parse', data=bytes([b, 2, 1][:max(1, len(C.get(sub).build(val)))])))
    vals8 = list(range(256))
    validators = [
        ('OneOf(Byte, [1, 2, 255])', 'Byte', 'lambda v: v in [1, 2, 255]', vals8),
        ('OneOf(Byte, [0])', 'Byte', 'lambda v: v in [0]', vals8),
        ('NoneOf(Byte, [0, 255])', 'Byte', 'lambda v: v not in [0, 255]', vals8),
        ('OneOf(Int8sb, [-1, 0])', 'Int8sb', 'lambda v: v in [-1, 0]', list(range(-128, 128))),
        ('OneOf(Bytes(1), [b"a", b"\\x00"])', 'Bytes(1)', 'lambda v: v in [b"a", b"\\x00"]', [bytes([b]) for b in range(256)]),
        ('NoneOf(Bytes(1), [b"a"])', 'Bytes(1)', 'lambda v: v not in [b"a"]', [bytes([b]) for b in range(256)]),
        ('OneOf(PaddedString(2, "ascii"), ["a", ""])', 'PaddedString(2, "ascii")', 'lambda v: v in ["a", ""]', ['a', '', 'b', 'ab']),
        ('ExprValidator(Byte, obj_ & 1 == 1)', 'Byte', 'lambda v: (v & 1) == 1', vals8),
        ('ExprValidator(Byte, obj_ < 7)', 'Byte', 'lambda v: v < 7', vals8),
        ('ExprValidator(Int16ub, (obj_ % 3 == 0) & (obj_ > 5))', 'Int16ub', 'lambda v: v % 3 == 0 and v > 5', list(range(0, 700, 1))),
        ('OneOf(VarInt, [0, 127, 128, 300])', 'VarInt', 'lambda v: v in [0, 127, 128, 300]', list(range(0, 400))),
        ('NoneOf(Flag, [False])', 'Flag', 'lambda v: v not in [False]', [True, False]),
        # collections of other kinds: the documented test is `obj in valids`, whatever that means for the collection
        ('NoneOf(Bytes(1), b"\\x00\\xff")', 'Bytes(1)', 'lambda v: v not in b"\\x00\\xff"', [bytes([b]) for b in range(256)]),
        ('OneOf(Bytes(1), b"ABC")', 'Bytes(1)', 'lambda v: v in b"ABC"', [bytes([b]) for b in range(256)]),
        ('OneOf(Bytes(2), b"1234567890")', 'Bytes(2)', 'lambda v: v in b"1234567890"', [b'12', b'78', b'13', b'90', b'09', b'ab', b'45']),
        ('NoneOf(PaddedString(2, "ascii"), "abc")', 'PaddedString(2, "ascii")', 'lambda v: v not in "abc"', ['ab', 'bc', 'ac', 'a', '', 'zz', 'c']),
        ('OneOf(Byte, b"\\x01\\x02")', 'Byte', 'lambda v: v in b"\\x01\\x02"', vals8),
        ('OneOf(Byte, range(3, 9))', 'Byte', 'lambda v: v in range(3, 9)', vals8),
        ('NoneOf(Byte, {1, 2, 250})', 'Byte', 'lambda v: v not in {1, 2, 250}', vals8),
        ('OneOf(Byte, (5,))', 'Byte', 'lambda v: v in (5,)', vals8),
        ('OneOf(Bytes(2), {b"ab": 1, b"cd": 2})', 'Bytes(2)', 'lambda v: v in {b"ab": 1, b"cd": 2}', [b'ab', b'cd', b'ac', b'a\x00']),
    ]
    for src, sub, pred, vals in validators:
        checks.append(('validator', src, dict(sub=sub, pred_src=pred, values=vals)))
        for v in vals[:260]:
            cases.append(dict(src=src, op='build', obj=v))
            try:
                cases.append(dict(src=src, op='parse', data=C.get(sub).build(v)))
            except Exception:
                pass
    enums = [('Enum(Byte, a=1, b=2, c=255)', 'Byte', dict(a=1, b=2, c=255), 1), ('Enum(Int16ub, E)', 'Int16ub', dict(one=1, two=2, big=300), 2),
             ('Enum(Byte, zero=0, dup1=5, dup2=5)', 'Byte', dict(zero=0, dup1=5, dup2=5), 1), ('Enum(Int8ub, x=7)', 'Int8ub', dict(x=7), 1)]
    for src, sub, table, w in enums:
        checks.append(('enum', src, dict(sub=sub, table=table, width=w)))
        for v in list(table) + list(range(0, 256, 5)) + ['zzz', '', None, 1.5, b'a']:
            cases.append(dict(src=src, op='build', obj=v))
        for b in range(256):
            cases.append(dict(src=src, op='parse', data=bytes([b]) * w))
    flags = [('FlagsEnum(Byte, a=1, b=2, c=8)', 'Byte', dict(a=1, b=2, c=8)), ('FlagsEnum(Byte, F)', 'Byte', dict(a=1, b=2, c=8)),
             ('FlagsEnum(Byte, r=1, w=2, rw=3, x=0x80)', 'Byte', dict(r=1, w=2, rw=3, x=0x80)),
             ('FlagsEnum(Byte, lo=0x0f, hi=0xf0, all=0xff, bit=0x10)', 'Byte', dict(lo=0x0f, hi=0xf0, all=0xff, bit=0x10))]
    for src, sub, table in flags:
        checks.append(('flagsenum', src, dict(sub=sub, table=table)))
        for b in range(256):
            cases.append(dict(src=src, op='parse', data=bytes([b])))
        lab = list(table)
        for v in [dict((l, True) for l in lab), dict((l, False) for l in lab), {lab[0]: True}, lab[0], '|'.join(lab), ' %s | %s ' % (lab[0], lab[-1]),
                  'nosuch', '', 0, 3, 255, {lab[-1]: 1, 'nosuch': False}, {'nosuch': True}, None, {}]:
            cases.append(dict(src=src, op='build', obj=v))
    maps = [('Mapping(Byte, {"x": 1, "y": 2, b"z": 3})', 'Byte', {'x': 1, 'y': 2, b'z': 3}), ('Mapping(Byte, {0: 10, 1: 11})', 'Byte', {0: 10, 1: 11})]
    for src, sub, table in maps:
        checks.append(('mapping', src, dict(sub=sub, table=table)))
        for b in range(256):
            cases.append(dict(src=src, op='parse', data=bytes([b])))
        for v in list(table) + ['q', 5, None, b'x']:
            cases.append(dict(src=src, op='build', obj=v))
    for src, data, obj in [('Select(Error, Byte)', b'\x01', 1), ('Optional(Error)', b'\x01', None), ('GreedyRange(Select(Error, Byte))', b'\x01', [1]),
                           ('Struct("a"/Byte, "e"/Optional(Struct("b"/Byte, Error)))', b'\x01\x02', dict(a=1, e=dict(b=2))),
                           ('Select(Struct("b"/Byte, "c"/If(this.b == 1, Error)), Byte)', b'\x01', dict(b=1)),
                           ('GreedyRange(Optional(Sequence(Byte, Error)))', b'\x01\x02', [[1, None]]),
                           ('Optional(GreedyRange(Select(Sequence(Const(b"\\x09"), Byte), Error)))', b'\x01', [None]),
                           ('Sequence(Select(Const(b"\\x09"), Sequence(Byte, Error)), Byte)', b'\x01\x02', [[1, None], 2]),
                           # nothing to build (None, a missing or an anonymous member) and the Error sits in a branch or member of an alternative
                           ('Optional(IfThenElse(True, Error, Byte))', b'\x01', None), ('Optional(Switch(7, {1: Byte}, default=Error))', b'\x01', None),
                           ('Select(Struct(Error, "x"/Byte), Pass)', b'\x01', None), ('Select(Sequence(Error, Byte), Pass)', b'\x01', None),
                           ('Select(Byte, IfThenElse(True, Error, Byte), Pass)', b'', None), ('Select(Struct("x"/Byte, Error), Pass)', b'\x01', dict(x=1)),
                           ('Struct("k"/Byte, "v"/Optional(IfThenElse(this.k == 0, Error, Byte)))', b'\x00', dict(k=0)),
                           ('Struct("k"/Byte, Optional(Switch(this.k, {1: Byte}, default=Error)))', b'\x09', dict(k=9)),
                           ('Struct("k"/Byte, "v"/Select(If(this.k == 9, Error), Pass))', b'\x09', dict(k=9)),
                           ('Sequence("k"/Byte, Optional(Struct(If(this._.k == 9, Error), "x"/Byte)))', b'\x09\x01', [9, None]),
                           ('FocusedSeq("k", "k"/Byte, Optional(IfThenElse(this.k == 9, Error, Byte)))', b'\x09', 9)]:
        checks.append(('explicit', src, dict(data=data, obj=obj)))
        cases.append(dict(src=src, op='parse', data=data))
        cases.append(dict(src=src, op='build', obj=obj))
    # an Error reached inside an element of a repeater, with and without discard=True, in every repeater class
    for rep in ('GreedyRange(%s)', 'GreedyRange(%s, discard=True)', 'Array(3, %s)', 'Array(3, %s, discard=True)', 'RepeatUntil(len_(list_) == 9, %s)',
                'RepeatUntil(len_(list_) == 9, %s, discard=True)', 'LazyArray(3, %s)', 'PrefixedArray(Byte, %s)', 'Prefixed(Byte, GreedyRange(%s, discard=True))'):
        for elem in ('Struct("tag"/Byte, "body"/IfThenElse(this.tag == 255, Error, Byte))', 'Sequence("t"/Byte, If(this.t == 255, Error))',
                     'FocusedSeq("v", "v"/Byte, If(this.v == 255, Error))', 'Select(Const(b"\\x01"), Error)'):
            src = rep % elem
            pre = b'\x08' if rep.startswith('Prefixed') else (b'\x03' if rep.startswith('PrefixedArray') else b'')
            for data in (pre + b'\x01\x02\xff\x03\x01\x01\x01\x01', (b'\x02' if rep.startswith('Prefixed(') else pre) + b'\xff\x03'):
                cases.append(dict(src=src, op='parse', data=data))
                acc.check('explicit_parse', src, data=data)
    # validators over a subcon that builds from nothing (Default, Const, Rebuild, Computed): the value it supplies itself is validated too
    for src in ('OneOf(Default(Byte, 9), [1, 2, 3])', 'OneOf(Const(7, Byte), [1, 2])', 'NoneOf(Rebuild(Byte, 4), [4])',
                'Struct("v"/OneOf(Default(Byte, 9), [1, 2, 3]))', 'Struct("n"/Byte, "v"/NoneOf(Rebuild(Byte, this.n), [0]))', 'OneOf(Default(Byte, 2), [1, 2, 3])',
                'OneOf(Default(Int16ub, 300), [300, 2])', 'Struct("v"/NoneOf(Default(Byte, 1), [7]))'):
        for obj in ((None, dict(), dict(n=0), dict(n=3), dict(v=None), dict(v=2)) if src.startswith('Struct') else (None, 1, 9, 2)):
            if 'this.n' in src and not (isinstance(obj, dict) and 'n' in obj):
                continue
            cases.append(dict(src=src, op='build', obj=obj))
            acc.check('built_validates', src, obj=obj)
    for src, data in [('Peek(Error)', b'\x01'), ('Sequence(Peek(Select(Const(b"\\x05"), Error)), Byte)', b'\x01')]:
        cases.append(dict(src=src, op='parse', data=data))
        acc.check('explicit_parse', src, data=data)
    acc.corr(cases, 'validate')
    for kind, src, args in checks:
        acc.check(kind, src, **args)
    return acc.result(
        rule='Const (13 instances) x 20 candidate values incl. falsy wrong ones and all single-bit corruptions of the encoding; OneOf/NoneOf/'
             'ExprValidator over Byte, Int8sb, Bytes(1), strings, VarInt, Flag x every value of the domain; Enum (incl. duplicate values, IntEnum) '
             'x all labels, unknown labels, every byte; FlagsEnum incl. multi-bit and overlapping masks x all 256 values, every label spelling; '
             'Mapping; Error nested in Select/Optional/GreedyRange/Peek for parse and build. distinct = (shape, outcome)',
        fragment='theorems hold for every sub-construct; explicit_escapes_any_nest for any nesting depth (parse side)',
        partial=['Error escaping through Select on the build side has a theorem (select_build_explicit_escapes); through GreedyRange / Peek on build: oracle only'],
        exhaustive=False)


@C.oracle('built_validates')
def o_built_validates(src, obj):
    """enforced in both directions: whatever build emits for a validated field, the same construct accepts when it parses it"""
    c = C.get(src)
    b = attempt(lambda: c.build(obj))
    if b[0] != 'ok':
        return None
    p = attempt(lambda: c.parse(b[1]))
    if p[0] != 'ok':
        return 'build(%r) emitted %r, which the same construct rejects when parsing: %r' % (obj, b[1], p)
    return None


@C.oracle('explicit_parse')
def o_explicit_parse(src, data):
    p = attempt(lambda: C.get(src).parse(data))
    return None if p[0] == 'explicit' else 'parse did not abort with ExplicitError: %r' % (p,)


def replay(payload):
    return C.generic_replay(payload)
