"""C09: look-ahead and alternatives leave the stream exactly where their contract says."""
import io
from . import common as C
import gen as G
import construct
from construct import core

ALTS = ['Byte', 'Int16ub', 'Int32ul', 'Const(b"\\x01")', 'Const(b"AB")', 'OneOf(Byte, [1, 2, 3])', 'Bytes(3)',
        'VarInt', 'PascalString(Byte, "ascii")', 'Struct("a"/Byte, "b"/Const(b"\\x07"))', 'Sequence(Byte, Int16ub, OneOf(Byte, [0]))',
        'Prefixed(Byte, Int16ub)', 'Struct("n"/Byte, "d"/Bytes(this.n), Check(this.n < 3))', 'CString("ascii")',
        'Array(2, Int16ub)', 'Struct("x"/Int16ub, "y"/NoneOf(Byte, [255]))', 'Enum(Byte, a=1)', 'Mapping(Byte, {"q": 9})',
        'FixedSized(2, GreedyBytes)', 'Padded(3, Const(b"Z"))', 'FocusedSeq("x", "x"/Byte, StopIf(this.x == 0))', 'FocusedSeq("x", "x"/Int16ub, StopIf(this.x < 256), Pass)']


def iso(src, data, pos, **kw):
    """parse a construct in isolation from pos: ('ok', value, endpos) | ('err', name)"""
    st = io.BytesIO(data)
    st.seek(pos)
    try:
        v = C.get(src).parse_stream(st, **kw)
        return ('ok', v, st.tell())
    except core.ExplicitError:
        return ('explicit',)
    except core.ConstructError as e:
        return ('err', type(e).__name__)
    except Exception as e:
        return ('foreign', type(e).__name__)


# alternatives / elements that fail with an exception that is not a ConstructError (a missing context key, a division by zero
# or a type error in a context expression): Select, Optional and GreedyRange treat them like any other failed alternative
FOREIGN = ['Struct("a"/Byte, "b"/Bytes(this.nokey))', 'Struct("a"/Int16ub, "c"/Computed(this.a // (this.a - this.a)))',
           'Struct("a"/Byte, "c"/Computed(this.a + "x"))', 'Sequence(Byte, Byte, Bytes(this._.nokey))']


@C.oracle('pointer_stream')
def o_pointer_stream(src, inner, off, data, other, opos):
    """Pointer(..., stream=<another stream>): the value comes from that stream at the offset, that stream is left where it was,
    and the stream being parsed is not moved"""
    main, oth = io.BytesIO(data), io.BytesIO(other)
    oth.seek(opos)
    main.seek(1)
    try:
        v = C.get(src).parse_stream(main, other=oth)
    except core.ConstructError as e:
        v = ('err', type(e).__name__)
    exp = iso(inner, other, off if off >= 0 else max(0, len(other) + off))
    if exp[0] == 'ok':
        if isinstance(v, tuple) or not C.peq(v, exp[1]):
            return 'Pointer into the other stream gives %r, the inner construct at that offset gives %r' % (v, exp[1])
    if oth.tell() != opos:
        return 'the other stream stood at %d, after the Pointer it stands at %d' % (opos, oth.tell())
    if main.tell() != 1:
        return 'the parsed stream was moved from 1 to %d' % main.tell()
    # building: the value is written into the other stream at the offset, both positions are kept
    main2, oth2 = io.BytesIO(), io.BytesIO(other)
    main2.write(b'\xee\xee')
    oth2.seek(opos)
    if exp[0] == 'ok':
        try:
            C.get(src).build_stream(exp[1], main2, other=oth2)
        except core.ConstructError as e:
            return 'build raised %s' % type(e).__name__
        if oth2.tell() != opos or main2.tell() != 2 or main2.getvalue() != b'\xee\xee':
            return 'after building: other stream at %d (was %d), built stream at %d with %r' % (oth2.tell(), opos, main2.tell(), main2.getvalue())
    return None


@C.oracle('pointer_root')
def o_pointer_root(src, data):
    """a Pointer into the enclosing stream from inside a delimited region: the fields after the region are where they were"""
    plain = src.replace(', stream=this._root._io', '')
    a, b = iso(src, data, 0), iso(plain, data, 0)
    if a[0] != 'ok':
        return 'parse raised %s' % (a[1:],)
    if b[0] == 'ok' and (a[2] != b[2] or not C.peq(a[1]['tail'], b[1]['tail'])):
        return 'with the Pointer aimed at the enclosing stream the parse ends at %d with tail %r; aimed at the region it ends at %d with tail %r' % (a[2], a[1]['tail'], b[2], b[1]['tail'])
    return None


@C.oracle('peek')
def o_peek(src, inner, data, start):
    r = iso(src, data, start)
    i = iso(inner, data, start)
    if r[0] == 'explicit' or i[0] == 'explicit':
        return None if r[0] == i[0] else 'ExplicitError handling differs'
    if r[0] != 'ok':
        return 'Peek raised %s' % r[1]
    if r[2] != start:
        return 'Peek left the stream at %d, started at %d' % (r[2], start)
    exp = i[1] if i[0] == 'ok' else None
    if not C.peq(r[1], exp):
        return 'Peek returned %r, the inner construct gives %r' % (r[1], exp)
    return None


@C.oracle('select')
def o_select(src, alts, data, start):
    r = iso(src, data, start)
    if r[0] == 'foreign':
        return 'Select let %s escape (an alternative that fails is skipped, whatever it raises)' % r[1]
    for a in alts:
        i = iso(a, data, start)
        if i[0] == 'explicit':
            return None if r[0] == 'explicit' else 'ExplicitError of an alternative was swallowed'
        if i[0] == 'ok':
            if r[0] != 'ok':
                return 'alternative %s parses from %d but Select raised %s' % (a, start, r[1:])
            if not C.peq(r[1], i[1]):
                return 'Select returned %r, first successful alternative %s alone returns %r' % (r[1], a, i[1])
            if r[2] != i[2]:
                return 'Select ended at %d, alternative %s alone ends at %d' % (r[2], a, i[2])
            return None
    if r[0] == 'ok':
        return 'no alternative parses from %d but Select returned %r' % (start, r[1])
    return None


@C.oracle('greedyrange')
def o_greedy(src, elem, data, start, discard):
    r = iso(src, data, start)
    pos, vals = start, []
    for _ in range(len(data) + 2):
        i = iso(elem, data, pos)
        if i[0] == 'explicit':
            return None if r[0] == 'explicit' else 'ExplicitError of an element was swallowed'
        if i[0] != 'ok':
            break
        if i[2] == pos:
            return None      # non-consuming element: the range does not terminate (recorded separately)
        vals.append(i[1])
        pos = i[2]
    if r[0] != 'ok':
        return 'GreedyRange raised %s' % (r[1:],)
    if r[2] != pos:
        return 'GreedyRange left the stream at %d, the end of the last successful element is %d' % (r[2], pos)
    exp = [] if discard else vals
    if not C.peq(list(r[1]), exp):
        return 'GreedyRange returned %r, successive elements alone give %r' % (list(r[1]), exp)
    return None


@C.oracle('stop_signal')
def o_stop_signal(src, width, data, start):
    """GreedyRange over an element that reads a number and stops the range when it is 0 (StopIf is a signal, not a failure: Struct,
    Sequence and GreedyRange stop where it was raised, 6.0): the values are the numbers before the first 0, the stream is just behind
    that 0; without a 0 the range ends like any other, behind the last whole element"""
    r = iso(src, data, start)
    pos, vals, stopped = start, [], False
    while pos + width <= len(data):
        v = int.from_bytes(data[pos:pos + width], 'big')
        pos += width
        if v == 0:
            stopped = True
            break
        vals.append(v)
    if r[0] != 'ok':
        return 'GreedyRange raised %s' % (r[1:],)
    got = [x if isinstance(x, int) else x.get('x') for x in r[1]]
    if got != vals:
        return 'GreedyRange returned %r, the numbers before the stop are %r' % (got, vals)
    if r[2] != pos:
        return 'GreedyRange left the stream at %d, %s is at %d' % (r[2], 'the stop signal' if stopped else 'the end of the last element', pos)
    return None


@C.oracle('union_lambda')
def o_union_lambda(src, const_src, data, start):
    """Union whose parsefrom is computed at parse time behaves like the Union with that value written out (None: back at the start)"""
    a, b = iso(src, data, start), iso(const_src, data, start)
    if a[0] != b[0]:
        return 'computed parsefrom: %s, constant parsefrom: %s' % (a[:2], b[:2])
    if a[0] == 'ok':
        if not C.veq(a[1], b[1]):
            return 'computed parsefrom returns %r, constant %r' % (a[1], b[1])
        if a[2] != b[2]:
            return 'computed parsefrom leaves the stream at %d, constant at %d' % (a[2], b[2])
    return None


@C.oracle('pointer')
def o_pointer(src, inner, off, data, start):
    r = iso(src, data, start)
    target = off if off >= 0 else max(0, len(data) + off)      # io.BytesIO clamps an end-relative seek at 0
    i = iso(inner, data, target)
    if i[0] == 'ok':
        if r[0] != 'ok':
            return 'Pointer raised %s although the inner construct parses at %d' % (r[1:], target)
        if r[2] != start:
            return 'Pointer left the stream at %d, started at %d' % (r[2], start)
        if not C.peq(r[1], i[1]):
            return 'Pointer returned %r, the inner construct at the target gives %r' % (r[1], i[1])
    elif r[0] == 'ok':
        return 'Pointer returned %r although the inner construct fails at the target' % (r[1],)
    # the same contract for the parser compile() generates, and for the same Pointer with its offset taken from the context
    if i[0] == 'ok':
        for what, csrc, kw in (('compiled', src, {}), ('compiled, offset from the context', src.replace('Pointer(%d,' % off, 'Pointer(this._params.off,', 1), dict(off=off)),
                               ('offset from the context', src.replace('Pointer(%d,' % off, 'Pointer(this._params.off,', 1), dict(off=off))):
            try:
                cc = C.get(csrc)
                if what.startswith('compiled'):
                    cc = cc.compile()
            except Exception:
                continue
            st = io.BytesIO(data)
            st.seek(start)
            try:
                v = cc.parse_stream(st, **kw)
            except Exception as e:
                return '%s Pointer raised %s although the inner construct parses at %d' % (what, type(e).__name__, target)
            if st.tell() != start or not C.peq(v, i[1]):
                return '%s Pointer returned %r and left the stream at %d; the inner construct at the target gives %r, the start was %d' % (what, v, st.tell(), i[1], start)
    return None


@C.oracle('pointer_build')
def o_pointer_build(src, inner, off, obj, prefix):
    c = C.get(src)
    st = io.BytesIO()
    st.write(prefix)
    before = st.tell()
    try:
        c.build_stream(obj, st)
    except core.ConstructError:
        return None
    if st.tell() != before:
        return 'Pointer build left the stream at %d, started at %d' % (st.tell(), before)
    target = off if off >= 0 else len(prefix) + off
    exp = C.get(inner).build(obj)
    got = st.getvalue()[target:target + len(exp)]
    if got != exp:
        return 'bytes at the target are %r, the inner construct builds %r' % (got, exp)
    return None


@C.oracle('union')
def o_union(src, members, parsefrom, data, start):
    r = iso(src, data, start)
    ends = {}
    vals = {}
    for idx, (nm, m) in enumerate(members):
        i = iso(m, data, start)
        if i[0] != 'ok':
            if r[0] == 'ok':
                return 'member %s fails from the start but Union returned a value' % nm
            return None
        if nm is not None:
            vals[nm] = i[1]
            ends[nm] = i[2]
        ends[idx] = i[2]
    if r[0] != 'ok':
        return 'every member parses from the start but Union raised %s' % (r[1:],)
    for nm, v in vals.items():
        if not C.peq(r[1][nm], v):
            return 'Union member %s is %r, alone from the start it is %r' % (nm, r[1][nm], v)
    exp_end = start if parsefrom is None else ends[parsefrom]
    if r[2] != exp_end:
        return 'Union ended at %d, contract says %d' % (r[2], exp_end)
    # the compiled parser honours the same contract
    try:
        cc = C.get(src).compile()
    except Exception:
        cc = None
    if cc is not None:
        st = io.BytesIO(data)
        st.seek(start)
        try:
            cv = cc.parse_stream(st)
        except Exception as e:
            return 'the compiled Union raised %s where the Union returns a value' % type(e).__name__
        if st.tell() != exp_end:
            return 'the compiled Union ended at %d, contract says %d' % (st.tell(), exp_end)
        for nm, v in vals.items():
            if not C.peq(cv[nm], v):
                return 'compiled Union member %s is %r, alone from the start it is %r' % (nm, cv[nm], v)
    return None


def build_alone(src, obj, prefix):
    st = io.BytesIO()
    st.write(prefix)
    try:
        C.get(src).build_stream(obj, st)
        return ('ok', st.getvalue(), st.tell())
    except core.ExplicitError:
        return ('explicit',)
    except core.ConstructError as e:
        return ('err', type(e).__name__)
    except Exception as e:
        return ('foreign', type(e).__name__)


@C.oracle('select_build')
def o_select_build(src, alts, obj, prefix):
    """building through Select / Optional: the output is what the first alternative that can build the value produces alone -
    nothing an alternative wrote before it failed stays in the stream"""
    r = build_alone(src, obj, prefix)
    for a in alts:
        i = build_alone(a, obj, prefix)
        if i[0] == 'explicit':
            return None if r[0] == 'explicit' else 'ExplicitError of an alternative was swallowed on build'
        if i[0] == 'ok':
            if r[0] != 'ok':
                return 'alternative %s builds %r but Select raised %s' % (a, obj, r[1:])
            if r[1] != i[1] or r[2] != i[2]:
                return 'Select wrote %r and stands at %d; the first alternative that builds the value, %s, alone writes %r and stands at %d' % (r[1], r[2], a, i[1], i[2])
            return None
    if r[0] == 'ok':
        return 'no alternative builds %r but Select wrote %r' % (obj, r[1])
    return None


def datas(rng, srcs, n):
    out = [b'', G.rand_bytes(rng, rng.randint(1, 8))]
    for s in srcs:
        for _ in range(2):
            d = G.rand_bytes(rng, rng.randint(0, 9))
            out.append(d)
        # likely-accepted prefixes
        out.append(b'\x01\x02\x03\x07AB\x00\x01\x00')
        out.append(b'\x02AB\x07\x01\x00\x00\xff')
        out.append(b'AB\x01Z\x00\x00\x09\x01')
    rng.shuffle(out)
    return out[:n]


def run(tier, seed):
    acc = C.Acc('C09', tier, seed)
    rng = C.rng_for(seed, 'C09')
    n = 260 if tier == 'quick' else 3000
    cases, checks = [], []
    for _ in range(n):
        kind = rng.choice(['peek', 'select', 'optional', 'greedy', 'greedy_discard', 'pointer', 'union'])
        if kind == 'peek':
            inner = rng.choice(ALTS + ['Error', 'Select(Const(b"\\x05"), Error)'])
            src = 'Peek(%s)' % inner
            for d in datas(rng, [inner], 5):
                for st in sorted(set([0, rng.randint(0, max(0, len(d)))])):
                    cases.append(dict(src='Sequence(%s, Tell)' % src, op='parse', data=d, start=st))
                    checks.append(('peek', src, dict(inner=inner, data=d, start=st)))
        elif kind in ('select', 'optional'):
            alts = [rng.choice(ALTS) for _ in range(rng.randint(1, 3))] if kind == 'select' else [rng.choice(ALTS + FOREIGN[:2]), 'Pass']
            if kind == 'select' and rng.random() < 0.1:
                alts.insert(rng.randrange(len(alts) + 1), 'Error')
            if kind == 'select' and rng.random() < 0.3:
                alts.insert(rng.randrange(len(alts)), rng.choice(FOREIGN))
            src = 'Select(%s)' % ', '.join(alts) if kind == 'select' else 'Optional(%s)' % alts[0]
            for d in datas(rng, alts, 6):
                for st in sorted(set([0, rng.randint(0, max(0, len(d)))])):
                    cases.append(dict(src='Sequence(%s, Tell)' % src, op='parse', data=d, start=st))
                    checks.append(('select', src, dict(alts=alts, data=d, start=st)))
        elif kind in ('greedy', 'greedy_discard'):
            elem = rng.choice([a for a in ALTS if 'Padded' not in a and 'StopIf' not in a] +      # a stop signal ends a range where it stands: the stop_signal oracle
                               ['Select(Const(b"\\x01"), Const(b"AB"))', 'Struct("a"/Byte, "e"/If(this.a == 9, Error))',
                               'Struct("a"/Byte, "c"/If(this.a > 5, Bytes(this.nokey)))', 'Struct("a"/Byte, "c"/Computed(7 // (this.a - 9)))'])
            disc = kind == 'greedy_discard'
            src = 'GreedyRange(%s%s)' % (elem, ', discard=True' if disc else '')
            for d in datas(rng, [elem], 6):
                for st in sorted(set([0, rng.randint(0, max(0, len(d)))])):
                    cases.append(dict(src='Sequence(%s, Tell, GreedyBytes)' % src, op='parse', data=d, start=st))
                    checks.append(('greedyrange', src, dict(elem=elem, data=d, start=st, discard=disc)))
        elif kind == 'pointer':
            inner = rng.choice(ALTS)
            off = rng.choice([0, 1, 2, 3, 5, -1, -2, -3, -4])
            src = 'Pointer(%d, %s)' % (off, inner)
            for d in datas(rng, [inner], 5):
                starts = set([0, rng.randint(0, max(0, len(d)))])
                starts.add(off if off >= 0 else max(0, len(d) + off))    # the target coincides with the position
                for st in sorted(s for s in starts if 0 <= s <= len(d)):
                    cases.append(dict(src='Sequence(%s, Tell, Byte)' % src, op='parse', data=d, start=st))
                    checks.append(('pointer', src, dict(inner=inner, off=off, data=d, start=st)))
            binner, bobj = rng.choice([('Byte', 7), ('Int16ub', 513), ('Bytes(3)', b'xyz'), ('Const(b"AB")', None)])
            for plen in (0, 1, 2, 3, 6):
                for boff in (0, 1, plen, -1, -2):
                    if boff < 0 and plen + boff < 0:
                        continue
                    checks.append(('pointer_build', 'Pointer(%d, %s)' % (boff, binner), dict(inner=binner, off=boff, obj=bobj, prefix=bytes(range(1, plen + 1)))))
        else:
            k = rng.randint(1, 3)
            ms = [(G._names[j], rng.choice(['Byte', 'Int16ub', 'Int32ul', 'Bytes(3)', 'VarInt', 'Struct("p"/Byte, "q"/Byte)', 'PascalString(Byte, "ascii")'])) for j in range(k)]
            if rng.random() < 0.4:
                # an anonymous member that consumes bytes, anywhere among the named ones
                ms.insert(rng.randint(0, len(ms)), (None, rng.choice(['Bytes(2)', 'Byte', 'Padding(3)', 'Int16ub'])))
                k = len(ms)
            named = [m[0] for m in ms if m[0] is not None]
            pf = rng.choice([None, 0, k - 1, named[0], named[-1]])
            src = 'Union(%r, %s)' % (pf, ', '.join(('%r / %s' % m) if m[0] is not None else m[1] for m in ms))
            for d in datas(rng, [m for _, m in ms], 5):
                for st in sorted(set([0, rng.randint(0, max(0, len(d)))])):
                    cases.append(dict(src='Sequence(%s, Tell)' % src, op='parse', data=d, start=st))
                    checks.append(('union', src, dict(members=ms, parsefrom=pf, data=d, start=st)))
    # Pointer into another stream (stream=...): explicit second stream, and the enclosing stream from inside a delimited region
    for inner in ('Byte', 'Int16ub', 'Bytes(3)', 'Struct("a"/Byte, "b"/Byte)'):
        for off in (0, 2, 5, -3):
            for opos in (0, 1, 4, 9):
                other = bytes(range(16, 26))
                checks.append(('pointer_stream', 'Pointer(%d, %s, stream=this._params.other)' % (off, inner),
                               dict(inner=inner, off=off, data=b'\x01\x02\x03\x04\x05\x06', other=other, opos=opos)))
    for src, d in [('Struct("h"/Byte, "r"/Prefixed(Byte, Struct("p"/Pointer(0, Byte, stream=this._root._io), "x"/Byte)), "tail"/Byte)', b'\x10\x02\x20\x30\x99\x77'),
                   ('Struct("h"/Byte, "r"/FixedSized(3, Struct("p"/Pointer(4, Int16ub, stream=this._root._io), "x"/Byte)), "tail"/Int16ub)', b'\x10\x20\x30\x40\x99\x77\x55')]:
        for st in (0, 1):
            cases.append(dict(src='Sequence(%s, Tell)' % src, op='parse', data=b'\xee' * st + d, start=st))
        checks.append(('pointer_root', src, dict(data=d)))
    # building through alternatives, some of which write a few bytes before they fail
    BALTS = ['Sequence(Int32ub, Int8ub)', 'Sequence(Int8ub, Int16ub)', 'Sequence(Int16ub, Int16ub, Const(b"\\x01"), OneOf(Byte, [0]))', 'Int8ub', 'Int32ub',
             'Struct("a"/Int16ub, "b"/Byte)', 'Struct("a"/Int32ub, "b"/Int32ub, "c"/Byte)', 'Struct("a"/Byte)', 'Bytes(3)', 'Array(3, Byte)', 'Array(2, Int16ub)',
             'Prefixed(Byte, Array(2, Byte))', 'PascalString(Byte, "ascii")', 'Sequence(Bytes(2), Byte)', 'Struct("a"/Int16ub, "b"/Check(this.a > 9))', 'Pass']
    BOBJS = [[1, 300], [1, 2], [300, 7], [70000, 1], [1, 2, 3], [1, 2, None, 0], [1, 2, None, 5], 7, 300, 70000, dict(a=1, b=300), dict(a=1, b=2), dict(a=300, b=1, c=2),
             dict(a=300, b=1, c=300), dict(a=1), b'abc', [b'ab', 300], [b'ab', 1], 'hi', None, [1, 300, 2], [300, 300]]
    brng = C.rng_for(seed, 'C09', 'select_build')
    for _ in range(150 if tier == 'quick' else 1500):
        alts = [brng.choice(BALTS) for _ in range(brng.randint(2, 4))]
        opt = brng.random() < 0.25
        bsrc = 'Optional(%s)' % alts[0] if opt else 'Select(%s)' % ', '.join(alts)
        if opt:
            alts = [alts[0], 'Pass']
        for obj in brng.sample(BOBJS, 6):
            checks.append(('select_build', bsrc, dict(alts=alts, obj=obj, prefix=brng.choice([b'', b'\xee\xee']))))
            cases.append(dict(src='Struct("h"/Const(b"\\xee"), "s"/%s, "t"/Tell)' % bsrc, op='build', obj=dict(s=obj)))
    # a range stopped by a signal raised inside an element that has already consumed bytes
    # (FocusedSeq lets the signal through; Struct and Sequence elements would stop themselves and the range would go on)
    for tmpl, width in [('GreedyRange(FocusedSeq("x", "x"/Byte, StopIf(this.x == 0)))', 1), ('GreedyRange(FocusedSeq("x", "x"/Int16ub, StopIf(this.x == 0)))', 2),
                        ('GreedyRange(FocusedSeq("x", "x"/Byte, StopIf(this.x == 0), Pass))', 1)]:
        for d in (b'\x01\x02\x00\x05\x06', b'\x00\x01', b'\x01\x02\x03', b'', b'\x00\x00\x00\x00\x01', b'\x07\x00\x00\x09\x00'):
            for st in (0, 1):
                if st <= len(d):
                    cases.append(dict(src='Sequence(%s, Tell, GreedyBytes)' % tmpl, op='parse', data=d, start=st))
                    checks.append(('stop_signal', tmpl, dict(width=width, data=d, start=st)))
    # parsefrom computed while parsing (an expression or a function of the context): like the constant it evaluates to
    for comp, const in [('Union(lambda ctx: None, "a"/Byte, "b"/Int16ub)', 'Union(None, "a"/Byte, "b"/Int16ub)'),
                        ('Union(lambda ctx: "b" if ctx.a % 2 == 0 else None, "a"/Byte, "b"/Int16ub)', None),
                        ('Union(lambda ctx: 1, "a"/Byte, "b"/Int16ub)', 'Union(1, "a"/Byte, "b"/Int16ub)'),
                        ('Union(this.a % 2, "a"/Byte, "b"/Int16ub)', None),
                        ('Struct("k"/Byte, "u"/Union(lambda ctx: None if ctx._.k else "b", "a"/Byte, "b"/Int32ub), "t"/Tell)', None)]:
        for d in (b'\x02\x03\x04\x05\x06', b'\x01\x03\x04\x05\x06', b'\x00\x00\x00\x00\x00\x00'):
            for st in (0, 1):
                if const is None:
                    a0 = d[st]
                    if 'Struct("k"' in comp:
                        const_d = 'Struct("k"/Byte, "u"/Union(%r, "a"/Byte, "b"/Int32ub), "t"/Tell)' % (None if a0 else 'b')
                    elif 'this.a' in comp:
                        const_d = 'Union(%d, "a"/Byte, "b"/Int16ub)' % (a0 % 2)
                    else:
                        const_d = 'Union(%r, "a"/Byte, "b"/Int16ub)' % ('b' if a0 % 2 == 0 else None)
                else:
                    const_d = const
                checks.append(('union_lambda', comp, dict(const_src=const_d, data=d, start=st)))
    acc.corr(cases, 'lookahead')
    for kind, src, args in checks:
        acc.check(kind, src, **args)
    return acc.result(
        rule='Peek / Select / Optional / GreedyRange(+discard) / Pointer(abs, end-relative, target = current position) / Union(parsefrom '
             'None, index, name) over 20 alternative kinds (fixed, variable, validating, nested) x random and likely-accepted inputs x '
             'starting offsets; each wrapped as Sequence(X, Tell) for the correspondence; oracles compare with the members parsed in '
             'isolation. distinct = (shape, outcome)',
        fragment='theorems hold for every sub-construct (Peek, Pointer, Select, GreedyRange at the loop level)',
        partial=['Union whose selector is computed while parsing (an expression or a function of the members) is decided by correspondence and oracle; constant index and name selectors, Union(None) and the frame have theorems'])


def replay(payload):
    return C.generic_replay(payload)
