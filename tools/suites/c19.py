"""C19: KSY export describes the same byte layout the construct parses."""
import io
import json
from . import common as C
import reify as R
import gen as G
import harness as H
import ksy as K
import construct
from construct import core


def exported(src):
    c = C.get(src)
    try:
        return c, K.export(c), None
    except core.ConstructError as e:
        return c, None, 'not exportable'
    except (NotImplementedError, AssertionError) as e:
        return c, None, 'not exportable (%s)' % type(e).__name__


def declared_names(c):
    """the member names of a Struct, in declaration order"""
    inner = c
    while isinstance(inner, core.Renamed):
        inner = inner.subcon
    if type(inner) is core.Struct:
        return [sc.name for sc in inner.subcons]
    return None


def _type_bits(t, types):
    import re as _re
    if _re.match(r'b\d+$', t):
        return int(t[1:])
    m = _re.match(r'[usf](\d)(be|le)?$', t)
    if m:
        return 8 * int(m.group(1))
    if t in types:
        return sum(_field_bits(f, types) for f in types[t]['seq'])
    raise R.Unsupported('type %s' % t)


def _field_bits(f, types):
    if 'size' in f or 'type' not in f:
        raise R.Unsupported('sized field')
    n = _type_bits(f['type'], types)
    if f.get('repeat') == 'expr':
        n *= int(f['repeat-expr'])
    elif 'repeat' in f:
        raise R.Unsupported('repeat')
    return n


@C.oracle('ksy_bit_widths')
def o_bit_widths(src):
    """a bit region of fixed size: the widths of the types the schema gives its fields (helper types and repetitions included) add up to the
    number of bits the construct reads for that region"""
    c, schema, why = exported(src)
    if schema is None:
        return 'export_ksy fails (%s)' % why
    inner = c
    while isinstance(inner, core.Renamed):
        inner = inner.subcon
    for sc, fld in zip(inner.subcons, schema['seq']):
        try:
            want = 8 * sc.sizeof()
            got = _field_bits(fld, schema.get('types', {}))
        except (R.Unsupported, core.SizeofError):
            continue
        if got != want:
            return 'member %r reads %d bits; the types of the schema add up to %d: %s' % (fld.get('id'), want, got, json.dumps(schema.get('types', {}), default=str)[:400])
    return None


@C.oracle('ksy_exports')
def o_exports(src, why):
    """a construct of the exportable fragment (the fixed list: the model exports each of them) must be exported"""
    c, schema, why2 = exported(src)
    return None if schema is not None else 'export_ksy fails (%s) for a construct of the exportable fragment' % why2


@C.oracle('ksy_layout')
def o_layout(src, data, kw):
    c, schema, why = exported(src)
    if schema is None:
        return None
    try:
        lay = K.layout(c, data, kw)
    except Exception:
        return None                         # not an encoding the construct parses
    names = declared_names(c)
    seq = schema['seq']
    if names is not None:
        ids = [f.get('id') for f in seq]
        if ids != names:
            return 'the schema lists %r, the construct declares %r' % (ids, names)
    try:
        got = K.interpret(schema, data, kw)
    except K.KsyError as e:
        return 'the schema cannot be read on an encoding the construct parses: %s' % e
    except RecursionError:
        return 'the schema cannot be read: unbounded recursion'
    return compare(schema, seq, got, lay, data)


def compare(schema, seq, got, lay, data, where=''):
    if len(got) != len(lay):
        return '%sschema yields %d fields, the construct %d' % (where, len(got), len(lay))
    for f, (ki, ka, kb, kv), (li, la, lb, lv) in zip(seq, got, lay):
        if ki != li:
            return '%sfield id %r, member name %r' % (where, ki, li)
        if (ka, kb) != (la, lb):
            return '%sfield %r: schema extent [%d,%d), the construct reads [%d,%d)' % (where, ki, ka, kb, la, lb)
        if 'contents' in f or (f.get('type') is None and lv is None):
            continue                        # a constant / padding region: the extent and the bytes are the description
        t = f.get('type')
        if isinstance(t, str) and t in schema.get('types', {}) and 'repeat' not in f and isinstance(kv, list) and isinstance(lv, list) \
                and lv and isinstance(lv[0], tuple) and len(lv[0]) == 4 and kv and isinstance(kv[0], tuple):
            msg = compare(schema, schema['types'][t]['seq'], kv, lv, data, where + '%s.' % ki)
            if msg:
                return msg
            continue
        if not K.same_value(K.norm(kv), K.norm(lv)):
            return '%sfield %r: schema value %r, the construct parses %r' % (where, ki, K.norm(kv), K.norm(lv))
    return None


# ---- the exportable grammar ----
INTS = [('Int%d%s%s' % (b, s, e), b // 8, s == 's') for b in (8, 16, 24, 32, 64) for s in 'us' for e in 'bln']       # n: the byte order of the host
FLOATS = [('Float%d%s' % (b, e), b // 8) for b in (16, 32, 64) for e in 'bln']
ENCS = ['utf8', 'ascii', 'utf16', 'utf_16_le', 'utf32']


def g_prim(rng):
    """a member with a primitive type: (source, value generator)"""
    r = rng.random()
    if r < 0.45:
        nm, n, sg = rng.choice(INTS)
        lo, hi = (-(1 << (8 * n - 1)), (1 << (8 * n - 1)) - 1) if sg else (0, (1 << (8 * n)) - 1)
        return nm, lambda g: G.edge_int(g, lo, hi)
    if r < 0.55:
        nm, n = rng.choice(FLOATS)
        return nm, lambda g: g.choice([0.0, 1.5, -2.0, 0.5, 1024.0])
    if r < 0.65:
        n = rng.choice([1, 2, 3, 5])
        sg, sw = rng.random() < 0.5, rng.random() < 0.5
        lo, hi = (-(1 << (8 * n - 1)), (1 << (8 * n - 1)) - 1) if sg else (0, (1 << (8 * n)) - 1)
        return 'BytesInteger(%d, signed=%s, swapped=%s)' % (n, sg, sw), lambda g: G.edge_int(g, lo, hi)
    if r < 0.75:
        return 'VarInt', lambda g: g.choice([0, 1, 127, 128, 300, 2 ** 21 + 5])
    if r < 0.88:
        nm, n, sg = rng.choice([i for i in INTS if not i[2]])
        labels = rng.sample(['one', 'two', 'big', 'zero'], 2)
        vals = rng.sample([0, 1, 2, 200], 2)
        return 'Enum(%s, %s=%d, %s=%d)' % (nm, labels[0], vals[0], labels[1], vals[1]), lambda g: g.choice(labels + [vals[0], 3])
    return 'Flag', lambda g: g.random() < 0.5


def g_member(rng, depth, last, names):
    """(source, value generator, needs-kw) for one member of a Struct"""
    r = rng.random()
    if depth > 0 and r < 0.10:
        return g_struct(rng, depth - 1)
    if depth > 0 and r < 0.14:
        s, v = g_struct(rng, depth - 1)
        n = rng.choice([1, 2])
        return 'Array(%d, %s)' % (n, s), lambda g: [v(g) for _ in range(n)]
    if r < 0.17:
        v = rng.choice(['b"AB"', 'b"PK\\x03"'])
        sub = rng.choice(['Prefixed(Byte, GreedyBytes)', 'NullTerminated(GreedyBytes)', 'Bytes(%d)' % (2 if 'AB' in v else 3)])
        return 'Const(%s, %s)' % (v, sub), lambda g: None
    if r < 0.30:
        return g_prim(rng)
    if r < 0.36:
        n = rng.choice([0, 1, 3, 4])
        return 'Bytes(%d)' % n, lambda g: G.rand_bytes(g, n)
    if r < 0.40:
        v = rng.choice(['b"MZ"', 'b"\\x00\\xff\\x10"', 'b"\\x7fELF"'])
        return 'Const(%s)' % v, lambda g: None
    if r < 0.43:
        nm, n, sg = rng.choice([i for i in INTS if not i[2]])
        return 'Const(%d, %s)' % (rng.choice([0, 1, 255]), nm), lambda g: None
    if r < 0.49:
        enc = rng.choice(ENCS)
        return 'CString(%r)' % enc, lambda g: G.rand_text(g, enc)
    if r < 0.54:
        enc = rng.choice(['utf8', 'ascii'])
        n = rng.choice([4, 6, 8])
        return 'PaddedString(%d, %r)' % (n, enc), lambda g: G.rand_text(g, enc, maxlen=n // 2)
    if r < 0.59:
        enc = rng.choice(ENCS)
        return 'PascalString(%s, %r)' % (rng.choice(['Byte', 'Int16ub', 'VarInt']), enc), lambda g: G.rand_text(g, enc)
    if r < 0.62:
        return 'Padding(%d)' % rng.choice([0, 1, 3]), lambda g: None
    if r < 0.68:
        p, pv = g_prim(rng)
        n = rng.choice([0, 1, 2, 3])
        return 'Array(%d, %s)' % (n, p), lambda g: [pv(g) for _ in range(n)]
    if r < 0.72 and names:
        p, pv = g_prim(rng)
        ref = rng.choice(names)
        return 'Array(this.%s %% 4, %s)' % (ref, p), ('dep_array', ref, pv)
    if r < 0.75 and names:
        ref = rng.choice(names)
        return 'Bytes(this.%s %% 5)' % ref, ('dep_bytes', ref)
    if r < 0.79 and names:
        p, pv = g_prim(rng)
        ref = rng.choice(names)
        return 'If(this.%s > 1, %s)' % (ref, p), ('dep_if', ref, pv)
    if r < 0.83:
        lf = rng.choice(['Byte', 'Int16ul', 'VarInt'])
        return 'Prefixed(%s, GreedyBytes)' % lf, lambda g: G.rand_bytes(g, g.randint(0, 5))
    if r < 0.86:
        p, pv = g_prim(rng)
        return 'PrefixedArray(%s, %s)' % (rng.choice(['Byte', 'Int16ub']), p), lambda g: [pv(g) for _ in range(g.randint(0, 3))]
    if r < 0.89:
        nm, n, sg = rng.choice(INTS)
        lo, hi = (-(1 << (8 * n - 1)), (1 << (8 * n - 1)) - 1) if sg else (0, (1 << (8 * n)) - 1)
        tot = n + rng.choice([0, 1, 3])
        return 'Padded(%d, %s)' % (tot, nm), lambda g: G.edge_int(g, lo, hi)
    if r < 0.91:
        n = rng.choice([2, 4])
        return 'FixedSized(%d, GreedyBytes)' % n, lambda g: G.rand_bytes(g, n)
    if r < 0.94:
        k = rng.randint(1, 3)
        widths = [rng.choice([1, 2, 3, 4, 5]) for _ in range(k)]
        pad = (-sum(widths)) % 8
        ms = ['"b%d"/BitsInteger(%d)' % (i, w) for i, w in enumerate(widths)]
        if pad:
            ms.append('"bp"/BitsInteger(%d)' % pad)
            widths.append(pad)
        if rng.random() < 0.4:
            ms[0] = '"b0"/Flag' if widths[0] == 1 else ms[0]
        if pad and rng.random() < 0.6:
            ms[-1] = 'Padding(%d)' % pad            # anonymous bit padding instead of a named filler
        return 'BitStruct(%s)' % ', '.join(ms), lambda g: {('b%d' % i if i < k else 'bp'): (g.randrange(1 << w) if not (i == 0 and ms[0].endswith('Flag')) else g.random() < 0.5) for i, w in enumerate(widths) if not (i >= k and ms[-1].startswith('Padding'))}
    if r < 0.96:
        return 'RepeatUntil(obj_ == 0, Byte)', lambda g: [g.randrange(1, 256) for _ in range(g.randint(0, 3))] + [0]
    if r < 0.975:
        return 'FlagsEnum(Byte, a=1, b=2, c=128)', lambda g: dict(a=g.random() < 0.5, b=g.random() < 0.5, c=g.random() < 0.5)
    if r < 0.99:
        opt = rng.choice(['', ', include=True', ', term=b"\\xff"'])      # consume=False is exercised by a fixed case: what follows it re-parses shifted
        t = 255 if 'xff' in opt else 0
        return 'NullTerminated(GreedyBytes%s)' % opt, lambda g: bytes(g.choice([x for x in range(1, 255) if x != t]) for _ in range(g.randint(0, 4)))
    if depth > 0:
        s, v = g_struct(rng, depth - 1)
        return s, v
    return g_prim(rng)


TAILS = [('GreedyBytes', lambda g: G.rand_bytes(g, g.randint(0, 4))), ('GreedyString("utf8")', lambda g: G.rand_text(g, 'utf8', nonul=False)),
         ('GreedyRange(Int16ub)', lambda g: [g.randrange(65536) for _ in range(g.randint(0, 3))]),
         ('NullStripped(GreedyBytes)', lambda g: bytes(g.randrange(1, 256) for _ in range(g.randint(0, 3))))]


def g_struct(rng, depth, top=False):
    k = rng.randint(1, 5)
    names, srcs, gens = [], [], []
    intnames = []
    for i in range(k):
        nm = 'f%d' % i
        src, vg = g_member(rng, depth, i == k - 1, intnames)
        srcs.append('%r/%s' % (nm, src))
        gens.append((nm, vg))
        names.append(nm)
        if src.startswith(('Int8u', 'Int16u', 'Int32u', 'VarInt')):
            intnames.append(nm)
    if top and rng.random() < 0.35:
        src, vg = rng.choice(TAILS)
        srcs.append('"tail"/%s' % src)
        gens.append(('tail', vg))

    def val(g):
        d = {}
        for nm, vg in gens:
            if callable(vg):
                v = vg(g)
                if v is not None or True:
                    d[nm] = v
        for nm, vg in gens:
            if isinstance(vg, tuple):
                ref = d[vg[1]]
                if vg[0] == 'dep_array':
                    d[nm] = [vg[2](g) for _ in range(ref % 4)]
                elif vg[0] == 'dep_bytes':
                    d[nm] = G.rand_bytes(g, ref % 5)
                elif vg[0] == 'dep_if':
                    d[nm] = vg[2](g) if ref > 1 else None
        return {k2: v for k2, v in d.items()}
    return 'Struct(%s)' % ', '.join(srcs), val


FIXED = [
    'Struct("a"/Byte, "b"/Int16ul, "c"/Float32b, "d"/Int24ub, "e"/Bytes(3), "f"/Flag, "g"/Const(b"MZ"), "h"/Const(7, Int16ub))',
    'Struct("n"/Byte, "d"/Bytes(this.n), "a"/Array(3, Int16ub), "b"/Array(this.n, Byte), "g"/GreedyRange(Byte))',
    'Struct("e"/Enum(Int16ul, one=1, two=2), "s"/CString("utf8"), "p"/PaddedString(4, "ascii"), "q"/PascalString(Byte, "utf8"), "r"/GreedyString("utf8"))',
    'Struct("x"/Struct("y"/Byte, "z"/Int16ub), "w"/Byte)',
    'Struct("n"/Byte, "i"/If(this.n > 1, Int16ub), "t"/Byte)',
    'Struct("p"/Prefixed(Byte, GreedyBytes), "q"/PrefixedArray(Byte, Int16ub), "f"/FixedSized(4, GreedyBytes))',
    'Struct("b"/BitStruct("x"/Nibble, "y"/BitsInteger(3), "z"/Flag), "c"/Padded(4, Byte), "d"/Padding(2), "e"/Byte)',
    'Struct("p"/Pointer(2, Byte), "n"/NullTerminated(GreedyBytes), "m"/Byte)',
    'Struct("v"/VarInt, "r"/RepeatUntil(obj_ == 0, Byte), "f"/FlagsEnum(Byte, a=1, b=2), "t"/Byte)',
    'Struct("s"/NullStripped(GreedyBytes))',
    'Struct("n"/Byte, "j"/IfThenElse(this.n == 1, Byte, Int16ub), "t"/Byte)',
    'Struct("a"/Array(2, Struct("x"/Byte, "y"/Int16ul)), "t"/Byte)',
    'Struct("p"/Prefixed(Int16ub, Struct("x"/Byte, "r"/GreedyBytes)), "t"/Byte)',
    'Struct("l"/Int16ul, "s"/PaddedString(this.l, "utf8"), "t"/Byte)',
    'Struct("o"/Byte, "p"/Pointer(this.o, Int16ub), "t"/Byte)',
    'Struct("s"/NullTerminated(GreedyBytes, consume=False), "t"/Byte, "u"/Byte)',
    'Struct("s"/NullTerminated(GreedyBytes, include=True), "u"/Byte)',
    'Struct("b"/BitStruct("a"/Nibble, Padding(3), "c"/Bit), "t"/Byte)',
    'Struct("b"/BitStruct("a"/BitsInteger(5), "f"/Flag, Padding(2), "c"/Byte), "t"/Byte)',
    # byte-level islands in a bit region are described with byte-level types
    'Struct("b"/BitStruct("a"/Nibble, "c"/Nibble, "w"/Bytewise(Flag), "x"/Bytewise(Int16ul)), "t"/Byte)',
    'Struct("b"/BitStruct("a"/Octet, "w"/Bytewise(Padding(2)), "f"/Bytewise(Float32b), "g"/Bytewise(Int16sb)), "t"/Byte)',
    'Struct("b"/Bitwise(Struct("a"/Octet, "w"/Bytewise(Struct("p"/Flag, "q"/Int16sl, "r"/Bytes(2))))), "t"/Byte)',
    'Struct("b"/BitStruct("a"/Octet, "w"/Bytewise(Bytes(2)), "z"/Octet), "t"/Byte)',
    'Struct("b"/BitStruct("a"/Octet, "w"/Bytewise(Flag), "p"/Bytewise(Padding(1)), "z"/Octet), "t"/Byte)',
    'Struct("flags"/FlagsEnum(Int16ub, ready=1, error=4), "next"/Byte)',
    'Struct("flags"/FlagsEnum(Int32ub, lo=1, mid=0x100), "next"/Byte)',
    # identifiers are the member names as written (case, digits, underscores), also where a condition refers to them
    'Struct("Len"/Byte, "len"/Byte, "hasTail"/Byte, "Tail"/If(this.hasTail > 0, Byte), "X_1"/Bytes(this.Len % 4))',
    'Struct("Hdr"/Struct("Kind"/Byte, "kind"/Byte), "BODY"/Array(2, Struct("A"/Byte)), "z"/Byte)',
]

FIXED_VALUES = {
    0: dict(a=1, b=2, c=1.5, d=3, e=b'xyz', f=True), 1: dict(n=2, d=b'ab', a=[1, 2, 3], b=[4, 5], g=[6, 7]),
    2: dict(e='one', s='ab', p='x', q='hey', r='rest'), 3: dict(x=dict(y=1, z=2), w=3), 4: dict(n=2, i=5, t=9),
    5: dict(p=b'ab', q=[1, 2], f=b'wxyz'), 6: dict(b=dict(x=5, y=3, z=True), c=9, e=1), 7: dict(p=3, n=b'ab', m=7),
    8: dict(v=300, r=[1, 2, 0], f=dict(a=True, b=False), t=4), 9: dict(s=b'ab'), 10: dict(n=1, j=5, t=2),
    11: dict(a=[dict(x=1, y=2), dict(x=3, y=4)], t=5), 12: dict(p=dict(x=1, r=b'zz'), t=5), 13: dict(l=4, s='ab', t=1), 14: dict(o=3, p=258, t=1),
    15: dict(s=b'ab', t=0, u=7), 16: dict(s=b'ab\x00', u=7), 17: dict(b=dict(a=9, c=1), t=3), 18: dict(b=dict(a=17, f=True, c=200), t=3),
    19: dict(b=dict(a=9, c=3, w=True, x=513), t=3), 20: dict(b=dict(a=9, f=1.5, g=-2), t=3), 21: dict(b=dict(a=9, w=dict(p=True, q=-2, r=b'xy')), t=3),
    22: dict(b=dict(a=1, w=b'xy', z=2), t=3), 23: dict(b=dict(a=1, w=True, z=2), t=3),
    24: dict(flags=dict(ready=True, error=False), next=7), 25: dict(flags=dict(lo=True, mid=True), next=7),
    26: dict(Len=2, len=7, hasTail=1, Tail=9, X_1=b'ab'), 27: dict(Hdr=dict(Kind=1, kind=2), BODY=[dict(A=3), dict(A=4)], z=5),
}


# exported, but with helper types used from a bit-sized context, which my reading of the dialect cannot read back (DESIGN 0.8): only the emitted
# schema is compared with the model's
EMIT_ONLY = ['Struct("b"/BitStruct("a"/Nibble, "fl"/Array(4, "f"/Flag)), "t"/Byte)',
             'Struct("b"/Bitwise(Array(2, "item"/Struct("v"/BitsInteger(7), "ok"/Flag))), "t"/Byte)',
             'Struct("b"/BitStruct("a"/Nibble, "p"/Padded(4, "f"/Flag)), "t"/Byte)']

NOT_EXPORTABLE = ['Struct("a"/Aligned(4, Byte))', 'Struct("s"/Switch(this.n, {1: Byte}))', 'Struct("d"/Default(Byte, 1), "c"/Computed(1))',
                  'Struct("s"/Select(Byte, Int16ub))', 'Struct("u"/Union(0, "a"/Byte))', 'Struct("t"/Tell)', 'Struct("z"/ZigZag)',
                  'Struct("c"/Check(True))', 'Struct("r"/RawCopy(Byte))']


def run(tier, seed):
    acc = C.Acc('C19', tier, seed)
    rng = C.rng_for(seed, 'C19')
    quick = tier == 'quick'
    nexp = nrej = 0
    cases = [dict(src=src, op='ksy_emit') for src in NOT_EXPORTABLE + EMIT_ONLY]
    for src in EMIT_ONLY + FIXED:
        if '"c"/Byte), "t"/Byte)' in src:
            continue          # a byte-level FormatField directly in a bit region reads ONE unit of the bit stream, not 8: not a well-formed region (0.8)
        acc.check('ksy_bit_widths', src)
    for i, src in enumerate(FIXED):
        c, schema, why = exported(src)
        cases.append(dict(src=src, op='ksy_emit'))          # the model exports every one of these: a refusal or a crash of export_ksy disagrees with it
        if schema is None:
            nrej += 1
            acc.check('ksy_exports', src, why=why)
            continue
        nexp += 1
        try:
            data = c.build(FIXED_VALUES[i])
        except Exception:
            continue
        acc.check('ksy_layout', src, data=data, kw={})
        cases.append(dict(src=src, op='ksy_interp', data=data, kw={}))
        cases.append(dict(src=src, op='ksy_layout', data=data, kw={}))
    for _ in range(300 if quick else 4000):
        src, vg = g_struct(rng, 2, top=True)
        c, schema, why = exported(src)
        if schema is None:
            nrej += 1
            acc.skipped[why] += 1
            continue
        nexp += 1
        cases.append(dict(src=src, op='ksy_emit'))
        for _ in range(3):
            try:
                data = c.build(vg(rng))
            except Exception:
                continue
            acc.check('ksy_layout', src, data=data, kw={})
            cases.append(dict(src=src, op='ksy_interp', data=data, kw={}))
            cases.append(dict(src=src, op='ksy_layout', data=data, kw={}))
            if rng.random() < 0.3:
                cases.append(dict(src=src, op='ksy_interp', data=G.mutate(rng, data), kw={}))
    def project(m, i):
        if m[0] == 'RErr' and i[0] == 'RErr':
            return ('RErr',), ('RErr',)
        return m, i
    acc.corr(cases, 'ksy', project=project)
    acc.dist['exportable'] = nexp
    acc.dist['not exportable'] = nrej
    return acc.result(
        rule='generated exportable Structs of 1..5 members (plus a read-to-end tail): every Int/Float width, signedness, byte order; BytesInteger; '
             'VarInt; Enum; Flag; Bytes; bytes and integer Const, also over a length-prefixed / terminated field; CString / PaddedString / '
             'PascalString / GreedyString in 5 encodings; Padding; Array with constant and field-dependent counts; Bytes / If depending on an '
             'earlier field; Prefixed; PrefixedArray; Padded; FixedSized; BitStruct; RepeatUntil; FlagsEnum; NullTerminated; nested Structs and '
             'Arrays of Structs to depth 2; each built from 3 generated values. For each: the schema lists the members in order under their '
             'names; reading the schema gives each field the extent and value the construct gives (nested fields included). The model: emitted '
             'schema = real export, model reading = Python reading (also on mutated input), model layout = instrumented parse; constructs '
             'without emitters export as failures on both sides. distinct = (oracle signature, outcome) + correspondence shapes',
        fragment='ksy_describes_flat_struct: every Struct of named flat members, every input; ksy_describes_nested_struct: Structs nested in '
                 'Structs to depth 20 (helper types type_<k>, fresh names, lookup never shadowed); ksy_describes_dependent_struct: members sized by '
                 'earlier integer fields (Bytes(this.n), Array(this.n, x))',
        partial=['strings, enums, conditionals, prefixed and repeated-until fields are inside the model (correspondence) but outside the theorem; '
                 'bit structs, pointers (instances), flag sets and PrefixedArray are checked by the layout oracle only',
                 'the reading of the dialect (ksy_interp / tools/ksy.py) is the reference: the Kaitai compiler is not installed'])


def replay(payload):
    return C.generic_replay(payload)
