"""C08: delimited regions confine their inner construct; offsets stay absolute."""
import io
from . import common as C
import gen as G
import construct
from construct import core

# ---- an independent reading of each delimiter's contract (written from the documentation) ----
# layer -> (source template, region function); region(data, pos) -> (region_start, region_bytes, end_pos) | None


def L_prefixed(field, size, incl):
    def region(data, pos, dec):
        r = dec(field, data, pos)
        if r is None:
            return None
        n, p1 = r
        if incl:
            n -= size(n) if callable(size) else size
        if n < 0 or p1 + n > len(data):
            return None
        return p1, data[p1:p1 + n], p1 + n
    return region


def varint_dec(data, pos):
    n, sh = 0, 0
    while True:
        if pos >= len(data):
            return None
        b = data[pos]
        pos += 1
        n |= (b & 0x7f) << sh
        sh += 7
        if b < 0x80:
            return n, pos


def field_dec(field, data, pos):
    if field == 'Byte':
        return (data[pos], pos + 1) if pos + 1 <= len(data) else None
    if field == 'Int16ub':
        return (int.from_bytes(data[pos:pos + 2], 'big'), pos + 2) if pos + 2 <= len(data) else None
    if field == 'Int16ul':
        return (int.from_bytes(data[pos:pos + 2], 'little'), pos + 2) if pos + 2 <= len(data) else None
    if field == 'VarInt':
        return varint_dec(data, pos)


def varint_size(n):
    k = 1
    while n > 127:
        n >>= 7
        k += 1
    return k


def L_fixed(n):
    def region(data, pos, dec):
        if pos + n > len(data):
            return None
        return pos, data[pos:pos + n], pos + n
    return region


def L_nullterm(term, include, consume, require):
    u = len(term)

    def region(data, pos, dec):
        p = pos
        while True:
            if p + u > len(data):
                if require:
                    return None
                # the scan is unit-wise: the region is the whole units read so far; a trailing partial
                # unit is consumed but belongs to no unit (observation recorded in DESIGN.md)
                return pos, data[pos:p], len(data)
            if data[p:p + u] == term:
                reg = data[pos:p + u] if include else data[pos:p]
                return pos, reg, (p + u if consume else p)
            p += u
    return region


def L_nullstripped(pad):
    u = len(pad)

    def region(data, pos, dec):
        d = data[pos:]
        if u == 1:
            d2 = d.rstrip(pad)
        else:
            tail = len(d) % u
            end = len(d)
            if tail and d[-tail:] == pad[:tail]:
                end -= tail
            while end - u >= 0 and d[end - u:end] == pad:
                end -= u
            d2 = d[:end]
        return pos, d2, len(data)
    return region


def L_offsettedend(k):
    def region(data, pos, dec):
        end = len(data) + k
        if end < pos:
            return None
        return pos, data[pos:end], end
    return region


def L_xor(key):
    def region(data, pos, dec):
        d = data[pos:]
        if isinstance(key, int):
            d2 = bytes(b ^ key for b in d)
        else:
            d2 = bytes(b ^ key[i % len(key)] for i, b in enumerate(d))
        return pos, d2, len(data)
    return region


def layers(rng):
    r = rng.random()
    if r < 0.25:
        f = rng.choice(['Byte', 'Int16ub', 'Int16ul', 'VarInt'])
        incl = rng.random() < 0.3
        size = {'Byte': 1, 'Int16ub': 2, 'Int16ul': 2, 'VarInt': varint_size}[f]
        if f == 'VarInt':
            incl = False        # VarInt has no sizeof: includelength is rejected
        return ('Prefixed(%s, %%s%s)' % (f, ', includelength=True' if incl else ''), L_prefixed(f, size, incl), 'prefixed')
    if r < 0.45:
        n = rng.choice([0, 1, 2, 3, 5, 8])
        return ('FixedSized(%d, %%s)' % n, L_fixed(n), 'fixed')
    if r < 0.65:
        term = rng.choice([b'\x00', b'\x00', b'\r\n', b'ab', b'\x00\x00'])
        inc, con, req = rng.random() < 0.4, rng.random() < 0.7, rng.random() < 0.7
        return ('NullTerminated(%%s, term=%r, include=%s, consume=%s, require=%s)' % (term, inc, con, req), L_nullterm(term, inc, con, req), 'nullterm')
    if r < 0.78:
        pad = rng.choice([b'\x00', b'\x00\x00', b'ab', b'\xff'])
        return ('NullStripped(%%s, pad=%r)' % pad, L_nullstripped(pad), 'nullstripped')
    if r < 0.9:
        k = rng.choice([0, -1, -2, -3])
        return ('OffsettedEnd(%d, %%s)' % k, L_offsettedend(k), 'offsettedend')
    key = rng.choice([0, 0x5a, 255, b'\x01\x02\x03', b'\x00', b'\xff\x00'])
    return ('ProcessXor(%r, %%s)' % (key,), L_xor(key), 'xor')


def expected(regions, data, start):
    """walk the nest: -> (innermost region bytes as the inner construct sees them, absolute offset of its start, outer end) | None.
    Inner layers work on the bytes the outer layer exposes; absolute offsets accumulate."""
    cur, base = data, 0      # cur: bytes of the current (sub)stream; base: absolute offset of cur[0]
    pos = start
    outer_end = None
    for reg in regions:
        r = reg(cur, pos, field_dec)
        if r is None:
            return None
        rs, rb, end = r
        if outer_end is None:
            outer_end = end
        base = base + rs
        cur, pos = rb, 0
    return cur, base, outer_end


@C.oracle('region')
def o_region(src_greedy, src_tell, src_small, data, start, depth, idx, src_raw=None):
    # regions are rebuilt from the recorded seed so that the replay is self-contained
    _, ls = make_nest(idx[0], idx[1])
    regs = [l[1] for l in ls]
    exp = expected(regs, data, start)

    def run(src):
        st = io.BytesIO(data)
        st.seek(start)
        try:
            v = C.get(src).parse_stream(st)
            return ('ok', v, st.tell())
        except core.ConstructError as e:
            return ('err', type(e).__name__, None)
    def crun(src):
        # the parser compile() generates for the same nest (None when the nest is outside what the compiler takes)
        if src not in _COMPILED:
            try:
                _COMPILED[src] = C.get(src).compile()
            except Exception:
                _COMPILED[src] = None
        cc = _COMPILED[src]
        if cc is None:
            return None
        st = io.BytesIO(data)
        st.seek(start)
        try:
            v = cc.parse_stream(st)
            return ('ok', v, st.tell())
        except Exception as e:
            return ('err', type(e).__name__, None)
    g = run(src_greedy)
    if exp is None:
        if g[0] == 'ok':
            return 'reference rejects (region does not fit / terminator missing) but the library returned %r' % (g[1],)
        return None
    inner, absstart, outer_end = exp
    if g[0] != 'ok':
        return 'reference accepts (inner region %r) but the library raised %s' % (inner, g[1])
    if bytes(g[1]) != inner:
        return 'inner GreedyBytes saw %r, the region is %r' % (bytes(g[1]), inner)
    if g[2] != outer_end:
        return 'outer stream at %d after parse, the contract says %d' % (g[2], outer_end)
    t = run(src_tell)
    if t[0] != 'ok' or t[1] != absstart:
        return 'Tell inside the region reported %r, absolute offset is %d' % (t[1], absstart)
    if t[2] != outer_end:
        return 'outer stream at %d when the inner construct consumed nothing, contract says %d' % (t[2], outer_end)
    s = run(src_small)
    if s[0] == 'ok' and s[2] != outer_end:
        return 'outer stream at %d when the inner construct consumed one byte, contract says %d' % (s[2], outer_end)
    if src_raw is not None:
        r = run(src_raw)
        if r[0] != 'ok':
            return 'RawCopy(GreedyBytes) inside the region raised %s' % r[1]
        v = r[1]
        if (v.offset1, v.offset2, v.length) != (absstart, absstart + len(inner), len(inner)):
            return 'RawCopy inside the region reports offsets %d..%d (length %d), the region is %d..%d of the outermost stream' % (
                v.offset1, v.offset2, v.length, absstart, absstart + len(inner))
        if v.data != inner or v.value != inner:
            return 'RawCopy inside the region reports data %r / value %r, the region holds %r' % (v.data, v.value, inner)
    ct = crun(src_tell)
    if ct is not None and (ct[0] != 'ok' or ct[1] != absstart or ct[2] != outer_end):
        return 'compiled parser: Tell inside the region reported %r and the outer stream ended at %r; absolute offset is %d, contract says %d' % (ct[1], ct[2], absstart, outer_end)
    if src_raw is not None:
        cr = crun(src_raw)
        if cr is not None:
            if cr[0] != 'ok':
                return 'compiled parser: RawCopy(GreedyBytes) inside the region raised %s' % cr[1]
            v = cr[1]
            if (v.offset1, v.offset2, v.length, bytes(v.data)) != (absstart, absstart + len(inner), len(inner), inner) or cr[2] != outer_end:
                return 'compiled parser: RawCopy inside the region reports %d..%d data %r and ends at %d; the region is %d..%d holding %r, contract says %d' % (
                    v.offset1, v.offset2, v.data, cr[2], absstart, absstart + len(inner), inner, outer_end)
    return None


_COMPILED = {}


def make_nest(seed, salt):
    rng = C.rng_for(seed, 'C08', salt)
    depth = rng.choice([1, 1, 2, 2, 3, 4])
    return depth, [layers(rng) for _ in range(depth)]


def make_data(rng, ls, tier):
    """bytes that are likely to be accepted: build a payload and wrap it inside-out"""
    out = []
    for _ in range(3):
        out.append(G.rand_bytes(rng, rng.randint(0, 14)))
    payload = G.rand_bytes(rng, rng.randint(0, 4))
    d = payload
    for tmpl, reg, kind in reversed(ls):
        if kind == 'prefixed':
            f = tmpl.split('(')[1].split(',')[0]
            incl = 'includelength' in tmpl
            n = len(d)
            if f == 'Byte':
                d = bytes([(n + (1 if incl else 0)) & 255]) + d
            elif f == 'Int16ub':
                d = (n + (2 if incl else 0)).to_bytes(2, 'big') + d
            elif f == 'Int16ul':
                d = (n + (2 if incl else 0)).to_bytes(2, 'little') + d
            else:
                d = construct.VarInt.build(n) + d
            d += G.rand_bytes(rng, rng.randint(0, 2))
        elif kind == 'fixed':
            n = int(tmpl.split('(')[1].split(',')[0])
            d = (d + bytes(n))[:n] + G.rand_bytes(rng, rng.randint(0, 2))
        elif kind == 'nullterm':
            term = eval(tmpl.split('term=')[1].split(', include')[0])
            d = d + term + G.rand_bytes(rng, rng.randint(0, 2))
        elif kind == 'nullstripped':
            pad = eval(tmpl.split('pad=')[1].rstrip(')'))
            d = d + pad * rng.randint(0, 2)
        elif kind == 'offsettedend':
            k = int(tmpl.split('(')[1].split(',')[0])
            d = d + G.rand_bytes(rng, -k)
        else:
            pass
    out.append(d)
    out.append(G.mutate(rng, d))
    return out


def run(tier, seed):
    acc = C.Acc('C08', tier, seed)
    n = 900 if tier == 'quick' else 12000
    cases = []
    checks = []
    for i in range(n):
        salt = 'n%d' % i
        depth, ls = make_nest(seed, salt)
        rng2 = C.rng_for(seed, 'C08d', salt)

        def nest(inner):
            s = inner
            for tmpl, _, _ in reversed(ls):
                s = tmpl % s
            return s
        srcs = dict(g=nest('GreedyBytes'), t=nest('Tell'), b=nest('Byte'),
                    r=nest('RawCopy(GreedyBytes)'), s=nest('Struct("t"/Tell, "d"/Bytes(1), "u"/Tell)'),
                    p=nest('Pointer(0, Byte)'), e=nest('Struct("x"/OffsettedEnd(-1, GreedyBytes), "y"/Tell)'))
        for data in make_data(rng2, ls, tier):
            for start in ([0] if len(data) == 0 else sorted(set([0, rng2.randint(0, min(5, len(data)))]))):
                for k in ('g', 't', 'b', 'r', 's', 'p', 'e'):
                    cases.append(dict(src=srcs[k], op='parse', data=data, start=start))
                checks.append((srcs, data, start, depth, (seed, salt)))
    acc.corr(cases, 'region')
    for srcs, data, start, depth, idx in checks:
        acc.check('region', srcs['g'], src_tell=srcs['t'], src_small=srcs['b'], data=data, start=start, depth=depth, idx=idx, src_raw=srcs['r'])
    return acc.result(
        rule='random nests (depth 1..4) of Prefixed(Byte/Int16ub/Int16ul/VarInt, +-includelength) / FixedSized / NullTerminated(term 1-2 '
             'bytes, include, consume, require) / NullStripped(pad 1-2 bytes) / OffsettedEnd / ProcessXor around GreedyBytes, Tell, '
             'Byte, RawCopy, Struct(Tell,Bytes,Tell), Pointer(0), OffsettedEnd; inputs: random, wrapped payloads, mutations; starting '
             'offsets 0..5. Oracle: an independent Python reading of each delimiter contract. distinct = (nest shape, outcome)',
        fragment='theorems hold for every inner construct and any nesting depth (FixedSized, Prefixed, NullStripped, ProcessXor(0) '
                 'layers for the absolute-offset theorem)',
        partial=['NullTerminated with a terminator of several bytes (the unit-wise scan) is covered by correspondence + oracle; the region theorems are for one-byte terminators and for OffsettedEnd on seekable streams'])


def replay(payload):
    return C.generic_replay(payload)
