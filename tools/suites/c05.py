"""C05: sizeof is exact when it answers and fails only with SizeofError."""
import io
from . import common as C
import gen as G
import harness as H
import construct
from construct import core


@C.oracle('sizeof_contract')
def o_sizeof(src, kw, obj, trailing):
    c = C.get(src)
    try:
        n = c.sizeof(**kw)
    except core.SizeofError:
        return None
    except core.PaddingError:
        return None      # documented exemption: negative lengths / modulus < 2
    except Exception as e:
        return 'sizeof(**%r) raised %s instead of SizeofError' % (kw, type(e).__name__)
    if isinstance(n, bool) or not isinstance(n, int) or n < 0:
        return 'sizeof returned %r, not a non-negative integer' % (n,)
    if obj is C.NOVAL:
        return None
    st = io.BytesIO()
    st.write(b'\xee' * 3)
    try:
        c.build_stream(obj, st, **kw)
    except core.ConstructError:
        return None
    adv = st.tell() - 3
    if adv != n:
        return 'sizeof = %d but build advanced the stream by %d' % (n, adv)
    data = st.getvalue()[3:]
    if trailing and ('ProcessXor' in src or 'ProcessRotateLeft' in src):
        return None      # documented exemption: transforms that read to the end of the stream
    st2 = io.BytesIO(b'\xee' * 3 + data + trailing)
    st2.seek(3)
    try:
        v = c.parse_stream(st2, **kw)
        R_force(v)
    except core.ConstructError as e:
        return None
    adv = st2.tell() - 3
    if adv != n:
        return 'sizeof = %d but parsing the built bytes (+%d trailing) advanced the stream by %d' % (n, len(trailing), adv)
    return None


def _ask(c, kw):
    try:
        return ('ok', c.sizeof(**kw))
    except core.SizeofError:
        return ('SizeofError',)
    except core.ConstructError as e:
        return ('ConstructError',)
    except Exception as e:
        return ('foreign', type(e).__name__)


@C.oracle('sizeof_history')
def o_sizeof_history(src, kws):
    """one instance asked under several keyword contexts in turn answers each time what a fresh instance answers; so does the instance
    that compile() returns, and whenever it answers n, building with it under that context advances the stream by n"""
    fresh = [_ask(C.get(src), kw) for kw in kws]
    one = C.get(src)
    for rnd in range(2):
        for kw, f in zip(kws, fresh):
            a = _ask(one, kw)
            if a != f:
                return 'asked again under %r the same instance answers %r, a fresh instance answers %r' % (kw, a, f)
    try:
        cc = C.get(src).compile()
    except Exception:
        return None
    for rnd in range(2):
        for kw, f in zip(kws, fresh):
            a = _ask(cc, kw)
            if a[0] == 'ok' and f[0] == 'ok' and a != f:
                return 'the compiled instance asked under %r answers %r, the construct answers %r' % (kw, a[1], f[1])
            if a[0] == 'foreign':
                return 'the compiled instance raised %s for sizeof(**%r)' % (a[1], kw)
    return None


def R_force(v):
    # lazy results must not move the position when forced
    return v


class _NoVal:
    def __repr__(self):
        return 'NOVAL'


C.NOVAL = _NoVal()
C._LITNS['NOVAL'] = C.NOVAL

CTX_TEMPLATES = [
    # (source, kw that satisfies it, a buildable value under that kw)
    ('Bytes(this.n)', dict(n=3), b'abc'),
    ('Array(this.n, Byte)', dict(n=2), [1, 2]),
    ('Array(this.n, Int16ub)', dict(n=0), []),
    ('Padded(this.n, Byte)', dict(n=4), 7),
    ('Aligned(this.m, Byte)', dict(m=4), 7),
    ('Aligned(this.m, Bytes(this.n))', dict(m=4, n=8), b'12345678'),
    ('Aligned(this.m, Bytes(this.n))', dict(m=3, n=7), b'1234567'),
    ('FixedSized(this.n, GreedyBytes)', dict(n=3), b'ab'),
    ('IfThenElse(this.f, Byte, Int16ub)', dict(f=True), 5),
    ('IfThenElse(this.f, Byte, Int16ub)', dict(f=0), 5),
    ('If(this.f, Int32ub)', dict(f=1), 5),
    ('Switch(this.k, {1: Byte, 2: Int16ub})', dict(k=2), 9),
    ('Switch(this.k, {1: Byte, 2: Int16ub}, default=Int32ub)', dict(k=5), 9),
    ('BytesInteger(this.n)', dict(n=3), 70000),
    ('PaddedString(this.n, "utf8")', dict(n=6), 'abc'),
    ('Struct("a"/Bytes(this._.n), "b"/Byte)', dict(n=2), dict(a=b'xy', b=1)),
    ('Struct("a"/Bytes(this._params.n))', dict(n=2), dict(a=b'xy')),
    ('Struct("s"/Struct("a"/Array(this._._.n, Byte)))', dict(n=2), dict(s=dict(a=[1, 2]))),
    ('Sequence(Byte, Bytes(this._.n))', dict(n=1), [1, b'z']),
    ('FocusedSeq("x", "x"/Bytes(this._.n), Const(b"!"))', dict(n=2), b'ab'),
    ('Prefixed(Byte, Bytes(this.n))', dict(n=2), b'ab'),
    ('Struct("a"/Byte, "b"/Bytes(this.a))', dict(), dict(a=2, b=b'xy')),
    ('FixedSized(this.n, Struct("a"/Byte, "far"/Pointer(4, Int16ub)))', dict(n=6), dict(a=1, far=2)),
    ('Prefixed(Byte, Bytes(this.n), includelength=True)', dict(n=2), b'ab'),
    ('Pointer(this.n, Byte)', dict(n=1), 5),
    ('Rebuild(Byte, this.n)', dict(n=1), None),
    ('Default(Int16ub, this.n)', dict(n=1), None),
    ('Check(this.n == 1)', dict(n=1), None),
    ('Computed(this.n)', dict(n=1), None),
    ('Renamed(Bytes(this.n), "x")', dict(n=1), b'q'),
    ('LazyArray(this.n, Byte)', dict(n=2), [1, 2]),
    ('Lazy(Bytes(this.n))', dict(n=2), b'ab'),
    ('LazyStruct("a"/Bytes(this._.n), "b"/Byte)', dict(n=2), dict(a=b'xy', b=1)),
    # bit-level constructs whose size is only known from the context (Bitwise / Bytewise fall back to Restreamed)
    ('Bitwise(Bytes(this.n))', dict(n=16), b'\x01\x00' * 8),
    ('Bitwise(Array(this.n, Bit))', dict(n=8), [1, 0, 0, 0, 0, 0, 0, 1]),
    ('BitStruct("a"/BitsInteger(this._.w), "b"/BitsInteger(16 - this._.w))', dict(w=5), dict(a=3, b=9)),
    ('BitStruct("a"/Nibble, "b"/Bytewise(Bytes(this._.n)), "c"/Nibble)', dict(n=2), dict(a=1, b=b'xy', c=2)),
    ('Bitwise(Struct("x"/BitsInteger(this._.w), "y"/Padding(8 - this._.w)))', dict(w=3), dict(x=5)),
    ('BitsSwapped(Bytes(this.n))', dict(n=2), b'ab'),
    ('BitsInteger(this.w)', dict(w=8), 5),
    ('BitsInteger(this.w, signed=True, swapped=True)', dict(w=16), -2),
    ('Array(2, BitsInteger(this.w))', dict(w=3), [1, 2]),
    ('IfThenElse(this.f, BitsInteger(this.w), Byte)', dict(f=True, w=4), 3),
    ('Prefixed(Byte, BitsInteger(this.w))', dict(w=8), 5),
    ('BytesInteger(this.w, signed=True)', dict(w=2), -2),
    ('Aligned(this.m, Pass)', dict(m=4), None),
    ('ProcessRotateLeft(this.n, this.g, Bytes(2))', dict(n=3, g=2), b'ab'),
    # branches of equal size do not make the size known: the default / the other branch may differ
    ('Struct("tag"/Byte, "value"/Switch(this.tag, {1: Int16ub, 2: Int16sb}))', dict(), dict(tag=9, value=None)),
    ('Struct("tag"/Byte, "value"/Switch(this.tag, {1: Int16ub, 2: Int16sb}, default=Byte))', dict(), dict(tag=9, value=5)),
    ('Struct("tag"/Byte, "value"/Switch(this.tag, {1: Int16ub, 2: Int16sb}, default=Int16ul))', dict(), dict(tag=9, value=5)),
    ('Switch(this.k, {1: Int16ub, 2: Int16sb})', dict(k=7), None),
    ('Struct("f"/Flag, "v"/IfThenElse(this.f, Int16ub, Int16sb))', dict(), dict(f=True, v=1)),
    ('Struct("f"/Flag, "v"/If(this.f, Int16ub))', dict(), dict(f=False, v=None)),
    ('Struct("n"/Byte, "v"/Array(this.n, Pass))', dict(), dict(n=3, v=[None, None, None])),
    ('Struct("n"/Byte, "v"/Padded(this.n, Pass))', dict(), dict(n=3, v=None)),
]
# the same templates with the context read by attribute in a plain lambda: a missing key is an AttributeError there
import re as _re
LAMBDA_TEMPLATES = []
for _src, _kw, _obj in CTX_TEMPLATES:
    _l = _re.sub(r'([(,]\s*)this((?:\._params|\._)*\.[A-Za-z]\w*)(?=\s*[,)])', lambda m: '%s(lambda ctx: ctx%s)' % (m.group(1), m.group(2)), _src)
    if _l != _src and 'this' not in _l:
        LAMBDA_TEMPLATES.append((_l, _kw, _obj))

FIXED = [
    ('Aligned(4, Int32ub)', 5), ('Aligned(4, Bytes(8))', b'12345678'), ('Aligned(2, Pass)', None), ('Aligned(4, Int24ub)', 5),
    ('AlignedStruct(4, "a"/Byte, "b"/Int32ub)', dict(a=1, b=2)), ('Padded(4, Int32ub)', 1), ('Padded(0, Pass)', None),
    ('FixedSized(4, GreedyBytes)', b'ab'), ('FixedSized(0, GreedyBytes)', b''),
    ('Prefixed(Byte, Bytes(3))', b'abc'), ('Prefixed(Byte, Bytes(3), includelength=True)', b'abc'),
    ('Prefixed(Int16ub, Const(b"abc"), includelength=True)', None),
    ('LazyStruct(Prefixed(Byte, Const(b"abc"), includelength=True), "x"/Byte)', dict(x=1)),
    ('LazyStruct(Prefixed(Byte, Const(b"abc")), "x"/Byte)', dict(x=1)),
    ('LazyStruct("p"/Prefixed(Byte, Bytes(3), includelength=True), "x"/Byte)', dict(p=b'abc', x=1)),
    ('LazyArray(2, Prefixed(Byte, Bytes(2), includelength=True))', [b'ab', b'cd']),
    ('LazyArray(2, Prefixed(Byte, Bytes(2)))', [b'ab', b'cd']),
    ('LazyStruct("a"/Int16ub, "b"/Bytes(2), Padding(1))', dict(a=1, b=b'xy')),
    ('Struct("a"/Byte, Padding(3), "b"/Array(2, Int16ub))', dict(a=1, b=[1, 2])),
    ('BitStruct("a"/BitsInteger(3), "b"/BitsInteger(13))', dict(a=1, b=2)),
    ('Bitwise(Aligned(8, BitsInteger(5)))', 3), ('ByteSwapped(Int24ub)', 1), ('BitsSwapped(Bytes(2))', b'ab'),
    ('Union(None, "a"/Byte, "b"/Int16ub)', dict(a=1)), ('Select(Byte, Int16ub)', 1), ('Optional(Byte)', 1),
    ('GreedyRange(Byte)', [1]), ('RepeatUntil(obj_ == 0, Byte)', [1, 0]), ('VarInt', 5), ('CString("utf8")', 'a'),
    ('GreedyBytes', b'a'), ('Terminated', None), ('Error', None), ('Tell', None), ('Pass', None), ('Flag', True),
    ('Peek(Byte)', None), ('RawCopy(Int16ub)', dict(value=5)), ('Hex(Int32ub)', 5), ('Enum(Byte, a=1)', 'a'),
    ('ProcessXor(5, Int16ub)', 9), ('ProcessRotateLeft(3, 2, Int16ub)', 9), ('Transformed(Bytes(2), swapbytes, 2, swapbytes, 2)', b'ab'),
    ('NullTerminated(Byte)', 1), ('NullStripped(GreedyBytes)', b'a'), ('OffsettedEnd(-1, GreedyBytes)', b'a'),
    ('FixedSized(8, Struct("a"/Byte, "far"/Pointer(4, Int16ub)))', dict(a=1, far=2)), ('Padded(8, Struct("a"/Byte, "far"/Pointer(4, Int16ub)))', dict(a=1, far=2)),
    ('Prefixed(Byte, Struct("a"/Byte, "far"/Pointer(4, Int16ub)))', dict(a=1, far=2)), ('FixedSized(6, Sequence(Byte, Pointer(3, Byte), Byte))', [1, 2, 3]),
    ('Struct("f"/FixedSized(8, Struct("a"/Byte, "far"/Pointer(5, Int16ub))), "t"/Byte)', dict(f=dict(a=1, far=2), t=3)),
    ('Aligned(4, Struct("a"/Byte, "far"/Pointer(5, Int16ub)))', dict(a=1, far=2)), ('Prefixed(Byte, Bytes(3), includelength=True)', b'abc'),
    ('Prefixed(Int16ub, Struct("a"/Byte, "b"/Int16ub), includelength=True)', dict(a=1, b=2)), ('Prefixed(VarInt, Bytes(3), includelength=True)', b'abc'),
    ('StopIf(True)', None), ('Seek(0)', None), ('Index', None), ('Array(3, Struct("a"/Byte, "b"/If(this.a, Byte)))', C.NOVAL),
]


def run(tier, seed):
    acc = C.Acc('C05', tier, seed)
    rng = C.rng_for(seed, 'C05')
    cases = []
    checks = []
    for src, kw, obj in CTX_TEMPLATES:
        keys = sorted(kw)
        subsets = [dict(), dict(kw)] + [{k: v for k, v in kw.items() if k != drop} for drop in keys]
        for sub in subsets:
            cases.append(dict(src=src, op='sizeof', kw=sub))
            checks.append((src, sub, obj if sub == kw else C.NOVAL))
        for k in keys:    # other values of the key
            for alt in (0, 1, 5):
                kk = dict(kw)
                kk[k] = alt
                cases.append(dict(src=src, op='sizeof', kw=kk))
                checks.append((src, kk, C.NOVAL))
    for src, kw, obj in CTX_TEMPLATES:
        if not kw:
            continue
        kws = [dict(kw)]
        for k in sorted(kw):
            for alt in ((0, 1, 5, 2) if not isinstance(kw[k], bool) else (False, True)):
                kk = dict(kw)
                kk[k] = alt
                kws.append(kk)
        kws += [dict(), dict(kw)]
        acc.check('sizeof_history', src, kws=kws)
    for src, kw, obj in LAMBDA_TEMPLATES:
        keys = sorted(kw)
        for sub in [dict(), dict(kw)] + [{k: v for k, v in kw.items() if k != drop} for drop in keys]:
            checks.append((src, sub, obj if sub == kw else C.NOVAL))
    for src, obj in FIXED:
        cases.append(dict(src=src, op='sizeof'))
        checks.append((src, {}, obj))
    # two-feature interactions: every wrapper class over every kind of inner construct
    for src, obj in C.pairs():
        if C.constructible(src):
            cases.append(dict(src=src, op='sizeof'))
            checks.append((src, {}, obj))
    n = 500 if tier == 'quick' else 5000
    for _ in range(n):
        node = G.g_node(rng, rng.choice([0, 1, 2, 2, 3]), True)
        cases.append(dict(src=node.src, op='sizeof'))
        for _ in range(2):
            try:
                checks.append((node.src, {}, node.val(rng)))
            except Exception:
                pass

    def proj(m, i):
        cls = lambda r: ('err', r[1][0] if r[1][0] in ('ESizeof',) else ('construct' if r[1][0] not in ('EKey', 'EAttr', 'EType', 'EValue', 'EIndexErr', 'EZeroDiv', 'EOverflow', 'EForeign') else r[1][0])) if r[0] == 'RErr' else r
        return cls(m), cls(i)
    acc.corr(cases, 'sizeof', project=proj)
    for src, kw, obj in checks:
        for tr in (b'', b'\x00\x00\x00\x00\x00\x00\x00\x00\x00', b'\xff\x01\x02'):
            acc.check('sizeof_contract', src, kw=kw, obj=obj, trailing=tr)
            if obj is C.NOVAL:
                break
    return acc.result(
        rule='context-dependent templates (as this-expressions and as attribute-reading lambdas) x keyword contexts that supply every / no / all-but-one referenced key and other '
             'key values; fixed and unsized constructs incl. Aligned at exact multiples, Prefixed(includelength), Lazy*; '
             'generated constructs of the sequential grammar x 2 values x 3 trailing strings. distinct = (construct shape, outcome)',
        fragment='sizeof_nokey is proved for every construct of the model (all 59 classes); exactness (sizeof = bytes produced = bytes consumed) '
                 'for every construct of the closed sequential fragment',
        partial=['exactness is a theorem for the closed sequential fragment (SizeExact); context-dependent and bit-level constructs are decided by the oracle'],
        assumptions=[])


def replay(payload):
    return C.generic_replay(payload)
