"""C03: encodings match an independent executable specification.  The extracted Coq model (pinned to
the arithmetic specification by the theorems of props/C03.v) is the reference; /repo's construct is
what is measured.  Any disagreement on an in-model case is a failing input of the property."""
import random, struct
from . import common as C
import gen as G
import harness as H


@C.oracle('conform')
def o_conform(src, case):
    """re-run one case on model and implementation"""
    c = C.case_from_summary(case)
    r = H.run_cases([c])
    _, st, detail, m, i = r['results'][0]
    if st == 'diff':
        return 'library disagrees with the reference semantics: ' + detail[:400]
    return None


@C.oracle('name_spec')
def o_name_spec(src, value):
    """the public names say what they encode: Int<bits><u|s><b|l|n>, Float<bits><b|l|n> -- compared with int.to_bytes / struct.pack
    read off the NAME (the native order from sys.byteorder), not off the object the name is bound to"""
    import re, sys
    m = re.fullmatch(r'Int(\d+)([us])([bln])', src)
    c = C.get(src)
    if m:
        n, signed, order = int(m.group(1)) // 8, m.group(2) == 's', {'b': 'big', 'l': 'little', 'n': sys.byteorder}[m.group(3)]
        want = value.to_bytes(n, order, signed=signed)
        got = c.build(value)
        if got != want:
            return 'build(%d) = %r, the name says %r' % (value, got, want)
        back = c.parse(want)
        if back != value:
            return 'parse(%r) = %r, the name says %d' % (want, back, value)
        if c.sizeof() != n:
            return 'sizeof = %r, the name says %d' % (c.sizeof(), n)
        return None
    m = re.fullmatch(r'Float(\d+)([bln])', src)
    if m:
        code = {16: 'e', 32: 'f', 64: 'd'}[int(m.group(1))]
        pre = {'b': '>', 'l': '<', 'n': '='}[m.group(2)]
        want = struct.pack(pre + code, value)
        got = c.build(value)
        if got != want:
            return 'build(%r) = %r, the name says %r' % (value, got, want)
        return None
    return None


def int_cases(rng, tier):
    cases = []
    names = [(nm, n, s, None) for nm, n, s in G.INT_NAMES]
    for n in (1, 2, 3, 5, 8, 9, 16):
        for s in (False, True):
            for sw in (False, True):
                names.append(('BytesInteger(%d, signed=%s, swapped=%s)' % (n, s, sw), n, s, None))
    for nm, n, s, _ in names:
        lo, hi = G.rng_range(s, n)
        vals = set([lo, hi, lo - 1, hi + 1, 0, 1, -1, lo + 1, hi - 1])
        if n == 1:
            vals.update(range(lo, hi + 1))
        elif n == 2 and tier == 'thorough':
            vals.update(range(lo, hi + 1, 1))
        for _ in range(40 if tier == 'quick' else 400):
            vals.add(G.edge_int(rng, lo - 2, hi + 2))
            vals.add(rng.randint(-(1 << 130), 1 << 130) if rng.random() < 0.05 else rng.randint(lo, hi))
        for v in sorted(vals):
            cases.append(dict(src=nm, op='build', obj=v))
        for v in (2.7, -0.5, 1.0, 0.0, '12', '', b'3', None, [1], float('inf')):       # not integers: no encoding, whatever int() would make of them
            cases.append(dict(src=nm, op='build', obj=v))
        datas = set()
        for ln in (n - 1, n, n + 1):
            for _ in range(12 if tier == 'quick' else 80):
                datas.add(G.rand_bytes(rng, max(ln, 0)))
        if n == 1:
            datas.update(bytes([b]) for b in range(256))
        for d in sorted(datas):
            cases.append(dict(src=nm, op='parse', data=d))
        cases.append(dict(src=nm, op='sizeof'))
    return cases


def varint_cases(rng, tier):
    cases = []
    top = 1 << 21 if tier == 'thorough' else 1 << 15
    step = 1 if tier == 'thorough' else 7
    for v in list(range(0, top, step)) + [2 ** k + d for k in range(7, 140, 7) for d in (-1, 0, 1)] + [-1, -2 ** 70]:
        cases.append(dict(src='VarInt', op='build', obj=v))
    for v in list(range(-(top // 2), top // 2, step * 3)) + [s * (2 ** k + d) for k in range(6, 130, 7) for d in (-1, 0, 1) for s in (1, -1)]:
        cases.append(dict(src='ZigZag', op='build', obj=v))
    for ln in range(0, 4):
        n = 256 ** ln
        it = range(n) if (n <= 65536 or tier == 'thorough') and n <= 65536 else [rng.randrange(n) for _ in range(3000)]
        for x in it:
            d = x.to_bytes(ln, 'big')
            cases.append(dict(src='VarInt', op='parse', data=d))
            if x % 5 == 0:
                cases.append(dict(src='ZigZag', op='parse', data=d))
    for _ in range(300):
        d = bytes(rng.choice([0x80, 0xff, 0x81, rng.getrandbits(8)]) for _ in range(rng.randint(1, 20))) + bytes([rng.getrandbits(7)])
        cases.append(dict(src=rng.choice(['VarInt', 'ZigZag']), op='parse', data=d + G.rand_bytes(rng, rng.randint(0, 2))))
    return cases


def float_cases(rng, tier):
    cases = []
    for nm, n, code in G.FLOAT_NAMES:
        pats = set([0, 1, 2 ** (8 * n - 1), 2 ** (8 * n) - 1])
        if n == 2:
            pats.update(range(0, 65536, 1 if tier == 'thorough' else 13))
        for _ in range(60 if tier == 'quick' else 600):
            pats.add(rng.getrandbits(8 * n))
        for ptn in sorted(pats):
            cases.append(dict(src=nm, op='parse', data=ptn.to_bytes(n, 'big')))
        vals = []
        for _ in range(80 if tier == 'quick' else 800):
            r = rng.random()
            if r < 0.5:
                v = struct.unpack('>d', rng.getrandbits(64).to_bytes(8, 'big'))[0]
            elif r < 0.8:
                # near the narrow format's boundaries: ties, subnormals, overflow threshold
                base = struct.unpack('>' + code, rng.getrandbits(8 * n).to_bytes(n, 'big'))[0]
                v = base * (1 + rng.choice([0, 1, -1, 2, -2]) * 2.0 ** rng.choice([-11, -12, -24, -25, -53]))
            else:
                v = rng.choice([0.0, -0.0, 1.0, 65504.0, 65520.0, 65519.99, 3.4028234663852886e38, 3.4028235677973366e38,
                                float('inf'), -float('inf'), 5.960464477539063e-08, 2.9802322387695312e-08, 1e-50, 1e300, 2 ** -1074])
            if v != v:
                continue
            vals.append(v)
        vals += [1, 0, -3, 2 ** 53, 2 ** 53 + 1, 2 ** 70, True]
        for v in vals:
            cases.append(dict(src=nm, op='build', obj=v))
    return cases


def misc_cases(rng, tier):
    """strings, flags, mappings, and composites of the sequential grammar with values of their domain"""
    cases = []
    n = 700 if tier == 'quick' else 6000
    for _ in range(n):
        node = G.g_node(rng, rng.choice([0, 1, 1, 2, 2, 3]), True)
        datas = []
        for _ in range(2):
            try:
                v = node.val(rng)
            except Exception:
                continue
            cases.append(dict(src=node.src, op='build', obj=v))
            try:
                d = C.get(node.src).build(v)
                datas.append(d)
            except Exception:
                pass
        for d in datas:
            cases.append(dict(src=node.src, op='parse', data=d))
            cases.append(dict(src=node.src, op='parse', data=G.mutate(rng, d)))
        cases.append(dict(src=node.src, op='parse', data=G.rand_bytes(rng, rng.randint(0, 12))))
        cases.append(dict(src=node.src, op='sizeof'))
    # signed length / count fields: negative values must be rejected
    for src in ['Prefixed(Int8sb, GreedyBytes)', 'PrefixedArray(Int8sb, Byte)', 'Struct("n"/Int8sb, "d"/Bytes(this.n))',
                'Struct("n"/Int8sb, "d"/Array(this.n, Byte))', 'Prefixed(Int16sl, GreedyBytes, includelength=True)',
                'Struct("n"/Int8sb, "d"/Padded(this.n, Pass))', 'Struct("n"/Int8sb, "d"/FixedSized(this.n, GreedyBytes))']:
        for b in range(256):
            cases.append(dict(src=src, op='parse', data=bytes([b, 0, 1, 2, 3])))
    return cases


def run(tier, seed):
    acc = C.Acc('C03', tier, seed)
    rng = C.rng_for(seed, 'C03')
    for label, cases in (('ints', int_cases(rng, tier)), ('varint', varint_cases(rng, tier)),
                         ('floats', float_cases(rng, tier)), ('composites', misc_cases(rng, tier))):
        acc.corr(cases, label)
    # the names against their spelling
    for nm, n, sg in G.INT_NAMES:
        lo, hi = G.rng_range(sg, n)
        for v in sorted(set([lo, hi, 0, 1, hi // 3, lo + 1, 0x0102030405060708 % (hi + 1)] + [G.edge_int(rng, lo, hi) for _ in range(6)])):
            acc.check('name_spec', nm, value=v)
    for nm, n, code in G.FLOAT_NAMES:
        if nm.startswith('Float'):
            for v in (0.0, 1.0, -2.5, 0.333251953125, 65504.0):
                acc.check('name_spec', nm, value=v)
    # the model is the reference: each disagreement is a failing input
    for t in acc.ties[:50]:
        acc.violations.append(dict(sig='conform:' + t['case']['src'] + ':' + t['case'].get('data', t['case'].get('obj', '')),
                                   kind='conform', src=t['case']['src'], args=dict(case=C.lit(t['case'])),
                                   fails_as='library %s vs reference %s' % (t['impl'][:200], t['model'][:200])))
    acc.ties = []
    return acc.result(
        rule='every public integer/float name and BytesInteger parameterisation x (all 8-bit values, boundaries '
             'lo-1..hi+1, PRNG samples incl. >128-bit) x byte strings of length n-1,n,n+1; VarInt/ZigZag over an '
             'exhaustive low range, powers of 128 +-1 and all byte strings up to length 2 (3 sampled); floats over bit '
             'patterns and doubles near ties/subnormal/overflow boundaries; generated composites of the sequential '
             'grammar with values, canonical encodings and mutations. distinct = (suite, construct shape, op, outcome class)',
        fragment='primitives proved against the arithmetic specification (props/C03.v); composites, strings, floats and '
                 'mappings pinned by correspondence with the extracted model',
        partial=['C03 floats: every Float16 / Float32 / Float64 pattern round-trips (FloatFacts, Float32, FloatField); narrowing of doubles that are not representable in the narrower format by correspondence on bit patterns only',
                 'C03 composites: relation enc c v bs not yet stated; concatenation order is covered by C01 theorems'],
        assumptions=['CPython struct/int.to_bytes semantics as read into the model'])


def replay(payload):
    return C.generic_replay(payload)
