"""Shared machinery of the per-property suites: the accumulator that runs correspondence batches
(extracted model vs /repo's construct) and property oracles on the implementation, and turns their
outcomes into the numbers ./check writes into the evidence file."""
import os, sys, re, json, random, collections, hashlib, traceback

HERE = os.path.dirname(os.path.abspath(__file__))
TOOLS = os.path.dirname(HERE)
if TOOLS not in sys.path:
    sys.path.insert(0, TOOLS)

import harness as H
import impl as I
import reify as R


def rng_for(seed, pid, salt=''):
    return random.Random('%s/%s/%s' % (seed, pid, salt))


def lit(v):
    """repr usable in a replay file (bytes, ints, floats incl. inf/nan, str, list, dict, None, bool)"""
    return repr(v)


_LITNS = {'inf': float('inf'), 'nan': float('nan'), '__builtins__': {}}


def unlit(s):
    return eval(s, dict(_LITNS))


def shape(src):
    """construct expression with numbers and string literals blanked: the 'shape' used to count
    distinct cases"""
    s = re.sub(r'b?"[^"]*"|b?\'[^\']*\'', 'S', src)
    s = re.sub(r'-?\d+', 'N', s)
    return s


def outcome_class(resp):
    if resp is None:
        return 'none'
    if resp[0] == 'RErr':
        return resp[1][0]
    return 'ok'


def case_summary(case):
    d = dict(src=case['src'], op=case['op'])
    if 'data' in case:
        d['data'] = case['data'].hex()
        if case.get('start'):
            d['start'] = case['start']
    if 'obj' in case:
        d['obj'] = lit(case['obj'])
    if case.get('kw'):
        d['kw'] = lit(case['kw'])
    if 'history' in case:
        d['history'] = list(case['history'])
    return d


def case_from_summary(d):
    c = dict(src=d['src'], op=d['op'], kw=unlit(d['kw']) if 'kw' in d else {})
    if 'data' in d:
        c['data'] = bytes.fromhex(d['data'])
        c['start'] = d.get('start', 0)
    if 'obj' in d:
        c['obj'] = unlit(d['obj'])
    if 'history' in d:
        c['history'] = list(d['history'])
    return c


ORACLES = {}


def oracle(name):
    def deco(f):
        ORACLES[name] = f
        return f
    return deco


def get(src):
    return eval(src, H.namespace())


class Acc:
    def __init__(self, pid, tier, seed):
        self.pid, self.tier, self.seed = pid, tier, seed
        self.evaluations = 0
        self.distinct = set()
        self.samples = []
        self.ties = []
        self.violations = []
        self.dist = collections.Counter()
        self.skipped = collections.Counter()
        self.ties_checked = []
        self.oracle_runs = collections.Counter()
        self._seen_viol = set()
        self.budget_is_violation = False      # only the termination property (C06) treats an exceeded time budget as a failure

    # ---- correspondence ----
    def corr(self, cases, label, project=None, trivial=None):
        """run cases on model and implementation; project(model_resp, impl_resp) -> (m', i') restricts
        the comparison to what the property talks about"""
        if not cases:
            return []
        r = H.run_cases(cases)
        out = []
        nd = 0
        for case, st, detail, m, i in r['results']:
            self.evaluations += 1
            if st == 'skip':
                self.skipped[re.sub(r'[0-9]+', 'N', detail)[:60]] += 1
                continue
            oc = outcome_class(i)
            self.dist['%s/%s/%s' % (label, case['op'], oc)] += 1
            key = (label, shape(case['src']), case['op'], oc)
            if not (trivial and trivial(case, i)):
                self.distinct.add(key)
            if st == 'diff' and project is not None:
                pm, pi = project(H.norm(m), H.norm(i))
                if pm == pi:
                    st = 'ok'
            if st == 'diff':
                nd += 1
                self.ties.append(dict(suite=label, case=case_summary(case), model=H.show(H.norm(m), 600), impl=H.show(H.norm(i), 600)))
            elif len(self.samples) < 4 or (len(self.samples) < 8 and random.Random(self.evaluations).random() < 0.002):
                self.samples.append(dict(kind='correspondence', suite=label, case=case_summary(case), outcome=H.show(H.norm(i), 200)))
            out.append((case, st, m, i))
        self.ties_checked.append('%s: %d cases, %d disagreements' % (label, len(cases), nd))
        return out

    # ---- property oracles on the implementation ----
    def check(self, kind, src, **args):
        """evaluate the property itself on the implementation; a message means it fails"""
        self.evaluations += 1
        self.oracle_runs[kind] += 1
        try:
            msg = I.with_budget(lambda: ORACLES[kind](src, **args))
        except I.Budget:
            if not self.budget_is_violation:
                self.skipped['oracle ' + kind + ': time budget (huge count over zero-width elements)'] += 1
                return None
            msg = 'does not terminate within %.1fs' % I.BUDGET_S
        except R.Unsupported:
            self.skipped['oracle ' + kind + ': unsupported'] += 1
            return None
        except Exception as e:
            msg = 'oracle raised %s: %s' % (type(e).__name__, str(e)[:200])
        self.distinct.add((kind, src, self.sig(kind, src, args), 'viol' if msg else 'holds'))
        if msg:
            sig = self.sig(kind, src, args)
            if sig not in self._seen_viol:
                self._seen_viol.add(sig)
                self.violations.append(dict(sig=sig, kind=kind, src=src, args={k: lit(v) for k, v in args.items()}, fails_as=msg))
        elif len(self.samples) < 8 and self.oracle_runs[kind] in (1, 50):
            self.samples.append(dict(kind='oracle ' + kind, src=src, args={k: lit(v)[:200] for k, v in args.items()}, outcome='holds'))
        return msg

    @staticmethod
    def sig(kind, src, args):
        blob = json.dumps([kind, src, sorted((k, lit(v)) for k, v in args.items())])
        return '%s:%s' % (kind, hashlib.sha1(blob.encode()).hexdigest()[:12])

    def result(self, rule, fragment='', partial=(), assumptions=(), exhaustive=False, trusted_extra=()):
        return dict(evaluations=self.evaluations, distinct_nontrivial=len(self.distinct), rule=rule,
                    samples=self.samples, ties_broken=self.ties, violations=self.violations,
                    distribution=dict(self.dist.most_common(60)), skipped=dict(self.skipped.most_common(20)),
                    fragment=fragment, partial=list(partial), assumptions=list(assumptions), exhaustive=exhaustive,
                    ties_checked=self.ties_checked, trusted_extra=list(trusted_extra),
                    oracle_runs=dict(self.oracle_runs))


def replay_violation(v):
    """re-evaluate one recorded violation; True = the property holds on it now"""
    args = {k: unlit(x) for k, x in v.get('args', {}).items()}
    try:
        msg = I.with_budget(lambda: ORACLES[v['kind']](v['src'], **args))
    except I.Budget:
        msg = 'does not terminate'
    except Exception as e:
        msg = 'oracle raised %s' % type(e).__name__
    if msg:
        print('  %s on %s: %s' % (v['kind'], v['src'], msg))
    return not msg


def generic_replay(payload):
    """replay file -> True when the property holds on every recorded input"""
    ok = True
    for v in payload.get('violations', []):
        ok = replay_violation(v) and ok
    for t in payload.get('ties_broken', []):
        case = case_from_summary(t['case'])
        r = H.run_cases([case])
        _, st, detail, m, i = r['results'][0]
        print('  correspondence %s: %s %s' % (t['case']['src'], st, detail[:300]))
        if st == 'diff':
            ok = False
    if payload.get('kind') == 'no-failing-input-found' and not payload.get('ties_broken'):
        print('  broken obligations: %s' % '; '.join(b[:200] for b in payload.get('broken', [])))
        ok = False
    return ok


# ---- value helpers shared by oracles ----

def veq(a, b):
    """deep equality as the properties mean it: Python == with NaN equal to NaN, lazies forced, private keys ignored"""
    if callable(a) and not isinstance(a, (dict, list)):
        a = a()
    if callable(b) and not isinstance(b, (dict, list)):
        b = b()
    if isinstance(a, float) and isinstance(b, float):
        return a == b or (a != a and b != b)
    if isinstance(a, dict) and isinstance(b, dict):
        ka = [k for k in a.keys() if not (isinstance(k, str) and k.startswith('_'))]
        kb = [k for k in b.keys() if not (isinstance(k, str) and k.startswith('_'))]
        return set(ka) == set(kb) and all(veq(a[k], b[k]) for k in ka)
    if isinstance(a, (list, tuple)) and isinstance(b, (list, tuple)):
        return len(a) == len(b) and all(veq(a[i], b[i]) for i in range(len(a)))
    try:
        return bool(a == b)
    except Exception:
        return False


def peq(a, b):
    """Python == as the property means it, with NaN-free floats"""
    try:
        return bool(a == b)
    except Exception:
        return False


def build(c, obj, **kw):
    return c.build(obj, **kw)


def is_construct_error(e):
    from construct import core
    return isinstance(e, core.ConstructError)


# ---- two-feature interactions: every wrapper class over every kind of inner construct (fixed, framed, padded, terminated,
# read-to-end, variable, context-dependent, zero-size), with a value of the domain; used by several suites ----

# (template, how the wrapped value is made from the inner value v)
PAIR_WRAPPERS = [
    ('Const({V}, {X})', lambda v: None),
    ('Padded(9, {X})', lambda v: v), ('Padded(9, {X}, pattern=b"\\xee")', lambda v: v),
    ('Aligned(4, {X})', lambda v: v), ('Aligned(3, {X}, pattern=b"\\xff")', lambda v: v),
    ('FixedSized(9, {X})', lambda v: v),
    ('Prefixed(Byte, {X})', lambda v: v), ('Prefixed(Int16ul, {X}, includelength=True)', lambda v: v), ('Prefixed(VarInt, {X})', lambda v: v),
    ('NullTerminated({X})', lambda v: v), ('NullTerminated({X}, term=b"\\xfe\\xfe", include=False)', lambda v: v),
    ('NullStripped({X})', lambda v: v),
    ('Array(2, {X})', lambda v: [v, v]), ('Array(0, {X})', lambda v: []),
    ('PrefixedArray(Byte, {X})', lambda v: [v, v]),
    ('Optional({X})', lambda v: v), ('Select({X}, Pass)', lambda v: v), ('Select(Const(b"\\x99"), {X})', lambda v: v),
    ('Default({X}, {V})', lambda v: None), ('Rebuild({X}, {V})', lambda v: None),
    ('Hex({X})', lambda v: v), ('HexDump({X})', lambda v: v),
    ('RawCopy({X})', lambda v: dict(value=v)),
    ('ByteSwapped({X})', lambda v: v), ('BitsSwapped({X})', lambda v: v), ('Bitwise(Bytewise({X}))', lambda v: v),
    ('ProcessXor(3, {X})', lambda v: v), ('ProcessXor(b"\\x01\\x02\\x03", {X})', lambda v: v), ('ProcessRotateLeft(4, 1, {X})', lambda v: v),
    ('Transformed({X}, swapbytes, 2, swapbytes, 2)', lambda v: v), ('Transformed({X}, swapbytes, 2, swapbytes, None)', lambda v: v),
    ('Transformed({X}, swapbytes, None, swapbytes, None)', lambda v: v),
    ('Restreamed({X}, swapbytes, 2, swapbytes, 2, lambda n: n)', lambda v: v),
    ('Lazy({X})', lambda v: v), ('Peek({X})', lambda v: None), ('Pointer(0, {X})', lambda v: v),
    ('IfThenElse(True, {X}, Pass)', lambda v: v), ('IfThenElse(False, Pass, {X})', lambda v: v), ('If(True, {X})', lambda v: v),
    ('Switch(1, {{1: {X}}})', lambda v: v), ('Switch(2, {{1: Pass}}, default={X})', lambda v: v),
    ('Struct("a"/{X})', lambda v: dict(a=v)), ('Struct("a"/{X}, "t"/Byte)', lambda v: dict(a=v, t=7)),
    ('Sequence({X}, Byte)', lambda v: [v, 7]), ('FocusedSeq("a", "a"/{X}, Const(b"."))', lambda v: v),
    ('Union(0, "a"/{X}, "b"/Byte)', lambda v: dict(a=v)), ('Union(None, "a"/{X})', lambda v: dict(a=v)),
    ('LazyStruct("a"/{X}, "t"/Byte)', lambda v: dict(a=v, t=7)), ('LazyArray(2, {X})', lambda v: [v, v]),
    ('GreedyRange({X})', lambda v: [v]), ('RepeatUntil(True, {X})', lambda v: [v]),
    ('OffsettedEnd(-1, {X})', lambda v: v),
    ('Mapping({X}, {{"k": {V}}})', lambda v: 'k'),
    ('OneOf({X}, [{V}])', lambda v: v), ('NoneOf({X}, [{V}])', lambda v: v),
    ('ExprValidator({X}, obj_ == {V})', lambda v: v), ('ExprAdapter({X}, obj_, obj_)', lambda v: v),
]

PAIR_INNERS = [
    ('Byte', 7), ('Int16ub', 513), ('Int24sl', -2), ('Bytes(2)', b'ab'), ('Pass', None), ('Flag', True), ('VarInt', 300),
    ('Padded(4, Bytes(2))', b'ab'), ('Aligned(4, Bytes(3), pattern=b"\\xff")', b'abc'), ('FixedSized(3, GreedyBytes)', b'abc'),
    ('Prefixed(Byte, GreedyBytes)', b'ab'), ('NullTerminated(GreedyBytes)', b'ab'), ('GreedyBytes', b'ab'),
    ('CString("utf8")', 'ab'), ('PascalString(Byte, "utf8")', 'ab'), ('PaddedString(4, "ascii")', 'ab'),
    ('Struct("x"/Byte, "y"/Bytes(this.x))', dict(x=1, y=b'z')), ('Array(2, Byte)', [1, 2]), ('GreedyRange(Byte)', [1, 2]),
    ('BitStruct("a"/Nibble, "b"/Nibble)', dict(a=1, b=2)), ('Enum(Byte, k=7)', 'k'), ('Const(b"MZ")', None), ('Bitwise(Bytes(8))', bytes([0, 1, 0, 0, 0, 0, 1, 1])),
]


# inner constructs that read to the end of their stream, and the wrappers that give them a stream of their own (or let them be
# the last thing read): anywhere else a read-to-end construct swallows what the wrapper puts behind it, by design
READ_TO_END = ('GreedyBytes', 'GreedyRange(Byte)')
DELIMITING = ('Prefixed(', 'NullTerminated(', 'Const(', 'Optional(', 'Select(', 'Default(', 'Rebuild(', 'Hex(', 'HexDump(',
              'RawCopy(', 'Lazy(', 'Peek(', 'Pointer(', 'IfThenElse(', 'If(', 'Switch(', 'Struct("a"/{X})', 'Union(', 'OneOf(', 'NoneOf(',
              'ExprValidator(', 'ExprAdapter(', 'Mapping(', 'ProcessXor(', 'ProcessRotateLeft(', 'Transformed({X}, swapbytes, None', 'BitsSwapped(',
              'Bitwise(Bytewise(', 'Checksum(', 'NullStripped(', 'OffsettedEnd(')


def constructible(src):
    """the expression evaluates to a construct (ByteSwapped / BitsSwapped of an unsizable subcon raise when the macro is called)"""
    try:
        get(src)
        return True
    except BaseException:
        return False


def pairs(selfdelimiting=False):
    """selfdelimiting=True: leave out a read-to-end inner construct under a wrapper that puts something behind it"""
    out = []
    for wt, wv in PAIR_WRAPPERS:
        for xs, xv in PAIR_INNERS:
            if selfdelimiting and wt.startswith(('Pointer(', 'Union(', 'OffsettedEnd(')):
                continue          # consume nothing / not what they built, by design
            if selfdelimiting and xs in READ_TO_END and not any(wt.startswith(d) for d in DELIMITING):
                continue
            if selfdelimiting and wt.startswith('NullTerminated('):
                try:            # the payload must not contain the terminator and must be a whole number of terminator-sized units
                    _pl = get(xs).build(xv)
                    if (b'\xfe\xfe' if 'term=' in wt else b'\x00') in _pl or ('term=' in wt and len(_pl) % 2):
                        continue
                except BaseException:
                    pass
            if selfdelimiting and wt.startswith('NullStripped('):
                try:            # the payload must not end with the pad byte
                    if get(xs).build(xv).endswith(b'\x00'):
                        continue
                except BaseException:
                    pass
            if selfdelimiting and (wt.startswith('Transformed({X}, swapbytes, 2') or wt.startswith('Restreamed({X}, swapbytes, 2')):
                try:            # the payload must be the unit the transform is declared over
                    _pl = get(xs).build(xv)
                    if (len(_pl) != 2) if wt.startswith('Transformed') else (len(_pl) % 2 != 0):
                        continue
                except BaseException:
                    pass
            if '{V}' in wt and xv is None:
                continue          # a wrapper that needs a value of the inner construct's domain
            src = wt.replace('{X}', xs).replace('{V}', repr(xv)).replace('{{', '{').replace('}}', '}')
            try:
                obj = wv(xv)
            except Exception:
                continue
            if src in ('GreedyRange(Pass)', 'GreedyRange(GreedyBytes)', 'GreedyRange(GreedyRange(Byte))'):
                continue          # zero-width repetition: known finding K5, exercised by C06
            if src == 'Hex(Flag)':
                continue          # returns HexDisplayedInteger(1) for True (a bool is an int to isinstance): equal under ==, DESIGN 0.8
            out.append((src, obj))
    return out
