"""C14: RawCopy reports the exact bytes processed; checksums built always verify."""
import io, zlib, hashlib
from . import common as C
import gen as G
import harness as H
import construct
from construct import core

INNERS = [('Byte', lambda g: g.randint(0, 255)), ('Int16ub', lambda g: g.randint(0, 65535)), ('Bytes(3)', lambda g: G.rand_bytes(g, 3)),
          ('VarInt', lambda g: g.choice([0, 1, 127, 128, 300, 2 ** 30])), ('PascalString(Byte, "ascii")', lambda g: g.choice(['', 'a', 'hello'])),
          ('Struct("a"/Byte, "b"/Bytes(this.a))', lambda g: (lambda n: dict(a=n, b=G.rand_bytes(g, n)))(g.randint(0, 4))),
          ('Prefixed(Byte, GreedyBytes)', lambda g: G.rand_bytes(g, g.randint(0, 5))), ('Array(2, Int16ul)', lambda g: [g.randint(0, 65535), g.randint(0, 65535)]),
          ('Struct("x"/Int24ub, Padding(2))', lambda g: dict(x=g.randint(0, 2 ** 24 - 1))), ('CString("utf8")', lambda g: g.choice(['', 'ab', 'xyz'])),
          ('Pass', lambda g: None), ('Const(b"MZ")', lambda g: None), ('Aligned(4, Byte)', lambda g: g.randint(0, 255)),
          ('RawCopy(Byte)', lambda g: dict(value=g.randint(0, 255))),
          # inner constructs whose value is a byte string as long as, but different from, what they consume
          ('ByteSwapped(Bytes(3))', lambda g: G.rand_bytes(g, 2) + b'\x5a'), ('BitsSwapped(Bytes(2))', lambda g: G.rand_bytes(g, 1) + b'\x01'),
          ('FixedSized(3, ProcessXor(90, GreedyBytes))', lambda g: G.rand_bytes(g, 3)), ('ProcessRotateLeft(3, 1, Bytes(2))', lambda g: G.rand_bytes(g, 1) + b'\x01'),
          ('ProcessXor(b"\\x01\\x02", Bytes(4))', lambda g: G.rand_bytes(g, 4)), ('Struct("d"/ByteSwapped(Bytes(2)))', lambda g: dict(d=b'\x01' + G.rand_bytes(g, 1)))]
WRAPS = ['%s', 'Struct("pre"/Bytes(2), "r"/%s, "post"/Byte)', 'Prefixed(Byte, Struct("k"/Byte, "r"/%s))', 'FixedSized(12, Struct("r"/%s))',
         'Struct("h"/Int16ub, "p"/Prefixed(Int8ub, Struct("q"/Byte, "r"/%s)), "t"/Byte)', 'NullTerminated(Struct("r"/%s), term=b"\\xfe\\xfe")',
         'Struct("h"/Byte, "x"/ProcessXor(0, Struct("r"/%s)))', 'Sequence(Byte, Byte, Byte, OffsettedEnd(-1, Struct("r"/%s)), Byte)',
         # two levels of delimited regions, the outer one starting behind a header
         'Struct("h"/Bytes(3), "o"/Prefixed(Byte, Struct("k"/Byte, "i"/Prefixed(Byte, Struct("j"/Byte, "r"/%s)))), "t"/Byte)',
         'Struct("h"/Bytes(5), "o"/Prefixed(Byte, Struct("i"/FixedSized(14, Struct("j"/Int16ub, "r"/%s)), "z"/GreedyBytes)))',
         'Struct("h"/Byte, "o"/FixedSized(20, Struct("k"/Bytes(2), "i"/Prefixed(VarInt, Struct("r"/%s)))), "t"/Byte)',
         'Sequence(Bytes(2), Prefixed(Byte, Sequence(Byte, OffsettedEnd(-1, Prefixed(Byte, Struct("r"/%s))), Byte)))',
         'Struct("h"/Bytes(2), "o"/NullTerminated(Struct("i"/Prefixed(Byte, Struct("r"/%s))), term=b"\\xfe\\xfe"))',
         # the terminator options: the region keeps the terminator / there is no terminator at all
         'Struct("g"/Bytes(2), "o"/NullTerminated(Struct("r"/%s, "z"/GreedyBytes), include=True), "t"/Byte)',
         'Struct("g"/Bytes(3), "o"/NullTerminated(Struct("r"/%s), require=False))',
         'Struct("g"/Byte, "o"/NullTerminated(Struct("r"/%s), consume=False), "t"/Bytes(2))']


def find_raw(v):
    """the first RawCopy result in a parsed value"""
    if isinstance(v, dict):
        if all(k in v for k in ('data', 'value', 'offset1', 'offset2', 'length')):
            return v
        for k in v:
            if not str(k).startswith('_'):
                r = find_raw(v[k])
                if r is not None:
                    return r
    if isinstance(v, list):
        for x in v:
            r = find_raw(x)
            if r is not None:
                return r
    return None


@C.oracle('rawcopy')
def o_rawcopy(src, inner, data, start):
    st = io.BytesIO(data)
    st.seek(start)
    try:
        v = C.get(src).parse_stream(st)
    except core.ConstructError:
        return None
    r = find_raw(v)
    if r is None:
        return None
    whole = data
    if 'ProcessXor' in src:
        pass
    if r['data'] != whole[r['offset1']:r['offset2']]:
        return 'data %r is not the stream slice [%d:%d] = %r' % (r['data'], r['offset1'], r['offset2'], whole[r['offset1']:r['offset2']])
    if r['length'] != r['offset2'] - r['offset1'] or r['length'] != len(r['data']):
        return 'length %r, offsets %r..%r, len(data) %d' % (r['length'], r['offset1'], r['offset2'], len(r['data']))
    ic = C.get(inner)
    try:
        alone = ic.parse(r['data'])
    except core.ConstructError as e:
        if 'Aligned' in inner or 'Tell' in inner:
            return None
        return 'parsing data alone raised %s' % type(e).__name__
    if not C.peq(alone, r['value']) and 'Aligned' not in inner and 'RawCopy' not in inner:
        return 'parsing data alone gives %r, value is %r' % (alone, r['value'])
    # the parser that compile() generates reports the same bytes and offsets
    try:
        cc = C.get(src).compile()
    except Exception:
        return None
    st = io.BytesIO(data)
    st.seek(start)
    try:
        cr = find_raw(cc.parse_stream(st))
    except Exception as e:
        return 'the compiled parser raised %s where parse returns a value' % type(e).__name__
    if cr is None or bytes(cr['data']) != bytes(r['data']) or (cr['offset1'], cr['offset2'], cr['length']) != (r['offset1'], r['offset2'], r['length']):
        return 'the compiled parser reports data %r at [%r:%r], the stream slice is %r at [%d:%d]' % (cr and cr['data'], cr and cr['offset1'], cr and cr['offset2'], r['data'], r['offset1'], r['offset2'])
    return None


@C.oracle('focused_checksum')
def o_focused_checksum(src, value):
    """the checksum idiom inside a FocusedSeq: built from the value alone, the digest covers the bytes that were written and verifies when parsed"""
    c = C.get(src)
    try:
        data = c.build(dict(value=value))
    except Exception as e:
        return 'build from the value raised %s' % type(e).__name__
    try:
        back = c.parse(data)
    except Exception as e:
        return 'what was built (%r) does not verify when parsed: %s' % (data, type(e).__name__)
    if back.value != value:
        return 'parsed back %r, built %r' % (back.value, value)
    try:
        again = c.build(dict(back))
    except Exception as e:
        return 'building the parsed result again raised %s' % type(e).__name__
    return None if again == data else 'building the parsed result again gives %r, first %r' % (again, data)


@C.oracle('rawcopy_build')
def o_rawcopy_build(src, value):
    c = C.get(src)
    try:
        b1 = c.build(dict(value=value))
    except core.ConstructError:
        return None
    b2 = c.build(dict(data=b1))
    if b1 != b2:
        return 'build from value gives %r, build from data gives %r' % (b1, b2)
    b3 = c.build(dict(data=b1, value=value))
    if b3 != b1:
        return 'build from both gives %r' % (b3,)
    p = c.parse(b1)
    if p.data != b1 or p.offset1 != 0 or p.offset2 != len(b1):
        return 'parse of built bytes reports %r' % (p,)
    st = io.BytesIO()
    st.write(b'\x00' * 5)
    r = c.build_stream(dict(value=value), st)
    return None


def find_raws(v, out):
    """every RawCopy result in a value, outermost first, in member order"""
    if isinstance(v, dict):
        if all(k in v for k in ('data', 'value', 'offset1', 'offset2', 'length')):
            out.append(v)
            find_raws(v['value'], out)
            return out
        for k in v:
            if not str(k).startswith('_'):
                find_raws(v[k], out)
    elif isinstance(v, list):
        for x in v:
            find_raws(x, out)
    return out


@C.oracle('rawcopy_build_at')
def o_rawcopy_build_at(src, obj, start):
    """building at a non-zero stream offset, RawCopy nested in RawCopy: what build reports is what it wrote, where it wrote it,
    and what parsing the written bytes reports"""
    c = C.get(src)
    st = io.BytesIO()
    st.write(b'\xee' * start)
    ctx = construct.Container()
    ctx._parsing, ctx._building, ctx._sizing, ctx._params = False, True, False, ctx
    try:
        r = c._build(obj, st, ctx, '(building)')
    except core.ConstructError as e:
        return 'build raised %s' % type(e).__name__
    out = st.getvalue()
    built = find_raws(r, [])
    if not built:
        return 'no RawCopy result in what build returned'
    for b in built:
        if b['data'] != out[b['offset1']:b['offset2']] or b['length'] != b['offset2'] - b['offset1']:
            return 'build reports data %r at %d..%d, the stream holds %r there' % (b['data'], b['offset1'], b['offset2'], out[b['offset1']:b['offset2']])
    st.seek(start)
    p = find_raws(c.parse_stream(st), [])
    got = [(x['offset1'], x['offset2'], x['data']) for x in built]
    want = [(x['offset1'], x['offset2'], x['data']) for x in p]
    if got != want:
        return 'build reports %r, parsing the bytes it wrote reports %r' % (got, want)
    if c.build(obj) != out[start:]:
        return 'build() gives %r, building into a stream at offset %d gives %r' % (c.build(obj), start, out[start:])
    return None


BUILD_AT = [
    ('Struct("pre"/Bytes(2), "r"/RawCopy(Struct("a"/Byte, "n"/RawCopy(Int16ub), "t"/Tell)), "post"/Byte)',
     dict(pre=b'ab', r=dict(value=dict(a=1, n=dict(value=513))), post=7)),
    ('Sequence(Byte, RawCopy(Sequence(Byte, RawCopy(Bytes(2)))))', [5, dict(value=[6, dict(value=b'xy')])]),
    ('RawCopy(RawCopy(RawCopy(Byte)))', dict(value=dict(value=dict(value=9)))),
    ('Struct("h"/Byte, "r"/RawCopy(Struct("n"/RawCopy(Byte), "m"/RawCopy(VarInt), "k"/RawCopy(PascalString(Byte, "ascii")))))',
     dict(h=1, r=dict(value=dict(n=dict(value=3), m=dict(value=300), k=dict(value='hey'))))),
    ('Struct("a"/Array(2, RawCopy(Struct("x"/Byte, "y"/RawCopy(Byte)))))', dict(a=[dict(value=dict(x=1, y=dict(value=2))), dict(value=dict(x=3, y=dict(value=4)))])),
    ('Struct("r"/RawCopy(Struct("p"/Padded(3, RawCopy(Byte)), "q"/Aligned(2, RawCopy(Byte)))))', dict(r=dict(value=dict(p=dict(value=1), q=dict(value=2))))),
]


def crc32(d):
    return zlib.crc32(d) & 0xffffffff


def md5(d):
    return hashlib.md5(d).digest()


def sha64(d):
    return int.from_bytes(hashlib.sha256(d).digest()[:8], 'big')


def sha96l(d):
    return int.from_bytes(hashlib.sha256(d).digest()[:12], 'big')


def md5hex(d):
    return hashlib.md5(d).hexdigest()


def crc32hex(d):
    return '%08x' % (zlib.crc32(d) & 0xffffffff)


HASHES = {'md5hex': ('PaddedString(32, "ascii")', 'md5hex'), 'crc32hex': ('PaddedString(8, "ascii")', 'crc32hex'), 'sha64': ('Int64ub', 'sha64'), 'sha96l': ('BytesInteger(12, swapped=True)', 'sha96l'), 'sum8': ('Byte', 'sum8'), 'xor8': ('Byte', 'xor8'), 'crc32': ('Int32ub', 'crc32'), 'md5': ('Bytes(16)', 'md5'), 'crc32l': ('Int32ul', 'crc32')}


def cks_src(body, h):
    field, fn = HASHES[h]
    return 'Struct("hdr"/Byte, "body"/RawCopy(%s), "cks"/Checksum(%s, %s, this.body.data), "tail"/Byte)' % (body, field, fn)


@C.oracle('checksum')
def o_checksum(src, value, fixed_layout, stale):
    c = C.get(src)
    obj = dict(hdr=7, body=dict(value=value), tail=9)
    try:
        data = c.build(obj)
    except core.ConstructError:
        return None
    try:
        p = c.parse(data)
    except core.ChecksumError:
        return 'the checksum that build wrote does not verify'
    except core.ConstructError as e:
        return 'parsing what build emitted raised %s' % type(e).__name__
    # rebuilding a parsed container (it carries the old digest) and one with a stale digest
    for o2 in (p, dict(hdr=7, body=dict(value=value), cks=stale, tail=9)):
        try:
            d2 = c.build(o2)
            c.parse(d2)
        except core.ChecksumError:
            return 'a container carrying a digest entry builds bytes whose checksum does not verify'
        except core.ConstructError:
            pass
    o1, o2 = p.body.offset1, p.body.offset2
    dlen = len(data) - 1 - o2
    for i in list(range(o1, o2)) + list(range(o2, o2 + dlen)):
        for k in range(8):
            bad = bytearray(data)
            bad[i] ^= 1 << k
            try:
                q = c.parse(bytes(bad))
            except core.ChecksumError:
                continue
            except core.StringError:
                if 'String(' in src:
                    continue                      # a text digest that no longer decodes: rejected before it can be compared
                return 'bit %d of byte %d flipped: StringError instead of ChecksumError' % (k, i)
            except core.ConstructError as e:
                if fixed_layout:
                    return 'bit %d of byte %d flipped: %s instead of ChecksumError' % (k, i, type(e).__name__)
                continue
            # the flip may have changed the layout (a length prefix inside the covered region): then another region is covered and the
            # digest is read from another place; what must hold is that the accepted digest is the hash of what is covered now
            hf = H.namespace()['sum8'] if 'sum8' in src else H.namespace()['xor8']
            if (q.body.offset1, q.body.offset2) != (o1, o2) and hf(q.body.data) == q.cks:
                continue
            return 'bit %d of byte %d (covered region %d..%d, digest after) flipped and parse accepted the input' % (k, i, o1, o2)
    return None


def run(tier, seed):
    acc = C.Acc('C14', tier, seed)
    rng = C.rng_for(seed, 'C14')
    ns = H.namespace()
    import reify as R
    ns.update(crc32=crc32, md5=md5, sha64=sha64, sha96l=sha96l, md5hex=md5hex, crc32hex=crc32hex)
    cases, checks = [], []
    reps = 3 if tier == 'quick' else 25
    for inner, gv in INNERS:
        rc = 'RawCopy(%s)' % inner
        for _ in range(reps):
            v = gv(rng)
            checks.append(('rawcopy_build', rc, dict(value=v)))
            cases.append(dict(src=rc, op='build', obj=dict(value=v)))
            try:
                enc = C.get(inner).build(v)
            except Exception:
                continue
            cases.append(dict(src=rc, op='build', obj=dict(data=enc)))
            for w in WRAPS:
                src = w % rc
                # craft an input for the wrapper around the canonical encoding
                if w == '%s':
                    datas = [enc, enc + b'\x01\x02']
                elif 'include=True' in w:
                    datas = [b'GG' + enc + b'\x00\x07'] if b'\x00' not in enc else []
                elif 'require=False' in w:
                    datas = [b'GGG' + enc, b'GGG' + enc + b'\x00\x05'] if b'\x00' not in enc else []
                elif 'consume=False' in w:
                    datas = [b'G' + enc + b'\x00\x05'] if b'\x00' not in enc else []
                elif w.startswith('Struct("pre"'):
                    datas = [b'\xaa\xbb' + enc + b'\x05']
                elif w.startswith('Prefixed(Byte, Struct("k"'):
                    datas = [bytes([len(enc) + 1, 9]) + enc + b'\x00']
                elif w.startswith('FixedSized'):
                    datas = [(enc + bytes(12))[:12] + b'\x01'] if len(enc) <= 12 else []
                elif w.startswith('Struct("h"/Int16ub'):
                    datas = [b'\x00\x01' + bytes([len(enc) + 1, 3]) + enc + b'\x09']
                elif w.startswith('NullTerminated'):
                    datas = [enc + b'\xfe\xfe\x01'] if len(enc) % 2 == 0 and b'\xfe\xfe' not in enc else []
                elif w.startswith('Struct("h"/Byte, "x"'):
                    datas = [b'\x01' + enc]
                elif w.startswith('Struct("h"/Bytes(3), "o"/Prefixed'):
                    datas = [b'HHH' + bytes([len(enc) + 3, 9, len(enc) + 1, 5]) + enc + b'\x77'] if len(enc) < 250 else []
                elif w.startswith('Struct("h"/Bytes(5), "o"/Prefixed'):
                    datas = [b'HHHHH' + bytes([16]) + (b'\x00\x01' + enc + bytes(14))[:14] + b'zz'] if len(enc) <= 12 else []
                elif w.startswith('Struct("h"/Byte, "o"/FixedSized(20'):
                    datas = [b'H' + (b'kk' + bytes([len(enc)]) + enc + bytes(20))[:20] + b'\x07'] if len(enc) <= 17 else []
                elif w.startswith('Sequence(Bytes(2), Prefixed'):
                    datas = [b'HH' + bytes([len(enc) + 3, 1, len(enc)]) + enc + b'\x09'] if len(enc) < 250 else []
                elif w.startswith('Struct("h"/Bytes(2), "o"/NullTerminated'):
                    datas = [b'HH' + bytes([len(enc)]) + enc + b'\xfe\xfe'] if len(enc) % 2 == 1 and b'\xfe' not in enc and len(enc) != 254 else []
                else:
                    datas = [b'\x01\x02\x03' + enc + b'\x07\x08']
                for d in datas:
                    for start in (0, 2):
                        dd = b'\xee' * start + d
                        cases.append(dict(src=src, op='parse', data=dd, start=start))
                        checks.append(('rawcopy', src, dict(inner=inner, data=dd, start=start)))
    for src, obj in BUILD_AT:
        for start in (0, 1, 5):
            checks.append(('rawcopy_build_at', src, dict(obj=obj, start=start)))
        cases.append(dict(src=src, op='build', obj=obj))
    fixed_bodies = [('Bytes(0)', lambda g: b'', True), ('Array(0, Byte)', lambda g: [], True), ('Pass', lambda g: None, True),
                    ('Bytes(3)', lambda g: G.rand_bytes(g, 3), True), ('Int16ub', lambda g: g.randint(0, 65535), True),
                    ('Struct("a"/Byte, "b"/Int16ul)', lambda g: dict(a=g.randint(0, 255), b=g.randint(0, 65535)), True),
                    ('Array(2, Bytes(2))', lambda g: [G.rand_bytes(g, 2), G.rand_bytes(g, 2)], True),
                    ('PascalString(Byte, "ascii")', lambda g: g.choice(['a', 'hello']), False),
                    ('Prefixed(Byte, GreedyBytes)', lambda g: G.rand_bytes(g, g.randint(1, 4)), False), ('VarInt', lambda g: g.choice([1, 300, 70000]), False)]
    stale = dict(sum8=1, xor8=1, crc32=12345, crc32l=12345, md5=bytes(16), sha64=12345, sha96l=12345, md5hex='0' * 32, crc32hex='0' * 8)
    for body, gv, fixed in fixed_bodies:
        for h in (['sum8', 'xor8', 'crc32', 'md5', 'crc32l', 'sha64', 'sha96l', 'md5hex', 'crc32hex'] if tier == 'thorough' else ['sum8', 'crc32', 'md5', 'xor8', 'sha64', 'sha96l', 'md5hex', 'crc32hex']):
            src = cks_src(body, h)
            for _ in range(2 if tier == 'quick' else 10):
                v = gv(rng)
                checks.append(('checksum', src, dict(value=v, fixed_layout=fixed, stale=stale[h])))
                if h in ('sum8', 'xor8'):
                    obj = dict(hdr=7, body=dict(value=v), tail=9)
                    cases.append(dict(src=src, op='build', obj=obj))
                    try:
                        d = C.get(src).build(obj)
                        cases.append(dict(src=src, op='parse', data=d))
                        for i in range(len(d)):
                            bad = bytearray(d)
                            bad[i] ^= 1 << rng.randrange(8)
                            cases.append(dict(src=src, op='parse', data=bytes(bad)))
                    except Exception:
                        pass
    for fsrc, fvals in [('FocusedSeq("payload", "payload"/RawCopy(Bytes(2)), "crc"/Checksum(Byte, sum8, this.payload.data))', [b'ab', b'\x00\xff']),
                        ('FocusedSeq("payload", "hdr"/Const(b"H"), "payload"/RawCopy(Int16ub), "crc"/Checksum(Int32ub, crc32, this.payload.data))', [513, 0]),
                        ('Struct("k"/Byte, "f"/FocusedSeq("payload", "payload"/RawCopy(PascalString(Byte, "ascii")), "crc"/Checksum(Byte, xor8, this.payload.data)))', None)]:
        if fvals is None:
            continue
        for fv in fvals:
            checks.append(('focused_checksum', fsrc, dict(value=fv)))
    acc.corr(cases, 'rawcopy')
    for kind, src, args in checks:
        acc.check(kind, src, **args)
    return acc.result(
        rule='RawCopy around 14 inner constructs (fixed, variable, nested, RawCopy in RawCopy) at top level and inside Struct / Prefixed / '
             'FixedSized / nested Prefixed / NullTerminated / ProcessXor / OffsettedEnd, at stream offsets 0 and 2; build from value vs data; '
             'nested RawCopy built from value at stream offsets 0/1/5 (reported offsets and data vs the bytes written vs what parsing reports); '
             'Checksum structs over 10 bodies (three with an EMPTY covered region) x sum8/xor8/crc32/md5 digests in Byte/Int32ub/Int32ul/Bytes(16) fields: build-parse, rebuild of the '
             'parsed container and of a container with a stale digest, and EVERY single-bit corruption of the covered region and digest. '
             'distinct = (shape, outcome)',
        fragment='theorems hold for every inner construct',
        partial=['hash sensitivity (a flipped covered bit changes sum8/xor8/crc32) is checked by the exhaustive single-bit sweep, not proved',
                 'data = stream slice is stated relative to the re-read (needs the frame lemma to name the original buffer)'],
        assumptions=['zlib.crc32 / hashlib.md5 are oracles outside the model (sum8, xor8 are in the model)'])


def replay(payload):
    ns = H.namespace()
    ns.update(crc32=crc32, md5=md5, sha64=sha64, sha96l=sha96l, md5hex=md5hex, crc32hex=crc32hex)
    return C.generic_replay(payload)
