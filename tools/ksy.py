"""KSY export as data, and a reference reading of the schema dialect export_ksy() emits.

export(c)            -> the dictionary export_ksy() hands to the YAML dumper (ruamel.yaml is replaced by tools/stubs)
interpret(schema, data, kw) -> [(id, start, end, value)] for the top-level sequence, values of user types are
                        nested lists of the same shape; raises KsyError when the schema cannot be read
layout(c, data, kw)  -> the same shape obtained from the construct itself (parse of an instrumented copy)

The reading follows the Kaitai Struct meaning of each key (seq order, type, size, size-eos, contents, repeat /
repeat-expr / repeat-until, if, terminator / include / consume / eos-error, pad-right, encoding, enums, types,
instances with pos) with the spellings construct emits (u3be, f2le, bN most-significant-bit first, vlq_base128_le,
enum names as types, expression objects or their repr as expressions).
"""
import io, os, struct, sys

HERE = os.path.dirname(os.path.abspath(__file__))
STUBS = os.path.join(HERE, 'stubs')


class KsyError(Exception):
    pass


class Contents(bytes):
    """the bytes of a `contents` field: the region is described by its bytes, whatever value the construct gives it"""


def export(c, name='schema'):
    if STUBS not in sys.path:
        sys.path.insert(0, STUBS)
    import ruamel.yaml as ry
    del ry.LAST[:]
    c.export_ksy(name)
    return ry.LAST[-1]


class _S:
    """byte stream with a bit cursor (bN fields are read most significant bit first and packed)"""

    def __init__(self, data, base=0):
        self.data, self.pos, self.bit, self.base = data, 0, 0, base

    def align(self):
        if self.bit:
            self.pos += 1
            self.bit = 0

    def read(self, n):
        self.align()
        if n < 0 or self.pos + n > len(self.data):
            raise KsyError('end of stream')
        d = self.data[self.pos:self.pos + n]
        self.pos += n
        return d

    def read_all(self):
        self.align()
        d = self.data[self.pos:]
        self.pos = len(self.data)
        return d

    def bits(self, n):
        v = 0
        for _ in range(n):
            if self.pos >= len(self.data):
                raise KsyError('end of stream')
            v = (v << 1) | ((self.data[self.pos] >> (7 - self.bit)) & 1)
            self.bit += 1
            if self.bit == 8:
                self.bit = 0
                self.pos += 1
        return v

    def tell(self):
        return self.base + self.pos

    def eof(self):
        return self.pos >= len(self.data) and self.bit == 0


def _expr(e, fields, parents, elem=None):
    """an expression of the schema: int, field name, expression object, or the repr text construct writes"""
    if isinstance(e, bool) or isinstance(e, int):
        return e
    if callable(e):
        return e(_Ctx(fields, parents))
    if isinstance(e, str):
        if e in fields:
            return fields[e]
        try:
            return int(e)
        except ValueError:
            pass
        env = dict(this=_Ctx(fields, parents), _=elem, len_=len, sum_=sum, min_=min, max_=max, abs_=abs)
        env.update(fields)
        try:
            return eval(e, {'__builtins__': {}}, env)
        except Exception as ex:
            raise KsyError('expression %r: %s' % (e, type(ex).__name__))
    raise KsyError('expression %r' % (e,))


class _Ctx(dict):
    def __init__(self, fields, parents):
        dict.__init__(self, fields)
        if parents:
            self['_'] = _Ctx(parents[-1], parents[:-1])

    __getattr__ = dict.__getitem__


import re
_INT = re.compile(r'^([us])(\d+)(le|be)?$')
_FLT = re.compile(r'^f(\d+)(le|be)$')
_BIT = re.compile(r'^b(\d+)$')


def _prim(schema, t, s, fields, parents):
    if isinstance(t, dict):
        if 'switch-on' not in t:
            raise KsyError('type %r' % (t,))
        k = _expr(t['switch-on'], fields, parents)
        cases = t.get('cases', {})
        hit = [v for kk, v in cases.items() if (kk == k and type(kk) is type(k)) or (isinstance(kk, bool) and kk == bool(k))]
        if not hit:
            if '_' in cases:
                hit = [cases['_']]
            else:
                raise KsyError('no case for %r' % (k,))
        return _prim(schema, hit[0], s, fields, parents)
    m = _INT.match(t)
    if m:
        n = int(m.group(2))
        d = s.read(n)
        return int.from_bytes(d, 'little' if m.group(3) == 'le' else 'big', signed=m.group(1) == 's')
    m = _FLT.match(t)
    if m:
        n = int(m.group(1))
        d = s.read(n)
        return struct.unpack(('<' if m.group(2) == 'le' else '>') + {2: 'e', 4: 'f', 8: 'd'}[n], d)[0]
    m = _BIT.match(t)
    if m:
        return s.bits(int(m.group(1)))
    if t == 'vlq_base128_le':
        v, sh = 0, 0
        while True:
            b = s.read(1)[0]
            v |= (b & 0x7f) << sh
            sh += 7
            if not b & 0x80:
                return v
    if t in schema.get('enums', {}):
        raise KsyError('enum %s used as a type: the width of the field is not in the schema' % t)
    if t in schema.get('types', {}):
        return _seq(schema, schema['types'][t]['seq'], s, parents + [fields])
    if t in schema.get('instances', {}):
        inst = dict(schema['instances'][t])
        pos = _expr(inst.pop('pos'), fields, parents)
        s.align()
        root = s
        sub = _S(root.data, root.base)
        sub.pos = pos if pos >= 0 else len(root.data) + pos
        return _one(schema, inst, sub, fields, parents)
    raise KsyError('type %r' % (t,))


def _one(schema, f, s, fields, parents):
    """one occurrence of a field (no repeat / if handling)"""
    enc = f.get('encoding')
    t = f.get('type')
    if 'contents' in f:
        want = bytes(f['contents'])
        d = s.read(len(want))
        if d != want:
            raise KsyError('contents mismatch')
        return Contents(d)
    sized = 'size' in f or f.get('size-eos') or 'terminator' in f or t in ('str', 'strz')
    if sized:
        term = f.get('terminator', 0 if t == 'strz' else None)
        if 'size' in f:
            raw = s.read(_expr(f['size'], fields, parents))
        elif f.get('size-eos'):
            raw = s.read_all()
        else:
            # terminated, no size: up to and (by default) consuming the terminator
            s.align()
            unit = 1
            if enc and t in ('str', 'strz'):
                unit = {'utf16': 2, 'utf_16': 2, 'utf_16_le': 2, 'utf_16_be': 2, 'u16': 2, 'utf-16': 2,
                        'utf32': 4, 'utf_32': 4, 'utf_32_le': 4, 'utf_32_be': 4, 'u32': 4, 'utf-32': 4}.get(enc.lower(), 1)
            acc = b''
            tb = bytes([term]) * unit
            while True:
                if s.pos + unit > len(s.data):
                    if f.get('eos-error', True):
                        raise KsyError('terminator not found')
                    acc += s.read_all()
                    break
                u = s.read(unit)
                if u == tb:
                    if f.get('include'):
                        acc += u
                    if not f.get('consume', True):
                        s.pos -= unit
                    break
                acc += u
            raw = acc
            term = None
        if term is not None and ('size' in f or f.get('size-eos')):
            i = raw.find(bytes([term]))
            if i >= 0:
                raw = raw[:i + (1 if f.get('include') else 0)]
        if 'pad-right' in f:
            raw = raw.rstrip(bytes([f['pad-right']]))
        if t in ('str', 'strz'):
            if t == 'strz' and ('size' in f or f.get('size-eos')):
                # strz inside a sized region: cut at the first terminator unit
                unit = len('a'.encode(enc)) if enc and not enc.lower().startswith(('utf16', 'utf_16', 'utf32', 'utf_32', 'u16', 'u32', 'utf-16', 'utf-32')) else \
                    (2 if '16' in enc else 4)
                k = 0
                while k + unit <= len(raw) and raw[k:k + unit] != b'\x00' * unit:
                    k += unit
                raw = raw[:k]
            try:
                return raw.decode(enc)
            except Exception:
                raise KsyError('decode')
        if t is None:
            return raw
        sub = _S(raw, s.tell() - len(raw) if 'size' in f else s.tell() - len(raw))
        v = _prim(schema, t, sub, fields, parents)
        return v
    if t is None:
        raise KsyError('field without type or size: %r' % (f,))
    return _prim(schema, t, s, fields, parents)


def _field(schema, f, s, fields, parents):
    if 'if' in f and not _expr(f['if'], fields, parents):
        return None
    rep = f.get('repeat')
    if rep is None:
        v = _one(schema, f, s, fields, parents)
    elif rep == 'expr':
        n = _expr(f['repeat-expr'], fields, parents)
        v = [_one(schema, f, s, fields, parents) for _ in range(n)]
    elif rep == 'eos':
        v = []
        while not s.eof():
            v.append(_one(schema, f, s, fields, parents))
    elif rep == 'until':
        v = []
        while True:
            x = _one(schema, f, s, fields, parents)
            v.append(x)
            if _expr(f['repeat-until'], fields, parents, elem=x):
                break
    else:
        raise KsyError('repeat %r' % (rep,))
    if f.get('-construct-render') == 'Flag':
        v = bool(v)
    if 'enum' in f:
        table = schema.get('enums', {}).get(f['enum'])
        if table is None:
            raise KsyError('enum %r is not defined' % (f['enum'],))
        def label(x):
            if isinstance(x, int) and not isinstance(x, bool) and x in table:
                import construct
                return construct.core.EnumIntegerString.new(x, table[x])
            return x
        v = [label(x) for x in v] if isinstance(v, list) else label(v)
    return v


def _seq(schema, seq, s, parents):
    if len(parents) > 40:
        raise KsyError('types nest without end')
    out, fields = [], {}
    for f in seq:
        if not (isinstance(f.get('type'), str) and _BIT.match(f.get('type'))):
            s.align()
        start = s.tell()
        isinst = isinstance(f.get('type'), str) and f.get('type') in schema.get('instances', {})
        v = _field(schema, f, s, fields, parents)
        if not (isinstance(f.get('type'), str) and _BIT.match(f.get('type'))):
            s.align()
        end = s.tell()
        fid = f.get('id')
        if fid is not None:
            fields[fid] = v if not isinstance(v, list) or not v or not isinstance(v[0], tuple) else {a: d for a, b, c, d in v if a}
        out.append((fid, start, start if isinst else end, v))
    return out


def interpret(schema, data, kw=None):
    s = _S(data)
    return _seq(schema, schema['seq'], s, [dict(kw or {})])


# ---- the construct's own layout: parse of an instrumented copy ----

def layout(c, data, kw=None):
    """[(id, start, end, value)] for the members of a Struct (nested Structs give nested lists), from the construct
    itself: every member of a copy is wrapped in a probe that records the stream position before and after it"""
    import construct
    from construct import core

    class Probe(core.Subconstruct):
        def __init__(self, subcon, sink, key):
            super().__init__(subcon)
            self.sink, self.key = sink, key

        def _parse(self, stream, context, path):
            a = core.stream_tell(stream, path)
            v = self.subcon._parsereport(stream, context, path)
            b = core.stream_tell(stream, path)
            self.sink.setdefault(self.key, []).append((a, b))
            return v

    sink = {}
    counter = [0]

    def strip(sc):
        names = []
        while isinstance(sc, core.Renamed):
            if sc.name:
                names.append(sc.name)
            sc = sc.subcon
        return (names[0] if names else None), sc

    shapes = {}

    def instr(c):
        """-> (instrumented construct, shape) ; shape: list of (name, key, subshape or None)"""
        if type(c) is core.Struct:
            members, shape = [], []
            for sc in c.subcons:
                name, inner = strip(sc)
                sub, subshape = instr(inner)
                counter[0] += 1
                key = counter[0]
                p = Probe(sub, sink, key)
                members.append(core.Renamed(p, newname=name) if name else p)
                shape.append((name, key, subshape))
            return core.Struct(*members), shape
        return c, None

    name, inner = strip(c)
    ic, shape = instr(inner)
    if shape is None:
        counter[0] += 1
        key = counter[0]
        ic = Probe(inner, sink, key)
        shape = [('x', key, None)]
        v = ic.parse(data, **(kw or {}))
        a, b = sink[key][0]
        return [('x', a, b, v)]
    v = ic.parse(data, **(kw or {}))

    def collect(shape, v, occ):
        out = []
        for name, key, sub in shape:
            spans = sink.get(key, [])
            if occ >= len(spans):
                continue                  # not reached (StopIf)
            a, b = spans[occ]
            val = v.get(name) if name else None
            if sub is not None and name:
                out.append((name, a, b, collect(sub, val, occ)))
            else:
                out.append((name, a, b, val))
        return out
    return collect(shape, v, 0)


def norm(v):
    """values as the comparison sees them"""
    import math
    if isinstance(v, list) and v and isinstance(v[0], tuple) and len(v[0]) == 4:
        return {a: norm(d) for a, b, c, d in v if a is not None and not str(a).startswith('unknown_')}
    if isinstance(v, dict):
        return {k: norm(x) for k, x in v.items() if not (isinstance(k, str) and k.startswith('_'))}
    if isinstance(v, (list, tuple)):
        return [norm(x) for x in v]
    if isinstance(v, bool):
        return v
    if isinstance(v, float):
        return 'nan' if math.isnan(v) else v
    if isinstance(v, int):
        return int(v)
    if isinstance(v, str):
        return str(v)
    if isinstance(v, Contents):
        return v
    if isinstance(v, (bytes, bytearray)):
        return bytes(v)
    return v


def same_value(k, c):
    """schema-side value k against construct-side value c (both normalised)"""
    if isinstance(k, Contents):
        return True                  # a constant region: its bytes were checked when the schema was read
    if k == c and type(k) is type(c):
        return True
    if isinstance(k, bytes) and c is None:
        return True                  # an untyped region the construct gives no value (Padding)
    if isinstance(k, dict):
        # helper types of the exporter: length / count prefixes and the one-member wrapper of the fallback ladder
        if 'data' in k and set(k) <= {'lengthfield', 'countfield', 'data'} and not (isinstance(c, dict) and set(c) == set(k)):
            return same_value(k['data'], c)
        if set(k) == {'x'} and not (isinstance(c, dict) and set(c) == {'x'}):
            return same_value(k['x'], c)
        if isinstance(c, dict):
            return set(k) == set(c) and all(same_value(k[x], c[x]) for x in k)
        return False
    if isinstance(k, list) and isinstance(c, list):
        return len(k) == len(c) and all(same_value(a, b) for a, b in zip(k, c))
    if isinstance(k, bool) or isinstance(c, bool):
        return isinstance(k, (bool, int)) and isinstance(c, (bool, int)) and bool(k) == bool(c) and (isinstance(k, bool) and isinstance(c, bool) or int(k) == int(c))
    return k == c


# ---- the schema dictionary as a term of the model (model/Ksy.v: kschema) ----

def schema_term(schema):
    """-> ('KSchema', seq, types, enums) or raises reify.Unsupported"""
    import reify as R
    import construct
    from construct import this, obj_, len_, sum_, min_, max_, abs_, list_
    if schema.get('instances'):
        raise R.Unsupported('instances (Pointer) are outside the model of the exporter')
    ids_in_scope = set()

    def expr_of(x, until=False):
        if isinstance(x, str):
            env = dict(this=this, len_=len_, sum_=sum_, min_=min_, max_=max_, abs_=abs_, list_=list_)
            if until:
                env['_'] = obj_
            try:
                x = eval(x, {'__builtins__': {}}, env)
            except Exception as e:
                raise R.Unsupported('expression text %r' % (x,))
        return R.reify_operand(x)

    def size_of(x):
        if isinstance(x, bool):
            raise R.Unsupported('bool size')
        if isinstance(x, int):
            return ('KSInt', x)
        if isinstance(x, str):
            try:
                return ('KSInt', int(x))
            except ValueError:
                pass
            if x in ('lengthfield', 'countfield'):
                return ('KSName', x.encode())
        e = expr_of(x)
        if e[0] == 'XConst' and e[1][0] == 'VInt':
            return ('KSInt', e[1][1])
        return ('KSExpr', e)

    def type_of(t):
        if t is None:
            return ('KTMissing',)
        if isinstance(t, dict):
            if set(t) != {'switch-on', 'cases'} or set(t['cases']) != {True, False}:
                raise R.Unsupported('switch type')
            return ('KTSwitch', expr_of(t['switch-on']), type_of(t['cases'][True]), type_of(t['cases'][False]))
        m = _INT.match(t)
        if m:
            return ('KTPrim', ('KPInt', m.group(1) == 's', int(m.group(2)), m.group(3) == 'le'))
        m = _FLT.match(t)
        if m:
            return ('KTPrim', ('KPFloat', int(m.group(1)), m.group(2) == 'le'))
        m = _BIT.match(t)
        if m:
            return ('KTPrim', ('KPBits', int(m.group(1))))
        if t == 'vlq_base128_le':
            return ('KTPrim', ('KPVlq',))
        if t == 'str':
            return ('KTStr',)
        if t == 'strz':
            return ('KTStrz',)
        if t in schema.get('types', {}):
            return ('KTUser', t.encode())
        raise R.Unsupported('type %r' % (t,))

    known = {'id', 'type', 'size', 'size-eos', 'contents', 'repeat', 'repeat-expr', 'repeat-until', 'if', 'terminator', 'include',
             'consume', 'eos-error', 'pad-right', 'encoding', 'enum', '-construct-render', 'doc'}

    def field_of(f):
        if set(f) - known:
            raise R.Unsupported('field keys %r' % sorted(set(f) - known))
        fid = f['id'].encode() if f.get('id') is not None else None
        ty = type_of(f['type']) if 'type' in f else None
        size = size_of(f['size']) if 'size' in f else None
        rep = ('KRNone',)
        if f.get('repeat') == 'expr':
            rep = ('KRExpr', size_of(f['repeat-expr']))
        elif f.get('repeat') == 'eos':
            rep = ('KREos',)
        elif f.get('repeat') == 'until':
            rep = ('KRUntil', expr_of(f['repeat-until'], until=True))
        elif 'repeat' in f:
            raise R.Unsupported('repeat')
        term = None
        if 'terminator' in f:
            term = (f['terminator'], (bool(f.get('include')), (bool(f.get('consume', True)), bool(f.get('eos-error', True)))))
        enc = None
        if 'encoding' in f:
            e = str(f['encoding']).lower().replace('-', '_')
            if e not in R.ENCODINGS:
                raise R.Unsupported('encoding %r' % (f['encoding'],))
            enc = (R.ENCODINGS[e],)
        some = lambda x: None if x is None else ('Some', x)
        return ('KField', some(fid), some(ty), some(size), bool(f.get('size-eos')), some(bytes(f['contents']) if 'contents' in f else None), rep,
                some(expr_of(f['if']) if 'if' in f else None), some(term), some(f.get('pad-right')), some(enc),
                some(f['enum'].encode() if 'enum' in f else None), f.get('-construct-render') == 'Flag')
    seq = [field_of(f) for f in schema['seq']]
    types = [(k.encode(), [field_of(f) for f in v['seq']]) for k, v in schema.get('types', {}).items()]
    enums = [(k.encode(), [(int(a), str(b).encode()) for a, b in v.items()]) for k, v in schema.get('enums', {}).items()]
    return ('KSchema', seq, types, enums)


def norm_schema_term(t):
    """enum tables as sets (dictionary order is not part of the description)"""
    if t is None:
        return None
    return ('KSchema', t[1], t[2], [(k, sorted(v)) for k, v in t[3]])


def fields_term(recs):
    """[(id, start, end, value)] -> the model's list of fieldrec; nested user-type values become dictionaries of their named fields"""
    import reify as R
    def val_of(v):
        if isinstance(v, Contents):
            return ('VBytes', bytes(v))
        if isinstance(v, list) and v and isinstance(v[0], tuple) and len(v[0]) == 4:
            return ('VDict', [(a.encode(), val_of(d)) for a, b, c, d in v if a is not None])
        if isinstance(v, list):
            return ('VList', [val_of(x) for x in v])
        return R.to_val(v)
    return [(((('Some', i.encode()) if i is not None else None, a), b), val_of(v)) for i, a, b, v in recs]
