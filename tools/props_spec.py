# pid -> dict(title, theorems=[(proofs file, theorem name, comment)], examples=coq text)
PROPS = {}

PROPS['C05'] = dict(
    requires=['ConInd', 'RTFacts'],
    title='C05 - sizeof is exact when it answers and fails only with SizeofError',
    theorems=[
        ('SizeExact', 'build_size_exact', 'For EVERY construct of the closed sequential fragment (frag: FormatField, BytesInteger, Bytes, Pass, Const, Renamed, Struct, Sequence, Array, Prefixed, Padded, Aligned, FixedSized; any depth): when sizeof answers n - under any context - every successful build advances the output stream by exactly n.'),
        ('SizeExact', 'C05_exact_closed', 'On the public entry points: sizeof = number of bytes built = number of bytes consumed when those bytes are parsed back followed by arbitrary trailing data.'),
        ('SizeofFacts', 'sizeof_nokey', 'For EVERY construct of the model, every context and path: sizeof never reports a missing key as KeyError / AttributeError.'),
    ],
    examples='''
Example C05_ex_missing_key :
  sizeof (CIfThenElse (XItem (XRoot RThis) (KName [x78])) (CFormat Big FB) (CFormat Big FH)) (top_ctx [] MSize) [] = Err ESizeof (Some []) /\\
  sizeof (CFixedSized (XItem (XRoot RThis) (KName [x6e])) CGreedyBytes) (top_ctx [] MSize) [] = Err ESizeof (Some []) /\\
  sizeof (CStruct [CRenamed [x61] (CBytes (XItem (XItem (XRoot RThis) (KName [x5f])) (KName [x71])))]) (top_ctx [] MSize) [] = Err ESizeof (Some [[x61]]).
Proof. repeat split; vm_compute; reflexivity. Qed.
(* known finding K10, reproduced by the model (exactness is REFUTED outside the closed fragment): a Pointer inside a Prefixed writes beyond the
   sequential part; sizeof adds up 1 + 1 + 0 = 2, build emits the length byte and the six bytes of the scratch buffer *)
Example C05_ex_K10_refutes_exactness_outside_the_fragment :
  let c := CPrefixed (CFormat Big FB) (CStruct [CRenamed [x61] (CFormat Big FB); CRenamed [x66] (CPointer (XConst (VInt 4)) (CFormat Big FH))]) false in
  sizeof c (top_ctx [] MSize) [] = Ok 2%Z /\\
  (exists r, build_bytes c (VDict [([x61], VInt 1); ([x66], VInt 2)]) [] = Ok (r, [x06; x01; x00; x00; x00; x00; x02])).
Proof. split; [vm_compute; reflexivity|eexists; vm_compute; reflexivity]. Qed.
Example C05_ex_answers :
  sizeof (CStruct [CRenamed [x61] (CFormat Big FH); CRenamed [x62] (CArray (XConst (VInt 3)) (CFormat Little FL))]) (top_ctx [] MSize) [] = Ok 14%Z.
Proof. vm_compute; reflexivity. Qed.
''')

PROPS['C08'] = dict(
    title='C08 - delimited regions confine their inner construct; offsets stay absolute',
    theorems=[
        ('RegionFacts', 'fixedsized_region', 'FixedSized: whatever the inner construct consumed, the outer stream ends where the read of the region ended; the inner construct runs on a substream holding exactly the region, based at the absolute start offset.'),
        ('RegionFacts', 'fixedsized_greedy', 'A greedy inner construct sees all and only the region.'),
        ('RegionFacts', 'prefixed_region', 'Prefixed: the prefix value alone fixes the region.'),
        ('RegionFacts', 'prefixed_includelength_region', 'Prefixed(includelength): region = prefix value minus prefix size.'),
        ('RegionFacts', 'nullstripped_region', 'NullStripped: the region is the rest of the stream stripped of padding units; the outer stream ends at its end.'),
        ('RegionFacts', 'offsettedend_region', 'OffsettedEnd on a seekable stream: the region (current position to `off` bytes from the end) is fixed before the inner construct runs; the inner construct sees exactly those bytes at their absolute offset and the outer stream ends right behind them.'),
        ('RegionFacts', 'offsettedend_at', 'OffsettedEnd(-k) with `body` unread: the inner construct sees the first |body| - k bytes, the last k stay unread, whatever the inner construct consumed.'),
        ('RegionFacts', 'nullterminated_region', 'NullTerminated: the scan alone fixes the region and where the outer stream stands afterwards.'),
        ('RegionFacts', 'nullterminated_first_terminator', 'NullTerminated with a one-byte terminator: the region is everything in front of the FIRST terminator (plus it with include=True); afterwards the stream stands behind the terminator (consume=True) or at it (consume=False).'),
        ('RegionFacts', 'tell_absolute_at_any_depth', 'Tell inside ANY nest of delimiters (unbounded depth) reports the absolute offset of the outermost stream.'),
    ],
    examples='''
Example C08_ex_nullterminated_greedy :
  parse_at (CSequence [CNullTerminated CGreedyBytes [x00] false true true; CTell; CNullTerminated CGreedyBytes [x3b] true false true; CTell])
           [] [x61; x62; x00; x63; x00; x3b; x64] 0
  = Ok (VList [VBytes [x61; x62]; VInt 3; VBytes [x63; x00; x3b]; VInt 5], 5%Z).
Proof. vm_compute; reflexivity. Qed.
Example C08_ex_offsettedend :
  parse_at (CSequence [CFormat Big FB; COffsettedEnd (XConst (VInt (-2))) (CSequence [CFormat Big FB; CTell]); CTell; CBytes (XConst (VInt 2))])
           [] [x01; x02; x03; x04; x05; x06] 0
  = Ok (VList [VInt 1; VList [VInt 2; VInt 2]; VInt 4; VBytes [x05; x06]], 6%Z).
Proof. vm_compute; reflexivity. Qed.
Example C08_ex_nested_tell :
  parse_at (CStruct [CRenamed [x68] (CBytes (XConst (VInt 2)));
                     CRenamed [x74] (CFixedSized (XConst (VInt 4)) (CPrefixed (CFormat Big FB) (CNullStripped CTell [x00]) false))])
           [] [x00; x01; x02; x09; x09; x00; x07] 0
  = Ok (VDict [([x68], VBytes [x00; x01]); ([x74], VInt 3)], 6%Z).
Proof. vm_compute; reflexivity. Qed.
''')

PROPS['C09'] = dict(
    title='C09 - look-ahead and alternatives leave the stream exactly where their contract says',
    theorems=[
        ('RegionFacts', 'peek_restores_position', 'Peek: success or swallowed failure, the position is the starting position.'),
        ('RegionFacts', 'peek_explicit_escapes', 'Peek re-raises ExplicitError.'),
        ('RegionFacts', 'peek_failure_is_none', 'Peek turns any other ConstructError into None at the starting position.'),
        ('RegionFacts', 'pointer_restores_position', 'Pointer (parse): the position afterwards is the starting position, for absolute and end-relative targets.'),
        ('RegionFacts', 'pointer_build_restores_position', 'Pointer (build): likewise.'),
        ('RegionFacts', 'select_first_success', 'Select: the result (value and end position) is that of the first alternative that succeeds FROM THE STARTING POSITION; failed alternatives leave no trace.'),
        ('RegionFacts', 'select_explicit_escapes', 'Select re-raises ExplicitError.'),
        ('RegionFacts', 'select_build_first_success', 'Select when BUILDING: what reaches the output is exactly what the first alternative that builds the value produced in a stream of its own; the value handed in is returned.'),
        ('RegionFacts', 'select_build_failed_leave_no_trace', 'Alternatives that failed in front of the one that builds (whatever they had written before failing) change nothing: the Select builds as that alternative alone.'),
        ('RegionFacts', 'select_build_explicit_escapes', 'Select re-raises ExplicitError when building too.'),
        ('RegionFacts', 'greedy_stops_clean', 'GreedyRange: a failing element leaves the stream at the end of the last success.'),
        ('RegionFacts', 'greedy_step', 'GreedyRange: the elements are the successive successes, each from the end of the previous one.'),
        ('RegionFacts', 'greedy_explicit_escapes', 'GreedyRange re-raises ExplicitError.'),
        ('FrameFacts', 'parse_frame', 'For EVERY construct (induction over all classes): a parse returns the stream it was given with at most another position.'),
        ('FrameFacts', 'pointer_restores', 'Pointer over ANY inner construct returns a seekable stream exactly as it was: whatever the inner parse did elsewhere leaves no trace.'),
        ('FrameFacts', 'peek_restores', 'Peek over ANY inner construct (success or swallowed failure) returns a seekable stream exactly as it was.'),
        ('FrameFacts', 'union_none_restores', 'Union(None, ...) over ANY members returns a seekable stream exactly as it was.'),
        ('FrameFacts', 'union_loop_restores', 'Every member of a Union is parsed from the same stream: after each member the stream is exactly the starting one.'),
        ('UnionFacts', 'union_index_ends_at_selected', 'Union(j, ...) over ANY members: the parse ends exactly where member number j ended when parsed from the start of the union.'),
        ('UnionFacts', 'union_name_ends_at_selected', 'Union("name", ...): the parse ends exactly where a member of that name ended when parsed from the start of the union - anonymous members in front of it do not shift the choice.'),
        ('FrameFacts', 'union_loop_records', 'Every end position a Union records is the end position of one of its members parsed from the starting stream.'),
    ],
    requires=['ConInd'],
    examples='''
Example C09_ex_select_partial :
  parse_at (CSequence [CSelect [CSequence [CFormat Big FB; CConst (VInt 7) (CFormat Big FB)]; CFormat Big FB]; CTell])
           [] [x05; x06; x07] 0 = Ok (VList [VInt 5; VInt 1], 1%Z).
Proof. vm_compute; reflexivity. Qed.
(* an anonymous member in front of the selected one: the position is the end of the member NAMED b (2), not of the member at index 1 (1) *)
Example C09_ex_union_by_name :
  parse_at (CSequence [CUnion (USName [x62]) [CFormat Big FB; CRenamed [x62] (CFormat Big FH); CRenamed [x63] (CFormat Big FL)]; CTell])
           [] [x01; x02; x03; x04] 0 = Ok (VList [VDict [([x62], VInt 258); ([x63], VInt 16909060)]; VInt 2], 2%Z).
Proof. vm_compute; reflexivity. Qed.
(* the first alternative writes four bytes before its second field fails; none of them is in the output *)
Example C09_ex_select_build_partial :
  build_bytes (CSelect [CSequence [CFormat Big FL; CFormat Big FB]; CSequence [CFormat Big FB; CFormat Big FH]]) (VList [VInt 1; VInt 300]) [] =
    Ok (VList [VInt 1; VInt 300], [x01; x01; x2c]).
Proof. vm_compute; reflexivity. Qed.
''')

PROPS['C13'] = dict(
    title='C13 - constants, validators and label mappings are enforced in both directions',
    theorems=[
        ('ValidFacts', 'const_parse_iff', 'Const accepts on parse exactly the inputs on which the sub-construct yields a value equal to the constant.'),
        ('ValidFacts', 'const_parse_rejects', 'Any other parsed value is ConstError.'),
        ('ValidFacts', 'const_build', 'Const always builds the constant, and refuses any supplied value other than None / the constant.'),
        ('ValidFacts', 'oneof_parse', 'OneOf admits on parse iff the value is a member.'),
        ('ValidFacts', 'oneof_build', 'OneOf admits on build only members.'),
        ('ValidFacts', 'noneof_parse', 'NoneOf admits on parse iff the value is not a member.'),
        ('ValidFacts', 'noneof_build', 'NoneOf admits on build only non-members.'),
        ('ValidFacts', 'exprvalidator_parse', 'ExprValidator: parsed values satisfy the predicate.'),
        ('ValidFacts', 'exprvalidator_build', 'ExprValidator: built values satisfy the predicate.'),
        ('ValidFacts', 'check_symmetric', 'Check passes on parse iff it passes on build (same context).'),
        ('ValidFacts', 'enum_parse_label', 'Enum: a label returned by parse is a label of the table for the parsed integer.'),
        ('ValidFacts', 'enum_parse_unmapped', 'Enum: unmapped integers of any magnitude are preserved.'),
        ('ValidFacts', 'enum_build_int_passthrough', 'Enum: integers build unchanged.'),
        ('ValidFacts', 'enum_build_unknown_label', 'Enum: unknown labels are rejected on build.'),
        ('ValidFacts', 'mapping_build_unknown', 'Mapping: unknown objects are rejected on build.'),
        ('ValidFacts', 'mapping_parse_unknown', 'Mapping: unknown encoded values are rejected on parse.'),
        ('ValidFacts', 'flags_string_is_union', "FlagsEnum, spelling 'p|q|...': the encoded integer is the bitwise union of the masks of the named labels, folded left to right; an unknown label refuses the whole spelling."),
        ('ValidFacts', 'flags_string_bits', 'FlagsEnum: bit n of the encoded integer is set exactly when the mask of one of the named labels has it - repeats and overlapping masks add nothing.'),
        ('ValidFacts', 'flags_string_order_and_repeats', 'FlagsEnum: two spellings that name the same labels (any order, any repetition) encode to the same integer.'),
        ('ValidFacts', 'flags_dict_is_union', 'FlagsEnum, dict spelling {label: value, ...}: the union of the masks of the labels bound to a true value, private keys skipped; an unknown true label refuses the whole value.'),
        ('ValidFacts', 'flags_dict_bits', 'FlagsEnum, dict spelling: bit n is set exactly when the mask of one of the labels bound to a true value has it.'),
        ('FlagsFacts', 'flagsenum_parse_labels', 'FlagsEnum on parse: every label of the table is reported, bound to (parsed integer & mask) == mask - multi-bit and overlapping masks included.'),
        ('FlagsFacts', 'flag_true_iff_all_bits', 'A label is reported True exactly when EVERY bit of its mask is set in the parsed integer.'),
        ('ValidFacts', 'explicit_escapes_any_nest', 'An Error field aborts parsing through ANY nest (unbounded depth) of Select / Optional-like Select / GreedyRange / Peek / Renamed.'),
    ],
    examples='''
Example C13_ex_error_in_optional_in_greedyrange :
  parse_at (CGreedyRange (CSelect [CPeek (CSelect [CFormat Big FL; CError]); CPass])) [] [x01] 0 = Err EExplicit (Some []).
Proof. vm_compute; reflexivity. Qed.
(* r=1, w=2, rw=3: 'r|rw' is 3 (not 1+3), 'r|r' is 1 (not 2), 'w | r' is 3 *)
Example C13_ex_flags_overlap :
  let t := [([x72], 1%Z); ([x77], 2%Z); ([x72; x77], 3%Z)] in
  flags_encode t (VStr [114; 124; 114; 119]%N) [] = Ok (VInt 3) /\ flags_encode t (VStr [114; 124; 114]%N) [] = Ok (VInt 1) /\\
  flags_encode t (VStr [119; 32; 124; 32; 114]%N) [] = Ok (VInt 3) /\ flags_encode t (VStr [114; 124; 120]%N) [] = Err EMapping (Some []).
Proof. vm_compute; repeat split; reflexivity. Qed.
Example C13_ex_const :
  build_bytes (CConst (VInt 255) (CFormat Big FB)) (VInt 0) [] = Err EConst (Some []) /\\
  build_bytes (CConst (VInt 255) (CFormat Big FB)) VNone [] = Ok (VInt 255, [xff]).
Proof. split; vm_compute; reflexivity. Qed.
''')

PROPS['C14'] = dict(
    title='C14 - RawCopy reports the exact bytes processed; checksums built always verify',
    theorems=[
        ('ValidFacts', 'rawcopy_parse', 'RawCopy: value is the inner result; offsets are tell() before/after; length is their difference; data is what re-reading that many bytes from offset1 gives.'),
        ('ValidFacts', 'rawcopy_final_position', 'RawCopy leaves the stream where the inner construct left it.'),
        ('ValidFacts', 'rawcopy_build_value', "RawCopy built from {'value': v}: data is exactly what the inner construct appended, between the offsets where it was written, and the output is exactly what the inner construct wrote."),
        ('ValidFacts', 'rawcopy_build_data', "RawCopy built from {'data': d}: d is written, offsets and length describe it."),
        ('ValidFacts', 'rawcopy_value_or_data_same_bytes', 'Building from the value and building from the data that build reports emit the same bytes at the same place.'),
        ('ValidFacts', 'checksum_detects', 'Checksum: a stored digest different from the hash of the covered bytes is ChecksumError.'),
        ('ValidFacts', 'checksum_accepts', 'Checksum: a matching digest is accepted.'),
        ('ValidFacts', 'checksum_build', 'Checksum: build writes the hash of the covered bytes whatever value was supplied.'),
    ],
    examples='''
Example C14_ex_build_value_and_data :
  build_bytes (CSequence [CFormat Big FB; CRawCopy (CFormat Big FH)]) (VList [VInt 7; VDict [([x76; x61; x6c; x75; x65], VInt 513)]]) [] =
    Ok (VList [VInt 7; VDict [([x76; x61; x6c; x75; x65], VInt 513); ([x64; x61; x74; x61], VBytes [x02; x01]);
                              ([x6f; x66; x66; x73; x65; x74; x31], VInt 1); ([x6f; x66; x66; x73; x65; x74; x32], VInt 3);
                              ([x6c; x65; x6e; x67; x74; x68], VInt 2)]], [x07; x02; x01]) /\\
  (exists r, build_bytes (CSequence [CFormat Big FB; CRawCopy (CFormat Big FH)]) (VList [VInt 7; VDict [([x64; x61; x74; x61], VBytes [x02; x01])]]) [] = Ok (r, [x07; x02; x01])).
Proof. split; [vm_compute; reflexivity|eexists; vm_compute; reflexivity]. Qed.
Example C14_ex_checksum_roundtrip :
  let c := CStruct [CRenamed [x62] (CRawCopy (CBytes (XConst (VInt 3))));
                    CRenamed [x63] (CChecksum (CFormat Big FB) HSum8 (XItem (XItem (XRoot RThis) (KName [x62])) (KName [x64; x61; x74; x61])))] in
  parse_at c [] [x01; x02; x03; x06] 0 =
    Ok (VDict [([x62], VDict [([x64; x61; x74; x61], VBytes [x01; x02; x03]); ([x76; x61; x6c; x75; x65], VBytes [x01; x02; x03]);
                              ([x6f; x66; x66; x73; x65; x74; x31], VInt 0); ([x6f; x66; x66; x73; x65; x74; x32], VInt 3);
                              ([x6c; x65; x6e; x67; x74; x68], VInt 3)]); ([x63], VInt 6)], 4%Z) /\\
  parse_at c [] [x01; x02; x07; x06] 0 = Err EChecksum (Some [[x63]]).
Proof. split; vm_compute; reflexivity. Qed.
''')

PROPS['C11'] = dict(
    title='C11 - context expressions mean what their Python spelling means, and print as it',
    requires=['PyExpr'],
    requires_gen=['ExprTable'],
    theorems=[
        ('ExprFacts', 'table_binops', 'The overload table REGENERATED from construct/expr.py (gen/ExprTable.v) is, as a set, the table Python\'s data model prescribes: each dunder builds its own operator, reflected variants put self on the right.'),
        ('ExprFacts', 'table_unops', 'Unary overloads: __neg__, __pos__, and __invert__ as the documented logical not.'),
        ('ExprFacts', 'table_binop_names', 'Every binary operator prints as its own Python symbol (regenerated opnames).'),
        ('ExprFacts', 'table_unop_names', 'Every unary operator prints as its own Python symbol.'),
        ('ExprFacts', 'table_repr_templates', 'The __repr__ templates of UniExpr / BinExpr in the source are the parenthesising ones.'),
        ('ExprFacts', 'eval_binop_native', 'A binary node denotes the native operator applied to its operands\' values in the same context.'),
        ('ExprFacts', 'eval_unop_native', 'A unary node likewise.'),
        ('ExprFacts', 'eval_item_native', 'Item / attribute paths denote plain subscripting.'),
        ('ExprFacts', 'reflected_sub_order', 'Reflected operands keep their order: constant - expression subtracts in that order.'),
        ('ExprFacts', 'floordiv_mod_python', 'Integer // and % are Python\'s (floor division; sign of the divisor).'),
        ('PyExprFacts', 'pyparse_print', 'PRINTING, every well-formed tree (any nesting of the 18 binary and 3 unary operators, item paths of any length, the five helpers, int/bool/None/str/bytes constants): the tokens repr() prints, read by Python\'s expression grammar (precedence climbing with Python\'s levels and associativity, unary signs, not, subscripts, calls), give back the tree - negative literals as the sign applied to the magnitude.'),
        ('PyExprFacts', 'eval_unfold_neg', 'That reading of negative literals evaluates identically in every context.'),
        ('PyExprFacts', 'C11_repr_denotes_the_expression', 'Hence repr(e) denotes the function e denotes: the parsed tree evaluates as e does for every context, as a context parameter and as a predicate over (obj, list, ctx).'),
        ('PyExprFacts', 'ex_bare_unary_differs', 'The parentheses _operandrepr writes are needed: (- a ** b) is read as -(a ** b), a different tree from (-a) ** b.'),
        ('PyExprFacts', 'print_contains_refuted', 'REFUTED for operator.contains (outside the operator table of the property; unreachable through the `in` operator): BinExpr(contains, a, b) prints (a in b), which Python reads as contains(b, a).'),
    ],
    examples='''
Example C11_ex_eval :
  eval (top_ctx [([x61], VInt (-3))] MParse) (XBin OPow (XUn UNeg (XItem (XRoot RThis) (KName [x61]))) (XConst (VInt 2))) = Ok (VInt 9) /\\
  eval (top_ctx [([x61], VInt 7)] MParse) (XBin OSub (XConst (VInt 1)) (XBin OFloorDiv (XItem (XRoot RThis) (KName [x61])) (XConst (VInt (-2))))) = Ok (VInt 5).
Proof. split; vm_compute; reflexivity. Qed.
''')

PROPS['C12'] = dict(
    title='C12 - documented construct equivalences hold extensionally',
    requires_gen=['Names', 'Platform'],
    theorems=[
        ('LawFacts', 'law_Optional', 'Optional(x) and Select(x, Pass) as the library defines them NOW (regenerated) are the same term, hence equivalent on every input.'),
        ('LawFacts', 'law_If', 'If(c, x) <--> IfThenElse(c, x, Pass).'),
        ('LawFacts', 'law_Padding', 'Padding(n) <--> Padded(n, Pass).'),
        ('LawFacts', 'law_PrefixedArray', 'PrefixedArray(l, x) <--> its documented FocusedSeq expansion.'),
        ('LawFacts', 'law_BitStruct', 'BitStruct(...) <--> Bitwise(Struct(...)).'),
        ('LawFacts', 'law_Enum_class_vs_keywords', 'Enum from an IntEnum class <--> Enum from keywords.'),
        ('LawFacts', 'law_FlagsEnum_class_vs_keywords', 'FlagsEnum from an IntFlag class <--> keywords.'),
        ('LawFacts', 'law_getitem_is_Array', 'x[n] <--> Array(n, x).'),
        ('LawFacts', 'law_add_is_Struct', 'a + b <--> Struct(a, b).'),
        ('LawFacts', 'law_rshift_is_Sequence', 'a >> b <--> Sequence(a, b).'),
        ('LawFacts', 'law_div_is_Renamed', 'name / x <--> Renamed(x, name).'),
        ('LawFacts', 'law_aliases', 'Byte/Short/Int/Long/Half/Single/Double/Bit/Nibble/Octet are the documented aliases.'),
        ('LawFacts', 'law_int24_names', 'Int24* are BytesInteger(3) with the documented signed / swapped flags (native = platform byte order).'),
        ('LawFacts', 'law_fixed_width_names', 'Int*/Float* names are FormatField with the documented format and byte order.'),
        ('LawFacts', 'law_formatfield_vs_bytesinteger_build', 'Fixed-width FormatField integer vs BytesInteger of that width: identical bytes, or both reject.'),
        ('LawFacts', 'law_formatfield_vs_bytesinteger_parse', '... identical value and position on parse.'),
        ('LawFacts', 'law_hexdump_parse', 'HexDump(x) parses exactly as x.'),
        ('LawFacts', 'law_hex_build_bytes', 'Hex(x) builds exactly the bytes x builds (or fails as x fails).'),
        ('LawFacts', 'law_hexdump_build_bytes', 'HexDump(x) likewise.'),
        ('LawFacts', 'law_hex_parse', 'Hex(x) returns the value x returns; it never rejects with SizeofError what x accepts.'),
        ('LawFacts', 'law_byteswapped_int24_parse', 'ByteSwapped(Int24ub) <--> Int24ul on every 3-byte input at any position.'),
    ],
    examples='''
Example C12_ex_hex_varint :
  parse_at (CHex CVarInt) [] [xac; x02] 0 = Ok (VInt 300, 2%Z) /\\
  parse_at i_ByteSwapped_Int24ub [] [x01; x02; x03] 0 = parse_at n_Int24ul [] [x01; x02; x03] 0.
Proof. split; vm_compute; reflexivity. Qed.
''')

PROPS['C15'] = dict(
    title='C15 - byte transforms invert exactly and match their definition',
    theorems=[
        ('TransformFacts', 'xor_cycle_nth', 'The definition, byte by byte, for data of ANY length and any non-empty key: output byte i is data byte i XOR key byte (i mod |key|) - the key is cycled to the very end.'),
        ('TransformFacts', 'xor_cycle_involutive', 'Cyclic XOR with any non-empty key, any data: applying it twice is the identity (build inverts parse).'),
        ('TransformFacts', 'xor_single_is_cycle', 'The single-byte shortcut equals the general cyclic definition.'),
        ('TransformFacts', 'xor_zero_is_identity', 'The all-zero-key shortcut equals the general cyclic definition.'),
        ('TransformFacts', 'xor_data_involutive', 'ProcessXor\'s key handling (integer, one-byte string, byte string, zero shortcuts) is an involution on the data.'),
        ('TransformFacts', 'processxor_build', 'What build emits is the XOR transform of the inner construct\'s bytes.'),
        ('TransformFacts', 'processxor_parse', 'The inner construct is presented with the XOR transform of the rest of the stream, at absolute offsets.'),
        ('TransformFacts', 'swapbytes_involutive', 'Byte-order swapping is an involution.'),
        ('TransformFacts', 'swapbitsinbytes_involutive', 'Bit-order swapping is an involution.'),
        ('TransformFacts', 'bitrev8_spec', 'Per-byte bit swapping is reversal of the 8-bit MSB-first bit list (all 256 bytes).'),
        ('TransformFacts', 'rotl8_inverse', 'Group size 1: rotating a byte left by a and then by 8-a is the identity, every amount, every byte.'),
        ('RotFacts', 'rot_group_spec', 'ProcessRotateLeft MATCHES ITS DEFINITION, every amount, every group size, all three code branches (one-byte groups, whole-byte moves, the shifting bit-pair branch): the MSB-first bits of the rotated group are the bits of the group rotated left by the amount.'),
        ('RotFacts', 'rot_group_inverse', 'Hence rotating a group by a and then by 8G - a is the identity, for every amount and group size.'),
        ('RotFacts', 'rotate_left_inverse', 'Whole data (groups are rotated independently): rotating by a and then by 8G - a gives the data back.'),
        ('RotFacts', 'processrotl_parse_undoes_build', 'ProcessRotateLeft: the rotation parse applies (a mod 8g) undoes the one build applied ((-a) mod 8g), for every integer amount a (negative, larger than the group) and every group size g >= 1.'),
        ('RotFacts', 'comb_bits', 'One output byte of the shifting branch: (x << a) & 255 | y >> (8 - a) is the last 8 - a bits of x followed by the first a bits of y (all 7 x 256 x 256 cases, kernel-evaluated).'),
        ('RotFacts', 'rot_group_examples', 'Instances of the three branches.'),
        ('TransformFacts', 'rotate_left_rejects', 'Data whose length is not a multiple of the group is rejected.'),
        ('TransformFacts', 'processrotl_amounts', 'The amounts used by parse (a) and build (-a), reduced modulo the group width, cancel.'),
    ],
    examples='''
Example C15_ex_rotate :
  parse_at (CProcessRotl (XConst (VInt 12)) (XConst (VInt 3)) CGreedyBytes) [] [x12; x34; x56] 0 = Ok (VBytes [x45; x61; x23], 3%Z) /\\
  build_bytes (CProcessRotl (XConst (VInt 12)) (XConst (VInt 3)) CGreedyBytes) (VBytes [x45; x61; x23]) [] = Ok (VBytes [x45; x61; x23], [x12; x34; x56]).
Proof. split; vm_compute; reflexivity. Qed.
''')


PROPS['C10'] = dict(
    title='C10 - bit-level fields are packed MSB-first across byte boundaries on both code paths',
    requires_gen=['Names'],
    theorems=[
        ('BitFacts', 'bits_fold_app', 'The value of a concatenation of bit strings is shift-and-add: MSB-first packing.'),
        ('BitFacts', 'bits_fold_bits_of_N', 'width bits of n denote n.'),
        ('BitFacts', 'bits_fold_bytes2bits', 'The bit string of a byte string denotes its big-endian integer.'),
        ('BitFacts', 'bits2bytes_bytes2bits', 'bits2bytes inverts bytes2bits on every byte string.'),
        ('BitFacts', 'bits2integer_bytes2bits', 'The (signed) integer read from the bits of n bytes is the integer read from the bytes: two\'s complement sign bit = top bit of the first byte.'),
        ('BitFacts', 'bits_fold_fields', 'For ANY list of fields (width, pattern): the concatenated patterns denote the packed big integer.'),
        ('BitFacts', 'pack_fields_bytes', 'C10 build direction: for any sequence of widths summing to a multiple of 8, the packed bytes are the big-endian digits of that integer.'),
        ('BitFacts', 'unpack_fields_bits', 'C10 parse direction: the bit string of those bytes is the concatenation of the field patterns.'),
        ('BitLaws', 'law_bytesinteger_bitwise_parse', 'Interpreter level, every width n: Bitwise(BitsInteger(8n, signed)) parses as BytesInteger(n, signed).'),
        ('BitLaws', 'law_bytesinteger_bitwise_short', '... and both reject short input with StreamError.'),
        ('BitLaws', 'law_bitsinteger_bytewise_parse', 'The island law, every width n and EITHER signedness, anywhere in a bit stream: Bytewise(BytesInteger(n, signed)) reads what BitsInteger(8n, signed) reads and leaves the bit stream at the same place.'),
    ],
    examples='''
(* a signed three-byte integer as an island between two nibbles: ef ff ff f5 holds -1 *)
Example C10_ex_signed_island :
  parse_bytes (CTransformed (CStruct [CRenamed [x68] (CBitsInt (XConst (VInt 4)) false false);
                                      CRenamed [x76] (CTransformed (CBytesInt (XConst (VInt 3)) true false) BFbits2bytes (Some 24%Z) BFbytes2bits (Some 24%Z));
                                      CRenamed [x74] (CBitsInt (XConst (VInt 4)) false false)])
                 BFbytes2bits (Some 4%Z) BFbits2bytes (Some 4%Z)) [] [xef; xff; xff; xf5] =
    Ok (VDict [([x68], VInt 14); ([x76], VInt (-1)); ([x74], VInt 5)]).
Proof. vm_compute; reflexivity. Qed.
Example C10_ex_pack :
  build_bytes (CTransformed (CStruct [CRenamed [x61] (CBitsInt (XConst (VInt 3)) false false); CRenamed [x62] (CBitsInt (XConst (VInt 13)) true false)])
                 BFbytes2bits (Some 2%Z) BFbits2bytes (Some 2%Z))
              (VDict [([x61], VInt 5); ([x62], VInt (-2))]) [] = Ok (VDict [([x61], VInt 5); ([x62], VInt (-2))], [xbf; xfe]).
Proof. vm_compute; reflexivity. Qed.
Example C10_ex_bitwise_is_sized_region :
  i_Bitwise_BitsInteger_1_u_ns = bitwise_sized (CBitsInt (kint 8) false false) 1 /\\
  i_Bitwise_BitsInteger_1_s_ns = bitwise_sized (CBitsInt (kint 8) true false) 1 /\\
  i_Bitwise_BitsInteger_2_u_ns = bitwise_sized (CBitsInt (kint 16) false false) 2 /\\
  i_Bitwise_BitsInteger_2_s_ns = bitwise_sized (CBitsInt (kint 16) true false) 2 /\\
  i_Bitwise_BitsInteger_3_u_ns = bitwise_sized (CBitsInt (kint 24) false false) 3 /\\
  i_Bitwise_BitsInteger_3_s_ns = bitwise_sized (CBitsInt (kint 24) true false) 3 /\\
  i_Bitwise_BitsInteger_4_u_ns = bitwise_sized (CBitsInt (kint 32) false false) 4 /\\
  i_Bitwise_BitsInteger_4_s_ns = bitwise_sized (CBitsInt (kint 32) true false) 4 /\\
  i_Bitwise_BitsInteger_5_u_ns = bitwise_sized (CBitsInt (kint 40) false false) 5 /\\
  i_Bitwise_BitsInteger_5_s_ns = bitwise_sized (CBitsInt (kint 40) true false) 5 /\\
  i_Bitwise_BitsInteger_6_u_ns = bitwise_sized (CBitsInt (kint 48) false false) 6 /\\
  i_Bitwise_BitsInteger_6_s_ns = bitwise_sized (CBitsInt (kint 48) true false) 6 /\\
  i_Bitwise_BitsInteger_7_u_ns = bitwise_sized (CBitsInt (kint 56) false false) 7 /\\
  i_Bitwise_BitsInteger_7_s_ns = bitwise_sized (CBitsInt (kint 56) true false) 7 /\\
  i_Bitwise_BitsInteger_8_u_ns = bitwise_sized (CBitsInt (kint 64) false false) 8 /\\
  i_Bitwise_BitsInteger_8_s_ns = bitwise_sized (CBitsInt (kint 64) true false) 8 /\\
  i_Bitwise_BitsInteger_9_u_ns = bitwise_sized (CBitsInt (kint 72) false false) 9 /\\
  i_Bitwise_BitsInteger_9_s_ns = bitwise_sized (CBitsInt (kint 72) true false) 9 /\\
  i_Bitwise_BitsInteger_10_u_ns = bitwise_sized (CBitsInt (kint 80) false false) 10 /\\
  i_Bitwise_BitsInteger_10_s_ns = bitwise_sized (CBitsInt (kint 80) true false) 10 /\\
  i_Bitwise_BitsInteger_11_u_ns = bitwise_sized (CBitsInt (kint 88) false false) 11 /\\
  i_Bitwise_BitsInteger_11_s_ns = bitwise_sized (CBitsInt (kint 88) true false) 11 /\\
  i_Bitwise_BitsInteger_12_u_ns = bitwise_sized (CBitsInt (kint 96) false false) 12 /\\
  i_Bitwise_BitsInteger_12_s_ns = bitwise_sized (CBitsInt (kint 96) true false) 12 /\\
  i_Bitwise_BitsInteger_13_u_ns = bitwise_sized (CBitsInt (kint 104) false false) 13 /\\
  i_Bitwise_BitsInteger_13_s_ns = bitwise_sized (CBitsInt (kint 104) true false) 13 /\\
  i_Bitwise_BitsInteger_14_u_ns = bitwise_sized (CBitsInt (kint 112) false false) 14 /\\
  i_Bitwise_BitsInteger_14_s_ns = bitwise_sized (CBitsInt (kint 112) true false) 14 /\\
  i_Bitwise_BitsInteger_15_u_ns = bitwise_sized (CBitsInt (kint 120) false false) 15 /\\
  i_Bitwise_BitsInteger_15_s_ns = bitwise_sized (CBitsInt (kint 120) true false) 15 /\\
  i_Bitwise_BitsInteger_16_u_ns = bitwise_sized (CBitsInt (kint 128) false false) 16 /\\
  i_Bitwise_BitsInteger_16_s_ns = bitwise_sized (CBitsInt (kint 128) true false) 16.
Proof. repeat split; reflexivity. Qed.
''')

PROPS['C07'] = dict(
    title='C07 - context expressions resolve identically when parsing, building and sizing',
    theorems=[
        ('CtxFacts', 'up_moves_one_scope', 'Each _ step moves exactly one enclosing structure outward; from the outermost structure it reaches the call context.'),
        ('CtxFacts', 'root_is_outermost', '_root is the outermost structure\'s scope from any depth.'),
        ('CtxFacts', 'params_from_any_depth', '_params is the call context from any depth.'),
        ('CtxFacts', 'params_of_params', '_params._params is the call context again.'),
        ('CtxFacts', 'params_hold_kwargs', 'The call context holds the keyword arguments.'),
        ('CtxFacts', 'flags_one_hot', 'Exactly one of _parsing/_building/_sizing is true, according to the entry point, at every depth.'),
        ('CtxFacts', 'flags_one_hot_top', '... and in the call context.'),
        ('CtxFacts', 'push_keeps_outer', 'Pushing a scope leaves every enclosing scope where it was, one level further out.'),
        ('CtxFacts', 'push_keeps_top', '... and the call context and the mode unchanged.'),
        ('CtxFacts', 'this_sees_sibling', 'this.x sees the value stored for a sibling.'),
        ('CtxFacts', 'index_is_current', '_index is the current repetition index.'),
        ('CtxFacts', 'index_inherited_by_pushed_scope', 'A structure nested in a repetition sees the current index.'),
        ('CtxFacts', 'eval_mode_independent', 'EVERY expression that does not name a flag evaluates identically in parse, build and sizeof contexts with the same scope chain (induction on the expression).'),
        ('CtxFacts', 'eval_same_in_all_modes', '... in particular at the three entry points.'),
    ],
    examples='''
Example C07_ex_nested :
  parse_at (CStruct [CRenamed [x6d] (CComputed (XConst (VInt 1)));
                     CRenamed [x63] (CArray (XConst (VInt 2)) (CStruct [CRenamed [x6d] (CComputed (XConst (VInt 2)));
                        CRenamed [x70] (CComputed (XBin OAdd (XItem (XItem (XRoot RThis) (KName [x5f])) (KName [x6d]))
                                                   (XBin OMul (XItem (XRoot RThis) (KName [x5f; x69; x6e; x64; x65; x78])) (XItem (XItem (XRoot RThis) (KName [x5f; x70; x61; x72; x61; x6d; x73])) (KName [x6b])))))]))])
           [([x6b], VInt 10)] [] 0
  = Ok (VDict [([x6d], VInt 1); ([x63], VList [VDict [([x6d], VInt 2); ([x70], VInt 1)]; VDict [([x6d], VInt 2); ([x70], VInt 11)]])], 0%Z).
Proof. vm_compute; reflexivity. Qed.
''')

PROPS['C20'] = dict(
    title='C20 - result containers and display helpers are faithful',
    requires=['TransformFacts'],
    prelude='Local Open Scope nat_scope.',
    theorems=[
        ('ContainerFacts', 'ceq_ignores_private', 'Container equality ignores underscore-prefixed entries on both sides (any containers).'),
        ('ContainerFacts', 'ceq_spec', 'It agrees with plain-dict equality on the remaining entries: same public keys, equal values (insertion order plays no role).'),
        ('ContainerFacts', 'ceq_refl', 'Reflexive on well-formed values (unique keys, no NaN), recursively through nested containers and lists.'),
        ('ContainerFacts', 'ceq_sym', 'Symmetric on well-formed values, recursively.'),
        ('HeapFacts', 'load_agree', 'What an object denotes depends only on the objects reachable from it.'),
        ('HeapFacts', 'deepcopy_good', 'deepcopy allocates only fresh objects, which reference only fresh objects.'),
        ('HeapFacts', 'mutation_confined', 'A set / delete / append reached through the copy touches only fresh objects.'),
        ('HeapFacts', 'deepcopy_independent', 'deepcopy / pickle independence at every depth: after ANY history of mutations of the copy the original denotes the same value.'),
        ('HeapFacts', 'stored_deepcopy_independent', '... for every container built from a value (the closedness premise is established, not assumed).'),
        ('HeapFacts', 'deepcopy_keeps_attribute_view', 'Objects obtained by deepcopy / pickle keep the attribute view and the same keys in the same order.'),
        ('HeapFacts', 'shallowcopy_keeps_attribute_view', 'Objects obtained by copy keep the attribute view and the same entries.'),
        ('HexFacts', 'split_join', 'Splitting a joined text on the separator gives the lines back.'),
        ('HexFacts', 'undump_dump_line', 'One dumped line undumps to its bytes, for any offset width and line size.'),
        ('HexFacts', 'hexundump_hexdump', 'hexundump inverts hexdump for EVERY byte string and EVERY positive line size (character-level model, both offset widths).'),
    ],
    examples='''
Example C20_ex_eq :
  val_eqb (VDict [([x61], VInt 1); ([x5f; x69; x6f], VInt 9); ([x62], VList [VDict [([x78], VBool true)]])])
          (VDict [([x62], VList [VDict [([x78], VInt 1); ([x5f; x7a], VNone)]]); ([x61], VInt 1)]) = true.
Proof. vm_compute; reflexivity. Qed.
Example C20_ex_hex :
  match hexdump [x30; x0a; xff; x20; x41] 2 with Some t => hexundump t 2 | None => None end = Some [x30; x0a; xff; x20; x41].
Proof. vm_compute; reflexivity. Qed.
''')

PROPS['C01'] = dict(
    title='C01 - build then parse returns the value that was built (symmetry)',
    requires=['ConInd', 'RTFacts'],
    prelude='Local Open Scope nat_scope.',
    theorems=[
        ('RTFacts', 'roundtrip_fragment', 'THE theorem: by induction over the construct syntax, every construct of the closed sequential fragment (frag, a decidable predicate) round-trips - at any nesting depth, at any stream position, with any trailing data (RT) or at the end of a delimited region (RTe).'),
        ('RTFacts', 'C01_build_then_parse', 'On the public entry points: whatever build emits, parse accepts and returns a value contained in what build returned (derived members filled in), in any keyword context.'),
        ('DepRT', 'dep_roundtrip', 'DEPENDENT layouts, by induction over the syntax: the fragment dfrag extends frag with Structs whose members are sized by the integer fields before them - Bytes(this.n), Array(this.n, x), Padded(this.n, x), FixedSized(this.n, x) - or CHOSEN by them - Switch(this.k, {...}, default), IfThenElse(this.k, a, b), with branches that are sized or closed - to any nesting depth (such a struct reads only its own scope, so it is closed again and may sit inside Array, Prefixed, Padded, ... and other structs). Every construct of dfrag round-trips at any position with any trailing data.'),
        ('DepRT', 'C01_build_then_parse_dependent', 'On the public entry points for the dependent fragment.'),
        ('DepRT', 'RT_dstruct', 'The dependent Struct lemma: integer fields define names (the built value in the build context, the parsed value in the parse context: the same integer), later members read them through this.name and agree on both sides.'),
        ('DepRT', 'eval_this', 'this.n evaluates to the integer the scope holds for n.'),
        ('DepRT', 'build_switch', 'A Switch on a known integer field is the branch pick z cases default, when building ...'),
        ('DepRT', 'parse_switch', '... and when parsing: the same branch, because the parsed field is the built integer.'),
        ('DepRT', 'ex_tlv_in_fragment', 'A tag-length-value record (payload chosen by the tag, sized by the length, an optional trailer) is in dfrag.'),
        ('DepRT', 'ex_tlv_runs', 'It builds and parses back (kernel-evaluated).'),
        ('DepRT', 'ex_dep_in_fragment', 'A header with two counts, a payload sized by the first, records counted by the second each with its own length field and a constant, a trailer padded to the first: in dfrag, not in frag.'),
        ('RTFacts', 'RT_struct', 'Struct: preservation lemma (members round-trip, names distinct => the Struct round-trips).'),
        ('RTFacts', 'RT_sequence', 'Sequence: preservation lemma.'),
        ('RTFacts', 'RT_array', 'Array with any constant count: preservation lemma (the binary-iteration loop is plain iteration).'),
        ('RTFacts', 'RT_prefixed', 'Prefixed: any integer length field, any inner construct that reads to the end of its region.'),
        ('RTFacts', 'RT_padded', 'Padded.'),
        ('RTFacts', 'RT_aligned', 'Aligned.'),
        ('RTFacts', 'RT_fixedsized', 'FixedSized.'),
        ('RTFacts', 'RT_bytesint', 'BytesInteger of every width, signedness, byte order.'),
        ('RTFacts', 'RT_format_int', 'FormatField integers.'),
        ('RTFacts', 'RT_varint', 'VarInt, every natural number.'),
        ('RTFacts', 'RT_zigzag', 'ZigZag, every integer.'),
        ('RTFacts', 'RT_const_int', 'Const over integer fields.'),
    ],
    examples='''
Example C01_ex_fragment_member :
  frag false (CStruct [CRenamed [x61] (CFormat Little FH);
                       CRenamed [x62] (CPrefixed CVarInt (CRenamed [x79] CGreedyBytes) false);
                       CConst (VBytes [x4d; x5a]) (CBytes (kint 2));
                       CPadded (kint 4) (CRenamed [x7a] CZigZag) x00;
                       CRenamed [x77] (CFixedSized (kint 5) (CSequence [CFormat Big Fb; CAligned (kint 2) CVarInt x00]))]) = true.
Proof. vm_compute; reflexivity. Qed.
Example C01_ex_roundtrip :
  let c := CStruct [CRenamed [x61] (CFormat Little FH); CRenamed [x62] (CPrefixed CVarInt (CRenamed [x79] CGreedyBytes) false);
                    CConst (VBytes [x4d; x5a]) (CBytes (kint 2)); CRenamed [x7a] (CPadded (kint 4) CZigZag x00)] in
  build_bytes c (VDict [([x61], VInt 513); ([x62], VBytes [x01; x02; x03]); ([x7a], VInt (-3))]) [] =
    Ok (VDict [([x61], VInt 513); ([x62], VBytes [x01; x02; x03]); ([x7a], VInt (-3))], [x01; x02; x03; x01; x02; x03; x4d; x5a; x05; x00; x00; x00]) /\\
  parse_bytes c [] [x01; x02; x03; x01; x02; x03; x4d; x5a; x05; x00; x00; x00] =
    Ok (VDict [([x61], VInt 513); ([x62], VBytes [x01; x02; x03]); ([x7a], VInt (-3))]).
Proof. split; vm_compute; reflexivity. Qed.
''')

PROPS['C02'] = dict(
    title='C02 - re-encoding parsed data is canonical and stable',
    requires=['ConInd', 'RTFacts', 'DepRT'],
    theorems=[
        ('Stable', 'rebuild_fragment', 'THE theorem (build after parse is stable), by induction over the construct syntax: for every construct of the closed sequential fragment whose Struct members are named or are anonymous constants / padding (sfrag, decidable; any depth), when a value builds to some bytes, the value those bytes parse to - at any stream position, with any trailing data, in any context - builds to exactly the same bytes again.'),
        ('Stable', 'C02_reproduced_exactly', 'On the public entry points: bytes the construct itself produced are reproduced exactly by build(parse(.)), in any keyword contexts.'),
        ('Stable', 'C02_reencoding_is_idempotent', 'Idempotence: for ANY accepted input, canonical or not, once build has accepted what parse returned, one more parse/build changes nothing - the first re-encoding is the canonical one.'),
        ('StableDep', 'dep_rebuild', 'The same for DEPENDENT layouts (DepRT.dfrag with named members): members sized by earlier integer fields (Bytes/Array/Padded/FixedSized of this.n) and members chosen by them (Switch / IfThenElse on this.k). The size and the choice are the same in the first build, in the parse and in the second build, because an integer field parses to the integer that was built.'),
        ('StableDep', 'C02_reproduced_exactly_dependent', 'On the public entry points for the dependent fragment.'),
        ('Stable', 'RB_struct', 'Struct: members rebuild and are named (or are anonymous constants / padding), names distinct => the Struct rebuilds (the parsed dictionary holds, under each name, what that member parsed to).'),
        ('Stable', 'RB_prefixed', 'Prefixed: the length field is rebuilt from the rebuilt payload, which has the same length.'),
        ('Stable', 'RB_padded', 'Padded: the padding is rebuilt from the pattern, whatever the input had there.'),
        ('Stable', 'ex_stable_in_fragment', 'Non-vacuity: an anonymous magic constant, a header, a VarInt-prefixed payload, an array of 3-byte integers, a padded constant, anonymous padding, a VarInt.'),
        ('Stable', 'ex_stable_normalises', 'On a NON-canonical input of that construct (redundant VarInt continuation bytes, non-zero padding) the first re-encoding differs from the input and the second equals the first (kernel-evaluated).'),
        ('StableDep', 'ex_tlv_stable', 'The same on a tag-length-value record (payload chosen by the tag, sized by the length).'),
        ('Stable', 'anon_det', 'Anonymous members that build from nothing (Const, Padding, Pass) build the same bytes in every context: a Struct may contain them among its named members.'),
        ('StableDep', 'ex_magic_tlv_in_fragment', 'A record with an anonymous magic constant in front and anonymous padding behind is in the fragment.'),
        ('StableDep', 'ex_magic_tlv_stable', 'On an input with junk in the padding the first re-encoding differs and the second equals the first (kernel-evaluated).'),
        ('FloatFacts', 'half_roundtrip', 'Float16, EVERY non-NaN pattern of the 65536: the double it parses to builds back to exactly that pattern (finite sweep evaluated by the kernel, lifted to the quantified statement).'),
        ('FloatFacts', 'half_nan_canonical', 'Float16 NaNs: every NaN pattern is re-encoded as the quiet NaN of its sign.'),
        ('FloatField', 'float32_parse_then_build', 'Float32 fields, either byte order, any stream position: whatever 4 bytes the field parses (not a NaN pattern), building the parsed value writes exactly those bytes again - for ALL 2^32 patterns, by arithmetic on the rounding function, not by a sweep.'),
        ('FloatField', 'float64_parse_then_build', 'Float64 fields: the same for all 2^64 patterns; the parsed value IS the pattern (widening a double is the identity).'),
        ('FloatField', 'float16_parse_then_build', 'Float16 fields: the same (from the exhaustive half-precision theorem).'),
        ('FloatField', 'float64_build_then_parse', 'The other direction for doubles: every non-NaN double builds to 8 bytes that parse back to exactly that double.'),
        ('Float32', 'single_roundtrip', 'The arithmetic core: every non-NaN binary32 pattern widens to the double with exactly its value (normal, subnormal, zero, infinity), which rounds back to exactly that pattern.'),
        ('Float32', 'single_nan_canonical', 'binary32 NaNs come back as the quiet NaN of their sign.'),
        ('Float32', 'double_roundtrip', 'binary64: widening and narrowing are the identity on every non-NaN pattern.'),
        ('RTFacts', 'C01_roundtrip_closed', 'Bytes the construct itself produced are reproduced: for the closed sequential fragment what build emits parses back to (a value contained in) what was built, consuming exactly those bytes.'),
        ('PrimFacts', 'bytesint_parse_then_build', 'Integers of every width have exactly one accepted encoding: parse then build reproduces the input bytes.'),
        ('PrimFacts', 'varint_normalises', 'VarInt: every well-formed encoding (minimal or not) is accepted, re-encoded as the canonical one, which parses to the same value.'),
        ('PrimFacts', 'flag_canonical', 'Flag: any non-zero byte parses as True and is re-encoded as 01, which parses as True again.'),
        ('BytesFacts', 'integer2bytes_bytes2integer', 'bytes2integer is injective: the value determines the bytes.'),
        ('BytesFacts', 'zigzag_surj', 'ZigZag: parse then build is the identity on naturals.'),
    ],
    examples='''
Example C02_ex_normalise :
  parse_bytes (CStruct [CRenamed [x6e] CVarInt; CRenamed [x66] CFlag]) [] [x81; x80; x00; x07] = Ok (VDict [([x6e], VInt 1); ([x66], VBool true)]) /\\
  build_bytes (CStruct [CRenamed [x6e] CVarInt; CRenamed [x66] CFlag]) (VDict [([x6e], VInt 1); ([x66], VBool true)]) [] =
    Ok (VDict [([x6e], VInt 1); ([x66], VBool true)], [x01; x01]).
Proof. split; vm_compute; reflexivity. Qed.
''')

PROPS['C06'] = dict(
    requires=['ConInd', 'RTFacts', 'DepRT'],
    prelude='Local Open Scope nat_scope.',
    title='C06 - malformed, truncated or failing input is always reported as ConstructError',
    theorems=[
        ('TruncFacts', 'truncation_fragment', 'For EVERY construct of the closed sequential fragment (no read-to-end, optional or look-ahead parts at the top; any depth), every value it builds and EVERY strict prefix of the bytes built, at any stream position: parsing the prefix is rejected with StreamError - no value is produced from fewer bytes than the format requires.'),
        ('TruncFacts', 'C06_truncated_rejected', 'The same on the public entry points: parse(build(v)[:k]) raises StreamError for every k < len.'),
        ('ErrFacts', 'parse_only_construct_errors', 'For EVERY construct of the closed sequential fragment (any depth) and EVERY input - any bytes, any position, truncated or not - parse returns a value or fails with a ConstructError subclass; no foreign exception comes out (the model\'s own meta outcomes apart).'),
        ('ErrFacts', 'C06_only_construct_errors', 'The same on the public entry point parse(data, **kw).'),
        ('BuildErr', 'build_fields_only_construct_errors', 'BUILD direction: no field class (FormatField, BytesInteger, BitsInteger, VarInt, ZigZag, Bytes, GreedyBytes, Flag, and Enum / FlagsEnum / Mapping / string encodings over them) lets a foreign exception out of build, whatever value it is handed (true of the model only after the repairs F36-F38).'),
        ('BuildErr', 'C06_field_build_errors_are_construct_errors', 'The same stated on the result: a build of a field class that fails, fails with a ConstructError subclass.'),
        ('TruncDep', 'dep_truncation', 'Truncation for DEPENDENT layouts (DepRT.dfrag): every strict prefix of what such a construct builds is rejected with StreamError - the members before the cut parse back to what was built, so the sizes and choices later members read are the built ones, and the member the cut falls in runs out of data.'),
        ('TruncDep', 'C06_truncated_rejected_dependent', 'On the public entry points for the dependent fragment.'),
        ('TruncDep', 'ex_tlv_truncated', 'Every strict prefix of a built tag-length-value record is rejected (kernel-evaluated).'),
        ('ErrDep', 'dep_parse_only_construct_errors', 'The same for DEPENDENT layouts (DepRT.dfrag: structs whose members are sized by the integer fields before them or chosen by them through Switch / IfThenElse, any depth): the size and key expressions cannot fail - the field they name has been parsed, to an integer - and a negative size is a RangeError / PaddingError / StreamError.'),
        ('ErrDep', 'C06_dependent_only_construct_errors', 'On the public entry point for the dependent fragment.'),
        ('StreamFacts', 'iread_discipline', 'A read either succeeds or is StreamError.'),
        ('StreamFacts', 'iread_exact', 'No value is produced from fewer bytes than requested: a successful read returns exactly the requested number of bytes.'),
        ('StreamFacts', 'iread_short', 'A read past the end of the data is StreamError (at any position).'),
        ('StreamFacts', 'iseek_discipline', 'A seek either succeeds or is StreamError.'),
        ('StreamFacts', 'owrite_discipline', 'A write either succeeds or is StreamError (or exceeds the allocation bound of the model).'),
        ('PrimFacts', 'bytesint_parse_short', 'BytesInteger of any width on truncated input: StreamError.'),
        ('PrimFacts', 'varint_parse_truncated', 'VarInt whose every available byte has the continuation bit (every strict prefix of an encoding): StreamError.'),
        ('RegionFacts', 'peek_failure_is_none', 'Peek recovers only from ConstructErrors other than ExplicitError.'),
        ('RegionFacts', 'select_explicit_escapes', 'Select re-raises ExplicitError.'),
        ('RegionFacts', 'greedy_explicit_escapes', 'GreedyRange re-raises ExplicitError.'),
        ('SizeofFacts', 'sizeof_nokey', 'sizeof of every construct never leaks KeyError / AttributeError.'),
    ],
    examples='''
Example C06_ex_truncated :
  parse_bytes (CStruct [CRenamed [x61] (CFormat Big FH); CRenamed [x62] (CPadded (XConst (VInt 4)) CVarInt x00)]) [] [x00; x01; x81] = Err EStream (Some [[x62]]) /\\
  parse_bytes (CStruct [CRenamed [x61] (CFormat Big FH); CRenamed [x62] (CPadded (XConst (VInt 4)) CVarInt x00)]) [] [x00; x01; x81; x00; x00] = Err EStream (Some [[x62]]).
Proof. split; vm_compute; reflexivity. Qed.
''')

PROPS['C18'] = dict(
    title='C18 - errors name the member in which parsing or building failed',
    requires=['ConInd', 'Build', 'PathFacts'],
    prelude='Local Open Scope nat_scope.',
    theorems=[
        ('PathFacts', 'parse_path_extends', 'For EVERY construct of the model (induction over all 59 classes, all loops): an error raised while parsing carries a path that extends the path the construct was entered with - no wrapper drops, reorders or invents enclosing names.'),
        ('PathFacts', 'sizeof_path_extends', 'The same for sizeof, every construct.'),
        ('PathExact', 'parse_path_is_chain', 'EXACTNESS, every construct of the model: what follows the entry path in the path of a parse error is a chain of the construct - the names of the Renamed nodes crossed, in order, from the construct down to one of its sub-constructs; nothing invented, nothing dropped in the middle, nothing reordered.'),
        ('PathExact', 'sizeof_path_is_chain', 'The same for sizeof, every construct.'),
        ('BuildPath', 'build_path_is_chain_dec', 'The same for building, every construct that contains no Select (Select._build calls the public build of its alternatives, which restarts the path; outside the quantified shapes).'),
        ('PathExact', 'entry_parse_path_is_chain', 'On the public entry point the whole member path of a parse error is a chain of the construct.'),
        ('BuildPath', 'entry_build_path_is_chain', 'Likewise for build().'),
        ('ValidFacts', 'rawcopy_build_error_passthrough', "RawCopy built from {'value': v}: a failure of the inner construct comes out unchanged - same error class, same path, so the names enclosing the RawCopy and the names inside it both stay."),
        ('PathExact', 'chain_enumerated', 'The chains of a construct are finitely many and computable (chains c): the possible error paths of a format can be listed.'),
        ('PathExact', 'struct_reports_failing_member', 'A Struct reports exactly the error (class and path, unchanged) of the first member that fails, after all earlier members parsed.'),
        ('PathExact', 'sequence_reports_failing_member', 'The same for Sequence.'),
        ('PathExact', 'first_failure_member', 'That member is a member of the struct, and when it is named its name comes right after the entry path, followed by a chain of that member.'),
        ('PathExact', 'array_reports_failing_element', 'An Array reports exactly the error of one of its elements (parsed with its own _index), or its own RangeError at the entry path.'),
        ('PathExact', 'ex_shape_paths', 'For a concrete three-level shape: every error of every parse on any input names one of six listed member chains.'),
        ('PathFacts', 'renamed_appends_name', 'Renamed appends exactly its own name, for parse, build and sizeof.'),
        ('PathFacts', 'member_error_names_member', 'An error raised anywhere inside member n names n right after the enclosing path.'),
        ('PathFacts', 'entry_points_start_empty', 'The public entry points start from the empty member path (the operation marker is the caller\'s).'),
        ('PathFacts', 'eval_np', 'Errors of context expressions (foreign exceptions) carry no path.'),
    ],
    examples='''
Example C18_ex_nested :
  parse_bytes (CStruct [CRenamed [x61] (CFormat Big FB);
                        CRenamed [x64] (CStruct [CRenamed [x64] (CArray (XConst (VInt 2)) (CStruct [CRenamed [x6c] (CFormat Big FH)]))])]) []
              [x01; x00; x02; x00] = Err EStream (Some [[x64]; [x64]; [x6c]]) /\\
  sizeof (CStruct [CRenamed [x68] (CStruct [CRenamed [x65] (CIfThenElse (XItem (XRoot RThis) (KName [x6b])) (CFormat Big FB) (CFormat Big FH))])]) (top_ctx [] MSize) []
    = Err ESizeof (Some [[x68]; [x65]]).
Proof. split; vm_compute; reflexivity. Qed.
''')


PROPS['C16'] = dict(
    title='C16 - lazy parsing is observationally equal to eager parsing under any access order',
    requires=['ConInd', 'Lazy', 'FrameFacts', 'RTFacts'],
    prelude='Local Open Scope nat_scope.',
    theorems=[
        ('FrameFacts', 'parse_frame', 'For EVERY construct of the model (induction over all classes and loops, the lazy ones included): the stream a parse returns is the stream it was given with at most another position - same buffer, base offset and seekability.'),
        ('FrameFacts', 'lazy_force_restores', 'A deferred parse (Lazy()(), LazyContainer/LazyListContainer.__getitem__) of ANY construct leaves a seekable stream exactly as it found it.'),
        ('LazyFacts', 'lazy_access_restores', 'Every access to a lazy result leaves the stream exactly as it found it: the surrounding parse is not disturbed.'),
        ('LazyFacts', 'lazy_history_order_independent', 'For every lazy result and EVERY access history (any order, any repetitions, any length): each access returns what the first access of that member on the freshly parsed result returns, at the position the parse left; an access that raises raises what the fresh access raises.'),
        ('LazyFacts', 'lazy_value_history_independent', 'The same member accessed at any step of any two histories returns the same value.'),
        ('LazyFacts', 'lazy_history_positions', 'Every position reported along any history is the position the parse left.'),
        ('LazyFacts', 'lazy_parse_table_complete', 'A parsed lazy result has an offset for every member and one for the end, on the stream it was parsed from.'),
        ('LazyFacts', 'lazyarray_matches_array', 'Whenever the eager Array parses (element independent of _index, measured size = consumed size), LazyArray parses to the same final stream and every element, whenever first accessed, is the eager element.'),
        ('LazyFacts', 'lazystruct_matches_struct', 'Whenever the eager Struct parses (members that do not read the context, measured size = consumed size), LazyStruct parses to the same final stream and every member, whenever first accessed, is the value the eager parse gave it.'),
        ('FragLazy', 'frag_member_ok', 'The member hypothesis holds for EVERY construct of the closed sequential fragment with no Prefixed below its top (by three inductions over the syntax: it never reads the context; its static size, when it has one, is what parsing consumes on every input; a size it does not have is a SizeofError).'),
        ('FragLazy', 'prefixed_member_ok', 'And for a named Prefixed with an integer length field at the top of a member: the library measures its region (Renamed forwards _actualsize since fix F34).'),
        ('FragLazy', 'C16_lazystruct_closed', 'Hence, with no side condition left: for every list of such members (a decidable predicate), every input and every context, whenever Struct parses, LazyStruct parses to the same final stream and every member, whenever first accessed, is the eager value.'),
        ('FragLazy', 'frag_parse_size_exact', 'For the closed fragment without Prefixed: whenever sizeof answers n, every successful parse - of any input - consumes exactly n bytes. (False for Prefixed over a sized subcon on a longer region: that is how defect F34 and known finding K8 were found.)'),
        ('LazyFacts', 'member_ok_named_format', 'The member hypothesis holds for every named fixed-size Int*/Float*.'),
        ('LazyFacts', 'member_ok_named_varint', 'The member hypothesis holds for a named VarInt (not measurable: parsed at once and cached).'),
        ('LazyFacts', 'elem_ok_format', 'The element hypothesis holds for every fixed-size Int*/Float* (measured and skipped).'),
        ('LazyFacts', 'elem_ok_varint', 'The element hypothesis holds for VarInt (not measurable: parsed at once and cached).'),
    ],
    examples='''
Example C16_ex_history :
  lazy_run (CLazyStruct [CRenamed [x61] (CFormat Big FB); CRenamed [x62] CVarInt; CRenamed [x63] (CFormat Big FH)]) []
           [x07; x81; x02; x01; x00; xff] 0%N [2; 0; 1; 1; 2; 0]
  = Ok (5%Z, [LVal (VInt 256) 5; LVal (VInt 7) 5; LVal (VInt 257) 5; LVal (VInt 257) 5; LVal (VInt 256) 5; LVal (VInt 7) 5]).
Proof. vm_compute. reflexivity. Qed.

Example C16_ex_array :
  lazy_run (CLazyArray (XConst (VInt 3)) CVarInt) [] [x81; x01; x05; xff; x7f] 0%N [2; 0; 2; 1]
  = Ok (5%Z, [LVal (VInt 16383) 5; LVal (VInt 129) 5; LVal (VInt 16383) 5; LVal (VInt 5) 5]).
Proof. vm_compute. reflexivity. Qed.
''')


PROPS['C17'] = dict(
    title='C17 - constructs are stateless: results do not depend on call history or entry point',
    requires=['History'],
    requires_gen=['Effects'],
    prelude='Local Open Scope nat_scope.',
    theorems=[
        ('HistoryFacts', 'effects_ok', 'Over the write-effect summaries REGENERATED FROM THE CURRENT SOURCE (every method of every Construct / expression class except construction-time ones, every module-level function): nothing writes an attribute of self, a class attribute, a module global, a mutable default or through a caching decorator, except Rebuffered.stream2, Debugger.retval and three print-option setters that nothing in the package calls.'),
        ('HistoryFacts', 'effects_cover', 'The regenerated table has at least 400 rows (the translator aborts below its own thresholds as well).'),
        ('HistoryFacts', 'history_frame', 'For ANY admissible summary table and ANY history of executions within their summaries: every non-exempt part of every object is what it was.'),
        ('HistoryFacts', 'C17_objects_unchanged', 'The instance for the table of the current source: after any history of calls - any length, order, successful or failing - every construct object of the pool is unchanged outside the two documented attributes.'),
        ('HistoryFacts', 'C17_results_history_independent', 'Whatever is computed from that state is the same after any history as before it.'),
        ('HistoryFacts', 'C17_results_same_at_every_point', '... and the same at any two points of one history.'),
        ('HistoryFacts', 'C17_any_schedule', 'Any interleaving of the histories of any number of workers is again such a history: the pool is unchanged under every schedule.'),
    ],
    examples='''
Example C17_ex_history :
  let st : store := fun _ _ => None in
  let h := [mkEv 1 n_Struct n_parse_ []; mkEv 2 n_Rebuffered n_parse_ [(d_stream2, Some (VInt 5))]; mkEv 1 n_Struct n_parse_ []] in
  forallb (event_in effects) h = true /\\ run h st 2 d_stream2 = Some (VInt 5) /\\ exempt d_stream2 = true /\\
  event_in effects (mkEv 1 n_Struct n_parse_ [([x73; x65; x6c; x66; x2e; x78], Some (VInt 1))]) = false.
Proof. vm_compute. repeat split. Qed.
''')


PROPS['C04'] = dict(
    title='C04 - a compiled construct behaves exactly like the construct it was compiled from',
    requires=['ConInd', 'Compiled', 'RTFacts'],
    prelude='Local Open Scope nat_scope.',
    theorems=[
        ('CompiledFacts', 'compiled_parse_agrees', 'For EVERY construct of the fragment cfrag (every emitted leaf with ANY context expressions; every class without an emitter; closed under Struct, Sequence, FocusedSeq, Union(None), IfThenElse, Switch, Renamed, Const, Rebuild, Default, Enum, Mapping, Hex, HexDump, Pointer, Prefixed, FixedSized, Array, RepeatUntil, Padded, Aligned to any depth): on every input on which the interpreter parses, the emitted code returns the same value and the same final stream.'),
        ('CompiledFacts', 'compiled_build_agrees', 'Likewise for building over the fragment bfrag: whenever the interpreter builds, the emitted code writes the same stream and returns the same value.'),
        ('CompiledFacts', 'cread_iread', 'io.read(n) of the emitted code returns what the checked stream_read returns whenever that succeeds.'),
        ('CompiledFacts', 'eval_set_index', 'An expression that does not name _index evaluates identically whether or not the loop maintains _index (the emitted loops do not).'),
        ('CompiledFacts', 'pred_index_free_no_index', 'Hence every RepeatUntil predicate that does not name _index satisfies the side condition.'),
        ('CompiledFacts', 'index_free_bytes', 'Side condition instance: Bytes(e) with e not naming _index.'),
        ('IndexFacts', 'parse_index_irrelevant', 'For EVERY construct of the fragment ixfrag (no Index field, no expression naming _index; closed under every adapter, Struct, Sequence, FocusedSeq, IfThenElse, Switch, Array, GreedyRange, RepeatUntil, Padded, Aligned, Pointer, Peek, RawCopy, Prefixed, FixedSized, NullTerminated, NullStripped to any depth): parsing in two contexts that differ only in their _index entries gives the same result.'),
        ('IndexFacts', 'ixfrag_index_free', 'Hence the index side condition of Array / RepeatUntil holds for every element of that fragment, of any depth.'),
        ('IndexFacts', 'cfrag_array', 'Array(e, c) is in the compiled fragment whenever c is and c never names _index.'),
        ('IndexFacts', 'cfrag_until', 'Likewise RepeatUntil(pred, c).'),
        ('CompiledFacts', 'size_exact_format', 'Side condition instance: the static size of an Int*/Float* is what it consumes.'),
        ('CompiledFacts', 'bsize_exact_format', 'Side condition instance (build): an Int*/Float* writes exactly its static size.'),
        ('CompiledFacts', 'ex_compilable_in_fragment', 'A struct with a context-sized field, a counted array with an arithmetic count, Padded, a self-including Prefixed, RepeatUntil and IfThenElse over VarInt is in the fragment with every side condition discharged.'),
        ('CompiledFacts', 'ex_buildable_in_fragment', 'A struct with Rebuild(len_), context-sized Bytes, Array, Padded, Const and Enum is in the build fragment.'),
    ],
    examples='''
Example C04_ex_parse :
  let data := [x02; x41; x42; x01; x00; x02; x00; x07; x00; x00; x00; x03; x58; x59; x05; x00; x81; x01] in
  parse_at ex_compilable [] data 0%N = cparse_at ex_compilable [] data 0%N /\\
  exists v, parse_at ex_compilable [] data 0%N = Ok (v, 18%Z).
Proof. split; [vm_compute; reflexivity|eexists; vm_compute; reflexivity]. Qed.

(* the emitted code is NOT the interpreter: on truncated input it reads short where the interpreter raises *)
Example C04_ex_differs_outside :
  parse_at (CBytes (XConst (VInt 4))) [] [x01; x02] 0%N = Err EStream (Some []) /\\
  cparse_at (CBytes (XConst (VInt 4))) [] [x01; x02] 0%N = Ok (VBytes [x01; x02], 2%Z).
Proof. split; vm_compute; reflexivity. Qed.
''')


PROPS['C19'] = dict(
    title='C19 - KSY export describes the same byte layout the construct parses',
    requires=['Ksy', 'RTFacts', 'DepRT', 'KsyGen'],
    prelude='Local Open Scope nat_scope.',
    theorems=[
        ('KsyFacts', 'ksy_emit_flat', 'For EVERY Struct of named flat members (any Int*/Float*, Bytes of constant size, Flag, VarInt, GreedyBytes, bytes Const, counted Array of Int*/Float*; any number, any order): the schema the exporter ladder produces is exactly one field per member, in declaration order, with the expected type / size / contents / repeat keys and no helper types.'),
        ('KsyFacts', 'ksy_ids_in_declaration_order', 'The sequence lists the members in declaration order under the same identifiers.'),
        ('KsyFacts', 'read_prim_format', 'The schema type of an Int*/Float* (uNle/sNbe/fNle...) read with its Kaitai meaning is what FormatField parses, for every width, signedness, byte order.'),
        ('KsyFacts', 'ifield_flat', 'Every flat member: whatever the construct parses at any position, the schema field reads the same bytes to the same value (a constant to its bytes).'),
        ('KsyFacts', 'ksy_describes_flat_struct', 'For every such Struct and EVERY byte string it parses: reading the emitted schema succeeds and assigns every field the same identifier, the same byte extent and the same value as the construct.'),
        ('KsyFacts', 'ex_flat_members', 'The hypothesis is satisfiable: a struct with every flat kind.'),
        ('KsyNest', 'ksy_describes_nested_struct', 'NESTED structs: for every Struct whose named members are flat fields or, to any depth up to 20 (the fuel of the reference reading), Structs of such members, and EVERY byte string it parses: the exporter succeeds, and reading the emitted schema assigns every field, at every level, the same identifier, the same byte extent and the same value as the construct (a nested Struct: the dictionary of its records).'),
        ('KsyNest', 'emit_nested', 'Emission of a member from ANY generator state: the helper types are appended (older entries are never disturbed), every new type is named type_<k> with a fresh k, and the emitted field describes the member under the resulting type table.'),
        ('KsyNest', 'tname_inj', 'Helper type names are injective in the allocated id (decimal printing has a left inverse), so a later type never shadows an earlier one in the lookup.'),
        ('KsyNest', 'read_nested', 'Reading: whatever a described member parses at any position, the schema field reads the same bytes to the related value, with fuel 2 + 3 * depth.'),
        ('KsyNest', 'struct_layout', 'The dictionary a Struct returns is its layout records, in order.'),
        ('KsyNest', 'ex_nested_members', 'Non-vacuity: records inside records inside a header.'),
        ('KsyDep', 'ksy_describes_dependent_struct', 'DEPENDENT layouts: Structs (nested to depth 20) whose members are flat fields, integer fields and fields SIZED by an earlier integer field of the same Struct - Bytes(this.n), Array(this.n, x) with x an integer or float field. The exporter writes the size expression into the schema; reading it evaluates the expression in the scope the earlier fields were read into, which holds the same integers as the scope the construct parsed them into: same identifiers, extents and values at every level, for every input the construct parses.'),
        ('KsyDep', 'read_dep', 'Reading a member of the dependent fragment under two scopes that know the same integers.'),
        ('KsyDep', 'leaf_read', 'A field sized by a known integer reads like the field with that size written out.'),
        ('KsyDep', 'emit_dependent', 'The emission theorem (proved in KsyGen generically in the kind of leaf member) for constant-size fields and fields sized by an expression: fresh helper type names, never shadowed, and the emitted field describes the member.'),
        ('KsyDep', 'ex_kdep_members', 'Non-vacuity: a header with a length and a count, a payload and samples sized by them, a nested record with its own length - in the dependent fragment, outside the constant one.'),
        ('KsyDep', 'ex_kdep_runs', 'Its schema reads an input to the same six top-level records (kernel-evaluated).'),
        ('KsyNest', 'ex_nested_runs', 'Its schema has three helper types and reads an input to the same four top-level records (kernel-evaluated).'),
    ],
    examples='''
Example C19_ex_flat :
  let data := [x01; x02; x3f; xf8; x00; x00; x00; x00; x00; x00; x41; x42; x05; x81; x01; x4d; x5a; xff; xfe; x00; x03; x09] in
  exists sch, ksy_emit ex_flat = Some sch /\\
    map (fun r => fst (fst r)) match ksy_interp sch [] data with Ok r => r | Err _ _ => [] end =
    map (fun r => fst (fst r)) match ksy_layout ex_flat [] data with Ok r => r | Err _ _ => [] end /\\
    length match ksy_layout ex_flat [] data with Ok r => r | Err _ _ => [] end = 8.
Proof. eexists. split; [vm_compute; reflexivity|]. split; vm_compute; reflexivity. Qed.

(* the ladder: a nested Struct becomes a helper type allocated by the id counter, registered after the types nested in it *)
Example C19_ex_nested_types :
  match ksy_emit (CStruct [CRenamed [x61] (CStruct [CRenamed [x62] (CStruct [CRenamed [x63] (CFormat Big FB)])]); CRenamed [x64] (CFormat Big FB)]) with
  | Some (KSchema sq ts es) => map fst ts = [[x74; x79; x70; x65; x5f; x32]; [x74; x79; x70; x65; x5f; x31]] /\\ length sq = 2
  | None => False
  end.
Proof. vm_compute. split; reflexivity. Qed.
''')
