"""Schema of the model types that cross the boundary between the Python harness and the extracted
OCaml model.  One table drives: the generated OCaml s-expression converters (gen_conv.py, type-checked
by ocamlopt against the extracted model), the Python serializer/parser (sexp.py) and the Coq-syntax
printer used in replay files.

Type expressions: 'Z' 'N' 'nat' 'bool' 'bytes' 'byte'  |  ('list', T) | ('option', T) | ('pair', A, B)
| the name of an inductive type below.
"""

L = lambda t: ('list', t)
O = lambda t: ('option', t)
P = lambda a, b: ('pair', a, b)

NAME = 'bytes'
KW = L(P(NAME, 'val'))

ERRS = """EStream EFormatField EInteger EString EMapping ERange ERepeat EConst EIndexField
ECheck EExplicit EUnion ESelect ESwitch EStopField EPadding ETerminated ERawCopy
ERotation EChecksum ESizeof EValidation EAdaptation ECancel EConstruct
EKey EType EAttr EValue EIndexErr EZeroDiv EOverflow EForeign
EDiverge EUnsupported""".split()

TYPES = {
    'val': [
        ('VNone', []), ('VBool', ['bool']), ('VInt', ['Z']), ('VFloat', ['N']), ('VBytes', ['bytes']),
        ('VStr', [L('N')]), ('VList', [L('val')]), ('VDict', [KW]), ('VEnum', [NAME, 'Z']),
    ],
    'err': [(e, []) for e in ERRS],
    'binop': [(o, []) for o in 'OAdd OSub OMul OTrueDiv OFloorDiv OMod OPow OXor OLshift ORshift OAnd OOr OGt OGe OLt OLe OEq ONe OContains'.split()],
    'unop': [(o, []) for o in 'UNeg UPos UNot'.split()],
    'func': [(o, []) for o in 'FLen FSum FMin FMax FAbs'.split()],
    'rootname': [('RThis', []), ('RObj', [])],
    'key': [('KName', [NAME]), ('KIdx', ['Z'])],
    'expr': [
        ('XRoot', ['rootname']), ('XList', []), ('XItem', ['expr', 'key']), ('XConst', ['val']),
        ('XBin', ['binop', 'expr', 'expr']), ('XUn', ['unop', 'expr']), ('XFunc', ['func', 'expr']),
    ],
    'pname': [('NThis', []), ('NObj', []), ('NLst', []), ('NFunc', ['func']), ('NTrue', []), ('NFalse', []), ('NNone', [])],
    'tok': [('TLP', []), ('TRP', []), ('TLB', []), ('TRB', []), ('TOp', ['binop']), ('TNot', []), ('TName', ['pname']),
            ('TInt', ['N']), ('TStr', [L('N')]), ('TBytes', ['bytes'])],
    'endian': [('Big', []), ('Little', [])],
    'fcode': [(o, []) for o in 'FB FH FL FQ Fb Fh Fl Fq Fe Ff Fd'.split()],
    'bfun': [(o, []) for o in 'BFbytes2bits BFbits2bytes BFswapbytes BFswapbitsinbytes'.split()],
    'sizefun': [(o, []) for o in 'SFdiv8 SFmul8 SFid SFnone'.split()],
    'hashfun': [(o, []) for o in 'HSum8 HXor8 HLen'.split()],
    'unionsel': [('USNone', []), ('USIndex', ['Z']), ('USName', [NAME])],
    'encoding': [(o, []) for o in 'EncAscii EncUtf8 EncUtf16 EncUtf16le EncUtf16be EncUtf32 EncUtf32le EncUtf32be'.split()],
    'con': [
        ('CFormat', ['endian', 'fcode']),
        ('CBytesInt', ['expr', 'bool', 'bool']),
        ('CBitsInt', ['expr', 'bool', 'bool']),
        ('CVarInt', []), ('CZigZag', []),
        ('CBytes', ['expr']), ('CGreedyBytes', []), ('CFlag', []), ('CPass', []), ('CTerminated', []),
        ('CError', []), ('CTell', []), ('CIndex', []),
        ('CComputed', ['expr']), ('CCheck', ['expr']), ('CStopIf', ['expr']), ('CSeek', ['expr', 'expr']),
        ('CStringEncoded', ['con', 'encoding']),
        ('CEnum', ['con', L(P(NAME, 'Z'))]), ('CFlagsEnum', ['con', L(P(NAME, 'Z'))]),
        ('CMapping', ['con', L(P('val', 'val'))]),
        ('CHex', ['con']), ('CHexDump', ['con']),
        ('CExprValidator', ['con', 'expr']), ('COneOf', ['con', L('val')]), ('CNoneOf', ['con', L('val')]),
        ('CExprAdapter', ['con', 'expr', 'expr']),
        ('CStruct', [L('con')]), ('CSequence', [L('con')]), ('CFocusedSeq', [NAME, L('con')]),
        ('CUnion', ['unionsel', L('con')]), ('CSelect', [L('con')]),
        ('CIfThenElse', ['expr', 'con', 'con']), ('CSwitch', ['expr', L(P('val', 'con')), 'con']),
        ('CArray', ['expr', 'con']), ('CGreedyRange', ['con']), ('CRepeatUntil', ['expr', 'con']),
        ('CRenamed', [NAME, 'con']), ('CConst', ['val', 'con']), ('CRebuild', ['con', 'expr']),
        ('CDefault', ['con', 'expr']),
        ('CPadded', ['expr', 'con', 'byte']), ('CAligned', ['expr', 'con', 'byte']),
        ('CPointer', ['expr', 'con']), ('CPeek', ['con']), ('COffsettedEnd', ['expr', 'con']),
        ('CRawCopy', ['con']),
        ('CPrefixed', ['con', 'con', 'bool']), ('CFixedSized', ['expr', 'con']),
        ('CNullTerminated', ['con', 'bytes', 'bool', 'bool', 'bool']), ('CNullStripped', ['con', 'bytes']),
        ('CTransformed', ['con', 'bfun', O('Z'), 'bfun', O('Z')]),
        ('CRestreamed', ['con', 'bfun', 'Z', 'bfun', 'Z', 'sizefun']),
        ('CProcessXor', ['expr', 'con']), ('CProcessRotl', ['expr', 'expr', 'con']),
        ('CChecksum', ['con', 'hashfun', 'expr']),
        ('CLazy', ['con']), ('CLazyStruct', [L('con')]), ('CLazyArray', ['expr', 'con']),
    ],
    'kprim': [('KPInt', ['bool', 'N', 'bool']), ('KPFloat', ['N', 'bool']), ('KPBits', ['Z']), ('KPVlq', [])],
    'ksize': [('KSInt', ['Z']), ('KSExpr', ['expr']), ('KSName', [NAME])],
    'ktype': [('KTPrim', ['kprim']), ('KTUser', [NAME]), ('KTStr', []), ('KTStrz', []), ('KTSwitch', ['expr', 'ktype', 'ktype']), ('KTMissing', [])],
    'krepeat': [('KRNone', []), ('KRExpr', ['ksize']), ('KREos', []), ('KRUntil', ['expr'])],
    'kfield': [('KField', [O(NAME), O('ktype'), O('ksize'), 'bool', O('bytes'), 'krepeat', O('expr'),
                           O(P('byte', P('bool', P('bool', 'bool')))), O('byte'), O('encoding'), O(NAME), 'bool'])],
    'kschema': [('KSchema', [L('kfield'), L(P(NAME, L('kfield'))), L(P(NAME, L(P('Z', NAME))))])],
    'request': [
        ('RParse', ['con', KW, 'bytes', 'N']),
        ('RBuild', ['con', 'val', KW]),
        ('RSizeof', ['con', KW]),
        ('REval', ['expr', KW]),
        ('RHexdump', ['bytes', 'N']),
        ('RHexundump', ['bytes', 'N']),
        ('RCops', [L('cop')]),
        ('RLazy', ['con', KW, 'bytes', 'N', L('nat')]),
        ('RCParse', ['con', KW, 'bytes', 'N']),
        ('RCBuild', ['con', 'val', KW]),
        ('RKsyEmit', ['con']),
        ('RKsyInterp', ['kschema', KW, 'bytes']),
        ('RKsyLayout', ['con', KW, 'bytes']),
        ('RExprPrint', ['expr']),
        ('RExprRead', [L('tok')]),
    ],
    'lout': [('LVal', ['val', 'Z']), ('LErr', ['err'])],
    'step': [('SKey', [NAME]), ('SIdx', ['nat'])],
    'cop': [
        ('CNew', ['val']), ('CCopy', ['nat']), ('CDeepcopy', ['nat']), ('CPickle', ['nat']),
        ('CSet', ['nat', L('step'), NAME, 'val']), ('CDel', ['nat', L('step'), NAME]), ('CAppend', ['nat', L('step'), 'val']),
        ('CObserve', ['nat']), ('CAttr', ['nat', L('step'), NAME]), ('CEq', ['nat', 'nat']),
    ],
    'cout': [('OVal', ['val']), ('OBool', ['bool']), ('OFail', [])],
    'response': [
        ('ROkParse', ['val', 'Z']),
        ('ROkBuild', ['val', 'bytes']),
        ('ROkSize', ['Z']),
        ('ROkVal', ['val']),
        ('ROkBytes', ['bytes']),
        ('ROuts', [L('cout')]),
        ('ROkLazy', ['Z', L('lout')]),
        ('ROkKsy', [O('kschema')]),
        ('ROkFields', [L(P(P(P(O(NAME), 'Z'), 'Z'), 'val'))]),
        ('ROkToks', [O(L('tok'))]),
        ('ROkExpr', [O('expr')]),
        ('RErr', ['err', O(L(NAME))]),
    ],
}

# OCaml names of the extracted types where extraction renames them
OCAML_TYPE = {'val': 'val0'}
