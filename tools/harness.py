"""Correspondence harness: run the same cases on /repo's construct and on the extracted Coq model
and compare the observable behaviour.

A case is a dict:
  src   : Python source of the construct (evaluated in namespace()); the model term is obtained by
          reifying the resulting live object, never written by hand
  op    : 'parse' | 'build' | 'sizeof'
  kw    : keyword context (dict of plain values)
  data  : bytes (parse), start: int
  obj   : plain Python value (build)
"""
import os, sys, subprocess, time, enum, hashlib, zlib, random, json, traceback
from concurrent.futures import ProcessPoolExecutor
from concurrent.futures.process import BrokenProcessPool

HERE = os.path.dirname(os.path.abspath(__file__))
ROOT = os.path.dirname(HERE)
sys.path.insert(0, HERE)
REPO = os.environ.get('VERIF_REPO', '/repo')
if REPO not in sys.path:
    sys.path.insert(0, REPO)

import sexp
import reify as R
import impl as I

DRIVER = os.path.join(ROOT, 'coq', 'extract', 'driver')
WORKERS = int(os.environ.get('VERIF_WORKERS', '16'))

_NS = None


def sum8(d):
    return sum(d) & 255


def xor8(d):
    x = 0
    for b in d:
        x ^= b
    return x


# C17: a pool of constructs that share members by object identity
POOL_DEFS = '''
S0 = Struct("n"/Byte, "d"/Bytes(this.n))
S1 = Struct("k"/Int16ub, "v"/Bytes(this._params.n))
S2 = PrefixedArray(Byte, S0)
S3 = Struct("a"/S0, "b"/S0, "c"/Array(2, S0))
S4 = Sequence(S0, S1, VarInt)
S5 = Union(0, "x"/Int16ub, "y"/Bytes(2))
S6 = GreedyRange(S0)
S7 = Switch(this._params.n, {1: S0, 2: S1})
S8 = LazyStruct("a"/S0, "b"/Byte)
S9 = LazyArray(2, S0)
S10 = Struct("h"/S0, "t"/OneOf(Byte, [1, 7, 255]), "z"/Array(1, S1))
S11 = Select(Prefixed(Byte, S0), S0)
S12 = Prefixed(Byte, Struct("a"/Byte, "b"/Byte, "c"/S0))
S13 = Struct("p"/S12, "q"/S12, "t"/Byte)
S14 = Select(Int8ub, Int16ub, Int32ub)
S15 = Struct("o"/Optional(Int16ub), "s"/S14, "r"/Optional(S0))
S16 = Struct("k"/Byte, "d"/ProcessXor(this.k, Bytes(3)), "e"/ProcessRotateLeft(this.k, 2, Bytes(2)))
S17 = Struct("n"/Byte, "d"/ProcessXor(b"\\x01\\x02\\x04", Bytes(this.n)), "e"/ProcessXor(b"\\x10\\x20", Prefixed(Byte, GreedyBytes)), "f"/ProcessRotateLeft(5, 3, Bytes(3)))
S18 = BitStruct("u"/BitsInteger(4), "s"/BitsInteger(4, signed=True))
S19 = Struct("g"/Byte, "a"/Byte, "d"/ProcessRotateLeft(this.a, this.g, Bytes(this.g * 2)))
S20 = ProcessRotateLeft(4, 4, Bytes(4))
S21 = ProcessRotateLeft(4, 2, Bytes(4))
S22 = ProcessRotateLeft(12, this._params.n + 1, Bytes(12))
'''
POOL_NAMES = ['S%d' % i for i in range(23)]


def namespace():
    global _NS
    if _NS is None:
        import construct, construct.lib
        ns = {}
        exec('from construct import *\nfrom construct.lib import *', ns)

        class E(enum.IntEnum):
            one = 1
            two = 2
            big = 300

        class F(enum.IntFlag):
            a = 1
            b = 2
            c = 8
        class Z(enum.IntEnum):          # with a member equal to 0, and one that is a combination of others
            none = 0
            read = 1
            write = 2
            rw = 3
            hi = 0x80
        ns.update(E=E, F=F, Z=Z, sum8=sum8, xor8=xor8, len=len)
        exec(POOL_DEFS, ns)
        R.HASHES[id(sum8)] = 'HSum8'
        R.HASHES[id(xor8)] = 'HXor8'
        R.HASHES[id(len)] = 'HLen'
        _NS = ns
    return _NS


_CACHE = {}


def get_construct(src):
    """-> (object, term or None, reason)"""
    if src not in _CACHE:
        c = eval(src, namespace())
        try:
            term, why = R.reify(c), None
        except R.Unsupported as e:
            term, why = None, str(e)
        _CACHE[src] = (c, term, why)
        if len(_CACHE) > 20000:
            _CACHE.clear()
            _CACHE[src] = (c, term, why)
    return _CACHE[src]


def core_ConstructError():
    import construct
    return construct.core.ConstructError


def eval_case(case):
    """worker side: -> (request sexp or None, skip reason, impl response term or None)"""
    if case['op'] in ('hexdump', 'hexundump'):
        ls = case['linesize']
        if case['op'] == 'hexdump':
            return (sexp.to_sexp('request', ('RHexdump', case['data'], ls)), None, I.run_hexdump(case['data'], ls))
        return (sexp.to_sexp('request', ('RHexundump', case['data'], ls)), None, I.run_hexundump(case['data'], ls))
    if case['op'] in ('ksy_emit', 'ksy_interp', 'ksy_layout'):
        import ksy as K
        try:
            c, term, why = get_construct(case['src'])
        except Exception as e:
            return (None, 'construct expression raised %s: %s' % (type(e).__name__, e), None)
        if term is None:
            return (None, 'reify: ' + why, None)
        try:
            R.check_macro_shapes(c)
            try:
                schema = K.export(c)
            except (core_ConstructError(), NotImplementedError, AssertionError):
                schema = None
            if case['op'] == 'ksy_emit':
                real = K.norm_schema_term(K.schema_term(schema)) if schema is not None else None
                return (sexp.to_sexp('request', ('RKsyEmit', term)), None, ('ROkKsy', None if real is None else ('Some', real)))
            kwt = R.kw_term(case.get('kw', {}))
            if case['op'] == 'ksy_layout':
                try:
                    lay = K.fields_term(K.layout(c, case['data'], case.get('kw', {})))
                    resp = ('ROkFields', lay)
                except Exception as e:
                    resp = I.err_term(e)
                return (sexp.to_sexp('request', ('RKsyLayout', term, kwt, case['data'])), None, resp)
            if schema is None:
                return (None, 'not exportable', None)
            st = K.schema_term(schema)
            try:
                resp = ('ROkFields', K.fields_term(K.interpret(schema, case['data'], case.get('kw', {}))))
            except (K.KsyError, RecursionError):
                resp = ('RErr', ('EStream',), None)
            return (sexp.to_sexp('request', ('RKsyInterp', st, kwt, case['data'])), None, resp)
        except R.Unsupported as ex:
            return (None, 'reify: ' + str(ex), None)
    if case['op'] == 'expr_print':
        import pyexpr as PX
        try:
            e = eval(case['src'], namespace())
        except Exception as ex:
            return (None, 'expression raised %s' % type(ex).__name__, None)
        try:
            term = R.reify_operand(e)
            toks = PX.tokens_of(repr(e))
        except R.Unsupported as ex:
            return (None, 'reify: ' + str(ex), None)
        return (sexp.to_sexp('request', ('RExprPrint', term)), None, ('ROkToks', ('Some', toks)))
    if case['op'] == 'expr_read':
        import pyexpr as PX
        try:
            toks = PX.tokens_of(case['src'])
        except R.Unsupported as ex:
            return (None, 'tokens: ' + str(ex), None)
        return (sexp.to_sexp('request', ('RExprRead', toks)), None, ('ROkExpr', PX.ast_term(case['src'])))
    if case['op'] == 'cops':
        try:
            req = ('RCops', [I.cop_term(o) for o in case['ops']])
        except R.Unsupported as ex:
            return (None, 'reify: ' + str(ex), None)
        return (sexp.to_sexp('request', req), None, I.run_cops(case['ops']))
    if case['op'] == 'eval':
        try:
            e = eval(case['src'], namespace())
        except Exception as ex:
            return (None, 'expression raised %s' % type(ex).__name__, None)
        try:
            kw = case.get('kw', {})
            if case.get('containers'):
                kw = {k: I.to_container(v) for k, v in kw.items()}
            req = ('REval', R.reify_operand(e), R.kw_term(kw))
            resp = I.run_eval(e, kw)
        except R.Unsupported as ex:
            return (None, 'reify: ' + str(ex), None)
        return (sexp.to_sexp('request', req), None, resp)
    try:
        c, term, why = get_construct(case['src'])
    except Exception as e:
        return (None, 'construct expression raised %s: %s' % (type(e).__name__, e), None)
    if term is None:
        return (None, 'reify: ' + why, None)
    op = case['op']
    kw = case.get('kw', {})
    try:
        kwt = R.kw_term(kw)
        if op == 'parse':
            req = ('RParse', term, kwt, case['data'], case.get('start', 0))
            resp = I.run_parse(c, kw, case['data'], case.get('start', 0))
        elif op == 'build':
            req = ('RBuild', term, R.to_val(case['obj']), kwt)
            resp = I.run_build(c, case['obj'], kw)
        elif op == 'sizeof':
            req = ('RSizeof', term, kwt)
            resp = I.run_sizeof(c, kw)
        elif op in ('cparse', 'cbuild'):
            R.no_emit_override(c)
            if op == 'cparse':
                req = ('RCParse', term, kwt, case['data'], case.get('start', 0))
                resp = I.run_cparse(c, kw, case['data'], case.get('start', 0))
            else:
                req = ('RCBuild', term, R.to_val(case['obj']), kwt)
                resp = I.run_cbuild(c, case['obj'], kw)
        elif op == 'lazy':
            req = ('RLazy', term, kwt, case['data'], case.get('start', 0), list(case['history']))
            resp = I.run_lazy(c, kw, case['data'], case.get('start', 0), case['history'])
        else:
            return (None, 'op ' + op, None)
    except R.Unsupported as e:
        return (None, 'value: ' + str(e), None)
    return (sexp.to_sexp('request', req), None, resp)


def _chunk_eval(cases):
    return [eval_case(c) for c in cases]


def run_model(lines):
    """lines: list of '<id> <sexp>' -> dict id -> response term"""
    if not lines:
        return {}
    p = subprocess.run(['bash', '-c', 'ulimit -s 1000000 2>/dev/null; exec "$0"', DRIVER],
                       input=('\n'.join(lines) + '\n').encode(), stdout=subprocess.PIPE, stderr=subprocess.PIPE)
    if p.returncode != 0:
        raise RuntimeError('model driver failed: %s' % p.stderr.decode()[-500:])
    out = {}
    for ln in p.stdout.decode().splitlines():
        i, _, rest = ln.partition(' ')
        out[i] = sexp.from_sexp('response', rest)
    return out


def norm(resp):
    if resp[0] == 'ROkParse':
        return ('ROkParse', R.strip_private(resp[1]), resp[2])
    if resp[0] == 'ROkBuild':
        return ('ROkBuild', R.strip_private(resp[1]), resp[2])
    if resp[0] == 'ROkVal':
        return ('ROkVal', R.strip_private(resp[1]))
    if resp[0] == 'ROkKsy':
        import ksy as K
        return ('ROkKsy', None if resp[1] is None else ('Some', K.norm_schema_term(resp[1][1])))
    if resp[0] == 'ROkFields':
        return ('ROkFields', [(((a, b), c), R.strip_private(v)) for ((a, b), c), v in resp[1]])
    if resp[0] == 'ROkLazy':
        return ('ROkLazy', resp[1], [(o[0], R.strip_private(o[1]), o[2]) if o[0] == 'LVal' else o for o in resp[2]])
    return resp


def compare(model, impl_, strict_err=True):
    """-> ('ok'|'skip'|'diff', detail)"""
    if model[0] == 'Crash':
        return ('skip', 'model crash ' + str(model[1]))
    if model[0] == 'RErr' and model[1][0] == 'EUnsupported':
        return ('skip', 'model: outside the model')
    if model[0] == 'RErr' and model[1][0] == 'EDiverge':
        if impl_[0] == 'RErr' and impl_[1][0] == 'EDiverge':
            return ('ok', 'both diverge')
        return ('skip', 'model fuel exhausted')
    m, i = norm(model), norm(impl_)
    if m == i:
        return ('ok', '')
    if m[0] == 'RErr' and i[0] == 'RErr' and not strict_err:
        if m[1] == i[1]:
            return ('ok', 'path differs')
    return ('diff', 'model=%s impl=%s' % (show(m), show(i)))


def show(t, lim=400):
    s = repr(t)
    return s if len(s) <= lim else s[:lim] + '...'


def run_cases(cases, strict_err=True, pool=None):
    """-> dict(results=[(case, status, detail, model, impl)], counts)"""
    t0 = time.time()
    n = len(cases)
    chunks = [cases[i:i + 200] for i in range(0, n, 200)]
    own = pool is None
    if own and n > 400:
        pool = ProcessPoolExecutor(max_workers=WORKERS)
    if pool is not None:
        try:
            evald = [x for ch in pool.map(_chunk_eval, chunks) for x in ch]
        except BrokenProcessPool:
            # a worker was killed from outside (memory pressure when many checks share the machine): once more with a quarter of the workers;
            # a second failure is reported as it is
            if not own:
                raise
            pool.shutdown(wait=False)
            pool = ProcessPoolExecutor(max_workers=max(2, WORKERS // 4))
            evald = [x for ch in pool.map(_chunk_eval, chunks) for x in ch]
    else:
        evald = [x for ch in chunks for x in _chunk_eval(ch)]
    if own and pool is not None:
        pool.shutdown()
    lines = []
    for k, (req, why, resp) in enumerate(evald):
        if req is not None:
            lines.append('%d %s' % (k, req))
    model = run_model(lines)
    results = []
    counts = {'ok': 0, 'skip': 0, 'diff': 0}
    for k, (case, (req, why, resp)) in enumerate(zip(cases, evald)):
        if req is None:
            results.append((case, 'skip', why, None, resp))
            counts['skip'] += 1
            continue
        m = model.get(str(k))
        if m is None:
            results.append((case, 'skip', 'no model output', None, resp))
            counts['skip'] += 1
            continue
        st, detail = compare(m, resp, strict_err)
        counts[st] += 1
        results.append((case, st, detail, m, resp))
    return dict(results=results, counts=counts, wall=time.time() - t0)


if __name__ == '__main__':
    # smoke test
    cases = [
        dict(src='Struct("a"/Int16ub, "b"/Bytes(this.a))', op='parse', data=b'\x00\x03abcd'),
        dict(src='VarInt', op='build', obj=300),
        dict(src='Bytes(this.n)', op='sizeof', kw={}),
        dict(src='PascalString(Byte, "utf8")', op='parse', data=b'\x03abcd'),
        dict(src='Struct("a"/Int16ub, "b"/Bytes(this.a))', op='build', obj=dict(a=3, b=b'abc')),
    ]
    r = run_cases(cases)
    for case, st, detail, m, i in r['results']:
        print(st, case['src'], case['op'], detail, m if st != 'ok' else '')
    print(r['counts'])
