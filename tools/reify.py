"""Reify live construct objects (from /repo) into model terms.  Fail-closed: anything the model does
not represent raises Unsupported, which the harness counts and reports, never guesses."""
import operator, struct, sys
import construct
from construct import core, expr as cexpr
from construct.lib import containers as ccont, hex as chex


class Unsupported(Exception):
    pass


def name_bytes(s):
    if not isinstance(s, str):
        raise Unsupported('non-str name %r' % (s,))
    try:
        b = s.encode('ascii')
    except UnicodeEncodeError:
        raise Unsupported('non-ascii name')
    return b


# ---------------- values ----------------

def to_val(v, force=True, depth=0):
    """Python value -> model val term."""
    if depth > 60:
        raise Unsupported('value too deep')
    if v is None:
        return ('VNone',)
    if isinstance(v, bool):
        return ('VBool', v)
    if isinstance(v, core.EnumIntegerString):
        return ('VEnum', name_bytes(str(v)), int(v.intvalue))
    if isinstance(v, int):
        return ('VInt', int(v))
    if isinstance(v, float):
        return ('VFloat', struct.unpack('>Q', struct.pack('>d', v))[0])
    if isinstance(v, (bytes, bytearray)):
        return ('VBytes', bytes(v))
    if isinstance(v, str):
        return ('VStr', [ord(c) for c in v])
    if isinstance(v, core.LazyContainer):
        return ('VDict', [(name_bytes(k), to_val(v[k], force, depth + 1)) for k in v.keys()])
    if isinstance(v, core.LazyListContainer):
        return ('VList', [to_val(v[i], force, depth + 1) for i in range(len(v))])
    if isinstance(v, dict):
        items = []
        for k, x in dict.items(v):
            if k in ('_io', '_', '_params', '_root', '_subcons'):
                continue
            items.append((name_bytes(k), to_val(x, force, depth + 1)))
        return ('VDict', items)
    if isinstance(v, (list, tuple)) and not hasattr(v, '_fields'):
        if isinstance(v, tuple):
            raise Unsupported('tuple value')
        return ('VList', [to_val(x, force, depth + 1) for x in v])
    if callable(v) and force and getattr(v, '__qualname__', '').startswith('Lazy._parse.<locals>.'):
        return to_val(v(), force, depth + 1)     # Lazy
    raise Unsupported('value %r' % (type(v),))


def strip_private(t):
    """Drop underscore keys recursively (Container.__eq__ ignores them); normalise NaNs."""
    c = t[0]
    if c == 'VDict':
        return ('VDict', [(k, strip_private(x)) for k, x in t[1] if not k.startswith(b'_')])
    if c == 'VList':
        return ('VList', [strip_private(x) for x in t[1]])
    if c == 'VFloat':
        b = t[1]
        if (b >> 52) & 0x7ff == 0x7ff and (b & ((1 << 52) - 1)) != 0:
            return ('VFloat', 0x7ff8000000000000)
    return t


# ---------------- expressions ----------------

BINOPS = {
    operator.add: 'OAdd', operator.sub: 'OSub', operator.mul: 'OMul', operator.truediv: 'OTrueDiv',
    operator.floordiv: 'OFloorDiv', operator.mod: 'OMod', operator.pow: 'OPow', operator.xor: 'OXor',
    operator.lshift: 'OLshift', operator.rshift: 'ORshift', operator.and_: 'OAnd', operator.or_: 'OOr',
    operator.gt: 'OGt', operator.ge: 'OGe', operator.lt: 'OLt', operator.le: 'OLe', operator.eq: 'OEq',
    operator.ne: 'ONe', operator.contains: 'OContains',
}
UNOPS = {operator.neg: 'UNeg', operator.pos: 'UPos', operator.not_: 'UNot'}
FUNCS = {len: 'FLen', sum: 'FSum', min: 'FMin', max: 'FMax', abs: 'FAbs'}


def const_val(v):
    if isinstance(v, (float,)):
        return to_val(v)
    if v is None or isinstance(v, (bool, int, bytes, str)):
        return to_val(v)
    if isinstance(v, list):
        return ('VList', [const_val(x) for x in v])
    if isinstance(v, dict):
        return ('VDict', [(name_bytes(k), const_val(x)) for k, x in dict.items(v)])
    raise Unsupported('constant %r' % (type(v),))


def reify_operand(x):
    if isinstance(x, cexpr.ExprMixin):
        return reify_expr(x)
    if callable(x):
        raise Unsupported('callable operand')
    return ('XConst', const_val(x))


def reify_expr(e):
    t = type(e)
    if t is cexpr.Path:
        nm, field, parent = e._Path__name, e._Path__field, e._Path__parent
        if parent is None:
            if nm == 'this':
                return ('XRoot', ('RThis',))
            if nm == 'obj_':
                return ('XRoot', ('RObj',))
            raise Unsupported('path root %r' % nm)
        if isinstance(field, bool):
            raise Unsupported('bool field')
        if isinstance(field, str):
            k = ('KName', name_bytes(field))
        elif isinstance(field, int):
            k = ('KIdx', field)
        else:
            raise Unsupported('field %r' % (field,))
        return ('XItem', reify_expr(parent), k)
    if t is cexpr.Path2:
        idx, parent = e._Path2__index, e._Path2__parent
        if parent is None:
            return ('XList',)
        if isinstance(idx, bool) or not isinstance(idx, int):
            raise Unsupported('list_ index %r' % (idx,))
        return ('XItem', reify_expr(parent), ('KIdx', idx))
    if t is cexpr.FuncPath:
        f, operand = e._FuncPath__func, e._FuncPath__operand
        if operand is None:
            raise Unsupported('bare func')
        if f not in FUNCS:
            raise Unsupported('func %r' % f)
        return ('XFunc', (FUNCS[f],), reify_operand(operand))
    if t is cexpr.BinExpr:
        if e.op not in BINOPS:
            raise Unsupported('op %r' % e.op)
        return ('XBin', (BINOPS[e.op],), reify_operand(e.lhs), reify_operand(e.rhs))
    if t is cexpr.UniExpr:
        if e.op not in UNOPS:
            raise Unsupported('op %r' % e.op)
        return ('XUn', (UNOPS[e.op],), reify_operand(e.operand))
    raise Unsupported('expr %r' % t)


def reify_param(x):
    """evaluate(param, context): callable -> expression, else constant."""
    if isinstance(x, cexpr.ExprMixin):
        return reify_expr(x)
    if callable(x):
        raise Unsupported('lambda parameter')
    return ('XConst', const_val(x))


# ---------------- constructs ----------------

ALLOWED_EXTRA = {'_emitparse', '_emitbuild', '_emitseq', '_emitprimitivetype', '_emitfulltype', '_actualsize'}
BASE_ATTRS = {'name', 'docs', 'flagbuildnone', 'parsed'}
BFUNS = {}
HASHES = {}       # id(function) -> hashfun name, registered by the harness namespace
ENCODINGS = {
    'ascii': 'EncAscii', 'utf8': 'EncUtf8', 'utf_8': 'EncUtf8', 'u8': 'EncUtf8',
    'utf16': 'EncUtf16', 'utf_16': 'EncUtf16', 'u16': 'EncUtf16',
    'utf_16_le': 'EncUtf16le', 'utf_16_be': 'EncUtf16be',
    'utf32': 'EncUtf32', 'utf_32': 'EncUtf32', 'u32': 'EncUtf32',
    'utf_32_le': 'EncUtf32le', 'utf_32_be': 'EncUtf32be',
}


def _bfun(f):
    from construct.lib import binary
    table = {binary.bytes2bits: 'BFbytes2bits', binary.bits2bytes: 'BFbits2bytes',
             binary.swapbytes: 'BFswapbytes', binary.swapbitsinbytes: 'BFswapbitsinbytes'}
    if f in table:
        return (table[f],)
    raise Unsupported('byte function %r' % (f,))


def _sizefun(f):
    if f is None:
        return ('SFnone',)
    try:
        pts = [f(n) for n in (0, 8, 16, 24, 40)]
    except Exception:
        raise Unsupported('sizecomputer')
    if pts == [0, 1, 2, 3, 5]:
        return ('SFdiv8',)
    if pts == [0, 64, 128, 192, 320]:
        return ('SFmul8',)
    if pts == [0, 8, 16, 24, 40]:
        return ('SFid',)
    raise Unsupported('sizecomputer')


def check_attrs(c, own):
    extra = set(vars(c)) - BASE_ATTRS - set(own) - ALLOWED_EXTRA
    if extra:
        raise Unsupported('%s has unexpected attributes %s' % (type(c).__name__, sorted(extra)))
    if c.parsed is not None:
        raise Unsupported('parsed hook')


def int_table(d):
    out = []
    for k, v in d.items():
        if isinstance(v, bool) or not isinstance(v, int):
            raise Unsupported('non-int enum value')
        out.append((name_bytes(str(k)), int(v)))
    return out


def reify(c):
    t = type(c)
    R = reify
    if t is core.FormatField:
        check_attrs(c, ['fmtstr', 'length'])
        en, f = c.fmtstr[0], c.fmtstr[1]
        if struct.calcsize(c.fmtstr) != c.length:
            raise Unsupported('FormatField length')
        if f == '?':
            raise Unsupported('? format')
        if en == '=':
            en = '<' if sys.byteorder == 'little' else '>'
        return ('CFormat', ('Big',) if en == '>' else ('Little',), ('F' + f,))
    if t is core.BytesInteger or t is core.BitsInteger:
        check_attrs(c, ['length', 'signed', 'swapped'])
        if callable(c.swapped) or not isinstance(c.swapped, bool) or not isinstance(c.signed, bool):
            raise Unsupported('callable swapped')
        return ('CBytesInt' if t is core.BytesInteger else 'CBitsInt', reify_param(c.length), c.signed, c.swapped)
    if c is core.VarInt:
        return ('CVarInt',)
    if c is core.ZigZag:
        return ('CZigZag',)
    if t is core.Bytes:
        check_attrs(c, ['length'])
        return ('CBytes', reify_param(c.length))
    if c is core.GreedyBytes:
        return ('CGreedyBytes',)
    if c is core.Flag:
        return ('CFlag',)
    if c is core.Pass:
        return ('CPass',)
    if c is core.Terminated:
        return ('CTerminated',)
    if c is core.Error:
        return ('CError',)
    if c is core.Tell:
        return ('CTell',)
    if c is core.Index:
        return ('CIndex',)
    if t is core.Computed:
        check_attrs(c, ['func'])
        return ('CComputed', reify_param(c.func))
    if t is core.Check:
        check_attrs(c, ['func'])
        return ('CCheck', reify_param(c.func))
    if t is core.StopIf:
        check_attrs(c, ['condfunc'])
        return ('CStopIf', reify_param(c.condfunc))
    if t is core.Seek:
        check_attrs(c, ['at', 'whence'])
        return ('CSeek', reify_param(c.at), reify_param(c.whence))
    if t is core.StringEncoded:
        check_attrs(c, ['subcon', 'encoding'])
        enc = c.encoding.replace('-', '_').lower() if isinstance(c.encoding, str) else None
        if enc not in ENCODINGS:
            raise Unsupported('encoding %r' % (c.encoding,))
        return ('CStringEncoded', R(c.subcon), (ENCODINGS[enc],))
    if t is core.Enum:
        check_attrs(c, ['subcon', 'encmapping', 'decmapping', 'ksymapping'])
        table = int_table(c.encmapping)
        # decmapping must be what __init__ derives from the same pairs
        dec = {}
        for k, v in table:
            dec[v] = k
        if {int(k): name_bytes(str(v)) for k, v in c.decmapping.items()} != dec:
            raise Unsupported('Enum decmapping not derived from encmapping')
        return ('CEnum', R(c.subcon), table)
    if t is core.FlagsEnum:
        check_attrs(c, ['subcon', 'flags', 'reverseflags'])
        return ('CFlagsEnum', R(c.subcon), int_table(c.flags))
    if t is core.Mapping:
        check_attrs(c, ['subcon', 'encmapping', 'decmapping'])
        table = [(const_val(k), const_val(v)) for k, v in c.encmapping.items()]
        if c.decmapping != {v: k for k, v in c.encmapping.items()}:
            raise Unsupported('Mapping decmapping not derived')
        return ('CMapping', R(c.subcon), table)
    if t is core.Hex:
        check_attrs(c, ['subcon'])
        return ('CHex', R(c.subcon))
    if t is core.HexDump:
        check_attrs(c, ['subcon'])
        return ('CHexDump', R(c.subcon))
    if t is core.ExprValidator:
        check_attrs(c, ['subcon', '_validate'])
        f = c._validate
        if getattr(f, '__qualname__', '') != 'ExprValidator.__init__.<locals>.<lambda>':
            raise Unsupported('validator wrapper')
        inner = f.__closure__[0].cell_contents
        qn = getattr(inner, '__qualname__', '')
        if qn in ('OneOf.<locals>.<lambda>', 'NoneOf.<locals>.<lambda>'):
            vals = inner.__closure__[0].cell_contents
            if not isinstance(vals, (list, tuple, set, frozenset)):
                raise Unsupported('OneOf container %r' % type(vals))
            items = sorted(vals, key=repr) if isinstance(vals, (set, frozenset)) else list(vals)
            for x in items:
                if not (x is None or isinstance(x, (bool, int, bytes, str))):
                    raise Unsupported('OneOf element')
            return ('COneOf' if qn.startswith('OneOf') else 'CNoneOf', R(c.subcon), [const_val(x) for x in items])
        return ('CExprValidator', R(c.subcon), reify_param_callable(inner))
    if t is core.ExprAdapter:
        check_attrs(c, ['subcon', '_decode', '_encode'])
        d = c._decode.__closure__[0].cell_contents
        e = c._encode.__closure__[0].cell_contents
        return ('CExprAdapter', R(c.subcon), reify_param_callable(d), reify_param_callable(e))
    if t in (core.Struct, core.Sequence, core.LazyStruct):
        own = ['subcons', '_subcons'] + (['_subconsindexes'] if t is core.LazyStruct else [])
        check_attrs(c, own)
        check_members(c)
        if t is core.LazyStruct:
            for sc in c.subcons:
                no_actualsize_override(sc)
        return ({core.Struct: 'CStruct', core.Sequence: 'CSequence', core.LazyStruct: 'CLazyStruct'}[t],
                [R(sc) for sc in c.subcons])
    if t is core.FocusedSeq:
        check_attrs(c, ['subcons', '_subcons', 'parsebuildfrom'])
        check_members(c)
        if not isinstance(c.parsebuildfrom, str):
            raise Unsupported('FocusedSeq selector')
        return ('CFocusedSeq', name_bytes(c.parsebuildfrom), [R(sc) for sc in c.subcons])
    if t is core.Union:
        check_attrs(c, ['subcons', '_subcons', 'parsefrom'])
        check_members(c)
        pf = c.parsefrom
        if pf is None:
            sel = ('USNone',)
        elif isinstance(pf, bool):
            raise Unsupported('bool parsefrom')
        elif isinstance(pf, int):
            sel = ('USIndex', pf)
        elif isinstance(pf, str):
            sel = ('USName', name_bytes(pf))
        else:
            raise Unsupported('parsefrom')
        return ('CUnion', sel, [R(sc) for sc in c.subcons])
    if t is core.Select:
        check_attrs(c, ['subcons'])
        return ('CSelect', [R(sc) for sc in c.subcons])
    if t is core.IfThenElse:
        check_attrs(c, ['condfunc', 'thensubcon', 'elsesubcon'])
        return ('CIfThenElse', reify_param(c.condfunc), R(c.thensubcon), R(c.elsesubcon))
    if t is core.Switch:
        check_attrs(c, ['keyfunc', 'cases', 'default'])
        if not isinstance(c.cases, dict):
            raise Unsupported('Switch cases')
        return ('CSwitch', reify_param(c.keyfunc), [(const_val(k), R(v)) for k, v in c.cases.items()], R(c.default))
    if t is core.Array:
        check_attrs(c, ['subcon', 'count', 'discard'])
        if c.discard is not False:
            raise Unsupported('discard')
        return ('CArray', reify_param(c.count), R(c.subcon))
    if t is core.GreedyRange:
        check_attrs(c, ['subcon', 'discard'])
        if c.discard is not False:
            raise Unsupported('discard')
        return ('CGreedyRange', R(c.subcon))
    if t is core.RepeatUntil:
        check_attrs(c, ['subcon', 'predicate', 'discard'])
        if c.discard is not False:
            raise Unsupported('discard')
        return ('CRepeatUntil', reify_param_callable(c.predicate), R(c.subcon))
    if t is core.Renamed:
        check_attrs(c, ['subcon'])
        if not isinstance(c.name, str) or c.name.startswith('_') or not c.name:
            raise Unsupported('member name %r' % (c.name,))
        return ('CRenamed', name_bytes(c.name), R(c.subcon))
    if t is core.Const:
        check_attrs(c, ['subcon', 'value'])
        return ('CConst', const_val(c.value), R(c.subcon))
    if t is core.Rebuild:
        check_attrs(c, ['subcon', 'func'])
        return ('CRebuild', R(c.subcon), reify_param(c.func))
    if t is core.Default:
        check_attrs(c, ['subcon', 'value'])
        return ('CDefault', R(c.subcon), reify_param(c.value))
    if t is core.Padded or t is core.Aligned:
        check_attrs(c, ['subcon', 'length' if t is core.Padded else 'modulus', 'pattern'])
        if not isinstance(c.pattern, bytes) or len(c.pattern) != 1:
            raise Unsupported('pattern')
        return ('CPadded' if t is core.Padded else 'CAligned',
                reify_param(c.length if t is core.Padded else c.modulus), R(c.subcon), c.pattern[0])
    if t is core.Pointer:
        check_attrs(c, ['subcon', 'offset', 'stream'])
        if c.stream is not None:
            raise Unsupported('Pointer stream')
        return ('CPointer', reify_param(c.offset), R(c.subcon))
    if t is core.Peek:
        check_attrs(c, ['subcon'])
        return ('CPeek', R(c.subcon))
    if t is core.OffsettedEnd:
        check_attrs(c, ['subcon', 'endoffset'])
        return ('COffsettedEnd', reify_param(c.endoffset), R(c.subcon))
    if t is core.RawCopy:
        check_attrs(c, ['subcon'])
        return ('CRawCopy', R(c.subcon))
    if t is core.Prefixed:
        check_attrs(c, ['subcon', 'lengthfield', 'includelength'])
        if not isinstance(c.includelength, bool):
            raise Unsupported('includelength')
        return ('CPrefixed', R(c.lengthfield), R(c.subcon), c.includelength)
    if t is core.FixedSized:
        check_attrs(c, ['subcon', 'length'])
        return ('CFixedSized', reify_param(c.length), R(c.subcon))
    if t is core.NullTerminated:
        check_attrs(c, ['subcon', 'term', 'include', 'consume', 'require'])
        if not isinstance(c.term, bytes) or not all(isinstance(x, bool) for x in (c.include, c.consume, c.require)):
            raise Unsupported('NullTerminated options')
        return ('CNullTerminated', R(c.subcon), c.term, c.include, c.consume, c.require)
    if t is core.NullStripped:
        check_attrs(c, ['subcon', 'pad'])
        if not isinstance(c.pad, bytes):
            raise Unsupported('pad')
        return ('CNullStripped', R(c.subcon), c.pad)
    if t is core.Transformed:
        check_attrs(c, ['subcon', 'decodefunc', 'decodeamount', 'encodefunc', 'encodeamount'])

        def amt(a):
            if a is None:
                return None
            if isinstance(a, bool) or not isinstance(a, int):
                raise Unsupported('amount')
            return ('Some', a)
        return ('CTransformed', R(c.subcon), _bfun(c.decodefunc), amt(c.decodeamount), _bfun(c.encodefunc), amt(c.encodeamount))
    if t is core.Restreamed:
        check_attrs(c, ['subcon', 'decoder', 'decoderunit', 'encoder', 'encoderunit', 'sizecomputer'])
        for u in (c.decoderunit, c.encoderunit):
            if isinstance(u, bool) or not isinstance(u, int):
                raise Unsupported('unit')
        return ('CRestreamed', R(c.subcon), _bfun(c.decoder), c.decoderunit, _bfun(c.encoder), c.encoderunit, _sizefun(c.sizecomputer))
    if t is core.ProcessXor:
        check_attrs(c, ['subcon', 'padfunc'])
        return ('CProcessXor', reify_param(c.padfunc), R(c.subcon))
    if t is core.ProcessRotateLeft:
        check_attrs(c, ['subcon', 'amount', 'group'])
        return ('CProcessRotl', reify_param(c.amount), reify_param(c.group), R(c.subcon))
    if t is core.Checksum:
        check_attrs(c, ['checksumfield', 'hashfunc', 'bytesfunc'])
        if id(c.hashfunc) not in HASHES:
            raise Unsupported('hash function')
        return ('CChecksum', R(c.checksumfield), (HASHES[id(c.hashfunc)],), reify_param(c.bytesfunc))
    if t is core.Lazy:
        check_attrs(c, ['subcon'])
        no_actualsize_override(c.subcon)
        return ('CLazy', R(c.subcon))
    if t is core.LazyArray:
        check_attrs(c, ['subcon', 'count'])
        no_actualsize_override(c.subcon)
        return ('CLazyArray', reify_param(c.count), R(c.subcon))
    raise Unsupported('class %s' % t.__name__)


MACRO_KSY = ('_emitseq', '_emitprimitivetype', '_emitfulltype')


def check_macro_shapes(c, seen=None):
    """model/Ksy.v recognises the macros that carry their own KSY emitters (CString, GreedyString, PaddedString, PascalString,
    If, Padding, PrefixedArray, Bitwise, Bytewise) by the shape of their expansion: an object of such a shape without the
    instance emitters, or an object with instance emitters of another shape, is outside the model"""
    seen = set() if seen is None else seen
    if id(c) in seen:
        return
    seen.add(id(c))
    if isinstance(c, core.Construct):
        if type(c) in (core.FlagsEnum, core.Pointer, core.NamedTuple):
            raise Unsupported('%s: its KSY emitter is outside the model of the exporter' % type(c).__name__)
        has = any(k in vars(c) for k in MACRO_KSY)
        shape = macro_shape(c)
        if has != (shape is not None):
            raise Unsupported('KSY emitters on the instance do not match the macro shape (%s)' % (shape or type(c).__name__))
        if shape in ('PrefixedArray', 'Bitwise', 'Bytewise'):
            # the emitters must be the macro's own closures over the parts the shape shows (what they DO is compared by the
            # correspondence of the emitted schema; here only where they come from)
            import inspect
            want = ('_emitseq',) if shape == 'PrefixedArray' else MACRO_KSY
            for k in MACRO_KSY:
                f = vars(c).get(k)
                if (f is not None) != (k in want):
                    raise Unsupported('KSY emitters on the instance do not match the macro shape (%s)' % shape)
                if f is None:
                    continue
                if getattr(f, '__qualname__', '') != '%s.<locals>.%s' % (shape, k):
                    raise Unsupported('KSY emitter %s on a %s shape is not the macro\'s' % (k, shape))
                cv = inspect.getclosurevars(f).nonlocals
                if shape == 'PrefixedArray':
                    ps = prefixedarray_shape(c)
                    if cv.get('countfield') is not ps[0] or cv.get('subcon') is not ps[1]:
                        raise Unsupported('KSY emitter of PrefixedArray closes over other parts')
                elif cv.get('subcon') is not c.subcon:
                    raise Unsupported('KSY emitter of %s closes over another subcon' % shape)
        for v in vars(c).values():
            check_macro_shapes(v, seen)
    elif isinstance(c, (list, tuple)):
        for v in c:
            check_macro_shapes(v, seen)
    elif isinstance(c, dict):
        for v in dict.values(c):
            check_macro_shapes(v, seen)


def macro_shape(c):
    t = type(c)
    if t is core.StringEncoded:
        s = c.subcon
        if s is core.GreedyBytes:
            return 'GreedyString'
        if type(s) is core.NullTerminated and s.subcon is core.GreedyBytes and not s.include and s.consume and s.require:
            return 'CString'
        if type(s) is core.FixedSized and type(s.subcon) is core.NullStripped and s.subcon.subcon is core.GreedyBytes:
            return 'PaddedString'
        if type(s) is core.Prefixed and s.subcon is core.GreedyBytes and not s.includelength:
            return 'PascalString'
    if t is core.IfThenElse and c.elsesubcon is core.Pass:
        return 'If'
    if t is core.Padded and c.subcon is core.Pass:
        return 'Padding'
    if prefixedarray_shape(c) is not None:
        return 'PrefixedArray'
    if t in (core.Transformed, core.Restreamed):
        from construct.lib import binary
        d, e = (c.decodefunc, c.encodefunc) if t is core.Transformed else (c.decoder, c.encoder)
        if d is binary.bytes2bits and e is binary.bits2bytes:
            return 'Bitwise'
        if d is binary.bits2bytes and e is binary.bytes2bits:
            return 'Bytewise'
    return None


def no_emit_override(c, seen=None):
    """the model of the emitted code follows the class's emitter; an instance-level _emitparse / _emitbuild (PascalString)
    anywhere in the tree is outside it"""
    seen = set() if seen is None else seen
    if id(c) in seen:
        return
    seen.add(id(c))
    if isinstance(c, core.Construct):
        if '_emitparse' in vars(c) or '_emitbuild' in vars(c):
            raise Unsupported('instance-level emitter')
        for v in vars(c).values():
            no_emit_override(v, seen)
    elif isinstance(c, (list, tuple)):
        for v in c:
            no_emit_override(v, seen)
    elif isinstance(c, dict):
        for v in dict.values(c):
            no_emit_override(v, seen)


def prefixedarray_shape(sc):
    """FocusedSeq(<any>, name/Rebuild(countfield, ...), name/Array(..., subcon)): the expansion of the PrefixedArray macro"""
    if type(sc) is not core.FocusedSeq or len(sc.subcons) != 2:
        return None
    a, b = sc.subcons
    if type(a) is core.Renamed and type(a.subcon) is core.Rebuild and type(b) is core.Renamed and type(b.subcon) is core.Array:
        return a.subcon.subcon, b.subcon.subcon
    return None


def no_actualsize_override(sc):
    """the model measures a lazily skipped member with Prefixed._actualsize reached through any names and adapters
    (Renamed._actualsize / Adapter._actualsize defer to their subcon; model/Parse.v actualsize_with), with the measure the
    PrefixedArray macro attaches to its FocusedSeq, and with sizeof otherwise.  The macro's measure is recognised by the shape
    of the expansion: an instance-level _actualsize anywhere else along the chain, another function under that name on that
    shape, or that shape without the attribute, is outside the model"""
    while True:
        shape = prefixedarray_shape(sc)
        if '_actualsize' in vars(sc):
            f = vars(sc)['_actualsize']
            ok = shape is not None and getattr(f, '__qualname__', '') == 'PrefixedArray.<locals>._actualsize'
            if ok:
                import inspect
                cv = inspect.getclosurevars(f).nonlocals
                ok = cv.get('countfield') is shape[0] and cv.get('subcon') is shape[1]
            if not ok:
                raise Unsupported('instance-level _actualsize in a lazy position')
            return
        if shape is not None:
            raise Unsupported('a FocusedSeq of the PrefixedArray shape without its _actualsize in a lazy position')
        if type(sc) is core.Renamed or isinstance(sc, core.Adapter):
            sc = sc.subcon
        else:
            break


def reify_param_callable(x):
    if isinstance(x, cexpr.ExprMixin):
        return reify_expr(x)
    if callable(x):
        raise Unsupported('lambda')
    return ('XConst', const_val(x))


def check_members(c):
    exp = {sc.name: sc for sc in c.subcons if sc.name}
    if dict(c._subcons) != exp:
        raise Unsupported('_subcons mismatch')
    names = [sc.name for sc in c.subcons if sc.name]
    if len(names) != len(set(names)):
        raise Unsupported('duplicate member names')


# flagbuildnone is computed by the model (Syntax.buildnone); make sure the object agrees with what
# its own constructor computes is NOT checked here: a mutated flag shows up as a behavioural
# difference, which is the point.

def kw_term(kw):
    return [(name_bytes(k), const_val(v)) for k, v in kw.items()]
