"""Run the implementation (/repo's construct) on a case and describe the outcome as a model
response term."""
import io, signal, sys
import construct
from construct import core
from reify import to_val, Unsupported, name_bytes

ERRMAP = {
    'StreamError': 'EStream', 'FormatFieldError': 'EFormatField', 'IntegerError': 'EInteger',
    'StringError': 'EString', 'MappingError': 'EMapping', 'RangeError': 'ERange', 'RepeatError': 'ERepeat',
    'ConstError': 'EConst', 'IndexFieldError': 'EIndexField', 'CheckError': 'ECheck',
    'ExplicitError': 'EExplicit', 'UnionError': 'EUnion', 'SelectError': 'ESelect', 'SwitchError': 'ESwitch',
    'StopFieldError': 'EStopField', 'PaddingError': 'EPadding', 'TerminatedError': 'ETerminated',
    'RawCopyError': 'ERawCopy', 'RotationError': 'ERotation', 'ChecksumError': 'EChecksum',
    'SizeofError': 'ESizeof', 'ValidationError': 'EValidation', 'AdaptationError': 'EAdaptation',
    'CancelParsing': 'ECancel', 'ConstructError': 'EConstruct',
}
FOREIGN = [
    (KeyError, 'EKey'), (IndexError, 'EIndexErr'), (ZeroDivisionError, 'EZeroDiv'), (OverflowError, 'EOverflow'),
    (TypeError, 'EType'), (AttributeError, 'EAttr'), (ValueError, 'EValue'),
]


class Budget(BaseException):
    pass


def _alarm(signum, frame):
    raise Budget()


BUDGET_S = 2.0


def with_budget(f):
    signal.signal(signal.SIGALRM, _alarm)
    signal.setitimer(signal.ITIMER_REAL, BUDGET_S)
    try:
        return f()
    finally:
        signal.setitimer(signal.ITIMER_REAL, 0)


def err_term(e):
    if isinstance(e, core.ConstructError):
        nm = ERRMAP.get(type(e).__name__)
        if nm is None:
            nm = 'EConstruct'
        p = e.path
        if p is None:
            return ('RErr', (nm,), None)
        parts = p.split(' -> ')
        return ('RErr', (nm,), ('Some', [x.encode('utf8', 'replace') for x in parts[1:]]))
    for cls, nm in FOREIGN:
        if isinstance(e, cls):
            return ('RErr', (nm,), None)
    return ('RErr', ('EForeign',), None)


def op_prefix(e):
    """the leading '(parsing)' etc. of the path, or None"""
    if isinstance(e, core.ConstructError) and e.path is not None:
        return e.path.split(' -> ')[0]
    return None


def guarded(f):
    try:
        return with_budget(f)
    except Budget:
        return ('RErr', ('EDiverge',), None)
    except Unsupported:
        raise
    except RecursionError:
        return ('RErr', ('EForeign',), None)
    except Exception as e:
        return err_term(e)


def run_parse(c, kw, data, start=0):
    def f():
        st = io.BytesIO(data)
        st.seek(start)
        v = c.parse_stream(st, **kw)
        t = to_val(v)            # forces lazies (may raise construct errors: part of the outcome)
        return ('ROkParse', t, st.tell())
    return guarded(f)


def run_build(c, obj, kw):
    def f():
        st = io.BytesIO()
        ctx = construct.Container(**kw)
        ctx._parsing = False
        ctx._building = True
        ctx._sizing = False
        ctx._params = ctx
        ret = c._build(obj, st, ctx, '(building)')
        return ('ROkBuild', to_val(ret), st.getvalue())
    return guarded(f)


def run_sizeof(c, kw):
    def f():
        n = c.sizeof(**kw)
        if isinstance(n, bool) or not isinstance(n, int):
            raise Unsupported('non-int sizeof')
        return ('ROkSize', n)
    return guarded(f)


def run_eval(e, kw):
    def f():
        ctx = construct.Container(**kw)
        ctx._parsing = True
        ctx._building = False
        ctx._sizing = False
        ctx._params = ctx
        return ('ROkVal', to_val(e(ctx) if callable(e) else e))
    return guarded(f)
