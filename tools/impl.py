"""Run the implementation (/repo's construct) on a case and describe the outcome as a model
response term."""
import io, signal, sys
import construct
from construct import core
from reify import to_val, Unsupported, name_bytes

ERRMAP = {
    'StreamError': 'EStream', 'FormatFieldError': 'EFormatField', 'IntegerError': 'EInteger',
    'StringError': 'EString', 'MappingError': 'EMapping', 'RangeError': 'ERange', 'RepeatError': 'ERepeat',
    'ConstError': 'EConst', 'IndexFieldError': 'EIndexField', 'CheckError': 'ECheck',
    'ExplicitError': 'EExplicit', 'UnionError': 'EUnion', 'SelectError': 'ESelect', 'SwitchError': 'ESwitch',
    'StopFieldError': 'EStopField', 'PaddingError': 'EPadding', 'TerminatedError': 'ETerminated',
    'RawCopyError': 'ERawCopy', 'RotationError': 'ERotation', 'ChecksumError': 'EChecksum',
    'SizeofError': 'ESizeof', 'ValidationError': 'EValidation', 'AdaptationError': 'EAdaptation',
    'CancelParsing': 'ECancel', 'ConstructError': 'EConstruct',
}
FOREIGN = [
    (KeyError, 'EKey'), (IndexError, 'EIndexErr'), (ZeroDivisionError, 'EZeroDiv'), (OverflowError, 'EOverflow'),
    (TypeError, 'EType'), (AttributeError, 'EAttr'), (ValueError, 'EValue'),
]


class Budget(BaseException):
    pass


_ARMED = [False]


def _alarm(signum, frame):
    # a timer that expires inside one long C call (a huge allocation) is delivered only when that call returns, possibly after the
    # guarded region has been left: it must not raise there
    if _ARMED[0]:
        raise Budget()


BUDGET_S = 2.0           # CPU seconds of this process (user + system): independent of how loaded the machine is
WALL_S = 60.0            # wall-clock backstop, for a call that blocks without computing


def with_budget(f, scale=1):
    """run f under the time budget; Budget is raised when it is exceeded.  The budget is CPU time (ITIMER_PROF): a wall-clock
    budget reported terminating calls as divergent when several checks shared the machine (a false alarm, DESIGN 0.7)."""
    signal.signal(signal.SIGPROF, _alarm)
    signal.signal(signal.SIGALRM, _alarm)
    signal.setitimer(signal.ITIMER_PROF, BUDGET_S * scale)
    signal.setitimer(signal.ITIMER_REAL, WALL_S * scale)
    _ARMED[0] = True
    try:
        return f()
    finally:
        _ARMED[0] = False
        signal.setitimer(signal.ITIMER_PROF, 0)
        signal.setitimer(signal.ITIMER_REAL, 0)


def err_term(e):
    if isinstance(e, core.ConstructError):
        nm = ERRMAP.get(type(e).__name__)
        if nm is None:
            nm = 'EConstruct'
        p = e.path
        if p is None:
            return ('RErr', (nm,), None)
        parts = p.split(' -> ')
        return ('RErr', (nm,), ('Some', [x.encode('utf8', 'replace') for x in parts[1:]]))
    for cls, nm in FOREIGN:
        if isinstance(e, cls):
            return ('RErr', (nm,), None)
    return ('RErr', ('EForeign',), None)


def op_prefix(e):
    """the leading '(parsing)' etc. of the path, or None"""
    if isinstance(e, core.ConstructError) and e.path is not None:
        return e.path.split(' -> ')[0]
    return None


def guarded(f):
    for scale in (1, 5):                    # a verdict of divergence is not taken from one run: once more with five times the budget
        try:
            return with_budget(f, scale=scale)
        except Budget:
            continue
        except Unsupported:
            raise
        except RecursionError:
            return ('RErr', ('EForeign',), None)
        except Exception as e:
            return err_term(e)
    return ('RErr', ('EDiverge',), None)


def run_parse(c, kw, data, start=0):
    def f():
        st = io.BytesIO(data)
        st.seek(start)
        v = c.parse_stream(st, **kw)
        t = to_val(v)            # forces lazies (may raise construct errors: part of the outcome)
        return ('ROkParse', t, st.tell())
    return guarded(f)


def run_build(c, obj, kw):
    def f():
        st = io.BytesIO()
        ctx = construct.Container(**kw)
        ctx._parsing = False
        ctx._building = True
        ctx._sizing = False
        ctx._params = ctx
        ret = c._build(obj, st, ctx, '(building)')
        return ('ROkBuild', to_val(ret), st.getvalue())
    return guarded(f)


_CC = {}


def compiled_of(c):
    if id(c) not in _CC:
        if len(_CC) > 3000:
            _CC.clear()
        try:
            _CC[id(c)] = (c, c.compile())
        except Exception as e:
            _CC[id(c)] = (c, None)
    return _CC[id(c)][1]


def run_cparse(c, kw, data, start=0):
    cc = compiled_of(c)
    if cc is None:
        raise Unsupported('compile() does not accept the construct')
    return run_parse(cc, kw, data, start)


def run_cbuild(c, obj, kw):
    cc = compiled_of(c)
    if cc is None:
        raise Unsupported('compile() does not accept the construct')
    return run_build(cc, obj, kw)


def run_lazy(c, kw, data, start, history):
    """parse_stream on a LazyStruct / LazyArray, then the accesses of the history by member index:
    position after the parse, then (value, tell()) after each access; the first access that raises ends it"""
    def f():
        st = io.BytesIO(data)
        st.seek(start)
        res = c.parse_stream(st, **kw)
        pos = st.tell()
        outs = []
        for i in history:
            try:
                v = res[i]
                outs.append(('LVal', to_val(v), st.tell()))
            except Exception as e:
                if isinstance(e, Unsupported):
                    raise
                outs.append(('LErr', err_term(e)[1]))
                break
        return ('ROkLazy', pos, outs)
    return guarded(f)


def run_sizeof(c, kw):
    def f():
        n = c.sizeof(**kw)
        if isinstance(n, bool) or not isinstance(n, int):
            raise Unsupported('non-int sizeof')
        return ('ROkSize', n)
    return guarded(f)


def run_eval(e, kw):
    def f():
        ctx = construct.Container(**kw)
        ctx._parsing = True
        ctx._building = False
        ctx._sizing = False
        ctx._params = ctx
        return ('ROkVal', to_val(e(ctx) if callable(e) else e))
    return guarded(f)


# ---- hex helpers and container operation sequences (C20) ----

def run_hexdump(data, linesize):
    def f():
        from construct.lib import hexdump
        return ('ROkBytes', hexdump(data, linesize).encode('latin1'))
    r = guarded(f)
    return r if r[0] != 'RErr' else ('RErr', ('EValue',), None)


def run_hexundump(text, linesize):
    def f():
        from construct.lib import hexundump
        return ('ROkBytes', hexundump(text.decode('latin1'), linesize))
    r = guarded(f)
    return r if r[0] != 'RErr' else ('RErr', ('EValue',), None)


def to_container(v):
    if isinstance(v, dict):
        return construct.Container((k, to_container(x)) for k, x in v.items())
    if isinstance(v, list):
        return construct.ListContainer(to_container(x) for x in v)
    return v


def step_term(s):
    return ('SKey', name_bytes(s)) if isinstance(s, str) else ('SIdx', s)


def cop_term(o):
    k = o[0]
    from reify import const_val
    if k == 'new':
        return ('CNew', const_val(o[1]))
    if k in ('copy', 'deepcopy', 'pickle'):
        return ({'copy': 'CCopy', 'deepcopy': 'CDeepcopy', 'pickle': 'CPickle'}[k], o[1])
    if k == 'set':
        return ('CSet', o[1], [step_term(x) for x in o[2]], name_bytes(o[3]), const_val(o[4]))
    if k == 'del':
        return ('CDel', o[1], [step_term(x) for x in o[2]], name_bytes(o[3]))
    if k == 'append':
        return ('CAppend', o[1], [step_term(x) for x in o[2]], const_val(o[3]))
    if k == 'observe':
        return ('CObserve', o[1])
    if k == 'attr':
        return ('CAttr', o[1], [step_term(x) for x in o[2]], name_bytes(o[3]))
    if k == 'eq':
        return ('CEq', o[1], o[2])
    raise Unsupported('cop ' + k)


def full_val(v):
    """like to_val but keeping every key (the observation is the whole object)"""
    if isinstance(v, dict):
        return ('VDict', [(name_bytes(k), full_val(x)) for k, x in dict.items(v)])
    if isinstance(v, list):
        return ('VList', [full_val(x) for x in v])
    return to_val(v)


def run_cops(ops):
    import copy, pickle
    hs, out = [], []

    def follow(i, path):
        o = hs[i]
        for s in path:
            if isinstance(s, str):
                if not isinstance(o, dict):
                    raise KeyError(s)
                o = dict.__getitem__(o, s)
            else:
                if not isinstance(o, list):
                    raise KeyError(s)
                o = o[s]
        return o
    for o in ops:
        k = o[0]
        try:
            if k == 'new':
                hs.append(to_container(o[1]))
            elif k == 'copy':
                hs.append(copy.copy(hs[o[1]]))
            elif k == 'deepcopy':
                hs.append(copy.deepcopy(hs[o[1]]))
            elif k == 'pickle':
                hs.append(pickle.loads(pickle.dumps(hs[o[1]])))
            elif k == 'set':
                t = follow(o[1], o[2])
                if not isinstance(t, dict):
                    raise TypeError
                t[o[3]] = to_container(o[4])
            elif k == 'del':
                t = follow(o[1], o[2])
                if not isinstance(t, dict):
                    raise TypeError
                del t[o[3]]
            elif k == 'append':
                t = follow(o[1], o[2])
                if not isinstance(t, list):
                    raise TypeError
                t.append(to_container(o[3]))
            elif k == 'observe':
                out.append(('OVal', full_val(hs[o[1]])))
            elif k == 'attr':
                t = follow(o[1], o[2])
                if not isinstance(t, dict):
                    raise AttributeError
                r = getattr(t, o[3])
                if callable(r) and not isinstance(r, (dict, list)):
                    raise AttributeError
                out.append(('OVal', full_val(r)))
            elif k == 'eq':
                out.append(('OBool', bool(hs[o[1]] == hs[o[2]])))
        except Unsupported:
            raise
        except Exception:
            out.append(('OFail',))
    return ('ROuts', out)
