#!/venv/bin/python
"""Development aid (not a registered check): run `mutants.py detect` for many seeded changes in parallel.

Detection regenerates coq/gen/*.v from the changed library and rebuilds, so two detections cannot share one copy of /verif.
This makes N scratch copies of /verif outside /verif and /repo, runs one share of the ids in each, merges the `detection`
entries back into /verif/seeded/<id>/meta.json and removes the copies.

  pdetect.py N id...        (N copies; ids as for mutants.py detect)
"""
import os, sys, json, shutil, subprocess, tempfile

ROOT = os.path.dirname(os.path.dirname(os.path.abspath(__file__)))


def main():
    n = int(sys.argv[1])
    ids = sys.argv[2:]
    base = tempfile.mkdtemp(prefix='vdet_', dir='/tmp')
    groups = [ids[k::n] for k in range(n)]
    procs = []
    for k, g in enumerate(groups):
        if not g:
            continue
        dst = os.path.join(base, 'v%d' % k)
        shutil.copytree(ROOT, dst, ignore=shutil.ignore_patterns('.git', 'replays'))
        log = open(os.path.join(base, 'log%d' % k), 'w')
        procs.append((k, g, dst, subprocess.Popen(['/venv/bin/python', 'tools/mutants.py', 'detect'] + g, cwd=dst, stdout=log, stderr=subprocess.STDOUT)))
    for k, g, dst, p in procs:
        p.wait()
        for i in g:
            src = os.path.join(dst, 'seeded', i, 'meta.json')
            tgt = os.path.join(ROOT, 'seeded', i, 'meta.json')
            try:
                d = json.load(open(src)).get('detection')
            except Exception:
                d = None
            if d is not None:
                m = json.load(open(tgt))
                m['detection'] = d
                json.dump(m, open(tgt, 'w'), indent=1)
        for line in open(os.path.join(base, 'log%d' % k)):
            if 'conda' not in line:
                sys.stdout.write(line)
    shutil.rmtree(base, ignore_errors=True)


if __name__ == '__main__':
    main()
