# claim(pid, technique, text, design_ref)  -- read by mkmanifest.py
claim('C03', 'Coq theorems (model interpreters vs arithmetic specification) + extracted-model correspondence',
      'Theorems over all widths/values: two\'s complement, big-endian digits, BytesInteger/FormatField build and parse at '
      'the interpreter level, LEB128 as a relation (soundness, completeness, rejection of unterminated input), ZigZag '
      'bijection. The model is the reference; the library is compared with the extracted model on exhaustive 8-bit domains, '
      'boundaries and PRNG samples, so a disagreement is itself the failing input. Floats, strings and composites are tied '
      'by correspondence only (stated as partial in the evidence).', 'DESIGN.md 6/C03')
