# claim(pid, technique, text, design_ref)  -- read by mkmanifest.py
claim('C03', 'Coq theorems (model interpreters vs arithmetic specification) + extracted-model correspondence',
      'Theorems over all widths/values: two\'s complement, big-endian digits, BytesInteger/FormatField build and parse at '
      'the interpreter level, LEB128 as a relation (soundness, completeness, rejection of unterminated input), ZigZag '
      'bijection. The model is the reference; the library is compared with the extracted model on exhaustive 8-bit domains, '
      'boundaries and PRNG samples, so a disagreement is itself the failing input. Floats: every binary16 pattern (finite sweep evaluated by the '
      'kernel, lifted to the quantified statement), every binary32 and binary64 pattern (single_roundtrip / double_identity: arithmetic on the '
      'round-to-nearest-even function, normal / subnormal / zero / infinity; NaNs canonicalised) widens to a double that narrows back to it, and '
      'the Float16/32/64 fields reproduce the bytes they parsed (float*_parse_then_build). Narrowing of doubles that are not representable, '
      'strings and composites are tied by correspondence only (stated as partial in the evidence).', 'DESIGN.md 6/C03')
claim('C05', 'Coq theorems (sizeof discipline over all constructs; exactness by induction over the closed sequential fragment) + correspondence + sizeof/build/parse oracle',
      'sizeof_nokey: for EVERY construct of the model (59 classes, any nesting), context and path, sizeof never reports a missing '
      'key as KeyError/AttributeError. build_size_exact / C05_exact_closed: for every construct of the closed sequential fragment '
      '(FormatField, BytesInteger, Bytes, Pass, Const, Renamed, Struct, Sequence, Array, Prefixed, Padded, Aligned, FixedSized, any depth) '
      'a sizeof answer n is the number of bytes every successful build produces and the number parse consumes when those bytes are parsed '
      'back with arbitrary trailing data (induction on the syntax; the parse half through C01). For context-dependent and bit-level '
      'constructs exactness is decided by the oracle on the implementation over templates x key subsets and generated constructs, and '
      'the sizeof outcome is compared with the extracted model.', 'DESIGN.md 6/C05')
claim('C08', 'Coq theorems for every inner construct and unbounded nesting depth + correspondence + independent region oracle',
      'Region theorems for FixedSized / Prefixed(+-includelength) / NullStripped: the outer position and the bytes the inner construct '
      'sees are fixed before it runs, for EVERY inner construct; tell_absolute_at_any_depth: by induction on the nest, Tell at any depth '
      'reports the outermost absolute offset. NullTerminated/OffsettedEnd/ProcessXor nests are decided by correspondence and an '
      'independent Python reading of each delimiter contract (random nests to depth 4, offsets 0..5).', 'DESIGN.md 6/C08')
claim('C09', 'Coq theorems for every sub-construct + correspondence + isolation oracle',
      'peek/pointer position theorems (parse and build), select_first_success (failed alternatives leave no trace), greedy-range step '
      'lemmas, ExplicitError escapes - for EVERY sub-construct, context and input. The library is compared with the extracted model and '
      'with its own members parsed in isolation (Peek, Select, Optional, GreedyRange(+discard), Pointer incl. target = position, Union).',
      'DESIGN.md 6/C09')
claim('C13', 'Coq theorems for every sub-construct / any nesting depth + correspondence + exhaustive one-byte oracles',
      'const_parse_iff, const_build, validator symmetry (OneOf/NoneOf/ExprValidator/Check), Enum/Mapping lemmas, and '
      'explicit_escapes_any_nest (induction on the nest) hold for every sub-construct. The oracles sweep all 256 values of one-byte '
      'domains, every label spelling, falsy wrong constants, multi-bit flag masks.', 'DESIGN.md 6/C13')
claim('C14', 'Coq theorems for every inner construct + correspondence + exhaustive single-bit corruption oracle',
      'rawcopy_parse (value/offsets/length/data as re-read), rawcopy_final_position, checksum_detects/accepts/build for every inner '
      'construct. The oracle checks data == stream slice at non-zero offsets and inside substreams, build from value == build from '
      'data, build-then-parse of Checksum structs incl. stale digests, and every single-bit corruption of region and digest.', 'DESIGN.md 6/C14')
claim('C11', 'Coq finite-table theorems over the table regenerated from expr.py + extracted-model correspondence + exhaustive-skeleton oracle',
      'gen/ExprTable.v is regenerated from construct/expr.py by a fail-closed ast translator on every run; the kernel checks that it equals '
      '(as a set) the operator table of Python\'s data model and that every operator prints as its own symbol, so a swapped or crossed '
      'overload breaks a proof obligation. Evaluation lemmas are stated on the model and the model is compared with the library on REval '
      'requests. repr/str faithfulness is decided by evaluating eval(repr(e)) with the real Python parser over every operator x unary x '
      'side x constant-type skeleton (the printing theorem itself is listed as partial).', 'DESIGN.md 6/C11')
claim('C12', 'Coq theorems about definitions regenerated from the live library (reflective translator) + side-against-side oracle + correspondence',
      'gen/Names.v is regenerated on every run by reifying the objects the library exports (singletons, aliases, macros applied to symbolic '
      'holes, operator spellings). The definitional laws are proved about those definitions, so a macro whose expansion changes breaks a '
      'proof; FormatField-vs-BytesInteger, ByteSwapped(Int24ub) and Hex/HexDump laws are proved on the interpreters. The oracle runs both '
      'sides of every law on all byte strings of the width (exhaustive for one byte) +-1 and on boundary / out-of-range values.', 'DESIGN.md 6/C12')
claim('C15', 'Coq theorems (involutions, shortcut = definition, finite sweeps lifted by forallb_forall) + correspondence + definition oracle',
      'XOR: involution for every key and data, single-byte and all-zero shortcuts equal the cyclic definition, ProcessXor build/parse are the '
      'transform of the inner bytes / of the stream. Byte and bit order: involutions, bit reversal per byte (256 cases, kernel). Rotation: '
      'rot_group_spec - the bits of a rotated group are the bits of the group rotated left by the amount, for EVERY amount and group size, all '
      'three code branches (finite sweep of the one-byte combiner lifted to lists); hence rot_group_inverse / rotate_left_inverse and '
      'processrotl_parse_undoes_build (parse undoes build for every integer amount and group); rejection of non-multiples. The compression '
      'codecs are decided by the oracle; rotation is additionally compared with a big-integer rotation per group (amounts -64..64 x groups '
      '1..8) on the library and by correspondence.', 'DESIGN.md 6/C15')
claim('C10', 'Coq theorems over arbitrary field lists (bit/byte functions) and every width (interpreter level) + two-path correspondence + big-integer oracle',
      'bits_fold_app / bits_fold_fields / pack_fields_bytes / unpack_fields_bits: for ANY sequence of field widths summing to a multiple of 8 '
      'the packed bytes are the big-endian digits of the MSB-first concatenation of the patterns, and parse inverts it (no bound on widths or '
      'field counts); bits2integer_bytes2bits and the BytesInteger = Bitwise(BitsInteger(8n)) law for every width. Both code paths (pre-read and '
      'streaming) are run on the library and on the extracted model and compared with big-integer arithmetic, exhaustively for 8-bit regions.',
      'DESIGN.md 6/C10')
claim('C07', 'Coq theorems on the scope chain for every context + induction on expressions + correspondence + constructed-shape oracle',
      'Scope-chain theorems (each _ one scope outward, _root outermost, _params everywhere, flags one-hot per entry point, _index current and '
      'inherited, siblings visible) hold for every context; eval_mode_independent (induction on the expression) shows every flag-free '
      'expression evaluates identically in parse, build and sizeof. The suite enumerates nesting shapes to depth 3 (4 in thorough) of all five '
      'scope-pushing classes with repetitions and checks every probe in parse, build and sizeof on the library and against the extracted '
      'model; one documented LazyStruct restriction is a recorded known finding.', 'DESIGN.md 6/C07')
claim('C20', 'Coq theorems (equality relation, heap invariant over any mutation history, character-level inversion) + correspondence + oracles',
      'Container equality: private entries ignored, agreement with plain-dict equality, reflexive and symmetric recursively (induction on '
      'nested values). Copy semantics on an object heap: deepcopy/pickle allocate only fresh objects, and after ANY sequence of set/delete/'
      'append through the copy the original denotes the same value (invariant over the operation list); copies keep the attribute view. '
      'hexundump(hexdump(d, n), n) = d for every byte string and line size at the character level. The extracted model (equality, heap '
      'operation language, hexdump text) is compared with the library; oracles check views, independence at every nested object, search.',
      'DESIGN.md 6/C20')
claim('C01', 'Coq theorem by structural induction over the construct syntax (closed sequential fragment) + correspondence + round-trip oracle',
      'roundtrip_fragment: for every construct satisfying the decidable predicate frag (FormatField integers, BytesInteger of any width, VarInt, '
      'ZigZag, Bytes, GreedyBytes in tail position, Pass, Const, Renamed, Struct, Sequence, Array, Prefixed with any integer length field, Padded, '
      'Aligned, FixedSized - all parameters constants, any nesting depth) build-then-parse returns the value built, at any stream position. '
      'dep_roundtrip: the same for the dependent fragment dfrag - Structs whose members are sized by earlier integer fields (Bytes / Array / Padded / '
      'FixedSized of this.n) or chosen by them (Switch / IfThenElse on this.k), any depth. '
      'Context-dependent members, strings, floats, mappings, bit-level and byte-transforming constructs are tied by correspondence with the '
      'extracted model and by the round-trip oracle on the implementation (generated constructs to depth 4 x boundary values).', 'DESIGN.md 6/C01')
claim('C02', 'Coq theorems (build after parse is stable, by induction over the syntax; unique / canonical encodings of integers, VarInt, Flag) + correspondence + idempotence oracle',
      'rebuild_fragment: for every construct of the closed sequential fragment with named Struct members, the value parsed from what was built builds the '
      'same bytes again, at any position, in any context; hence C02_reproduced_exactly (bytes the construct produced are reproduced) and '
      'C02_reencoding_is_idempotent (after one accepted re-encoding of ANY input nothing changes any more). dep_rebuild: the same for dependent layouts '
      '(sizes and Switch / IfThenElse choices read from earlier integer fields). Struct members may be named or anonymous constants / padding '
      '(anon_det). float16/32/64_parse_then_build: every non-NaN pattern of a float field is reproduced by build(parse(.)), NaNs are canonicalised. '
      'C01_roundtrip_closed gives the parse half; bytesint_parse_then_build (one encoding per value), '
      'varint_normalises (non-minimal accepted, canonical emitted, stable), flag_canonical. The oracle evaluates build(parse(x)) idempotence '
      'on the implementation for non-canonical inputs (non-minimal VarInts, all flag bytes, padding, trailing bytes in regions, duplicate '
      'labels, alternatives), generated constructs x mutated encodings, and 15 gallery formats; three recorded known findings.', 'DESIGN.md 6/C02')
claim('C06', 'Coq theorems on the stream helpers and leaves + outcome-class correspondence + truncation sweep + k-th-operation fault injection',
      'parse_only_construct_errors: for every construct of the closed sequential fragment and every input whatsoever, parse returns a value or a '
      'ConstructError subclass, never a foreign exception; truncation_fragment: every strict prefix of what such a construct builds is rejected with StreamError, at '
      'any stream position (both by induction on the syntax); dep_parse_only_construct_errors / dep_truncation: both for the dependent fragment '
      '(sizes and Switch / IfThenElse choices read from earlier integer fields). The stream helpers fail only with StreamError and never return fewer bytes than requested; integer leaves and VarInt reject every truncated '
      'input with StreamError; ExplicitError escapes Select/GreedyRange/Peek; sizeof never leaks KeyError (all constructs). On the library: generated '
      'constructs x random/boundary/huge-length/mutated inputs must give a value or a ConstructError (outcome class compared with the extracted '
      'model); every strict prefix of canonical encodings of strict constructs must be StreamError; every k-th stream operation is made to raise / '
      'return short / empty, seek and tell to fail, for parse and build. Three recorded known findings (non-terminating zero-width repetition, '
      'swallowed stream failures, LazyStruct sibling KeyError).', 'DESIGN.md 6/C06')
claim('C18', 'Coq theorem by induction over all construct classes (path extension) + exact-path correspondence + truncation/unbuildable/sizeof oracles',
      'parse_path_extends and sizeof_path_extends: for every construct of the model and every loop, an error carries a path extending the one '
      'the construct was entered with (proved by induction over all 59 classes); Renamed appends exactly its name. The exact path of every error '
      'is compared between the extracted model and the library on every truncation offset of generated nested shapes (names drawn from a small '
      'pool so that parent and child share names), on every leaf made unbuildable, on sizeof over unsized and key-less members; the oracle checks '
      'the path against the layout bookkeeping of the generator.', 'DESIGN.md 6/C18')
claim('C16', 'Coq theorems (frame of parsing by induction over all construct classes; access histories as a state machine with a cache invariant; LazyArray against Array) + history correspondence + eager-equality oracles',
      'parse_frame: every construct returns the stream it was given with at most another position; hence every deferred parse restores the stream '
      'exactly (lazy_force_restores, lazy_access_restores). lazy_history_order_independent: for every lazy result and every access history - any '
      'order, repetitions, length - each access returns what the first access on the fresh result returns and the position never moves (invariant '
      'over the history: the offset table is constant, the cache only holds such values). lazyarray_matches_array: whenever the eager Array parses, '
      'LazyArray ends on the same stream and every element is the eager element; lazystruct_matches_struct: the same for LazyStruct against Struct '
      '(member hypotheses proved for Int*/Float* and VarInt; members that read the context are outside the theorem). Lazy, rebuild, '
      'context-dependent members and the enclosing parse are checked on the library: all histories with repetition up to k^k '
      'for k<=4 (k<=6 thorough) by index/name/attribute, iteration, slicing, on canonical, offset, trailing and mutated inputs; each history also '
      'runs on the extracted model (lazy_run). Five repaired defects (F6, F13, F17-F21).', 'DESIGN.md 6/C16')
claim('C17', 'Coq theorems over write-effect summaries regenerated from the source by an ast translator (finite admissibility check + frame over all histories and interleavings) + history correspondence with the pure model + vars()/class-state snapshots + entry-point and threaded oracles',
      'effects_ok: in the table regenerated from the current source - every call-time method of every Construct / expression class and every '
      'module-level function of the package - nothing writes self, class or module state except Rebuffered.stream2, Debugger.retval and three '
      'uncalled print-option setters (kernel-evaluated on every run). history_frame / C17_objects_unchanged / C17_any_schedule: hence after any '
      'history of calls and under any interleaving of any number of workers every object is unchanged, and every observation of it is the same at '
      'every point. On the library: call histories over a pool sharing members and singletons, each call compared with fresh objects and repeated '
      'after the history, recursive vars() and class/module state snapshots, 8 and 16 concurrent workers; the same call streams compared with the '
      'extracted model, which is a function of (construct, input, context) by construction; bytes / bytearray / memoryview / parse_stream at offsets / '
      'parse_file and build / build_stream / build_file agree. The theorem trusts the translator\'s notion of a write; thread schedules are validated, not proved.',
      'DESIGN.md 6/C17')
claim('C04', 'Coq theorems by induction over the construct syntax (model of the emitted code vs the interpreter, parse and build) + correspondence of that model with the code compile() really emits + compiled-vs-interpreted oracles',
      'model/Compiled.v states what each _emitparse/_emitbuild emits (unchecked io.read, loops without _index, padding by static sizeof, static '
      'Union seeks, foreign exceptions, linked fallback). compiled_parse_agrees / compiled_build_agrees: for every construct of the fragment - all '
      'emitted leaves with arbitrary context expressions, all linked classes, closed under 20 wrappers/composites to any depth, with the side '
      'conditions the emitters assume (no _index in repeated elements, static size = consumed size under Padded/Aligned) - the emitted code returns '
      'what the interpreter returns whenever the interpreter succeeds. The extracted model runs against compile().parse/.build on every case '
      '(41k cases thorough, errors compared as errors); on the library compiled and interpreted parse/build/sizeof are compared for every construct '
      'that takes an expression (generated integer/boolean trees over every operator, nested/outer scopes, _params/_root, len_/sum_/min_/max_/abs_, '
      'quoted string and bytes constants) inside a host struct with a dependent probe, and for generated constructs to depth 3. Inlined expression '
      'text is evaluated by the same eval as the interpreter in the model: that the text means the expression is C11. Eight repaired defects '
      '(F3, F22-F28). FlagsEnum, Peek, Union with a selector and PascalString (instance-level emitter) are outside the theorem, inside the oracles.',
      'DESIGN.md 6/C04')
claim('C19', 'Coq model of the exporter ladder and of a reference reading of the schema dialect; theorems for all flat structs and for structs nested in structs; emitted-schema / reading / layout correspondence; schema-vs-parse layout oracle',
      'model/Ksy.v: ksy_emit (the _compileseq/_compileprimitivetype/_compilefulltype fallback ladder with the id allocator over the per-class '
      'emitters), ksy_interp (Kaitai meaning of type, size, size-eos, contents, repeat*, if, terminator*, pad-right, encoding, enum, switch-on, user '
      'types), ksy_layout (the construct itself). ksy_describes_flat_struct: for every Struct of named flat members and every input it parses, '
      'reading the emitted schema gives every field the same identifier, extent and value (induction over the member list). '
      'ksy_describes_nested_struct: the same for Structs nested in Structs to depth 20 - every nested Struct gets a helper type type_<k> with a fresh k '
      '(decimal names are injective), later types never shadow earlier ones, and every level reads to the same records. '
      'ksy_describes_dependent_struct: members sized by an earlier integer field of the same Struct (Bytes(this.n), Array(this.n, x)): the exported '
      'size expression is evaluated in a scope holding the same integers as the construct\'s. ksy_emit is compared '
      'with the dictionary the real export_ksy() produces (stub YAML dumper), ksy_interp with an independent Python reading, ksy_layout with an '
      'instrumented parse, on generated exportable structs (integers, floats, bytes, strings in 5 encodings, flags, enums, nested structs, arrays, '
      'ranges, prefixed, padded, conditionals, bit structs, constants with non-verbatim fields) - 31k cases thorough; the layout oracle compares '
      'identifiers, extents (nested) and values on the library for all of them, including bit structs, pointers, flag sets and count-prefixed '
      'arrays, which are outside the Coq model of the exporter. The dialect is construct\'s own and is judged against the Kaitai meaning of its '
      'keys as written down in ksy_interp, not against the Kaitai compiler (not installed). Five repaired defects (F29-F33).', 'DESIGN.md 6/C19')
