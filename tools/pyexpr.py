"""C11, printing: CPython's own tokenizer and parser as the reference for model/PyExpr.v.

  tokens_of(text)  -> list of tok terms (tokenize)           -- compared with the model's printer on repr(e)
  ast_term(text)   -> ('Some', expr term) | None (ast.parse) -- compared with the model's pyparse on those tokens
"""
import ast, io, tokenize

from reify import Unsupported

BINOPS = {'+': 'OAdd', '-': 'OSub', '*': 'OMul', '/': 'OTrueDiv', '//': 'OFloorDiv', '%': 'OMod', '**': 'OPow',
          '^': 'OXor', '<<': 'OLshift', '>>': 'ORshift', '&': 'OAnd', '|': 'OOr', '>': 'OGt', '>=': 'OGe', '<': 'OLt',
          '<=': 'OLe', '==': 'OEq', '!=': 'ONe'}
NAMES = {'this': ('NThis',), 'obj_': ('NObj',), 'list_': ('NLst',), 'True': ('NTrue',), 'False': ('NFalse',),
         'None': ('NNone',), 'len_': ('NFunc', ('FLen',)), 'sum_': ('NFunc', ('FSum',)), 'min_': ('NFunc', ('FMin',)),
         'max_': ('NFunc', ('FMax',)), 'abs_': ('NFunc', ('FAbs',))}


def tokens_of(text):
    out = []
    try:
        toks = list(tokenize.generate_tokens(io.StringIO(text).readline))
    except (tokenize.TokenError, SyntaxError, IndentationError) as e:
        raise Unsupported('tokenize: %s' % e)
    for t in toks:
        if t.type in (tokenize.NEWLINE, tokenize.NL, tokenize.ENDMARKER, tokenize.INDENT, tokenize.DEDENT):
            continue
        s = t.string
        if t.type == tokenize.OP:
            if s == '(':
                out.append(('TLP',))
            elif s == ')':
                out.append(('TRP',))
            elif s == '[':
                out.append(('TLB',))
            elif s == ']':
                out.append(('TRB',))
            elif s in BINOPS:
                out.append(('TOp', (BINOPS[s],)))
            else:
                raise Unsupported('token %r' % s)
        elif t.type == tokenize.NAME:
            if s == 'not':
                out.append(('TNot',))
            elif s == 'in':
                out.append(('TOp', ('OContains',)))
            elif s in NAMES:
                out.append(('TName', NAMES[s]))
            else:
                raise Unsupported('name %r' % s)
        elif t.type == tokenize.NUMBER:
            try:
                v = ast.literal_eval(s)
            except Exception:
                raise Unsupported('number %r' % s)
            if type(v) is not int:
                raise Unsupported('number %r' % s)
            out.append(('TInt', v))
        elif t.type == tokenize.STRING:
            try:
                v = ast.literal_eval(s)
            except Exception:
                raise Unsupported('string %r' % s)
            if isinstance(v, str):
                out.append(('TStr', [ord(c) for c in v]))
            elif isinstance(v, bytes):
                out.append(('TBytes', v))
            else:
                raise Unsupported('string %r' % s)
        else:
            raise Unsupported('token %r' % (t,))
    return out


_BIN = {ast.Add: 'OAdd', ast.Sub: 'OSub', ast.Mult: 'OMul', ast.Div: 'OTrueDiv', ast.FloorDiv: 'OFloorDiv', ast.Mod: 'OMod',
        ast.Pow: 'OPow', ast.BitXor: 'OXor', ast.LShift: 'OLshift', ast.RShift: 'ORshift', ast.BitAnd: 'OAnd',
        ast.BitOr: 'OOr'}
_CMP = {ast.Gt: 'OGt', ast.GtE: 'OGe', ast.Lt: 'OLt', ast.LtE: 'OLe', ast.Eq: 'OEq', ast.NotEq: 'ONe'}
_UN = {ast.USub: 'UNeg', ast.UAdd: 'UPos', ast.Not: 'UNot'}


class _No(Exception):
    pass


def _const(v):
    if v is None:
        return ('VNone',)
    if v is True or v is False:
        return ('VBool', v)
    if type(v) is int:
        return ('VInt', v)
    if isinstance(v, str):
        return ('VStr', [ord(c) for c in v])
    if isinstance(v, bytes):
        return ('VBytes', v)
    raise _No()


def _key(n):
    if isinstance(n, ast.Constant):
        v = n.value
        if isinstance(v, str):
            if all(ord(c) < 256 for c in v):
                return ('KName', bytes(ord(c) for c in v))
            raise _No()
        if type(v) is int:
            return ('KIdx', v)
        raise _No()
    if isinstance(n, ast.UnaryOp) and isinstance(n.op, ast.USub) and isinstance(n.operand, ast.Constant) \
            and type(n.operand.value) is int:
        return ('KIdx', -n.operand.value)
    raise _No()


def _conv(n):
    if isinstance(n, ast.Name):
        nm = NAMES.get(n.id)
        if nm == ('NThis',):
            return ('XRoot', ('RThis',))
        if nm == ('NObj',):
            return ('XRoot', ('RObj',))
        if nm == ('NLst',):
            return ('XList',)
        raise _No()
    if isinstance(n, ast.Constant):
        return ('XConst', _const(n.value))
    if isinstance(n, ast.BinOp):
        if type(n.op) not in _BIN:
            raise _No()
        return ('XBin', (_BIN[type(n.op)],), _conv(n.left), _conv(n.right))
    if isinstance(n, ast.UnaryOp):
        if type(n.op) not in _UN:
            raise _No()
        return ('XUn', (_UN[type(n.op)],), _conv(n.operand))
    if isinstance(n, ast.Compare):
        if len(n.ops) != 1:
            raise _No()
        l, r = _conv(n.left), _conv(n.comparators[0])
        if isinstance(n.ops[0], ast.In):
            return ('XBin', ('OContains',), r, l)          # a in b  ==  operator.contains(b, a)
        if type(n.ops[0]) not in _CMP:
            raise _No()
        return ('XBin', (_CMP[type(n.ops[0])],), l, r)
    if isinstance(n, ast.Subscript):
        sl = n.slice
        if isinstance(sl, ast.Index):          # python < 3.9
            sl = sl.value
        return ('XItem', _conv(n.value), _key(sl))
    if isinstance(n, ast.Call):
        if isinstance(n.func, ast.Name) and NAMES.get(n.func.id, ('',))[0] == 'NFunc' and len(n.args) == 1 and not n.keywords:
            return ('XFunc', NAMES[n.func.id][1], _conv(n.args[0]))
        raise _No()
    raise _No()


def ast_term(text):
    try:
        tree = ast.parse(text, mode='eval')
    except SyntaxError:
        return None
    try:
        return ('Some', _conv(tree.body))
    except _No:
        return None
