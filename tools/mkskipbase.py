#!/usr/bin/env python3
"""Record, from the evidence of a full quick pass on the unchanged tree, which share of each suite's cases is usually outside the
model (reify refusals).  ./check reports a weakened tie when a run skips far more than that (2x the share + 200 cases)."""
import json, os, glob
ROOT = os.path.dirname(os.path.dirname(os.path.abspath(__file__)))
try:
    out = json.load(open(os.path.join(ROOT, 'skip_baseline.json')))
    if any('ratio' in v for v in out.values()):
        out = {}
except Exception:
    out = {}
import sys
EV = sys.argv[1] if len(sys.argv) > 1 else os.path.join(ROOT, 'evidence')
for f in sorted(glob.glob(os.path.join(EV, 'C*.json'))):
    d = json.load(open(f))
    cov = d['coverage']
    sk = sum(cov.get('skipped', {}).values())
    out.setdefault(d['property_id'], {})[d['tier']] = dict(ratio=round(sk / max(1, cov['evaluations']), 4), skipped=sk, evaluations=cov['evaluations'])
json.dump(out, open(os.path.join(ROOT, 'skip_baseline.json'), 'w'), indent=1, sort_keys=True)
print(json.dumps({k: {t: x['ratio'] for t, x in v.items()} for k, v in out.items()}))
