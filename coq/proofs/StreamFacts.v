(* Facts about the stream model: reading from a positioned input, appending to an output. *)
From Coq Require Import ZArith NArith List Bool Lia ZifyBool ZifyN ZifyNat.
From Coq Require Import Strings.Byte.
Require Import Bytes Value Stream.
Import ListNotations.

Lemma nlen_app {A} (a b : list A) : nlen (a ++ b) = (nlen a + nlen b)%N.
Proof. unfold nlen. rewrite app_length. lia. Qed.

Lemma nlen_nil {A} : nlen (@nil A) = 0%N.
Proof. reflexivity. Qed.

(* a seekable input positioned after [pre], with [body] still unread *)
Definition at_pos (pre body : bytes) (base : N) (sk : bool) : istream :=
  mkI (pre ++ body) (nlen pre) base sk.

Lemma iavail_at pre body base sk : iavail (at_pos pre body base sk) = body.
Proof.
  unfold iavail, at_pos; cbn [idata ipos]. rewrite nlen_app.
  destruct body as [|b body].
  - destruct (_ <=? _)%N eqn:E; [reflexivity|]. rewrite app_nil_r. unfold nlen in *.
    rewrite Nat2N.id. apply skipn_all.
  - destruct (_ <=? _)%N eqn:E.
    + unfold nlen in E. cbn [length] in E. lia.
    + unfold nlen. rewrite Nat2N.id. rewrite skipn_app, skipn_all, Nat.sub_diag. reflexivity.
Qed.

Lemma itell_at pre body base sk : itell (at_pos pre body base sk) = Z.of_N (base + nlen pre).
Proof. reflexivity. Qed.

Lemma iabs_at pre body base sk : iabs (at_pos pre body base sk) = (base + nlen pre)%N.
Proof. reflexivity. Qed.

(* reading exactly the next [d] *)
Lemma iread_at pre d rest base sk p :
  iread (at_pos pre (d ++ rest) base sk) (Z.of_nat (length d)) p = Ok (d, at_pos (pre ++ d) rest base sk).
Proof.
  unfold iread. rewrite iavail_at.
  destruct (Z.of_nat (length d) <? 0)%Z eqn:E1; [lia|].
  rewrite app_length.
  destruct (Z.of_nat (length d + length rest) <? Z.of_nat (length d))%Z eqn:E2; [lia|].
  rewrite Nat2Z.id, firstn_app, Nat.sub_diag, firstn_all. cbn [firstn]. rewrite app_nil_r.
  unfold at_pos, iset_pos; cbn [idata ipos ibase iseekable].
  rewrite nlen_app, <- app_assoc. repeat f_equal. unfold nlen. lia.
Qed.

(* a read that asks for more than is there *)
Lemma iread_short pre body base sk n p :
  (Z.of_nat (length body) < n)%Z -> iread (at_pos pre body base sk) n p = Err EStream (Some p).
Proof.
  intros H. unfold iread. rewrite iavail_at.
  destruct (n <? 0)%Z eqn:E1; [reflexivity|].
  destruct (Z.of_nat (length body) <? n)%Z eqn:E2; [reflexivity|lia].
Qed.

Lemma iread_n_at pre body base sk n p :
  (0 <= n <= Z.of_nat (length body))%Z ->
  iread (at_pos pre body base sk) n p =
  Ok (firstn (Z.to_nat n) body, at_pos (pre ++ firstn (Z.to_nat n) body) (skipn (Z.to_nat n) body) base sk).
Proof.
  intros H.
  pose proof (iread_at pre (firstn (Z.to_nat n) body) (skipn (Z.to_nat n) body) base sk p) as E.
  rewrite firstn_skipn in E. rewrite firstn_length in E.
  replace (Z.of_nat (Nat.min (Z.to_nat n) (length body))) with n in E by lia. exact E.
Qed.

Lemma iread_all_at pre body base sk :
  iread_all (at_pos pre body base sk) = (body, at_pos (pre ++ body) [] base sk).
Proof.
  unfold iread_all. rewrite iavail_at. f_equal.
  unfold at_pos, iset_pos; cbn [idata ipos ibase iseekable]. rewrite app_nil_r, nlen_app.
  f_equal. lia.
Qed.

(* ---- output in append mode: the position is the end of the data ---- *)

Definition app_mode (o : ostream) : Prop := opos o = nlen (odata o).

Definition oapp (o : ostream) (d : bytes) : ostream :=
  mkO (odata o ++ d) (nlen (odata o ++ d)) (oseekable o).

Lemma app_mode_new : app_mode ostream_new.
Proof. reflexivity. Qed.

Lemma app_mode_oapp o d : app_mode (oapp o d).
Proof. reflexivity. Qed.

Lemma oapp_nil o : app_mode o -> oapp o [] = o.
Proof.
  unfold app_mode, oapp. destruct o as [d p sk]; cbn. intros ->. rewrite app_nil_r. reflexivity.
Qed.

Lemma oapp_app o a b : oapp (oapp o a) b = oapp o (a ++ b).
Proof. unfold oapp; cbn [odata oseekable]. rewrite <- app_assoc. reflexivity. Qed.

Lemma owrite_raw_app o d : app_mode o -> owrite_raw o d = Ok (oapp o d).
Proof.
  unfold app_mode, owrite_raw, oapp. intros H. rewrite H.
  rewrite N.leb_refl.
  replace (N.to_nat (nlen (odata o))) with (length (odata o)) by (unfold nlen; lia).
  rewrite firstn_all. rewrite skipn_all2 by (apply Nat.le_add_r). rewrite app_nil_r.
  rewrite nlen_app. reflexivity.
Qed.

Lemma owrite_app o d p : app_mode o -> owrite o d (Z.of_nat (length d)) p = Ok (oapp o d).
Proof.
  intros H. unfold owrite.
  destruct (Z.of_nat (length d) <? 0)%Z eqn:E; [lia|].
  rewrite Z.eqb_refl. cbn [negb]. apply owrite_raw_app, H.
Qed.

Lemma owrite_len o d n p r : owrite o d n p = Ok r -> n = Z.of_nat (length d).
Proof.
  unfold owrite. destruct (n <? 0)%Z; [discriminate|].
  destruct (Z.of_nat (length d) =? n)%Z eqn:E; cbn [negb]; [lia|discriminate].
Qed.

Lemma otell_app o : app_mode o -> otell o = Z.of_nat (length (odata o)).
Proof. unfold app_mode, otell, nlen. intros ->. lia. Qed.

Lemma odata_new_oapp d : odata (oapp ostream_new d) = d.
Proof. reflexivity. Qed.

(* ---- the stream helpers fail only with StreamError ---- *)
Theorem iread_discipline : forall s n p, (exists r, iread s n p = Ok r) \/ iread s n p = Err EStream (Some p).
Proof.
  intros s n p. unfold iread. destruct (n <? 0)%Z; [right; reflexivity|].
  destruct (Z.of_nat (length (iavail s)) <? n)%Z; [right; reflexivity|left; eexists; reflexivity].
Qed.

Theorem iseek_discipline : forall s off w p, (exists r, iseek s off w p = Ok r) \/ iseek s off w p = Err EStream (Some p).
Proof.
  intros s off w p. unfold iseek.
  destruct (negb (iseekable s)).
  - destruct ((w =? 0)%Z && (off =? itell s)%Z); [left; eexists; reflexivity|right; reflexivity].
  - destruct (w =? 0)%Z.
    + destruct (off - Z.of_N (ibase s) <? 0)%Z; [right; reflexivity|left; eexists; reflexivity].
    + destruct (w =? 1)%Z; [left; eexists; reflexivity|]. destruct (w =? 2)%Z; [left; eexists; reflexivity|right; reflexivity].
Qed.

Theorem owrite_discipline : forall o d n p, (exists r, owrite o d n p = Ok r) \/ owrite o d n p = Err EStream (Some p) \/ owrite o d n p = Err EUnsupported None.
Proof.
  intros o d n p. unfold owrite. destruct (n <? 0)%Z; [right; left; reflexivity|].
  destruct (negb (Z.of_nat (length d) =? n)%Z); [right; left; reflexivity|].
  unfold owrite_raw. destruct (opos o <=? nlen (odata o))%N; [left; eexists; reflexivity|].
  destruct (alloc_bound <? Z.of_N (opos o - nlen (odata o)))%Z; [right; right; reflexivity|left; eexists; reflexivity].
Qed.

(* no value is produced from fewer bytes than requested *)
Theorem iread_exact : forall s n p d s', iread s n p = Ok (d, s') -> Z.of_nat (length d) = n /\ (0 <= n)%Z.
Proof.
  intros s n p d s'. unfold iread. destruct (n <? 0)%Z eqn:E; [discriminate|].
  destruct (Z.of_nat (length (iavail s)) <? n)%Z eqn:E2; [discriminate|]. intros H. injection H as <- _.
  rewrite firstn_length. lia.
Qed.
