(* Delimited regions (C08) and look-ahead (C09): facts read off the interpreters, for every inner
   construct, every context and every input. *)
From Coq Require Import ZArith NArith List Bool Lia ZifyBool ZifyN ZifyNat.
From Coq Require Import Strings.Byte.
Require Import Bytes Value Expr Codec Float Stream Syntax Sizeof Parse Build BytesFacts StreamFacts PrimFacts.
Import ListNotations.

(* ---- seeking ---- *)

Lemma istream_eta s : mkI (idata s) (ipos s) (ibase s) (iseekable s) = s.
Proof. destruct s; reflexivity. Qed.

Lemma iseek_abs_tell s off p r s' : iseek s off 0 p = Ok (r, s') -> r = off /\ itell s' = off.
Proof.
  unfold iseek. destruct (iseekable s) eqn:Sk; cbn [negb].
  - cbn [Z.eqb]. destruct (off - Z.of_N (ibase s) <? 0)%Z eqn:E; [discriminate|].
    intros H. injection H as <- <-. unfold itell, iset_pos; cbn [ibase ipos]. lia.
  - destruct ((0 =? 0)%Z && (off =? itell s)%Z) eqn:E; [|discriminate].
    intros H. injection H as <- <-. lia.
Qed.

Lemma iseek_back_id s p : iseekable s = true -> iseek_back s p = Ok (itell s, s).
Proof.
  intros Sk. unfold iseek_back, iseek. rewrite Sk. cbn [negb Z.eqb].
  replace (itell s - Z.of_N (ibase s))%Z with (Z.of_N (ipos s)) by (unfold itell; lia).
  destruct (Z.of_N (ipos s) <? 0)%Z eqn:E; [lia|].
  rewrite N2Z.id. unfold iset_pos. rewrite istream_eta. reflexivity.
Qed.

(* ---- C08: the region is fixed before the inner construct runs ---- *)

(* FixedSized: the outer stream ends at start + n whatever the inner construct consumed *)
Theorem fixedsized_region : forall len c cx p s v s',
  parse (CFixedSized len c) cx p s = Ok (v, s') ->
  exists n d, eval_int cx len = Ok n /\ (0 <= n)%Z /\ iread s n p = Ok (d, s') /\
    exists si, parse c cx p (substream d (iabs s)) = Ok (v, si).
Proof.
  intros len c cx p s v s' H. cbn [parse] in H.
  destruct (eval_int cx len) as [n|] eqn:En; [|discriminate]. cbn [bind] in H.
  destruct (n <? 0)%Z eqn:Eneg; [discriminate|].
  destruct (iread s n p) as [[d s1]|] eqn:Er; [|discriminate]. cbn [bind] in H.
  destruct (parse c cx p (substream d (iabs s))) as [[v1 si]|] eqn:Ep; [|discriminate]. cbn [bind] in H.
  injection H as <- <-. exists n, d. repeat split; try assumption; try lia. exists si. exact Ep.
Qed.

(* a greedy inner construct sees all and only the region *)
Lemma greedybytes_substream d b cx p :
  parse CGreedyBytes cx p (substream d b) = Ok (VBytes d, mkI d (nlen d) b true).
Proof.
  cbn [parse]. unfold iread_all, iavail, substream, iset_pos; cbn [idata ipos ibase iseekable].
  destruct d as [|x d]; [reflexivity|].
  destruct (nlen (x :: d) <=? 0)%N eqn:E; [unfold nlen in E; cbn [length] in E; lia|].
  cbn [N.to_nat skipn]. repeat f_equal; try lia.
Qed.

Theorem fixedsized_greedy : forall d rest pre base sk cx p,
  parse (CFixedSized (kint (Z.of_nat (length d))) CGreedyBytes) cx p (at_pos pre (d ++ rest) base sk) =
  Ok (VBytes d, at_pos (pre ++ d) rest base sk).
Proof.
  intros. cbn [parse]. rewrite eval_int_kint. cbn [bind].
  destruct (Z.of_nat (length d) <? 0)%Z eqn:E; [lia|].
  rewrite iread_at. cbn [bind]. fold (parse CGreedyBytes cx p (substream d (iabs (at_pos pre (d ++ rest) base sk)))).
  rewrite greedybytes_substream. reflexivity.
Qed.

(* Prefixed: the prefix value alone fixes the region *)
Theorem prefixed_region : forall lc c cx p s v s',
  parse (CPrefixed lc c false) cx p s = Ok (v, s') ->
  exists lv s1 n d, parse lc cx p s = Ok (lv, s1) /\ vint_of lv = Ok n /\ iread s1 n p = Ok (d, s') /\
    exists si, parse c cx p (substream d (iabs s1)) = Ok (v, si).
Proof.
  intros lc c cx p s v s' H. cbn [parse] in H.
  destruct (parse lc cx p s) as [[lv s1]|] eqn:El; [|discriminate]. cbn [bind] in H.
  destruct (vint_of lv) as [n|] eqn:En; [|discriminate]. cbn [bind] in H.
  destruct (iread s1 n p) as [[d s2]|] eqn:Er; [|discriminate]. cbn [bind] in H.
  destruct (parse c cx p (substream d (iabs s1))) as [[v1 si]|] eqn:Ep; [|discriminate]. cbn [bind] in H.
  injection H as <- <-. exists lv, s1, n, d. repeat split; try assumption. exists si. exact Ep.
Qed.

Theorem prefixed_includelength_region : forall lc c cx p s v s',
  parse (CPrefixed lc c true) cx p s = Ok (v, s') ->
  exists lv s1 n k d, parse lc cx p s = Ok (lv, s1) /\ vint_of lv = Ok n /\ sizeof lc cx p = Ok k /\
    iread s1 (n - k) p = Ok (d, s') /\ exists si, parse c cx p (substream d (iabs s1)) = Ok (v, si).
Proof.
  intros lc c cx p s v s' H. cbn [parse] in H.
  destruct (parse lc cx p s) as [[lv s1]|] eqn:El; [|discriminate]. cbn [bind] in H.
  destruct (vint_of lv) as [n|] eqn:En; [|discriminate]. cbn [bind] in H.
  destruct (sizeof lc cx p) as [k|] eqn:Ek; [|discriminate]. cbn [bind] in H.
  destruct (iread s1 (n - k) p) as [[d s2]|] eqn:Er; [|discriminate]. cbn [bind] in H.
  destruct (parse c cx p (substream d (iabs s1))) as [[v1 si]|] eqn:Ep; [|discriminate]. cbn [bind] in H.
  injection H as <- <-. exists lv, s1, n, k, d. repeat split; try assumption. exists si. exact Ep.
Qed.

(* NullStripped / ProcessXor: the region is the rest of the stream, the outer stream ends at its end *)
Theorem nullstripped_region : forall c pad cx p s v s',
  parse (CNullStripped c pad) cx p s = Ok (v, s') ->
  s' = snd (iread_all s) /\
  exists si, parse c cx p (substream (null_strip pad (fst (iread_all s))) (iabs s)) = Ok (v, si).
Proof.
  intros c pad cx p s v s' H. cbn [parse] in H. destruct pad as [|b pad]; [discriminate|].
  destruct (iread_all s) as [d s1] eqn:Er.
  destruct (parse c cx p (substream (null_strip (b :: pad) d) (iabs s))) as [[v1 si]|] eqn:Ep; [|discriminate].
  cbn [bind] in H. injection H as <- <-. cbn [fst snd]. split; [reflexivity|]. exists si. exact Ep.
Qed.

(* ---- absolute offsets at any nesting depth ---- *)

Lemma itell_substream d b : itell (substream d b) = Z.of_N b.
Proof. unfold itell, substream; cbn [ibase ipos]. lia. Qed.

Lemma itell_iabs s : itell s = Z.of_N (iabs s).
Proof. reflexivity. Qed.

Lemma iread_abs s n p d s' : iread s n p = Ok (d, s') -> iabs s' = (iabs s + Z.to_N n)%N /\ (0 <= n)%Z.
Proof.
  unfold iread. destruct (n <? 0)%Z eqn:E; [discriminate|].
  destruct (Z.of_nat (length (iavail s)) <? n)%Z; [discriminate|].
  intros H. injection H as <- <-. unfold iabs, iset_pos; cbn [ibase ipos]. lia.
Qed.

(* layers of delimiters around a hole *)
Inductive layer :=
| LFixed (n : Z)
| LPrefixedByte
| LNullStripped (pad : bytes)
| LXorZero.

Definition wrap1 (l : layer) (c : con) : con :=
  match l with
  | LFixed n => CFixedSized (kint n) c
  | LPrefixedByte => CPrefixed (CFormat Big FB) c false
  | LNullStripped pad => CNullStripped c pad
  | LXorZero => CProcessXor (kint 0) c
  end.
Definition wrap (ls : list layer) (c : con) : con := fold_right wrap1 c ls.

(* bytes of headers consumed before the hole *)
Definition header1 (l : layer) : Z := match l with LPrefixedByte => 1 | _ => 0 end.
Definition headers (ls : list layer) : Z := fold_right (fun l a => header1 l + a)%Z 0%Z ls.

Lemma parse_byte_abs cx p s lv s1 :
  parse (CFormat Big FB) cx p s = Ok (lv, s1) -> iabs s1 = (iabs s + 1)%N.
Proof.
  cbn [parse]. unfold parse_format. cbn [fcode_size].
  destruct (iread s (Z.of_nat 1) p) as [[d s2]|] eqn:Er; [|discriminate]. cbn [bind fcode_float].
  intros H. injection H as <- <-. apply iread_abs in Er. destruct Er as [-> _]. reflexivity.
Qed.

(* Tell inside any nest of delimiters, at any depth, reports the absolute offset of the outermost
   stream: the outer position plus the header bytes consumed on the way in. *)
Theorem tell_absolute_at_any_depth : forall ls cx p s v s',
  parse (wrap ls CTell) cx p s = Ok (v, s') -> v = VInt (itell s + headers ls).
Proof.
  induction ls as [|l ls IH]; intros cx p s v s' H.
  - cbn [wrap fold_right parse] in H. injection H as <- <-. cbn [headers fold_right]. f_equal. lia.
  - cbn [wrap fold_right] in H. fold (wrap ls CTell) in H. cbn [headers fold_right]. fold (headers ls).
    destruct l as [n| |pad|]; cbn [wrap1 header1] in *.
    + apply fixedsized_region in H. destruct H as (n' & d & _ & _ & _ & si & Hp).
      apply IH in Hp. rewrite itell_substream in Hp. rewrite Hp. rewrite itell_iabs. f_equal.
    + apply prefixed_region in H. destruct H as (lv & s1 & n & d & Hl & _ & _ & si & Hp).
      apply IH in Hp. rewrite itell_substream in Hp. rewrite Hp. apply parse_byte_abs in Hl.
      rewrite Hl, itell_iabs. f_equal. lia.
    + apply nullstripped_region in H. destruct H as (_ & si & Hp).
      apply IH in Hp. rewrite itell_substream in Hp. rewrite Hp. rewrite itell_iabs. f_equal.
    + cbn [parse] in H. unfold kint in H. rewrite eval_const in H. cbn [bind] in H.
      destruct (iread_all s) as [d s1] eqn:Er.
      cbn [xor_data Z.eqb Z.leb Z.ltb Z.compare andb negb bind] in H.
      destruct (parse (wrap ls CTell) cx p (substream d (iabs s))) as [[v1 si]|] eqn:Ep; [|discriminate].
      cbn [bind] in H. injection H as <- <-.
      apply IH in Ep. rewrite itell_substream in Ep. rewrite Ep, itell_iabs. f_equal.
Qed.

(* ---- C09: look-ahead ---- *)

Theorem peek_restores_position : forall c cx p s v s',
  parse (CPeek c) cx p s = Ok (v, s') -> itell s' = itell s.
Proof.
  intros c cx p s v s' H. cbn [parse] in H.
  destruct (parse c cx p s) as [[v1 s1]|e q] eqn:Ep.
  - destruct (iseek s1 (itell s) 0 p) as [[r sb]|] eqn:Es; [|discriminate]. cbn [bind] in H.
    injection H as <- <-. apply iseek_abs_tell in Es. tauto.
  - unfold iseek_back in H. destruct (iseekable s); [|discriminate].
    destruct (iseek s (itell s) 0 p) as [[r sb]|] eqn:Es; [|discriminate]. cbn [bind] in H.
    destruct (err_eqb e EExplicit); [discriminate|].
    destruct (is_construct_error e); [|discriminate].
    injection H as <- <-. apply iseek_abs_tell in Es. tauto.
Qed.

(* an inner failure other than ExplicitError (and non-construct errors) yields None, ExplicitError escapes *)
Theorem peek_explicit_escapes : forall c cx p s q,
  iseekable s = true -> parse c cx p s = Err EExplicit q -> parse (CPeek c) cx p s = Err EExplicit q.
Proof.
  intros c cx p s q Sk H. cbn [parse]. rewrite H. rewrite iseek_back_id by exact Sk. reflexivity.
Qed.

Theorem peek_failure_is_none : forall c cx p s e q,
  iseekable s = true -> parse c cx p s = Err e q -> is_construct_error e = true -> e <> EExplicit ->
  parse (CPeek c) cx p s = Ok (VNone, s).
Proof.
  intros c cx p s e q Sk H Hc Hne. cbn [parse]. rewrite H. rewrite iseek_back_id by exact Sk. cbn [bind].
  destruct e; try discriminate Hc; try congruence; reflexivity.
Qed.

Theorem pointer_restores_position : forall off c cx p s v s',
  parse (CPointer off c) cx p s = Ok (v, s') -> itell s' = itell s.
Proof.
  intros off c cx p s v s' H. cbn [parse] in H.
  destruct (eval_int cx off) as [o|]; [|discriminate]. cbn [bind] in H.
  destruct (iseek_user s o _ p) as [[r1 s1]|]; [|discriminate]. cbn [bind] in H.
  destruct (parse c cx p s1) as [[v1 s2]|]; [|discriminate]. cbn [bind] in H.
  destruct (iseek s2 (itell s) 0 p) as [[r s3]|] eqn:Es; [|discriminate]. cbn [bind] in H.
  injection H as <- <-. apply iseek_abs_tell in Es. tauto.
Qed.

Theorem pointer_build_restores_position : forall off c obj cx p o v o',
  build (CPointer off c) obj cx p o = Ok (v, o') -> otell o' = otell o.
Proof.
  intros off c obj cx p o v o' H. cbn [build] in H.
  destruct (eval_int cx off) as [a|]; [|discriminate]. cbn [bind] in H.
  destruct (oseek_user o a _ p) as [[r1 o1]|]; [|discriminate]. cbn [bind] in H.
  destruct (build c obj cx p o1) as [[v1 o2]|]; [|discriminate]. cbn [bind] in H.
  destruct (oseek o2 (otell o) 0 p) as [[r o3]|] eqn:Es; [|discriminate]. cbn [bind] in H.
  injection H as <- <-.
  unfold oseek in Es. destruct (oseekable o2); cbn [negb] in Es.
  - cbn [Z.eqb] in Es. destruct (otell o <? 0)%Z eqn:E; [discriminate|]. injection Es as <- <-.
    unfold otell; cbn [opos]. unfold otell in E. lia.
  - destruct ((0 =? 0)%Z && (otell o =? otell o2)%Z) eqn:E; [|discriminate]. injection Es as <- <-. lia.
Qed.

(* ---- C08: OffsettedEnd and NullTerminated ----
   OffsettedEnd: the region runs from the current position to `off` bytes from the END of the (seekable) stream; it is fixed before the inner
   construct runs, the inner construct sees exactly those bytes at their absolute offset, and the outer stream ends right behind them whatever
   the inner construct consumed. NullTerminated: the region is what the scan returns; for a one-byte terminator that is everything in front of
   the FIRST occurrence of the terminator (plus the terminator with include=True), and the outer stream stands behind the terminator
   (consume=True) or at it (consume=False). *)
Lemma iseek_end s p : iseekable s = true ->
  iseek s 0 2 p = Ok ((Z.of_N (ibase s) + Z.of_nat (length (idata s)))%Z, iset_pos s (nlen (idata s))).
Proof.
  intros Sk. unfold iseek. rewrite Sk. cbn [negb Z.eqb Pos.eqb].
  replace (Z.to_N (Z.max 0 (Z.of_nat (length (idata s)) + 0))) with (nlen (idata s)) by (unfold nlen; lia).
  unfold itell, iset_pos, nlen; cbn [ibase ipos]. f_equal. f_equal. lia.
Qed.

Lemma iseek_back_to s q p : iseekable s = true ->
  iseek (iset_pos s q) (itell s) 0 p = Ok (itell s, s).
Proof.
  intros Sk. unfold iseek. cbn [iset_pos iseekable ibase]. rewrite Sk. cbn [negb Z.eqb].
  replace (itell s - Z.of_N (ibase s))%Z with (Z.of_N (ipos s)) by (unfold itell; lia).
  destruct (Z.of_N (ipos s) <? 0)%Z eqn:E; [lia|].
  rewrite N2Z.id. unfold iset_pos; cbn [idata ibase iseekable]. rewrite istream_eta. reflexivity.
Qed.

Theorem offsettedend_region : forall off c cx p s v s',
  iseekable s = true ->
  parse (COffsettedEnd off c) cx p s = Ok (v, s') ->
  exists o d, eval_int cx off = Ok o /\
    iread s (Z.of_N (ibase s) + Z.of_nat (length (idata s)) + o - itell s) p = Ok (d, s') /\
    exists si, parse c cx p (substream d (iabs s)) = Ok (v, si).
Proof.
  intros off c cx p s v s' Sk H. cbn [parse] in H.
  destruct (eval_int cx off) as [o|] eqn:Eo; [|discriminate]. cbn [bind] in H.
  rewrite iseek_end in H by exact Sk. cbn [bind] in H.
  rewrite iseek_back_to in H by exact Sk. cbn [bind] in H.
  destruct (iread s _ p) as [[d s3]|] eqn:Er; [|discriminate]. cbn [bind] in H.
  destruct (parse c cx p (substream d (iabs s))) as [[v1 si]|] eqn:Ep; [|discriminate]. cbn [bind] in H.
  injection H as <- <-. exists o, d. split; [reflexivity|]. split; [exact Er|]. exists si. exact Ep.
Qed.

(* on a concrete stream: with `body` still unread and k = -off bytes to be left at the end, the inner construct sees the first |body| - k bytes *)
Theorem offsettedend_at : forall k c cx p pre body base v s',
  (0 <= k <= Z.of_nat (length body))%Z ->
  parse (COffsettedEnd (kint (- k)) c) cx p (at_pos pre body base true) = Ok (v, s') ->
  let n := Z.to_nat (Z.of_nat (length body) - k) in
  s' = at_pos (pre ++ firstn n body) (skipn n body) base true /\
  exists si, parse c cx p (substream (firstn n body) (base + nlen pre)) = Ok (v, si).
Proof.
  intros k c cx p pre body base v s' Hk H n.
  assert (Sk : iseekable (at_pos pre body base true) = true) by reflexivity.
  destruct (offsettedend_region _ _ _ _ _ _ _ Sk H) as (o & d & Eo & Er & si & Ep).
  rewrite eval_int_kint in Eo. injection Eo as <-.
  assert (Hn : (n <= length body)%nat) by lia.
  assert (Hlen : (Z.of_N (ibase (at_pos pre body base true)) + Z.of_nat (length (idata (at_pos pre body base true))) + - k - itell (at_pos pre body base true))%Z
                 = Z.of_nat (length (firstn n body))).
  { rewrite itell_at. unfold at_pos; cbn [ibase idata]. rewrite app_length, firstn_length_le by exact Hn. unfold nlen. lia. }
  rewrite Hlen in Er. rewrite <- (firstn_skipn n body) in Er at 1. rewrite iread_at in Er. injection Er as <- <-.
  split; [reflexivity|]. exists si. rewrite iabs_at in Ep. exact Ep.
Qed.

(* ---- NullTerminated ---- *)
Theorem nullterminated_region : forall c term incl consume req cx p s v s',
  parse (CNullTerminated c term incl consume req) cx p s = Ok (v, s') ->
  term <> [] /\
  exists d, nullterm_scan (S (length (iavail s))) term incl consume req [] s p = Ok (d, s') /\
    exists si, parse c cx p (substream d (iabs s)) = Ok (v, si).
Proof.
  intros c term incl consume req cx p s v s' H. cbn [parse] in H.
  destruct term as [|t0 tt]; [discriminate|]. split; [discriminate|].
  destruct (nullterm_scan _ (t0 :: tt) incl consume req [] s p) as [[d s1]|] eqn:Es; [|discriminate]. cbn [bind] in H.
  destruct (parse c cx p (substream d (iabs s))) as [[v1 si]|] eqn:Ep; [|discriminate]. cbn [bind] in H.
  injection H as <- <-. exists d. split; [reflexivity|]. exists si. exact Ep.
Qed.

Lemma byte1_eqb x t : bytes_eqb [x] [t] = Byte.eqb x t.
Proof. cbn [bytes_eqb]. rewrite andb_true_r. reflexivity. Qed.

Lemma byte_eqb_refl x : Byte.eqb x x = true.
Proof. apply Byte.byte_dec_lb. reflexivity. Qed.

Lemma byte_eqb_neq x t : x <> t -> Byte.eqb x t = false.
Proof. intros H. destruct (Byte.eqb x t) eqn:E; [|reflexivity]. apply Byte.byte_dec_bl in E. contradiction. Qed.

Lemma iseek_rel_back pre t rest base p :
  iseek (at_pos (pre ++ [t]) rest base true) (- Z.of_nat 1) 1 p = Ok (Z.of_N (base + nlen pre), at_pos pre (t :: rest) base true).
Proof.
  unfold iseek, at_pos. cbn [iseekable negb Z.eqb ipos]. change (1 =? 0)%Z with false. cbn [Z.eqb Pos.eqb].
  unfold itell, iset_pos; cbn [idata ibase ipos iseekable].
  replace (Z.to_N (Z.max 0 (Z.of_N (nlen (pre ++ [t])) + - Z.of_nat 1))) with (nlen pre)
    by (unfold nlen; rewrite app_length; cbn [length]; lia).
  rewrite <- app_assoc. reflexivity.
Qed.

(* the scan with a one-byte terminator: everything in front of the FIRST occurrence of the terminator is the region *)
Lemma scan1 t incl consume req p : forall d acc pre rest base fuel,
  ~ In t d -> (length d < fuel)%nat ->
  nullterm_scan fuel [t] incl consume req acc (at_pos pre (d ++ t :: rest) base true) p =
  Ok (acc ++ d ++ (if incl then [t] else []),
      if consume then at_pos (pre ++ d ++ [t]) rest base true else at_pos (pre ++ d) (t :: rest) base true).
Proof.
  induction d as [|x d IH]; intros acc pre rest base fuel Hnin Hf; (destruct fuel as [|f]; [cbn in Hf; lia|]); cbn [nullterm_scan length app].
  - pose proof (iread_at pre [t] rest base true p) as R. cbn [length app] in R.
    rewrite R. rewrite byte1_eqb, byte_eqb_refl.
    destruct consume.
    + destruct incl; rewrite ?app_nil_r; reflexivity.
    + rewrite iseek_rel_back. cbn [bind]. destruct incl; rewrite ?app_nil_r; reflexivity.
  - pose proof (iread_at pre [x] (d ++ t :: rest) base true p) as R. cbn [length app] in R.
    rewrite R. rewrite byte1_eqb, byte_eqb_neq by (intros ->; apply Hnin; left; reflexivity).
    rewrite IH by (try (intros Hin; apply Hnin; right; exact Hin); cbn [length] in Hf; lia).
    rewrite <- !app_assoc. reflexivity.
Qed.

Theorem nullterminated_first_terminator : forall c t incl consume req cx p pre d rest base,
  ~ In t d ->
  parse (CNullTerminated c [t] incl consume req) cx p (at_pos pre (d ++ t :: rest) base true) =
  (let* (v, _) := parse c cx p (substream (d ++ (if incl then [t] else [])) (base + nlen pre)) in
   Ok (v, if consume then at_pos (pre ++ d ++ [t]) rest base true else at_pos (pre ++ d) (t :: rest) base true)).
Proof.
  intros c t incl consume req cx p pre d rest base Hnin. cbn [parse].
  rewrite iavail_at. rewrite scan1 by (try exact Hnin; rewrite app_length; cbn [length]; lia).
  cbn [bind app]. rewrite iabs_at. reflexivity.
Qed.

(* Select: failed alternatives leave no trace; the result is that of the first alternative that
   succeeds from the starting position *)
Fixpoint first_success (P : con -> parser) (cs : list con) (cx : ctx) (p : path) (s : istream)
  : option (val * istream) :=
  match cs with
  | [] => None
  | c :: t => match P c cx p s with
              | Ok r => Some r
              | Err _ _ => first_success P t cx p s
              end
  end.

Theorem select_first_success : forall P cs cx p s,
  iseekable s = true ->
  (forall c e q, In c cs -> P c cx p s = Err e q -> swallowed e = true) ->
  select_loop P cs cx p s =
  match first_success P cs cx p s with Some r => Ok r | None => Err ESelect (Some p) end.
Proof.
  intros P cs cx p s Sk. induction cs as [|c t IH]; intros Hsw; cbn [select_loop first_success]; [reflexivity|].
  destruct (P c cx p s) as [r|e q] eqn:E; [reflexivity|].
  rewrite (Hsw c e q (or_introl eq_refl) E). rewrite iseek_back_id by exact Sk. cbn [bind].
  apply IH. intros c' e' q' Hin. apply Hsw. right. exact Hin.
Qed.

Theorem select_explicit_escapes : forall P c t cx p s q,
  P c cx p s = Err EExplicit q -> select_loop P (c :: t) cx p s = Err EExplicit q.
Proof. intros. cbn [select_loop]. rewrite H. reflexivity. Qed.

(* Select when BUILDING: every alternative builds into a stream of its own; what reaches the output is exactly what the first alternative that
   builds the value produced there - nothing an earlier alternative wrote before it failed - and the value handed in is returned. *)
Fixpoint first_built (B : con -> builder) (obj : val) (cs : list con) (cx : ctx) : option ostream :=
  match cs with
  | [] => None
  | c :: t => match B c obj (reenter_ctx cx) [] ostream_new with
              | Ok (_, o1) => Some o1
              | Err _ _ => first_built B obj t cx
              end
  end.

Theorem select_build_first_success : forall B obj cs cx p o,
  (forall c e q, In c cs -> B c obj (reenter_ctx cx) [] ostream_new = Err e q -> swallowed e = true) ->
  select_bloop B obj cs cx p o =
  match first_built B obj cs cx with
  | Some o1 => let* o' := owrite o (odata o1) (Z.of_nat (length (odata o1))) p in Ok (obj, o')
  | None => raise ESelect p
  end.
Proof.
  intros B obj cs cx p o. induction cs as [|c t IH]; intros Hsw; cbn [select_bloop first_built]; [reflexivity|].
  destruct (B c obj (reenter_ctx cx) [] ostream_new) as [[v o1]|e q] eqn:E; [reflexivity|].
  rewrite (Hsw c e q (or_introl eq_refl) E).
  apply IH. intros c' e' q' Hin. apply Hsw. right. exact Hin.
Qed.

Theorem select_build_explicit_escapes : forall B obj c t cx p o q,
  B c obj (reenter_ctx cx) [] ostream_new = Err EExplicit q -> select_bloop B obj (c :: t) cx p o = Err EExplicit q.
Proof. intros. cbn [select_bloop]. rewrite H. reflexivity. Qed.

(* the output before the Select is untouched by the alternatives that failed: whatever the list of alternatives in front of the one that builds *)
Theorem select_build_failed_leave_no_trace : forall B obj pre c post cx p o v o1,
  (forall c' e q, In c' pre -> B c' obj (reenter_ctx cx) [] ostream_new = Err e q -> swallowed e = true) ->
  (forall c', In c' pre -> exists e q, B c' obj (reenter_ctx cx) [] ostream_new = Err e q) ->
  B c obj (reenter_ctx cx) [] ostream_new = Ok (v, o1) ->
  select_bloop B obj (pre ++ c :: post) cx p o = select_bloop B obj [c] cx p o.
Proof.
  intros B obj pre c post cx p o v o1 Hsw Hfail Hok. induction pre as [|a pre IH]; cbn [app].
  - cbn [select_bloop]. rewrite Hok. reflexivity.
  - cbn [select_bloop]. destruct (Hfail a (or_introl eq_refl)) as (e & q & E). rewrite E.
    rewrite (Hsw a e q (or_introl eq_refl) E).
    apply IH.
    + intros c' e' q' Hin. apply Hsw. right. exact Hin.
    + intros c' Hin. apply Hfail. right. exact Hin.
Qed.

(* GreedyRange: the elements are the successive successes; the failing element leaves no trace *)
Theorem greedy_stops_clean : forall P fuel i cx p s e q,
  iseekable s = true -> P (ctx_set_index cx i) p s = Err e q -> swallowed e = true ->
  greedy_loop P (S fuel) i cx p s = Ok ([], s).
Proof.
  intros P fuel i cx p s e q Sk H Hs. cbn [greedy_loop]. rewrite H.
  destruct e; try discriminate Hs; rewrite iseek_back_id by exact Sk; reflexivity.
Qed.

Theorem greedy_step : forall P fuel i cx p s v s1 vs s2,
  P (ctx_set_index cx i) p s = Ok (v, s1) ->
  greedy_loop P fuel (i + 1)%Z cx p s1 = Ok (vs, s2) ->
  greedy_loop P (S fuel) i cx p s = Ok (v :: vs, s2).
Proof. intros. cbn [greedy_loop]. rewrite H, H0. reflexivity. Qed.

Theorem greedy_explicit_escapes : forall P fuel i cx p s q,
  P (ctx_set_index cx i) p s = Err EExplicit q -> greedy_loop P (S fuel) i cx p s = Err EExplicit q.
Proof. intros. cbn [greedy_loop]. rewrite H. reflexivity. Qed.
