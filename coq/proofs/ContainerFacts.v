(* C20: Container equality (val_eqb on VDict is the model of Container.__eq__). *)
From Coq Require Import ZArith NArith List Bool Lia.
From Coq Require Import Strings.Byte.
Require Import Bytes Float Value.
Import ListNotations.

(* ---- an induction principle for values with nested lists ---- *)
Section ValInd.
  Variable P : val -> Prop.
  Hypothesis HNone : P VNone.
  Hypothesis HBool : forall b, P (VBool b).
  Hypothesis HInt : forall z, P (VInt z).
  Hypothesis HFloat : forall b, P (VFloat b).
  Hypothesis HBytes : forall b, P (VBytes b).
  Hypothesis HStr : forall s, P (VStr s).
  Hypothesis HList : forall l, Forall P l -> P (VList l).
  Hypothesis HDict : forall kv, Forall (fun e => P (snd e)) kv -> P (VDict kv).
  Hypothesis HEnum : forall l z, P (VEnum l z).
  Fixpoint val_ind2 (v : val) : P v :=
    match v with
    | VNone => HNone | VBool b => HBool b | VInt z => HInt z | VFloat b => HFloat b | VBytes b => HBytes b
    | VStr s => HStr s | VEnum l z => HEnum l z
    | VList l => HList l ((fix go (l : list val) : Forall P l :=
                             match l with [] => Forall_nil P | x :: t => Forall_cons x (val_ind2 x) (go t) end) l)
    | VDict kv => HDict kv ((fix go (l : list (name * val)) : Forall (fun e => P (snd e)) l :=
                               match l with [] => Forall_nil _ | x :: t => Forall_cons x (val_ind2 (snd x)) (go t) end) kv)
    end.
End ValInd.

(* ---- the two loops of Container.__eq__, named ---- *)
Definition sub_eq (x y : list (name * val)) : bool :=
  forallb (fun kv => if is_private (fst kv) then true
                     else match lookup (fst kv) y with Some w => val_eqb (snd kv) w | None => false end) x.
Definition keys_in (y x : list (name * val)) : bool :=
  forallb (fun kw => is_private (fst kw) || match lookup (fst kw) x with Some _ => true | None => false end) y.

Lemma dict_eqb_unfold x y : val_eqb (VDict x) (VDict y) = sub_eq x y && keys_in y x.
Proof.
  cbn [val_eqb]. f_equal. unfold sub_eq.
  induction x as [|[k v] t IH]; [reflexivity|]. cbn [forallb fst snd]. rewrite <- IH. reflexivity.
Qed.

Lemma list_eqb_unfold x y :
  val_eqb (VList x) (VList y) =
  (fix go (x y : list val) : bool :=
     match x, y with [], [] => true | u :: x', w :: y' => val_eqb u w && go x' y' | _, _ => false end) x y.
Proof. reflexivity. Qed.

(* ---- underscore-prefixed entries are ignored, on both sides ---- *)
Definition pub (kv : list (name * val)) : list (name * val) := filter (fun e => negb (is_private (fst e))) kv.

Lemma name_eqb_eq a b : name_eqb a b = true -> a = b.
Proof.
  revert b. induction a as [|x a IH]; intros [|y b] H; cbn in H; try discriminate; [reflexivity|].
  apply andb_prop in H as [H1 H2]. apply Byte.byte_dec_bl in H1. subst y. f_equal. apply IH, H2.
Qed.

Lemma lookup_pub k kv : is_private k = false -> lookup k (pub kv) = lookup k kv.
Proof.
  intros Hk. induction kv as [|[k' v] t IH]; [reflexivity|]. cbn [pub filter fst lookup].
  destruct (is_private k') eqn:Ep; cbn [negb].
  - destruct (name_eqb k k') eqn:E; [apply name_eqb_eq in E; subst; congruence|]. exact IH.
  - cbn [lookup]. destruct (name_eqb k k'); [reflexivity|exact IH].
Qed.

Lemma sub_eq_pub x y : sub_eq (pub x) (pub y) = sub_eq x y.
Proof.
  unfold sub_eq. induction x as [|[k v] t IH]; [reflexivity|]. cbn [pub filter fst forallb snd].
  destruct (is_private k) eqn:Ep; cbn [negb andb]; [exact IH|].
  cbn [forallb fst snd]. rewrite Ep. rewrite lookup_pub by exact Ep. f_equal. exact IH.
Qed.

Lemma keys_in_pub y x : keys_in (pub y) (pub x) = keys_in y x.
Proof.
  unfold keys_in. induction y as [|[k v] t IH]; [reflexivity|]. cbn [pub filter fst forallb].
  destruct (is_private k) eqn:Ep; cbn [negb orb andb]; [exact IH|].
  cbn [forallb fst]. rewrite Ep. rewrite lookup_pub by exact Ep. cbn [orb]. f_equal. exact IH.
Qed.

Theorem ceq_ignores_private : forall x y, val_eqb (VDict x) (VDict y) = val_eqb (VDict (pub x)) (VDict (pub y)).
Proof. intros. rewrite !dict_eqb_unfold, sub_eq_pub, keys_in_pub. reflexivity. Qed.

(* ---- agreement with plain-dict equality on the public entries ---- *)
Theorem ceq_spec : forall x y,
  val_eqb (VDict x) (VDict y) = true <->
  (forall k v, In (k, v) x -> is_private k = false -> exists w, lookup k y = Some w /\ val_eqb v w = true) /\
  (forall k w, In (k, w) y -> is_private k = false -> exists v, lookup k x = Some v).
Proof.
  intros x y. rewrite dict_eqb_unfold, andb_true_iff. unfold sub_eq, keys_in. rewrite !forallb_forall. split.
  - intros [H1 H2]. split.
    + intros k v Hin Hp. specialize (H1 (k, v) Hin). cbn [fst snd] in H1. rewrite Hp in H1.
      destruct (lookup k y) as [w|]; [|discriminate]. exists w. auto.
    + intros k w Hin Hp. specialize (H2 (k, w) Hin). cbn [fst] in H2. rewrite Hp in H2. cbn [orb] in H2.
      destruct (lookup k x) as [v|]; [|discriminate]. exists v. reflexivity.
  - intros [H1 H2]. split.
    + intros [k v] Hin. cbn [fst snd]. destruct (is_private k) eqn:Hp; [reflexivity|].
      destruct (H1 k v Hin Hp) as (w & -> & E). exact E.
    + intros [k w] Hin. cbn [fst]. destruct (is_private k) eqn:Hp; [reflexivity|]. cbn [orb].
      destruct (H2 k w Hin Hp) as (v & ->). reflexivity.
Qed.

(* ---- well-formed values: dictionaries have unique keys (they are Python dicts), no NaN ---- *)
Fixpoint nodup_keys (kv : list (name * val)) : bool :=
  match kv with
  | [] => true
  | (k, _) :: t => negb (existsb (fun e => name_eqb k (fst e)) t) && nodup_keys t
  end.

Fixpoint wf (v : val) : bool :=
  match v with
  | VFloat b => negb (f64_is_nan b)
  | VList l => forallb wf l
  | VDict kv => nodup_keys kv && forallb (fun e => wf (snd e)) kv
  | _ => true
  end.

Lemma name_eqb_refl k : name_eqb k k = true.
Proof. induction k as [|b k IH]; [reflexivity|]. cbn. rewrite IH. destruct b; reflexivity. Qed.

Lemma name_eqb_sym a b : name_eqb a b = name_eqb b a.
Proof.
  destruct (name_eqb a b) eqn:E.
  - apply name_eqb_eq in E. subst. symmetry. apply name_eqb_refl.
  - destruct (name_eqb b a) eqn:E2; [|reflexivity]. apply name_eqb_eq in E2. subst. rewrite name_eqb_refl in E. discriminate.
Qed.

Lemma lookup_in k v kv : nodup_keys kv = true -> In (k, v) kv -> lookup k kv = Some v.
Proof.
  induction kv as [|[k' v'] t IH]; intros Hn Hin; [contradiction|]. cbn [nodup_keys] in Hn.
  apply andb_prop in Hn as [Hk Ht]. cbn [lookup]. destruct Hin as [E|Hin].
  - injection E as -> ->. rewrite name_eqb_refl. reflexivity.
  - destruct (name_eqb k k') eqn:E.
    + apply name_eqb_eq in E. subst k'. apply negb_true_iff in Hk.
      assert (existsb (fun e => name_eqb k (fst e)) t = true).
      { apply existsb_exists. exists (k, v). split; [exact Hin|]. apply name_eqb_refl. }
      congruence.
    + apply IH; assumption.
Qed.

Lemma lookup_some_in k v kv : lookup k kv = Some v -> In (k, v) kv.
Proof.
  induction kv as [|[k' v'] t IH]; [discriminate|]. cbn [lookup]. destruct (name_eqb k k') eqn:E.
  - intros H. injection H as ->. apply name_eqb_eq in E. subst. left. reflexivity.
  - intros H. right. apply IH, H.
Qed.

(* ---- reflexivity and symmetry ---- *)
Lemma f64_eqb_refl b : f64_is_nan b = false -> f64_eqb b b = true.
Proof. intros H. unfold f64_eqb. rewrite H. cbn [orb]. destruct (f64_is_zero b); [reflexivity|apply N.eqb_refl]. Qed.

Lemma bytes_eqb_refl b : bytes_eqb b b = true.
Proof. apply name_eqb_refl. Qed.

Lemma list_eqb_N_refl l : list_eqb N.eqb l l = true.
Proof. induction l as [|x l IH]; [reflexivity|]. cbn. rewrite N.eqb_refl, IH. reflexivity. Qed.

Theorem ceq_refl : forall v, wf v = true -> val_eqb v v = true.
Proof.
  induction v using val_ind2; intros Hw; cbn [val_eqb wf] in *; try reflexivity.
  - destruct b; reflexivity.
  - apply Z.eqb_refl.
  - apply f64_eqb_refl. apply negb_true_iff. exact Hw.
  - apply bytes_eqb_refl.
  - apply list_eqb_N_refl.
  - induction l as [|x l IH]; [reflexivity|]. cbn [forallb] in Hw. apply andb_prop in Hw as [Hx Hl].
    inversion H as [|? ? Px Pl]; subst. rewrite (Px Hx). cbn [andb]. apply IH; assumption.
  - apply andb_prop in Hw as [Hn Hw].
    fold (val_eqb (VDict kv) (VDict kv)). apply ceq_spec. split.
    + intros k v Hin Hp. exists v. split; [apply lookup_in; assumption|].
      rewrite Forall_forall in H. apply (H (k, v) Hin). rewrite forallb_forall in Hw. apply (Hw (k, v) Hin).
    + intros k w Hin Hp. exists w. apply lookup_in; assumption.
  - apply bytes_eqb_refl.
Qed.

Lemma f64_eqb_sym a b : f64_eqb a b = f64_eqb b a.
Proof.
  unfold f64_eqb. rewrite (orb_comm (f64_is_nan a)). destruct (f64_is_nan b || f64_is_nan a); [reflexivity|].
  rewrite (andb_comm (f64_is_zero a)). destruct (f64_is_zero b && f64_is_zero a); [reflexivity|]. apply N.eqb_sym.
Qed.

Lemma bytes_eqb_sym a b : bytes_eqb a b = bytes_eqb b a.
Proof. apply name_eqb_sym. Qed.

Lemma list_eqb_N_sym a : forall b, list_eqb N.eqb a b = list_eqb N.eqb b a.
Proof. induction a as [|x a IH]; intros [|y b]; cbn; try reflexivity. rewrite N.eqb_sym, IH. reflexivity. Qed.

Theorem ceq_sym : forall a b, wf a = true -> wf b = true -> val_eqb a b = val_eqb b a.
Proof.
  induction a using val_ind2; intros v Ha Hb; destruct v;
    try (cbn [val_eqb]; reflexivity);
    try solve [ cbn [val_eqb]; first [ apply Z.eqb_sym | apply f64_eqb_sym | apply bytes_eqb_sym | apply list_eqb_N_sym
              | match goal with |- Bool.eqb ?x ?y = _ => destruct x, y; reflexivity end ] ].
  - (* lists *)
    rewrite !list_eqb_unfold.
    cbn [wf] in Ha, Hb. revert l0 Hb. induction l as [|x l IH]; intros [|y l0] Hb; try reflexivity.
    cbn [forallb] in Ha, Hb. apply andb_prop in Ha as [Hx Hl]. apply andb_prop in Hb as [Hy Hl0].
    inversion H as [|? ? Px Pl]; subst. rewrite (Px y Hx Hy). f_equal. apply IH; assumption.
  - (* dicts *)
    cbn [wf] in Ha, Hb. apply andb_prop in Ha as [Hna Hwa]. apply andb_prop in Hb as [Hnb Hwb].
    rewrite Forall_forall in H. rewrite forallb_forall in Hwa, Hwb.
    apply eq_true_iff_eq. rewrite !ceq_spec. split; intros [H1 H2]; split.
    + intros k w Hin Hp. destruct (H2 k w Hin Hp) as (v & Hv). exists v. split; [exact Hv|].
      apply lookup_some_in in Hv. destruct (H1 k v Hv Hp) as (w' & Hw' & E).
      rewrite (lookup_in k w kv0 Hnb Hin) in Hw'. injection Hw' as <-.
      pose proof (H (k, v) Hv w (Hwa (k, v) Hv) (Hwb (k, w) Hin)) as S. cbn [snd] in S. rewrite <- S. exact E.
    + intros k v Hin Hp. destruct (H1 k v Hin Hp) as (w & Hw & _). exists w. exact Hw.
    + intros k v Hin Hp. destruct (H2 k v Hin Hp) as (w & Hw). exists w. split; [exact Hw|].
      apply lookup_some_in in Hw. destruct (H1 k w Hw Hp) as (v' & Hv' & E).
      rewrite (lookup_in k v kv Hna Hin) in Hv'. injection Hv' as <-.
      pose proof (H (k, v) Hin w (Hwa (k, v) Hin) (Hwb (k, w) Hw)) as S. cbn [snd] in S. rewrite S. exact E.
    + intros k w Hin Hp. destruct (H1 k w Hin Hp) as (v & Hv & _). exists v. exact Hv.
Qed.
