(* The frame of parsing: whatever a construct does, the stream it returns is the stream it was given
   with (at most) another position -- same buffer, same base offset, same seekability -- for EVERY
   construct of the model, by induction over the syntax.  This is what makes "seek there, parse, seek
   back" (Pointer, Peek, Union, Lazy*, RawCopy) a restoration of the stream and not only of a number. *)
From Coq Require Import ZArith NArith List Bool Lia.
From Coq Require Import Strings.Byte.
Require Import Bytes Value Expr Codec Float Stream Syntax Sizeof Parse ConInd.
Import ListNotations.

Definition sb (s s' : istream) : Prop :=
  idata s' = idata s /\ ibase s' = ibase s /\ iseekable s' = iseekable s.

Lemma sb_refl s : sb s s. Proof. repeat split. Qed.
Lemma sb_trans a b c : sb a b -> sb b c -> sb a c.
Proof. intros (H1 & H2 & H3) (H4 & H5 & H6). repeat split; congruence. Qed.
Lemma sb_sym a b : sb a b -> sb b a.
Proof. intros (H1 & H2 & H3). repeat split; congruence. Qed.
Lemma sb_set_pos s0 s n : sb s0 s -> sb s0 (iset_pos s n).
Proof. intros (H1 & H2 & H3). repeat split; assumption. Qed.
(* equal position on top of the same buffer: the very same stream *)
Lemma sb_same_pos s s' : sb s s' -> ipos s' = ipos s -> s' = s.
Proof. destruct s, s'. cbn. intros (H1 & H2 & H3) H4. cbn in *. congruence. Qed.

Definition fr {A} (s : istream) (r : res (A * istream)) : Prop :=
  match r with Ok (_, s') => sb s s' | Err _ _ => True end.

Lemma fr_bind {A B} s (x : res (A * istream)) (f : A * istream -> res (B * istream)) :
  fr s x -> (forall y, sb s (snd y) -> fr s (f y)) -> fr s (bind x f).
Proof. destruct x as [[a s1]|e q]; cbn; [|auto]. intros H Hf. apply (Hf (a, s1)). exact H. Qed.
Lemma fr_bind_any {A B} s (x : res A) (f : A -> res (B * istream)) :
  (forall a, fr s (f a)) -> fr s (bind x f).
Proof. destruct x as [a|e q]; cbn; auto. Qed.

Lemma fr_iread s0 s n p : sb s0 s -> fr s0 (iread s n p).
Proof. intros H. unfold iread. destruct (n <? 0)%Z; [exact I|]. destruct (_ <? n)%Z; [exact I|]. cbn. apply sb_set_pos, H. Qed.
Lemma fr_iseek s0 s off w p : sb s0 s -> fr s0 (iseek s off w p).
Proof.
  intros H. unfold iseek.
  repeat match goal with |- fr _ (if ?x then _ else _) => destruct x end; try exact I; cbn; try apply sb_set_pos; exact H.
Qed.
Lemma fr_iseek_user s0 s off w p : sb s0 s -> fr s0 (iseek_user s off w p).
Proof. intros H. unfold iseek_user. destruct (_ && _); [exact I|apply fr_iseek, H]. Qed.
Lemma fr_iseek_back s0 s p : sb s0 s -> fr s0 (iseek_back s p).
Proof. intros H. unfold iseek_back. destruct (iseekable s); [apply fr_iseek, H|exact I]. Qed.
Lemma sb_iread_all s0 s : sb s0 s -> sb s0 (snd (iread_all s)).
Proof. intros H. unfold iread_all. cbn. apply sb_set_pos, H. Qed.

Definition Pfr (c : con) : Prop := forall cx p s0 s, sb s0 s -> fr s0 (parse c cx p s).
Definition Pfr1 (P : parser) : Prop := forall cx p s0 s, sb s0 s -> fr s0 (P cx p s).

Ltac sbt :=
  match goal with
  | |- sb _ (iset_pos _ _) => apply sb_set_pos; sbt
  | |- sb _ (snd (iread_all _)) => apply sb_iread_all; sbt
  | |- sb ?a ?a => apply sb_refl
  | |- sb _ _ => assumption
  end.

Ltac fleaf :=
  first [ apply fr_iread; sbt | apply fr_iseek; sbt | apply fr_iseek_user; sbt | apply fr_iseek_back; sbt
        | match goal with H : Pfr ?c |- fr _ (parse ?c _ _ _) => apply H; sbt end
        | match goal with H : Pfr1 ?P |- fr _ (?P _ _ _) => apply H; sbt end ].

Ltac fk :=
  repeat first
    [ exact I
    | sbt
    | fleaf
    | match goal with |- fr _ (Ok (_, _)) => cbn [fr] end
    | match goal with |- fr _ (bind _ _) => apply fr_bind; [solve [fleaf]|intros [? ?] ?; cbn [snd] in *] end
    | match goal with |- fr _ (bind _ _) => apply fr_bind_any; intros ? end
    | match goal with |- fr _ (let '(_, _) := ?x in _) => is_var x; destruct x end
    | match goal with |- fr _ (match ?x with (_, _) => _ end) => is_var x; destruct x end
    | match goal with |- fr _ (if ?x then _ else _) => destruct x end ].

Lemma fr_varint_loop fuel : forall s0 s p, sb s0 s -> fr s0 (varint_loop fuel s p).
Proof.
  induction fuel as [|f IH]; intros s0 s p H; cbn [varint_loop]; [exact I|].
  apply fr_bind; [apply fr_iread, H|intros [d s'] Hs; cbn [snd] in Hs]. destruct d as [|b t]; [exact I|].
  destruct (_ <? 128)%N; [exact Hs|]. apply fr_bind; [apply IH, Hs|intros [hi s''] Hs2; exact Hs2].
Qed.

Lemma fr_struct_loop cs : Forall Pfr cs -> forall cx p acc s0 s, sb s0 s -> fr s0 (struct_loop parse cs cx p acc s).
Proof.
  induction 1 as [|c t Hc Ht IH]; intros cx p acc s0 s H; cbn [struct_loop]; [exact H|].
  pose proof (Hc cx p s0 s H) as Hp. destruct (parse c cx p s) as [[v s']|e q].
  - destruct (name_of c); apply IH; exact Hp.
  - destruct e; try exact I. destruct (is_stopif c); [exact H|exact I].
Qed.

Lemma fr_seq_loop cs : Forall Pfr cs -> forall cx p s0 s, sb s0 s -> fr s0 (seq_loop parse cs cx p s).
Proof.
  induction 1 as [|c t Hc Ht IH]; intros cx p s0 s H; cbn [seq_loop]; [exact H|].
  pose proof (Hc cx p s0 s H) as Hp. destruct (parse c cx p s) as [[v s']|e q].
  - apply fr_bind; [apply IH, Hp|intros [vs s''] Hs; exact Hs].
  - destruct e; try exact I. destruct (is_stopif c); [exact H|exact I].
Qed.

Lemma fr_focus_loop sel cs : Forall Pfr cs -> forall cx p fin s0 s, sb s0 s -> fr s0 (focus_loop parse sel cs cx p fin s).
Proof.
  induction 1 as [|c t Hc Ht IH]; intros cx p fin s0 s H; cbn [focus_loop]; [exact H|].
  apply fr_bind; [apply Hc, H|intros [v s'] Hs; cbn [snd] in Hs]. destruct (name_of c); apply IH, Hs.
Qed.

Lemma fr_union_loop cs : Forall Pfr cs -> forall i cx p acc fw s0 s, sb s0 s -> fr s0 (union_loop parse cs i cx p acc fw s).
Proof.
  induction 1 as [|c t Hc Ht IH]; intros i cx p acc fw s0 s H; cbn [union_loop]; [exact H|].
  apply fr_bind; [apply Hc, H|intros [v s1] Hs; cbn [snd] in Hs].
  destruct (name_of c); (apply fr_bind; [apply fr_iseek, Hs|intros [r s2] Hs2; cbn [snd] in Hs2; apply IH, Hs2]).
Qed.

Lemma fr_select_loop cs : Forall Pfr cs -> forall cx p s0 s, sb s0 s -> fr s0 (select_loop parse cs cx p s).
Proof.
  induction 1 as [|c t Hc Ht IH]; intros cx p s0 s H; cbn [select_loop]; [exact I|].
  pose proof (Hc cx p s0 s H) as Hp. destruct (parse c cx p s) as [[v s']|e q]; [exact Hp|].
  destruct (swallowed e).
  - apply fr_bind; [apply fr_iseek_back, H|intros [r s'] Hs; cbn [snd] in Hs; apply IH, Hs].
  - destruct (err_eqb e EStopField); exact I.
Qed.

Definition fr3 (s0 : istream) (r : res (Z * list val * istream)) : Prop :=
  match r with Ok (_, _, s') => sb s0 s' | Err _ _ => True end.

Lemma fr_iter_pos s0 (f : Z * list val * istream -> res (Z * list val * istream)) :
  (forall i acc s, sb s0 s -> fr3 s0 (f (i, acc, s))) ->
  forall n i acc s, sb s0 s -> fr3 s0 (iter_pos f n (i, acc, s)).
Proof.
  intros Hf. induction n as [n IH|n IH|]; intros i acc s H; cbn [iter_pos].
  - pose proof (Hf i acc s H) as H1. destruct (f (i, acc, s)) as [[[i1 a1] s1]|e q]; [cbn|exact I].
    pose proof (IH i1 a1 s1 H1) as H2. destruct (iter_pos f n (i1, a1, s1)) as [[[i2 a2] s2]|e q]; [cbn|exact I].
    apply IH, H2.
  - pose proof (IH i acc s H) as H1. destruct (iter_pos f n (i, acc, s)) as [[[i1 a1] s1]|e q]; [cbn|exact I].
    apply IH, H1.
  - apply Hf, H.
Qed.

Lemma fr_count_loop P : Pfr1 P -> forall n cx p s0 s, sb s0 s -> fr s0 (count_loop P n cx p s).
Proof.
  intros HP n cx p s0 s H. unfold count_loop.
  assert (H3 : fr3 s0 (iter_N (count_step P cx p) n (0%Z, [], s))).
  { unfold iter_N. destruct n; [exact H|]. apply fr_iter_pos; [|exact H]. intros i acc s1 H1. unfold count_step.
    pose proof (HP (ctx_set_index cx i) p s0 s1 H1) as Hp. destruct (P (ctx_set_index cx i) p s1) as [[v s2]|e q]; [exact Hp|exact I]. }
  destruct (iter_N (count_step P cx p) n (0%Z, [], s)) as [[[i acc] s']|e q]; [exact H3|exact I].
Qed.

Lemma fr_greedy_loop P : Pfr1 P -> forall fuel i cx p s0 s, sb s0 s -> fr s0 (greedy_loop P fuel i cx p s).
Proof.
  intros HP. induction fuel as [|f IH]; intros i cx p s0 s H; cbn [greedy_loop]; [exact I|].
  pose proof (HP (ctx_set_index cx i) p s0 s H) as Hp. destruct (P (ctx_set_index cx i) p s) as [[v s1]|e q].
  - apply fr_bind; [apply IH, Hp|intros [vs s2] Hs; exact Hs].
  - destruct e; try exact I; cbn [swallowed]; apply fr_bind; try (apply fr_iseek_back, H); intros [r s'] Hs; exact Hs.
Qed.

Lemma fr_until_loop P pred : Pfr1 P -> forall fuel i acc cx p s0 s, sb s0 s -> fr s0 (until_loop P pred fuel i acc cx p s).
Proof.
  intros HP. induction fuel as [|f IH]; intros i acc cx p s0 s H; cbn [until_loop]; [exact I|].
  apply fr_bind; [apply HP, H|intros [v s1] Hs; cbn [snd] in Hs]. apply fr_bind_any. intros t.
  destruct (truthy t); [exact Hs|apply IH, Hs].
Qed.

Lemma fr_nullterm fuel : forall term incl consume req acc s0 s p, sb s0 s -> fr s0 (nullterm_scan fuel term incl consume req acc s p).
Proof.
  induction fuel as [|f IH]; intros term incl consume req acc s0 s p H; cbn [nullterm_scan]; [exact I|].
  pose proof (fr_iread s0 s (Z.of_nat (length term)) p H) as Hr.
  destruct (iread s (Z.of_nat (length term)) p) as [[b s']|e q].
  - destruct (bytes_eqb b term); [|apply IH, Hr]. destruct consume; [exact Hr|].
    apply fr_bind; [apply fr_iseek, Hr|intros [r s''] Hs; exact Hs].
  - destruct req; [exact I|]. cbn [fr]. apply sb_iread_all, H.
Qed.

(* ---- the lazy loops ---- *)
Definition frl (s0 : istream) (r : res lazy_state) : Prop :=
  match r with Ok (_, _, _, s', _, _) => sb s0 s' | Err _ _ => True end.

Lemma fr_lazy_force Pc off cx p s0 s : Pfr1 Pc -> sb s0 s -> fr s0 (lazy_force Pc off cx p s).
Proof.
  intros HP H. unfold lazy_force.
  apply fr_bind; [apply fr_iseek, H|intros [r s1] H1; cbn [snd] in H1].
  apply fr_bind; [apply HP, H1|intros [v s2] H2; cbn [snd] in H2].
  apply fr_bind; [apply fr_iseek, H2|intros [r2 s3] H3; exact H3].
Qed.

Lemma fr_lazy_step Pc Ac nm p s0 st : Pfr1 Pc -> (let '(_, _, _, s, _, _) := st in sb s0 s) -> frl s0 (lazy_step Pc Ac nm p st).
Proof.
  intros HP. destruct st as [[[[[i off] cx] s] offs] cache]. intros H. unfold lazy_step.
  destruct (Ac cx p s) as [n|e q].
  - pose proof (fr_iseek s0 s (off + n) 0 p H) as Hk. destruct (iseek s (off + n) 0 p) as [[r s1]|e1 q1]; [exact Hk|exact I].
  - destruct e; try exact I.
    pose proof (fr_iseek s0 s off 0 p H) as Hk. destruct (iseek s off 0 p) as [[r s1]|e1 q1]; [cbn|exact I].
    pose proof (HP cx p s0 s1 Hk) as Hp. destruct (Pc cx p s1) as [[v s2]|e2 q2]; [exact Hp|exact I].
Qed.

Lemma fr_lazy_scan_array Pc Ac : Pfr1 Pc -> forall n p s0 st, (let '(_, _, _, s, _, _) := st in sb s0 s) -> frl s0 (lazy_scan_array Pc Ac n p st).
Proof.
  intros HP. induction n as [|n IH]; intros p s0 st H; cbn [lazy_scan_array].
  - destruct st as [[[[[i off] cx] s] offs] cache]. exact H.
  - pose proof (fr_lazy_step Pc Ac None p s0 st HP H) as H1.
    destruct (lazy_step Pc Ac None p st) as [st'|e q]; [cbn|exact I]. apply IH.
    destruct st' as [[[[[i off] cx] s] offs] cache]. exact H1.
Qed.

Lemma fr_lazy_scan_struct cs : Forall Pfr cs -> forall p s0 st, (let '(_, _, _, s, _, _) := st in sb s0 s) -> frl s0 (lazy_scan_struct parse cs p st).
Proof.
  induction 1 as [|c t Hc Ht IH]; intros p s0 st H; cbn [lazy_scan_struct].
  - destruct st as [[[[[i off] cx] s] offs] cache]. exact H.
  - pose proof (fr_lazy_step (parse c) (actualsize_with parse c) (name_of c) p s0 st Hc H) as H1.
    destruct (lazy_step (parse c) (actualsize_with parse c) (name_of c) p st) as [st'|e q]; [cbn|exact I]. apply IH.
    destruct st' as [[[[[i off] cx] s] offs] cache]. exact H1.
Qed.

Theorem parse_frame : forall c, Pfr c.
Proof.
  induction c using con_ind2; intros cx p s0 s Hs; cbn [parse].
  all: try solve [fk].
  all: try solve [unfold parse_format; fk].
  all: try solve [ (* BytesInteger, BitsInteger *) apply fr_bind_any; intros n; destruct (n <=? 0)%Z; [exact I|];
      apply fr_bind; [apply fr_iread, Hs|intros [d s'] H1; cbn [snd] in H1];
      repeat match goal with |- fr _ (match ?x with _ => _ end) => destruct x end; first [exact H1|exact I] ].
  all: try solve [unfold parse_varint; apply fr_bind; [apply fr_varint_loop, Hs|intros [n s'] H1; exact H1]].
  all: try solve [ (* GreedyBytes, NullStripped: let '(d, s1) := iread_all s *)
      pose proof (sb_iread_all s0 s Hs) as Ha; destruct (iread_all s) as [d s1]; cbn [snd] in Ha; fk ].
  all: try solve [ (* Terminated *) destruct (iavail s); [exact Hs|exact I] ].
  all: try solve [ (* Index *) destruct (c_scopes cx); exact Hs ].
  all: try solve [ (* adapters over one parse *)
      apply fr_bind; [apply IHc, Hs|intros [v s'] H1; cbn [snd] in H1];
      repeat first [ exact I | exact H1
                   | match goal with |- fr _ (Ok (_, _)) => cbn [fr] end
                   | match goal with |- fr _ (bind _ _) => apply fr_bind_any; intros ? end
                   | match goal with |- fr _ (if ?x then _ else _) => destruct x end
                   | match goal with |- fr _ (match ?x with _ => _ end) => destruct x end ] ].
  all: try solve [ (* Struct *) apply fr_bind; [apply fr_struct_loop; [exact H|exact Hs]|intros [[kv cx'] s'] H1; exact H1] ].
  all: try solve [ (* Sequence *) apply fr_bind; [apply fr_seq_loop; [exact H|exact Hs]|intros [vs s'] H1; exact H1] ].
  all: try solve [ (* FocusedSeq *) apply fr_bind; [apply fr_focus_loop; [exact H|exact Hs]|intros [fin s'] H1; cbn [snd] in H1]; destruct fin; [exact H1|exact I] ].
  all: try solve [ (* Union *) apply fr_bind; [apply fr_union_loop; [exact H|exact Hs]|intros [[[kv cx''] fw] s'] H1; cbn [snd] in H1];
      match goal with |- fr _ (match ?x with _ => _ end) => destruct x end; try exact H1;
      match goal with |- context [find ?f ?l] => destruct (find f l) as [[[? ?] ?]|] end; try exact I;
      (apply fr_bind; [apply fr_iseek, H1|intros [r s''] H2; exact H2]) ].
  all: try solve [ (* Select *) apply fr_select_loop; [exact H|exact Hs] ].
  all: try solve [ (* Switch *) apply fr_bind_any; intros k; destruct (negb (hashable k)); [exact I|];
      match goal with HF : Forall _ ?l |- _ => induction l as [|[v c'] t IHt] end; [apply IHc, Hs|];
      inversion H as [|? ? Hc Ht]; subst; destruct (val_eqb k v); [apply Hc, Hs|apply IHt, Ht] ].
  all: try solve [ (* Array *) apply fr_bind_any; intros n; destruct (n <? 0)%Z; [exact I|];
      apply fr_bind; [apply fr_count_loop; [exact IHc|exact Hs]|intros [vs s'] H1; exact H1] ].
  all: try solve [ (* GreedyRange *) apply fr_bind; [apply fr_greedy_loop; [exact IHc|exact Hs]|intros [vs s'] H1; exact H1] ].
  all: try solve [ (* RepeatUntil *) apply fr_bind; [apply fr_until_loop; [exact IHc|exact Hs]|intros [vs s'] H1; exact H1] ].
  all: try solve [ (* Peek *) pose proof (IHc cx p s0 s Hs) as Hp; destruct (parse c cx p s) as [[v s1]|e q];
    [ apply fr_bind; [apply fr_iseek, Hp|intros [r sb'] H1; exact H1]
    | apply fr_bind; [apply fr_iseek_back, Hs|intros [r sb'] H1; cbn [snd] in H1]; destruct (err_eqb e EExplicit); [exact I|]; destruct (is_construct_error e); [exact H1|exact I] ] ].
  all: try solve [ (* NullTerminated *) match goal with |- fr _ (match ?x with _ => _ end) => destruct x end; [exact I|];
      apply fr_bind; [apply fr_nullterm, Hs|intros [d s1] H1; cbn [snd] in H1]; apply fr_bind_any; intros [v s2]; exact H1 ].
  all: try solve [ (* NullStripped *) match goal with |- fr _ (match ?x with _ => _ end) => destruct x end; [exact I|];
      pose proof (sb_iread_all s0 s Hs) as Ha; destruct (iread_all s) as [d s1]; cbn [snd] in Ha; apply fr_bind_any; intros [v s2]; exact Ha ].
  all: try solve [ (* Transformed *) apply fr_bind;
      [ match goal with |- fr _ (match ?x with _ => _ end) => destruct x end; [apply fr_iread, Hs|cbn [fr]; apply sb_iread_all, Hs]
      | intros [d s1] H1; cbn [snd] in H1; apply fr_bind_any; intros d'; apply fr_bind_any; intros [v s2]; exact H1 ] ].
  all: try solve [ (* Restreamed *) match goal with |- fr _ (if ?x then _ else _) => destruct x end; [exact I|];
      match goal with |- context [decode_units ?f ?u] => destruct (decode_units f u) end; [|exact I];
      apply fr_bind_any; intros [v si]; match goal with |- context [units_needed ?k ?d] => destruct (units_needed k d) end;
      destruct (Nat.eqb _ _); [cbn [fr]; apply sb_set_pos, Hs|exact I] ].
  all: try solve [ (* ProcessXor *) apply fr_bind_any; intros k; destruct k; try exact I;
      (pose proof (sb_iread_all s0 s Hs) as Ha; destruct (iread_all s) as [d s1]; cbn [snd] in Ha;
       apply fr_bind_any; intros d'; apply fr_bind_any; intros [v s2]; exact Ha) ].
  all: try solve [ (* ProcessRotl *) apply fr_bind_any; intros a; apply fr_bind_any; intros g; destruct (g <? 1)%Z; [exact I|];
      destruct (alloc_bound <? g)%Z; [exact I|]; pose proof (sb_iread_all s0 s Hs) as Ha; destruct (iread_all s) as [d s1]; cbn [snd] in Ha;
      match goal with |- context [rotate_left ?x ?y ?z] => destruct (rotate_left x y z) end; [|exact I];
      apply fr_bind_any; intros [v s2]; exact Ha ].
  all: try solve [ (* Lazy *) destruct (actualsize_with parse c cx p s) as [n|e q];
      [ apply fr_bind; [apply fr_iseek, Hs|intros [r s1] H1; cbn [snd] in H1]; apply fr_bind_any; intros [v s2]; exact H1
      | destruct e; try exact I; apply fr_bind; [apply fr_iseek, Hs|intros [r s1] H1; cbn [snd] in H1; apply IHc, H1] ] ].
  all: try solve [ (* LazyStruct *)
      match goal with |- context [lazy_scan_struct parse ?cs ?pp ?st] =>
        pose proof (fr_lazy_scan_struct cs H pp s0 st Hs) as Hl; destruct (lazy_scan_struct parse cs pp st) as [[[[[[i off] cx1] s'] offs] cache]|e q] end;
      [cbn; apply fr_bind_any; intros kv; exact Hl|exact I] ].
  all: try solve [ (* LazyArray *) apply fr_bind_any; intros n; destruct (n <? 0)%Z; [exact I|]; destruct (alloc_bound <? n)%Z; [exact I|];
      match goal with |- context [lazy_scan_array ?P ?A ?k ?pp ?st] =>
        pose proof (fr_lazy_scan_array P A IHc k pp s0 st Hs) as Hl; destruct (lazy_scan_array P A k pp st) as [[[[[[i off] cx1] s'] offs] cache]|e q] end;
      [cbn; apply fr_bind_any; intros vs; exact Hl|exact I] ].
Qed.

(* the corollaries the positional properties use *)
Corollary parse_keeps_buffer c cx p s v s' :
  parse c cx p s = Ok (v, s') -> idata s' = idata s /\ ibase s' = ibase s /\ iseekable s' = iseekable s.
Proof. intros E. pose proof (parse_frame c cx p s s (sb_refl s)) as H. rewrite E in H. exact H. Qed.

(* seeking back to the position a seekable stream had restores the stream itself *)
Lemma iseek_restores s s1 p : iseekable s = true -> sb s s1 -> iseek s1 (itell s) 0 p = Ok (itell s, s).
Proof.
  intros Hk (H1 & H2 & H3). unfold iseek. rewrite H3, Hk. cbn [negb]. cbn [Z.eqb]. rewrite H2.
  assert (E : (itell s - Z.of_N (ibase s))%Z = Z.of_N (ipos s)) by (unfold itell; lia).
  rewrite E. destruct (Z.of_N (ipos s) <? 0)%Z eqn:E2; [lia|]. rewrite N2Z.id.
  unfold iset_pos, itell. cbn [idata ipos ibase iseekable]. rewrite H1, H2, H3. destruct s; reflexivity.
Qed.

(* a deferred parse (Lazy, LazyContainer.__getitem__) leaves the stream exactly as it found it *)
Theorem lazy_force_restores c off cx p s v s' :
  iseekable s = true -> lazy_force (parse c) off cx p s = Ok (v, s') -> s' = s.
Proof.
  intros Hk. unfold lazy_force.
  pose proof (fr_iseek s s off 0 p (sb_refl s)) as H1. destruct (iseek s off 0 p) as [[r s1]|e q]; [cbn|discriminate].
  pose proof (parse_frame c cx p s s1 H1) as H2. destruct (parse c cx p s1) as [[v2 s2]|e q]; [cbn|discriminate].
  rewrite (iseek_restores s s2 p Hk H2). cbn. intros E. injection E as _ <-. reflexivity.
Qed.

(* Pointer restores the stream after parsing elsewhere *)
Theorem pointer_restores off c cx p s v s' :
  iseekable s = true -> parse (CPointer off c) cx p s = Ok (v, s') -> s' = s.
Proof.
  intros Hk. cbn [parse]. destruct (eval_int cx off) as [o|e q]; [cbn|discriminate].
  pose proof (fr_iseek_user s s o (if (o <? 0)%Z then 2 else 0)%Z p (sb_refl s)) as H1.
  destruct (iseek_user s o (if (o <? 0)%Z then 2 else 0)%Z p) as [[r s1]|e q]; [cbn|discriminate].
  pose proof (parse_frame c cx p s s1 H1) as H2. destruct (parse c cx p s1) as [[v2 s2]|e q]; [cbn|discriminate].
  rewrite (iseek_restores s s2 p Hk H2). cbn. intros E. injection E as _ <-. reflexivity.
Qed.

(* Peek (successful or swallowed failure) restores the stream *)
Theorem peek_restores c cx p s v s' :
  iseekable s = true -> parse (CPeek c) cx p s = Ok (v, s') -> s' = s.
Proof.
  intros Hk. cbn [parse].
  pose proof (parse_frame c cx p s s (sb_refl s)) as H2. destruct (parse c cx p s) as [[v2 s2]|e q].
  - rewrite (iseek_restores s s2 p Hk H2). cbn. intros E. injection E as _ <-. reflexivity.
  - unfold iseek_back. rewrite Hk. rewrite (iseek_restores s s p Hk (sb_refl s)). cbn.
    destruct (err_eqb e EExplicit); [discriminate|]. destruct (is_construct_error e); [|discriminate].
    intros E. injection E as _ <-. reflexivity.
Qed.

(* ---- Union: every member is parsed from the same place, and without a selector the stream is left untouched ---- *)
Lemma union_loop_restores cs : forall i cx p acc fw s kv cx' fw' s',
  iseekable s = true -> union_loop parse cs i cx p acc fw s = Ok (kv, cx', fw', s') -> s' = s.
Proof.
  induction cs as [|c t IH]; intros i cx p acc fw s kv cx' fw' s' Hk; cbn [union_loop].
  - intros E. injection E as _ _ _ <-. reflexivity.
  - pose proof (parse_frame c cx p s s (sb_refl s)) as Hf. destruct (parse c cx p s) as [[v s1]|e q]; [cbn [bind]|discriminate].
    cbn [fr] in Hf. rewrite (iseek_restores s s1 p Hk Hf).
    destruct (name_of c); cbn [bind]; intros E; apply IH in E; assumption.
Qed.

Theorem union_none_restores cs cx p s v s' :
  iseekable s = true -> parse (CUnion USNone cs) cx p s = Ok (v, s') -> s' = s.
Proof.
  intros Hk. cbn [parse]. destruct (union_loop parse cs 0 (push_scope cx) p [] [] s) as [[[[kv cx''] fw] s1]|e q] eqn:E; [cbn [bind]|discriminate].
  intros E2. injection E2 as _ <-. eapply union_loop_restores; eassumption.
Qed.

(* with a selector, the stream ends where some recorded member ended when parsed from the start (and on the same buffer) *)
Lemma union_loop_records cs : forall i cx p acc fw s kv cx' fw' s',
  iseekable s = true -> union_loop parse cs i cx p acc fw s = Ok (kv, cx', fw', s') ->
  forall e, In e fw' -> In e fw \/ exists c cxc v s1, In c cs /\ parse c cxc p s = Ok (v, s1) /\ snd e = itell s1.
Proof.
  induction cs as [|c t IH]; intros i cx p acc fw s kv cx' fw' s' Hk; cbn [union_loop].
  - intros E. injection E as _ _ <- _. auto.
  - pose proof (parse_frame c cx p s s (sb_refl s)) as Hf. destruct (parse c cx p s) as [[v s1]|e0 q] eqn:Ep; [cbn [bind]|discriminate].
    cbn [fr] in Hf. rewrite (iseek_restores s s1 p Hk Hf).
    assert (G : forall acc' cxn, union_loop parse t (i + 1) cxn p acc' (fw ++ [(i, name_of c, itell s1)]) s = Ok (kv, cx', fw', s') ->
                forall e, In e fw' -> In e fw \/ exists c0 cxc v0 s0, In c0 (c :: t) /\ parse c0 cxc p s = Ok (v0, s0) /\ snd e = itell s0).
    { intros acc' cxn E e Hin. destruct (IH _ _ _ _ _ _ _ _ _ _ Hk E e Hin) as [Hold|(c0 & cxc & v0 & s0 & Hc0 & Ep0 & He)].
      - apply in_app_or in Hold. destruct Hold as [Hold|[<-|[]]]; [left; exact Hold|].
        right. exists c, cx, v, s1. split; [left; reflexivity|]. split; [exact Ep|reflexivity].
      - right. exists c0, cxc, v0, s0. split; [right; exact Hc0|]. split; assumption. }
    destruct (name_of c); cbn [bind]; apply G.
Qed.
