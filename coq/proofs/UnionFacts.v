(* Union with a selector (C09): the parse ends exactly where the SELECTED member ended when parsed from the start of the union. *)
From Coq Require Import ZArith NArith List Bool Lia.
From Coq Require Import Strings.Byte.
Require Import Bytes Value Expr Codec Float Stream Syntax Sizeof Parse Build ConInd FrameFacts StreamFacts RegionFacts.
Import ListNotations.

(* the positions a Union records: one entry per member, in order, numbered from the running index, each the end position of that member
   parsed (in some context) from the STARTING stream *)
Lemma union_loop_fw cs : forall i cx p acc fw s kv cx' fw' s',
  iseekable s = true -> union_loop parse cs i cx p acc fw s = Ok (kv, cx', fw', s') ->
  exists ends, fw' = fw ++ ends /\ length ends = length cs /\
    forall k c, nth_error cs k = Some c ->
      exists cxc v s1, parse c cxc p s = Ok (v, s1) /\ nth_error ends k = Some ((i + Z.of_nat k)%Z, name_of c, itell s1).
Proof.
  induction cs as [|c t IH]; intros i cx p acc fw s kv cx' fw' s' Hk; cbn [union_loop].
  - intros E. injection E as _ _ <- _. exists []. split; [rewrite app_nil_r; reflexivity|]. split; [reflexivity|]. intros k c Hn. destruct k; discriminate.
  - pose proof (parse_frame c cx p s s (sb_refl s)) as Hf. destruct (parse c cx p s) as [[v s1]|e0 q] eqn:Ep; [cbn [bind]|discriminate].
    cbn [fr] in Hf. rewrite (iseek_restores s s1 p Hk Hf).
    assert (G : forall acc' cxn, union_loop parse t (i + 1) cxn p acc' (fw ++ [(i, name_of c, itell s1)]) s = Ok (kv, cx', fw', s') ->
                exists ends, fw' = fw ++ ends /\ length ends = length (c :: t) /\
                  forall k c0, nth_error (c :: t) k = Some c0 ->
                    exists cxc v0 s0, parse c0 cxc p s = Ok (v0, s0) /\ nth_error ends k = Some ((i + Z.of_nat k)%Z, name_of c0, itell s0)).
    { intros acc' cxn E. destruct (IH _ _ _ _ _ _ _ _ _ _ Hk E) as (ends & Hfw & Hlen & Hnth).
      exists ((i, name_of c, itell s1) :: ends). split; [rewrite Hfw, <- app_assoc; reflexivity|]. split; [cbn [length]; rewrite Hlen; reflexivity|].
      intros k c0 Hn. destruct k as [|k]; cbn [nth_error] in *.
      - injection Hn as <-. exists cx, v, s1. split; [exact Ep|]. rewrite Z.add_0_r. reflexivity.
      - destruct (Hnth k c0 Hn) as (cxc & v0 & s0 & Hp & Hk0). exists cxc, v0, s0. split; [exact Hp|].
        rewrite Hk0. replace (i + Z.of_nat (S k))%Z with (i + 1 + Z.of_nat k)%Z by lia. reflexivity. }
    destruct (name_of c); cbn [bind]; apply G.
Qed.

(* Union(j, ...): the parse ends exactly where member number j ended when parsed from the start of the union *)
Theorem union_index_ends_at_selected : forall j cs cx p s v s',
  iseekable s = true -> (0 <= j)%Z ->
  parse (CUnion (USIndex j) cs) cx p s = Ok (v, s') ->
  exists c cxc vj s1, nth_error cs (Z.to_nat j) = Some c /\ parse c cxc p s = Ok (vj, s1) /\ itell s' = itell s1.
Proof.
  intros j cs cx p s v s' Hk Hj H. cbn [parse] in H.
  destruct (union_loop parse cs 0 (push_scope cx) p [] [] s) as [[[[kv cx''] fw] s0]|e q] eqn:E; [cbn [bind] in H|discriminate].
  destruct (union_loop_fw cs _ _ _ _ _ _ _ _ _ _ Hk E) as (ends & Hfw & Hlen & Hnth). cbn [app] in Hfw. subst fw.
  destruct (find (fun e => (fst (fst e) =? j)%Z) ends) as [[[ij nj] pos]|] eqn:Ef; [|discriminate].
  destruct (iseek s0 pos 0 p) as [[r s2]|] eqn:Es; [cbn [bind] in H|discriminate]. injection H as _ <-.
  apply find_some in Ef. destruct Ef as [Hin Hij]. cbn [fst] in Hij. apply Z.eqb_eq in Hij. subst ij.
  apply In_nth_error in Hin. destruct Hin as (k & Hk2).
  assert (Hkl : (k < length cs)%nat) by (rewrite <- Hlen; apply nth_error_Some; rewrite Hk2; discriminate).
  destruct (nth_error cs k) as [c|] eqn:Ec; [|apply nth_error_None in Ec; lia].
  destruct (Hnth k c Ec) as (cxc & vj & s1 & Hp & Hk3). rewrite Hk2 in Hk3. injection Hk3 as Hj2 _ Hpos.
  cbn [Z.add] in Hj2. subst j pos. rewrite Nat2Z.id.
  exists c, cxc, vj, s1. split; [exact Ec|]. split; [exact Hp|].
  apply iseek_abs_tell in Es. destruct Es as [_ Es]. exact Es.
Qed.

(* Union("name", ...): the parse ends exactly where a member of that name ended when parsed from the start of the union *)
Theorem union_name_ends_at_selected : forall n cs cx p s v s',
  iseekable s = true ->
  parse (CUnion (USName n) cs) cx p s = Ok (v, s') ->
  exists c m cxc vj s1, In c cs /\ name_of c = Some m /\ name_eqb m n = true /\ parse c cxc p s = Ok (vj, s1) /\ itell s' = itell s1.
Proof.
  intros n cs cx p s v s' Hk H. cbn [parse] in H.
  destruct (union_loop parse cs 0 (push_scope cx) p [] [] s) as [[[[kv cx''] fw] s0]|e q] eqn:E; [cbn [bind] in H|discriminate].
  destruct (union_loop_fw cs _ _ _ _ _ _ _ _ _ _ Hk E) as (ends & Hfw & Hlen & Hnth). cbn [app] in Hfw. subst fw.
  match type of H with context [find ?f (rev ends)] => destruct (find f (rev ends)) as [[[ij nj] pos]|] eqn:Ef; [|discriminate] end.
  destruct (iseek s0 pos 0 p) as [[r s2]|] eqn:Es; [cbn [bind] in H|discriminate]. injection H as _ <-.
  apply find_some in Ef. destruct Ef as [Hin Hnm]. cbn [fst snd] in Hnm. apply in_rev in Hin.
  apply In_nth_error in Hin. destruct Hin as (k & Hk2).
  assert (Hkl : (k < length cs)%nat) by (rewrite <- Hlen; apply nth_error_Some; rewrite Hk2; discriminate).
  destruct (nth_error cs k) as [c|] eqn:Ec; [|apply nth_error_None in Ec; lia].
  destruct (Hnth k c Ec) as (cxc & vj & s1 & Hp & Hk3). rewrite Hk2 in Hk3. injection Hk3 as _ Hname Hpos. subst nj pos.
  destruct (name_of c) as [m|] eqn:En; [|discriminate].
  exists c, m, cxc, vj, s1. split; [eapply nth_error_In; exact Ec|]. split; [exact En|]. split; [exact Hnm|]. split; [exact Hp|].
  apply iseek_abs_tell in Es. destruct Es as [_ Es]. exact Es.
Qed.
