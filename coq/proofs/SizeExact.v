(* C05, exactness: when sizeof answers n, every successful build advances the output by exactly n bytes -- for EVERY
   construct of the closed sequential fragment (RTFacts.frag), by induction over the syntax; and (with C01's round trip)
   parsing those bytes followed by anything advances the input by exactly n. *)
From Coq Require Import ZArith NArith List Bool Lia.
From Coq Require Import Strings.Byte.
Require Import Bytes Value Expr Codec Float Stream Syntax Sizeof Parse Build ConInd BytesFacts StreamFacts PrimFacts RTFacts.
Import ListNotations.
Local Open Scope nat_scope.

(* whatever contexts and paths sizeof and build are given *)
Definition BS (c : con) : Prop :=
  forall obj cx p o r o' cx' p' n, build c obj cx p o = Ok (r, o') -> sizeof c cx' p' = Ok n -> (otell o' - otell o)%Z = n.

Lemma owrite_raw_tell o d o' : owrite_raw o d = Ok o' -> (otell o' - otell o)%Z = Z.of_nat (length d).
Proof.
  unfold owrite_raw, otell. destruct (opos o <=? nlen (odata o))%N.
  - intros E. injection E as <-. cbn [opos]. unfold nlen. lia.
  - destruct (alloc_bound <? _)%Z; [discriminate|]. intros E. injection E as <-. cbn [opos]. unfold nlen. lia.
Qed.

Lemma owrite_tell o d len p o' : owrite o d len p = Ok o' -> (otell o' - otell o)%Z = len /\ Z.of_nat (length d) = len.
Proof.
  unfold owrite. destruct (len <? 0)%Z; [discriminate|]. destruct (Z.of_nat (length d) =? len)%Z eqn:E; [|discriminate].
  cbn [negb]. intros H. apply Z.eqb_eq in E. split; [|exact E]. rewrite <- E. apply owrite_raw_tell, H.
Qed.

Lemma catch_key_ok {A} (r : res A) p a : catch_key r p = Ok a -> r = Ok a.
Proof. destruct r as [x|e q]; [auto|]. destruct e; discriminate. Qed.

(* ---- loops ---- *)
Definition no_stop (cs : list con) : Prop := Forall (fun c => is_stopif c = false) cs.

Lemma struct_bloop_size kv cs : Forall BS cs -> no_stop cs -> forall cx p o cx2 o' cx' p' n,
  struct_bloop build kv cs cx p o = Ok (cx2, o') -> sum_sizes sizeof cx' p' cs = Ok n -> (otell o' - otell o)%Z = n.
Proof.
  induction 1 as [|c t Hc Ht IH]; intros Hs cx p o cx2 o' cx' p' n; cbn [struct_bloop sum_sizes].
  - intros E1 E2. injection E1 as _ <-. injection E2 as <-. lia.
  - inversion Hs as [|? ? Hs1 Hs2]; subst.
    match goal with |- bind ?x _ = _ -> _ => destruct x as [subobj|e q] end; [cbn [bind]|discriminate].
    match goal with |- match build c subobj ?cx1 p o with _ => _ end = _ -> _ => destruct (build c subobj cx1 p o) as [[r0 o1]|e q] eqn:E end.
    + intros E1. destruct (sizeof c cx' p') as [a|e q] eqn:Ea; [cbn [bind]|discriminate].
      destruct (sum_sizes sizeof cx' p' t) as [b|e q] eqn:Eb; [cbn [bind]|discriminate]. intros E2. injection E2 as <-.
      pose proof (Hc _ _ _ _ _ _ _ _ _ E Ea) as H1. pose proof (IH Hs2 _ _ _ _ _ _ _ _ E1 Eb) as H2. lia.
    + destruct e; try discriminate. rewrite Hs1. discriminate.
Qed.

Lemma seq_bloop_size cs : Forall BS cs -> no_stop cs -> forall objs cx p o rs o' cx' p' n,
  seq_bloop build cs objs cx p o = Ok (rs, o') -> sum_sizes sizeof cx' p' cs = Ok n -> (otell o' - otell o)%Z = n.
Proof.
  induction 1 as [|c t Hc Ht IH]; intros Hs objs cx p o rs o' cx' p' n; cbn [seq_bloop sum_sizes].
  - intros E1 E2. injection E1 as _ <-. injection E2 as <-. lia.
  - inversion Hs as [|? ? Hs1 Hs2]; subst. destruct objs as [|subobj objs']; [discriminate|].
    match goal with |- match build c subobj ?cx1 p o with _ => _ end = _ -> _ => destruct (build c subobj cx1 p o) as [[r0 o1]|e q] eqn:E end.
    + match goal with |- bind ?x _ = _ -> _ => destruct x as [[rs1 o2]|e q] eqn:E1 end; [cbn [bind]|discriminate].
      intros E0. injection E0 as _ <-.
      destruct (sizeof c cx' p') as [a|e q] eqn:Ea; [cbn [bind]|discriminate].
      destruct (sum_sizes sizeof cx' p' t) as [b|e q] eqn:Eb; [cbn [bind]|discriminate]. intros E2. injection E2 as <-.
      pose proof (Hc _ _ _ _ _ _ _ _ _ E Ea) as H1. pose proof (IH Hs2 _ _ _ _ _ _ _ _ _ E1 Eb) as H2. lia.
    + destruct e; try discriminate. rewrite Hs1. discriminate.
Qed.

Lemma count_bloop_size c : BS c -> forall l i cx p o rs o' cx' p' s,
  count_bloop (build c) l i cx p o = Ok (rs, o') -> sizeof c cx' p' = Ok s -> (otell o' - otell o)%Z = (Z.of_nat (length l) * s)%Z.
Proof.
  intros Hc. induction l as [|e t IH]; intros i cx p o rs o' cx' p' s; cbn [count_bloop length].
  - intros E _. injection E as _ <-. lia.
  - destruct (build c e (ctx_set_index cx i) p o) as [[r0 o1]|e0 q] eqn:E; [cbn [bind]|discriminate].
    destruct (count_bloop (build c) t (i + 1)%Z cx p o1) as [[rs1 o2]|e0 q] eqn:E1; [cbn [bind]|discriminate].
    intros E0 Es. injection E0 as _ <-.
    pose proof (Hc _ _ _ _ _ _ _ _ _ E Es) as H1. pose proof (IH _ _ _ _ _ _ _ _ _ E1 Es) as H2. lia.
Qed.

Lemma frag_stop e cs : forallb (frag e) cs = true -> no_stop cs.
Proof.
  intros H. apply Forall_forall. intros c Hin. rewrite forallb_forall in H. apply (frag_not_stopif e), H, Hin.
Qed.

Lemma otell_new : otell ostream_new = 0%Z. Proof. reflexivity. Qed.

(* ---- the induction ---- *)
Theorem build_size_exact : forall c e, frag e c = true -> BS c.
Proof.
  induction c using con_ind2; intros e Hf; try discriminate Hf; intros obj cx p o r o' cx' p' n; cbn [build sizeof].
  - (* Format *) intros Hb Hs. injection Hs as <-. unfold build_format in Hb.
    assert (Hemit : forall k, (let* o'0 := owrite o (match a0 with Big => be_encode (fcode_size a1) k | Little => rev (be_encode (fcode_size a1) k) end)
                                         (Z.of_nat (fcode_size a1)) p in Ok (obj, o'0)) = Ok (r, o') ->
                              (otell o' - otell o)%Z = Z.of_nat (fcode_size a1)).
    { intros k H. destruct (owrite o _ _ p) as [o1|e0 q] eqn:E; [cbn [bind] in H|discriminate]. injection H as _ <-.
      apply owrite_tell in E. apply E. }
    cbn in Hf. apply negb_true_iff in Hf. rewrite Hf in Hb.
    destruct (int_of_val obj); [|discriminate]. destruct (in_range _ _ _); [apply (Hemit _ Hb)|discriminate].
  - (* BytesInt *) cbn in Hf. destruct a0; try discriminate. destruct v; try discriminate.
    change (XConst (VInt z)) with (kint z). rewrite !eval_int_kint. cbn [bind catch_key].
    destruct (int_of_val obj) as [zz|]; [|discriminate]. destruct (z <=? 0)%Z; [discriminate|]. destruct (65536 <? z)%Z; [discriminate|].
    destruct (integer2bytes zz (Z.to_nat z) a1) as [d|]; [|discriminate].
    intros Hb Hs. injection Hs as <-. destruct (owrite o _ z p) as [o1|e0 q] eqn:E; [cbn [bind] in Hb|discriminate]. injection Hb as _ <-.
    apply owrite_tell in E. apply E.
  - (* VarInt *) discriminate.
  - (* ZigZag *) discriminate.
  - (* Bytes *) cbn in Hf. destruct a0; try discriminate. destruct v; try discriminate.
    change (XConst (VInt z)) with (kint z). rewrite !eval_int_kint. cbn [bind catch_key]. intros Hb Hs. injection Hs as <-.
    destruct (int_of_val obj) as [zz|].
    + destruct (z <? 1)%Z; [discriminate|]. destruct (65536 <? z)%Z; [discriminate|].
      destruct (integer2bytes zz (Z.to_nat z) false) as [d|]; [|discriminate].
      destruct (owrite o d z p) as [o1|e0 q] eqn:E; [cbn [bind] in Hb|discriminate]. injection Hb as _ <-. apply owrite_tell in E. apply E.
    + destruct (write_val o obj z p) as [o1|e0 q] eqn:E; [cbn [bind] in Hb|discriminate]. injection Hb as _ <-.
      unfold write_val in E. destruct obj; try discriminate. apply owrite_tell in E. apply E.
  - (* GreedyBytes *) discriminate.
  - (* Pass *) intros Hb Hs. injection Hb as _ <-. injection Hs as <-. lia.
  - (* Struct *) cbn [frag] in Hf. apply andb_prop in Hf as [Hm Hn].
    intros Hb Hs. apply catch_key_ok in Hs.
    destruct (match obj with VNone => Ok [] | VDict kv => Ok kv | _ => unsupported end) as [kv|e0 q]; [cbn [bind] in Hb|discriminate].
    match type of Hb with bind ?x _ = _ => destruct x as [[cx2 o2]|e0 q] eqn:E end; [cbn [bind] in Hb|discriminate]. injection Hb as _ <-.
    eapply struct_bloop_size; [|eapply frag_stop; exact Hm|exact E|exact Hs].
    rewrite Forall_forall in H |- *. intros c Hin. apply (H c Hin false). rewrite forallb_forall in Hm. apply Hm, Hin.
  - (* Sequence *) cbn [frag] in Hf. intros Hb Hs. apply catch_key_ok in Hs.
    match type of Hb with bind ?x _ = _ => destruct x as [objs|e0 q] end; [cbn [bind] in Hb|discriminate].
    match type of Hb with bind ?x _ = _ => destruct x as [[rs o2]|e0 q] eqn:E end; [cbn [bind] in Hb|discriminate]. injection Hb as _ <-.
    eapply seq_bloop_size; [|eapply frag_stop; exact Hf|exact E|exact Hs].
    rewrite Forall_forall in H |- *. intros c Hin. apply (H c Hin false). rewrite forallb_forall in Hf. apply Hf, Hin.
  - (* Array *) cbn [frag] in Hf. destruct a0; try discriminate. destruct v; try discriminate. apply andb_prop in Hf as [Hn Hc].
    change (XConst (VInt z)) with (kint z). rewrite !eval_int_kint. cbn [bind catch_key].
    destruct (z <? 0)%Z; [discriminate|]. intros Hb Hs.
    destruct (sizeof c cx' p') as [s|e0 q] eqn:Es; [cbn [bind] in Hs|discriminate]. injection Hs as <-.
    destruct obj; try discriminate. destruct (negb (Z.of_nat (length l) =? z)%Z) eqn:El; [discriminate|].
    match type of Hb with bind ?x _ = _ => destruct x as [[rs o2]|e0 q] eqn:E end; [cbn [bind] in Hb|discriminate]. injection Hb as _ <-.
    apply negb_false_iff, Z.eqb_eq in El. rewrite <- El. eapply count_bloop_size; [apply (IHc false Hc)|exact E|exact Es].
  - (* Renamed *) cbn [frag] in Hf. apply (IHc e Hf).
  - (* Const *) cbn [frag] in Hf. intros Hb Hs.
    assert (Hb' : build c a0 cx p o = Ok (r, o')) by (destruct obj; try exact Hb; (destruct (val_eqb _ a0); [exact Hb|discriminate])).
    clear Hb. destruct a0; try discriminate.
    + (* integer constant over an integer leaf *)
      destruct c; try discriminate; cbn [int_leaf] in Hf.
      * revert Hb' Hs. apply (IHc false). cbn [frag]. exact Hf.
      * destruct len; try discriminate. destruct v; try discriminate. revert Hb' Hs. apply (IHc false). cbn [frag]. exact Hf.
    + destruct c; try discriminate. destruct len; try discriminate. destruct v; try discriminate.
      revert Hb' Hs. apply (IHc false). cbn [frag]. apply Z.leb_le. apply Z.eqb_eq in Hf. lia.
  - (* Padded *) cbn [frag] in Hf. destruct a0; try discriminate. destruct v; try discriminate. apply andb_prop in Hf as [Hn Hc].
    change (XConst (VInt z)) with (kint z). rewrite !eval_int_kint. cbn [bind catch_key]. destruct (z <? 0)%Z eqn:Ez; [discriminate|].
    intros Hb Hs. injection Hs as <-.
    destruct (build c obj cx p o) as [[r1 o1]|e0 q] eqn:E; [cbn [bind] in Hb|discriminate].
    destruct (z - (otell o1 - otell o) <? 0)%Z; [discriminate|]. destruct (alloc_bound <? _)%Z; [discriminate|].
    match type of Hb with bind ?x _ = _ => destruct x as [o2|e0 q] eqn:E2 end; [cbn [bind] in Hb|discriminate]. injection Hb as _ <-.
    apply owrite_tell in E2. lia.
  - (* Aligned *) cbn [frag] in Hf. destruct a0; try discriminate. destruct v; try discriminate. apply andb_prop in Hf as [Hn Hc].
    change (XConst (VInt z)) with (kint z). rewrite !eval_int_kint. cbn [bind catch_key]. destruct (z <? 2)%Z eqn:Ez; [discriminate|].
    intros Hb Hs. destruct (sizeof c cx' p') as [s|e0 q] eqn:Es; [cbn [bind catch_key] in Hs|cbn [bind catch_key] in Hs; destruct e0; discriminate].
    injection Hs as <-.
    destruct (build c obj cx p o) as [[r1 o1]|e0 q] eqn:E; [cbn [bind] in Hb|discriminate].
    destruct (alloc_bound <? _)%Z; [discriminate|].
    match type of Hb with bind ?x _ = _ => destruct x as [o2|e0 q] eqn:E2 end; [cbn [bind] in Hb|discriminate]. injection Hb as _ <-.
    apply owrite_tell in E2. pose proof (IHc false Hc _ _ _ _ _ _ _ _ _ E Es) as H1. rewrite H1 in E2. lia.
  - (* Prefixed *) cbn [frag] in Hf. destruct a2; try discriminate. apply andb_prop in Hf as [Hl Hc].
    intros Hb Hs.
    destruct (sizeof c1 cx' p') as [a|e0 q] eqn:Ea; [cbn [bind] in Hs|discriminate].
    destruct (sizeof c2 cx' p') as [b|e0 q] eqn:Eb; [cbn [bind] in Hs|discriminate]. injection Hs as <-.
    destruct (build c2 obj cx p ostream_new) as [[r2 o2]|e0 q] eqn:E2; [cbn [bind] in Hb|discriminate].
    match type of Hb with bind ?x _ = _ => destruct x as [[r1 o1]|e0 q] eqn:E1 end; [cbn [bind] in Hb|discriminate].
    match type of Hb with bind ?x _ = _ => destruct x as [o3|e0 q] eqn:E3 end; [cbn [bind] in Hb|discriminate]. injection Hb as _ <-.
    assert (Hleaf : frag false c1 = true) by (destruct c1; try discriminate Hl; cbn [int_leaf frag] in *; exact Hl).
    pose proof (IHc1 false Hleaf _ _ _ _ _ _ _ _ _ E1 Ea) as H1.
    pose proof (IHc2 true Hc _ _ _ _ _ _ _ _ _ E2 Eb) as H2. rewrite otell_new in H2.
    apply owrite_tell in E3. destruct E3 as [E3 _].
    assert (Hd : Z.of_nat (length (odata o2)) = otell o2).
    { destruct (proj2 (roundtrip_fragment c2) Hc obj cx p ostream_new r2 o2 app_mode_new E2) as (out & -> & _).
      rewrite odata_new_oapp. pose proof (otell_oapp ostream_new out app_mode_new) as Ht. rewrite otell_new in Ht. lia. }
    lia.
  - (* FixedSized *) cbn [frag] in Hf. destruct a0; try discriminate. destruct v; try discriminate. apply andb_prop in Hf as [Hn Hc].
    change (XConst (VInt z)) with (kint z). rewrite !eval_int_kint. cbn [bind catch_key]. destruct (z <? 0)%Z eqn:Ez; [discriminate|].
    intros Hb Hs. injection Hs as <-.
    destruct (build c obj cx p ostream_new) as [[r2 o2]|e0 q] eqn:E2; [cbn [bind] in Hb|discriminate].
    destruct (z - Z.of_nat (length (odata o2)) <? 0)%Z; [discriminate|]. destruct (alloc_bound <? _)%Z; [discriminate|].
    match type of Hb with bind ?x _ = _ => destruct x as [o1|e0 q] eqn:E1 end; [cbn [bind] in Hb|discriminate].
    match type of Hb with bind ?x _ = _ => destruct x as [o3|e0 q] eqn:E3 end; [cbn [bind] in Hb|discriminate]. injection Hb as _ <-.
    apply owrite_tell in E1. apply owrite_tell in E3. lia.
Qed.

(* C05 on the public entry points: sizeof = bytes produced = bytes consumed when those bytes are parsed back, whatever follows *)
Theorem C05_exact_closed c v kw r out n :
  frag false c = true ->
  build_bytes c v kw = Ok (r, out) -> sizeof c (top_ctx kw MSize) [] = Ok n ->
  Z.of_nat (length out) = n /\
  forall rest kw', exists r', parse_at c kw' (out ++ rest) 0%N = Ok (r', n).
Proof.
  intros Hf Hb Hs. unfold build_bytes in Hb.
  destruct (build c v (top_ctx kw MBuild) [] ostream_new) as [[r0 o]|] eqn:E; [|discriminate]. cbn [bind] in Hb. injection Hb as <- <-.
  pose proof (build_size_exact c false Hf _ _ _ _ _ _ _ _ _ E Hs) as Hn. rewrite otell_new in Hn.
  destruct (C01_roundtrip_closed c Hf v _ [] ostream_new r0 o app_mode_new E) as (out & -> & Hp).
  rewrite odata_new_oapp. pose proof (otell_oapp ostream_new out app_mode_new) as Ht. rewrite otell_new in Ht.
  assert (Hl : Z.of_nat (length out) = n) by lia. split; [exact Hl|].
  intros rest kw'. destruct (Hp (top_ctx kw' MParse) [] [] rest 0%N true) as (r' & Ep & _).
  exists r'. unfold parse_at. unfold at_pos in Ep. cbn [app nlen length N.of_nat] in Ep. rewrite Ep. cbn [bind]. f_equal. f_equal.
  unfold itell. cbn [ibase ipos]. unfold nlen. lia.
Qed.

Example C05_exact_example :
  let c := CStruct [CRenamed [x61] (CFormat Little FH);
                    CRenamed [x62] (CArray (kint 2) (CBytesInt (kint 3) true true));
                    CConst (VBytes [x4d; x5a]) (CBytes (kint 2));
                    CPadded (kint 4) (CRenamed [x7a] (CFormat Big FB)) x00;
                    CRenamed [x77] (CFixedSized (kint 5) (CSequence [CFormat Big Fb; CAligned (kint 2) (CFormat Big FB) x00]))] in
  frag false c = true /\ sizeof c (top_ctx [] MSize) [] = Ok 19%Z.
Proof. split; vm_compute; reflexivity. Qed.
