(* C02 over DEPENDENT layouts (DepRT.dfrag with every Struct member named, or an anonymous constant / padding): when a value builds to some bytes, the value those
   bytes parse to builds to the SAME bytes again.  The sizes and choices read from earlier fields are the same three times:
   in the first build (the built field), in the parse (the parsed integer) and in the second build (the parsed integer built
   again), because an integer field parses to the integer that was built. *)
From Coq Require Import ZArith NArith List Bool Lia ZifyBool ZifyN ZifyNat.
From Coq Require Import Strings.Byte.
Require Import Bytes Value Expr Codec Float Stream Syntax Sizeof Parse Build BytesFacts StreamFacts PrimFacts ConInd RTFacts TruncFacts Stable DepRT.
Import ListNotations.
Local Open Scope nat_scope.

Definition RBG (G : list (name * Z)) (c : con) : Prop :=
  forall v cxb pb o r out, app_mode o -> knows cxb G -> build c v cxb pb o = Ok (r, oapp o out) ->
  forall cxp pp pre rest base sk r' s', knows cxp G -> parse c cxp pp (at_pos pre (out ++ rest) base sk) = Ok (r', s') ->
  forall cxb2 pb2 o2, app_mode o2 -> knows cxb2 G -> exists r2, build c r' cxb2 pb2 o2 = Ok (r2, oapp o2 out).

Lemma RBG_of_RB G c : RB c -> RBG G c.
Proof. intros H v cxb pb o r out Ho _ Hb cxp pp pre rest base sk r' s' _ Hp cxb2 pb2 o2 Ho2 _. apply (H v cxb pb o r out Ho Hb cxp pp pre rest base sk r' s' Hp cxb2 pb2 o2 Ho2). Qed.

Lemma RBG_renamed G nm c : RBG G c -> RBG G (CRenamed nm c).
Proof.
  intros H v cxb pb o r out Ho Hk Hb cxp pp pre rest base sk r' s' Hkp Hp cxb2 pb2 o2 Ho2 Hk2. cbn [build] in Hb |- *. cbn [parse] in Hp.
  apply (H v cxb _ o r out Ho Hk Hb cxp _ pre rest base sk r' s' Hkp Hp cxb2 _ o2 Ho2 Hk2).
Qed.

(* any size: a negative one makes the build fail *)
Lemma RB_bytes_any n : RB (CBytes (kint n)).
Proof.
  destruct (Z.leb_spec 0 n) as [H|H]; [apply RB_bytes, H|].
  intros v cxb pb o r out Ho Hb. exfalso. cbn [build] in Hb. rewrite eval_int_kint in Hb. cbn [bind] in Hb.
  destruct (int_of_val v).
  - destruct (n <? 1)%Z eqn:E; [discriminate|lia].
  - destruct v; try discriminate. unfold write_val, owrite in Hb. destruct (n <? 0)%Z eqn:E; [discriminate|lia].
Qed.
Lemma RB_array_any n el : RT el -> RB el -> RB (CArray (kint n) el).
Proof.
  intros Hel Hb0. destruct (Z.leb_spec 0 n) as [H|H]; [apply RB_array; assumption|].
  intros v cxb pb o r out Ho Hb. exfalso. cbn [build] in Hb. rewrite eval_int_kint in Hb. cbn [bind] in Hb.
  destruct (n <? 0)%Z eqn:E; [discriminate|lia].
Qed.
Lemma RB_padded_any n el pat : RT el -> RB el -> RB (CPadded (kint n) el pat).
Proof.
  intros Hel Hb0. destruct (Z.leb_spec 0 n) as [H|H]; [apply RB_padded; assumption|].
  intros v cxb pb o r out Ho Hb. exfalso. cbn [build] in Hb. rewrite eval_int_kint in Hb. cbn [bind] in Hb.
  destruct (n <? 0)%Z eqn:E; [discriminate|lia].
Qed.
Lemma RB_fixed_any n el : RT el -> RB el -> RB (CFixedSized (kint n) el).
Proof.
  intros Hel Hb0. destruct (Z.leb_spec 0 n) as [H|H]; [apply RB_fixedsized; assumption|].
  intros v cxb pb o r out Ho Hb. exfalso. cbn [build] in Hb. rewrite eval_int_kint in Hb. cbn [bind] in Hb.
  destruct (n <? 0)%Z eqn:E; [discriminate|lia].
Qed.

Lemma RBG_sized G n c K : sized (this_ n) c K -> (forall z, RB (K (kint z))) -> (exists z, In (n, z) G) -> RBG G c.
Proof.
  intros Hs HB (z & Hin) v cxb pb o r out Ho Hk Hb cxp pp pre rest base sk r' s' Hkp Hp cxb2 pb2 o2 Ho2 Hk2.
  destruct (sized_subst _ _ _ Hs cxb z (eval_this _ _ _ _ Hk Hin)) as [Eb _]. rewrite Eb in Hb.
  destruct (sized_subst _ _ _ Hs cxp z (eval_this _ _ _ _ Hkp Hin)) as [_ Ep]. rewrite Ep in Hp.
  destruct (sized_subst _ _ _ Hs cxb2 z (eval_this _ _ _ _ Hk2 Hin)) as [Eb2 _]. rewrite Eb2.
  apply (HB z v cxb pb o r out Ho Hb cxp pp pre rest base sk r' s' Hp cxb2 pb2 o2 Ho2).
Qed.

Lemma RBG_switch G n cases d : (exists z, In (n, z) G) -> Forall (fun vc => RBG G (snd vc)) cases -> RBG G d -> RBG G (CSwitch (this_ n) cases d).
Proof.
  intros (z & Hin) Hcs Hd v cxb pb o r out Ho Hk Hb cxp pp pre rest base sk r' s' Hkp Hp cxb2 pb2 o2 Ho2 Hk2.
  rewrite (build_switch G n z cases d cxb Hk Hin) in Hb. rewrite (parse_switch G n z cases d cxp Hkp Hin) in Hp.
  rewrite (build_switch G n z cases d cxb2 Hk2 Hin).
  assert (Hc : RBG G (pick z cases d)).
  { destruct (pick_in z cases d) as [->|Hc]; [exact Hd|]. apply in_map_iff in Hc as (vc & <- & Hvc). rewrite Forall_forall in Hcs. apply Hcs, Hvc. }
  apply (Hc v cxb pb o r out Ho Hk Hb cxp pp pre rest base sk r' s' Hkp Hp cxb2 pb2 o2 Ho2 Hk2).
Qed.

Lemma RBG_ite G n a b : (exists z, In (n, z) G) -> RBG G a -> RBG G b -> RBG G (CIfThenElse (this_ n) a b).
Proof.
  intros (z & Hin) Ha Hb0 v cxb pb o r out Ho Hk Hb cxp pp pre rest base sk r' s' Hkp Hp cxb2 pb2 o2 Ho2 Hk2.
  rewrite (build_ite G n z a b cxb Hk Hin) in Hb. rewrite (parse_ite G n z a b cxp Hkp Hin) in Hp. rewrite (build_ite G n z a b cxb2 Hk2 Hin).
  destruct (truthy (VInt z)); [apply (Ha v cxb pb o r out Ho Hk Hb cxp pp pre rest base sk r' s' Hkp Hp cxb2 pb2 o2 Ho2 Hk2)
                               |apply (Hb0 v cxb pb o r out Ho Hk Hb cxp pp pre rest base sk r' s' Hkp Hp cxb2 pb2 o2 Ho2 Hk2)].
Qed.

(* ---- the member loop ---- *)
Lemma int_leaf_RB c : int_leaf c = true -> RB c.
Proof.
  intros Hl. apply rebuild_fragment. destruct c; try discriminate Hl; cbn [int_leaf sfrag] in *; auto.
Qed.

Lemma dloop_RB : forall ms Gn, dgo Gn ms = true -> NoDup (names ms) -> (forall k, In k Gn -> ~ In k (names ms)) -> forallb memberok ms = true ->
  (forall m, In m ms -> forall G', memok G' m = true -> forall Gv, map fst Gv = G' -> RBG Gv m) ->
  forall G kv cxb pb o cxb' o', map fst G = Gn -> app_mode o -> knows cxb G ->
  struct_bloop build kv ms cxb pb o = Ok (cxb', o') ->
  exists out, o' = oapp o out /\
    forall cxp pp acc pre rest base sk acc' cxp' s', knows cxp G ->
      struct_loop parse ms cxp pp acc (at_pos pre (out ++ rest) base sk) = Ok (acc', cxp', s') ->
      forall kv2, (forall n, In n (names ms) -> lookup n kv2 = lookup n acc') ->
      forall cxb2 pb2 o2, app_mode o2 -> knows cxb2 G -> exists cxb2', struct_bloop build kv2 ms cxb2 pb2 o2 = Ok (cxb2', oapp o2 out).
Proof.
  induction ms as [|m t IH]; intros Gn Hg Hnd Hfresh Hnm HB G kv cxb pb o cxb' o' HG Ho Hk Hb; cbn [struct_bloop] in Hb.
  - injection Hb as _ <-. exists []. split; [symmetry; apply oapp_nil; exact Ho|].
    intros. eexists. cbn [struct_bloop]. rewrite oapp_nil by assumption. reflexivity.
  - rewrite dgo_cons in Hg. cbn [forallb] in Hnm. apply andb_prop in Hnm as [Hn1 Hn2].
    assert (HB' : forall m0, In m0 t -> forall G', memok G' m0 = true -> forall Gv, map fst Gv = G' -> RBG Gv m0)
      by (intros m0 Hin; apply HB; right; exact Hin).
    destruct (def_name m) as [n|] eqn:Ed.
    + (* an integer field *)
      destruct (def_name_some m n Ed) as (c' & -> & El). cbn [name_of] in Hb.
      match type of Hb with context [bind ?X _] => destruct X as [subobj|] eqn:Es end; [|discriminate]. cbn [bind] in Hb.
      destruct (build (CRenamed n c') subobj (ctx_set cxb n subobj) pb o) as [[r o1]|e q] eqn:Ec.
      2:{ destruct e; try discriminate. replace (is_stopif (CRenamed n c')) with false in Hb by (destruct c'; try discriminate El; reflexivity). discriminate. }
      assert (Hn_t : ~ In n (names t)) by (rewrite names_cons in Hnd; cbn [name_of app] in Hnd; inversion Hnd; assumption).
      assert (Hnd' : NoDup (names t)) by (rewrite names_cons in Hnd; cbn [name_of app] in Hnd; inversion Hnd; assumption).
      assert (Hn_G : ~ In n Gn) by (intros Hin; apply (Hfresh n Hin); rewrite names_cons; cbn [name_of app]; left; reflexivity).
      cbn [build] in Ec. destruct (RTi2_of_int_leaf c' El subobj _ _ o r o1 Ho Ec) as (z & Hz & out1 & -> & Hp1).
      assert (Hk1 : knows (ctx_set (ctx_set cxb n subobj) n r) ((n, z) :: G)).
      { apply knows_set_new; [apply knows_set_other; [exact Hk|]| |exact Hz]; apply not_in_map_fst; rewrite HG; exact Hn_G. }
      assert (Hfresh' : forall k, In k (n :: Gn) -> ~ In k (names t)).
      { intros k [<-|Hin]; [exact Hn_t|]. intros Hin'. apply (Hfresh k Hin). rewrite names_cons. apply in_or_app. right. exact Hin'. }
      destruct (IH (n :: Gn) Hg Hnd' Hfresh' Hn2 HB' ((n, z) :: G) kv _ pb _ cxb' o' ltac:(cbn [map fst]; rewrite HG; reflexivity) (app_mode_oapp _ _) Hk1 Hb) as (out2 & -> & Hp2).
      exists (out1 ++ out2). split; [apply oapp_app|].
      intros cxp pp acc pre rest base sk acc' cxp' s' Hkp Hp kv2 Hkv cxb2 pb2 o2 Ho2 Hk2. rewrite <- app_assoc in Hp. cbn [struct_loop parse] in Hp.
      rewrite Hp1 in Hp. cbn [name_of] in Hp.
      assert (Hl : lookup n kv2 = Some (VInt z)).
      { rewrite (Hkv n) by (rewrite names_cons; cbn [name_of app]; left; reflexivity).
        rewrite (loop_preserves _ _ _ _ _ _ _ _ Hp n Hn_t). apply lookup_dict_set_same. }
      cbn [struct_bloop name_of]. rewrite Hl. cbn [bind build].
      destruct (int_leaf_RB c' El subobj _ _ o r out1 Ho Ec cxp (pp ++ [n]) pre (out2 ++ rest) base sk (VInt z) _ (Hp1 _ _ _ _ _ _)
                  (ctx_set cxb2 n (VInt z)) (pb2 ++ [n]) o2 Ho2) as (r2 & E2). rewrite E2.
      (* the rebuilt field is the same integer *)
      destruct (RTi2_of_int_leaf c' El (VInt z) _ _ o2 r2 _ Ho2 E2) as (z2 & Hz2 & out1' & E1 & Hp1').
      apply oapp_inj in E1. subst out1'.
      assert (z2 = z) by (pose proof (Hp1' cxp (pp ++ [n]) pre (out2 ++ rest) base sk) as X; rewrite Hp1 in X; congruence). subst z2.
      assert (Hk2' : knows (ctx_set (ctx_set cxb2 n (VInt z)) n r2) ((n, z) :: G)).
      { apply knows_set_new; [apply knows_set_other; [exact Hk2|]| |exact Hz2]; apply not_in_map_fst; rewrite HG; exact Hn_G. }
      assert (Hkp' : knows (ctx_set cxp n (VInt z)) ((n, z) :: G)).
      { apply knows_set_new; [exact Hkp| |reflexivity]. apply not_in_map_fst. rewrite HG. exact Hn_G. }
      assert (Hkv' : forall m, In m (names t) -> lookup m kv2 = lookup m acc').
      { intros m' Hm'. apply Hkv. rewrite names_cons. apply in_or_app. right. exact Hm'. }
      destruct (Hp2 _ pp _ (pre ++ out1) rest base sk acc' cxp' s' Hkp' Hp kv2 Hkv' _ pb2 (oapp o2 out1) (app_mode_oapp _ _) Hk2') as (cxf & E3).
      rewrite E3. rewrite oapp_app. eexists. reflexivity.
    + (* a named member that reads what is known *)
      apply andb_prop in Hg as [Hm Hg].
      destruct (proj2 (proj2 (proj2 (dep_roundtrip m))) Gn Hm) as [Hst HR].
      pose proof (HR G HG) as Hc. pose proof (HB m (or_introl eq_refl) Gn Hm G HG) as Hcb.
      unfold memberok in Hn1. destruct (named m) eqn:Enamed.
      2:{ (* an anonymous member that builds from nothing *)
        cbn [orb] in Hn1. pose proof (anon_name m Hn1) as En. rewrite En in Hb.
        destruct (buildnone m) eqn:Ebn; [|discriminate]. cbn [bind] in Hb.
        destruct (build m VNone cxb pb o) as [[r o1]|e q] eqn:Ec.
        2:{ destruct e; try discriminate. rewrite Hst in Hb. discriminate. }
        assert (Hnd' : NoDup (names t)) by (rewrite names_cons, En in Hnd; exact Hnd).
        assert (Hfresh' : forall k, In k Gn -> ~ In k (names t)).
        { intros k Hin Hin'. apply (Hfresh k Hin). rewrite names_cons, En. exact Hin'. }
        destruct (Hc VNone _ pb o r o1 Ho Hk Ec) as (out1 & -> & Hp1).
        destruct (IH Gn Hg Hnd' Hfresh' Hn2 HB' G kv _ pb _ cxb' o' HG (app_mode_oapp _ _) Hk Hb) as (out2 & -> & Hp2).
        exists (out1 ++ out2). split; [apply oapp_app|].
        intros cxp pp acc pre rest base sk acc' cxp' s' Hkp Hp kv2 Hkv cxb2 pb2 o2 Ho2 Hk2. rewrite <- app_assoc in Hp. cbn [struct_loop] in Hp.
        destruct (Hp1 cxp pp pre (out2 ++ rest) base sk Hkp) as (r' & E1 & _). rewrite E1, En in Hp.
        cbn [struct_bloop]. rewrite En, Ebn. cbn [bind].
        destruct (anon_det m Hn1 VNone cxb pb o r out1 cxb2 pb2 o2 Ho Ho2 Ec) as (r2 & E2). rewrite E2.
        assert (Hkv' : forall m', In m' (names t) -> lookup m' kv2 = lookup m' acc').
        { intros m' Hm'. apply Hkv. rewrite names_cons, En. exact Hm'. }
        destruct (Hp2 _ pp _ (pre ++ out1) rest base sk acc' cxp' s' Hkp Hp kv2 Hkv' cxb2 pb2 (oapp o2 out1) (app_mode_oapp _ _) Hk2) as (cxf & E3).
        rewrite E3. rewrite oapp_app. eexists. reflexivity. }
      destruct m as [| | | | | | | | | | | | | | | | | | | | | | | | | | | | | | | | | | | | |n c0| | | | | | | | | | | | | | | | | | | | | ]; try discriminate Enamed.
      cbn [name_of] in Hb.
      match type of Hb with context [bind ?X _] => destruct X as [subobj|] eqn:Es end; [|discriminate]. cbn [bind] in Hb.
      destruct (build (CRenamed n c0) subobj (ctx_set cxb n subobj) pb o) as [[r o1]|e q] eqn:Ec.
      2:{ destruct e; try discriminate. rewrite Hst in Hb. discriminate. }
      assert (Hn_t : ~ In n (names t)) by (rewrite names_cons in Hnd; cbn [name_of app] in Hnd; inversion Hnd; assumption).
      assert (Hnd' : NoDup (names t)) by (rewrite names_cons in Hnd; cbn [name_of app] in Hnd; inversion Hnd; assumption).
      assert (Hfresh' : forall k, In k Gn -> ~ In k (names t)).
      { intros k Hin Hin'. apply (Hfresh k Hin). rewrite names_cons. apply in_or_app. right. exact Hin'. }
      assert (Hname : forall z, ~ In (n, z) G).
      { apply not_in_map_fst. rewrite HG. intros Hin. apply (Hfresh n Hin). rewrite names_cons. cbn [name_of app]. left. reflexivity. }
      assert (Hk1 : knows (ctx_set cxb n subobj) G) by (apply knows_set_other; assumption).
      destruct (Hc subobj _ pb o r o1 Ho Hk1 Ec) as (out1 & -> & Hp1).
      assert (Hk1' : knows (ctx_set (ctx_set cxb n subobj) n r) G) by (apply knows_set_other; assumption).
      destruct (IH Gn Hg Hnd' Hfresh' Hn2 HB' G kv _ pb _ cxb' o' HG (app_mode_oapp _ _) Hk1' Hb) as (out2 & -> & Hp2).
      exists (out1 ++ out2). split; [apply oapp_app|].
      intros cxp pp acc pre rest base sk acc' cxp' s' Hkp Hp kv2 Hkv cxb2 pb2 o2 Ho2 Hk2. rewrite <- app_assoc in Hp. cbn [struct_loop] in Hp.
      destruct (Hp1 cxp pp pre (out2 ++ rest) base sk Hkp) as (r' & E1 & _). rewrite E1 in Hp. cbn [name_of] in Hp.
      assert (Hl : lookup n kv2 = Some r').
      { rewrite (Hkv n) by (rewrite names_cons; cbn [name_of app]; left; reflexivity).
        rewrite (loop_preserves _ _ _ _ _ _ _ _ Hp n Hn_t). apply lookup_dict_set_same. }
      cbn [struct_bloop name_of]. rewrite Hl. cbn [bind].
      assert (Hk2a : knows (ctx_set cxb2 n r') G) by (apply knows_set_other; assumption).
      destruct (Hcb subobj _ pb o r out1 Ho Hk1 Ec cxp pp pre (out2 ++ rest) base sk r' _ Hkp E1 (ctx_set cxb2 n r') pb2 o2 Ho2 Hk2a) as (r2 & E2). rewrite E2.
      assert (Hkv' : forall m, In m (names t) -> lookup m kv2 = lookup m acc').
      { intros m' Hm'. apply Hkv. rewrite names_cons. apply in_or_app. right. exact Hm'. }
      assert (Hkp' : knows (ctx_set cxp n r') G) by (apply knows_set_other; assumption).
      assert (Hk2b : knows (ctx_set (ctx_set cxb2 n r') n r2) G) by (apply knows_set_other; assumption).
      destruct (Hp2 _ pp _ (pre ++ out1) rest base sk acc' cxp' s' Hkp' Hp kv2 Hkv' _ pb2 (oapp o2 out1) (app_mode_oapp _ _) Hk2b) as (cxf & E3).
      rewrite E3. rewrite oapp_app. eexists. reflexivity.
Qed.

Theorem RB_dstruct cs : dgo [] cs = true -> NoDup (names cs) -> forallb memberok cs = true ->
  (forall m, In m cs -> forall G', memok G' m = true -> forall Gv, map fst Gv = G' -> RBG Gv m) -> RB (CStruct cs).
Proof.
  intros Hg Hnd Hnm HB v cxb pb o r out Ho Hb cxp pp pre rest base sk r' s' Hp cxb2 pb2 o2 Ho2. cbn [build] in Hb.
  destruct (match v with VNone => Ok [] | VDict kv => Ok kv | _ => unsupported end) as [kv|] eqn:Ek; [|discriminate]. cbn [bind] in Hb.
  destruct (struct_bloop build kv cs (ctx_update (push_scope cxb) kv) pb o) as [[cxb' o1]|] eqn:Es; [|discriminate]. cbn [bind] in Hb.
  destruct (dloop_RB cs [] Hg Hnd (fun k H => match H with end) Hnm HB [] kv _ pb o cxb' o1 eq_refl Ho (knows_update_push cxb kv) Es) as (out0 & -> & Hl).
  apply ok_out_inj in Hb as [_ <-].
  cbn [parse] in Hp. destruct (struct_loop parse cs (push_scope cxp) pp [] _) as [[[acc' cxp'] s1]|] eqn:El; [|discriminate]. cbn [bind] in Hp. injection Hp as <- _.
  destruct (Hl _ pp [] pre rest base sk acc' cxp' s1 (knows_push cxp) El acc' (fun _ _ => eq_refl) (ctx_update (push_scope cxb2) acc') pb2 o2 Ho2 (knows_update_push cxb2 acc')) as (cxf & E2).
  eexists. cbn [build bind]. rewrite E2. reflexivity.
Qed.

(* ---- the fragment: dfrag, every Struct member named or an anonymous constant / padding ---- *)
Fixpoint allnamed (c : con) : bool :=
  match c with
  | CStruct cs => forallb memberok cs && forallb allnamed cs
  | CSequence cs => forallb allnamed cs
  | CRenamed _ c' | CArray _ c' | CPadded _ c' _ | CAligned _ c' _ | CFixedSized _ c' | CPrefixed _ c' _ => allnamed c'
  | CSwitch _ cases d => forallb (fun vc => allnamed (snd vc)) cases && allnamed d
  | CIfThenElse _ a b => allnamed a && allnamed b
  | _ => true
  end.

Definition PB (c : con) : Prop :=
  allnamed c = true ->
  (dfrag false c = true -> RB c) /\ (dfrag true c = true -> RBe c) /\
  (forall Gn, szb Gn c = true -> forall Gv, map fst Gv = Gn -> RBG Gv c) /\
  (forall Gn, memok Gn c = true -> forall Gv, map fst Gv = Gn -> RBG Gv c).

Lemma PB_plain c : (forall n c', c <> CRenamed n c') -> (dfrag false c = true -> RB c) -> (forall e, dfrag e c = dfrag false c) ->
  (forall Gn, szb Gn c = true -> forall Gv, map fst Gv = Gn -> RBG Gv c) ->
  (dfrag false c = true -> RB c) /\ (dfrag true c = true -> RBe c) /\
  (forall Gn, szb Gn c = true -> forall Gv, map fst Gv = Gn -> RBG Gv c) /\
  (forall Gn, memok Gn c = true -> forall Gv, map fst Gv = Gn -> RBG Gv c).
Proof.
  intros Hnr HA E HS. split; [exact HA|]. split; [intros Ht; apply RB_RBe, HA; rewrite <- (E true); exact Ht|]. split; [exact HS|].
  intros Gn Hm Gv HG.
  assert (E' : memok Gn c = szb Gn c || dfrag false c) by (destruct c; try reflexivity; exfalso; eapply Hnr; reflexivity).
  rewrite E' in Hm. apply orb_prop in Hm as [Hm|Hm]; [apply (HS Gn Hm Gv HG)|apply RBG_of_RB, HA, Hm].
Qed.

Lemma brk_RBG c Gn Gv : PB c -> allnamed c = true -> brk Gn c = true -> map fst Gv = Gn -> RBG Gv c.
Proof.
  intros HP Hn Hb HG. destruct (HP Hn) as (I1 & _ & I3 & _). unfold brk, brk_ in Hb. apply orb_prop in Hb as [Hb|Hb];
    [apply (I3 Gn (szb0_szb _ _ Hb) Gv HG)|apply RBG_of_RB, I1, Hb].
Qed.

Lemma dfrag_RT c : dfrag false c = true -> RT c.
Proof. apply C01_roundtrip_dependent. Qed.

Theorem dep_rebuild : forall c, PB c.
Proof.
  assert (NoSZ : forall c, (forall G, szb G c = false) -> forall Gn, szb Gn c = true -> forall Gv, map fst Gv = Gn -> RBG Gv c)
    by (intros c H Gn Hs; rewrite H in Hs; discriminate).
  assert (Dead : forall c, (forall n c', c <> CRenamed n c') -> (forall e, dfrag e c = false) -> (forall G, szb G c = false) -> PB c).
  { intros c Hnr Hd Hs _. apply PB_plain; [exact Hnr| |intros e; rewrite !Hd; reflexivity|apply NoSZ, Hs]. intros Hf. rewrite Hd in Hf. discriminate. }
  induction c using con_ind2; try (apply Dead; [intros; discriminate|reflexivity|reflexivity]); intros Han.
  - (* Format *) apply PB_plain; [intros; discriminate| |reflexivity|apply NoSZ; reflexivity]. intros Hf. cbn in Hf. apply RB_format_int. apply negb_true_iff. exact Hf.
  - (* BytesInt *) apply PB_plain; [intros; discriminate| |reflexivity|apply NoSZ; reflexivity]. intros Hf. cbn in Hf. destruct a0; try discriminate. destruct v; try discriminate. apply RB_bytesint. lia.
  - apply PB_plain; [intros; discriminate| |reflexivity|apply NoSZ; reflexivity]. intros _. apply RB_varint.
  - apply PB_plain; [intros; discriminate| |reflexivity|apply NoSZ; reflexivity]. intros _. apply RB_zigzag.
  - (* Bytes *) apply PB_plain; [intros; discriminate| |reflexivity|].
    + intros Hf. cbn in Hf. destruct a0; try discriminate. destruct v; try discriminate. apply RB_bytes. lia.
    + intros Gn Hm Gv HG. unfold szb, szb_ in Hm. rewrite orb_false_r in Hm. cbn [szb0_] in Hm. destruct a0 as [| |a0 k|v| | |]; try discriminate Hm.
      destruct a0 as [[]| | | | | |]; try discriminate Hm. destruct k as [k|]; try discriminate Hm.
      apply (RBG_sized Gv k _ CBytes); [apply sz_bytes|apply RB_bytes_any|]. apply memb_in. rewrite HG. exact Hm.
  - (* GreedyBytes *) split; [intros Hf; discriminate Hf|]. split; [intros _; apply RBe_greedybytes|]. split; [apply NoSZ; reflexivity|].
    intros Gn Hm. discriminate Hm.
  - apply PB_plain; [intros; discriminate| |reflexivity|apply NoSZ; reflexivity]. intros _. apply RB_pass.
  - (* Struct *) cbn [allnamed] in Han. apply andb_prop in Han as [Hnm Han].
    apply PB_plain; [intros; discriminate| |intros e; rewrite !dfrag_struct; reflexivity|apply NoSZ; reflexivity].
    intros Hf. rewrite dfrag_struct in Hf. apply andb_prop in Hf as [Hn Hg].
    apply RB_dstruct; [exact Hg|apply nodupb_NoDup; exact Hn|exact Hnm|].
    intros m Hin G' Hm Gv HG. rewrite Forall_forall in H. rewrite forallb_forall in Han.
    destruct (H m Hin (Han m Hin)) as (_ & _ & _ & HM). apply (HM G' Hm Gv HG).
  - (* Sequence *) cbn [allnamed] in Han. apply PB_plain; [intros; discriminate| |reflexivity|apply NoSZ; reflexivity]. intros Hf. cbn [dfrag] in Hf.
    apply RB_sequence; [| |apply dfrag_no_stopif, Hf].
    + apply Forall_forall. intros c Hin. apply dfrag_RT. rewrite forallb_forall in Hf. apply Hf, Hin.
    + rewrite Forall_forall in H |- *. rewrite forallb_forall in Han. intros c Hin. apply (H c Hin (Han c Hin)). rewrite forallb_forall in Hf. apply Hf, Hin.
  - (* IfThenElse on a known field *) cbn [allnamed] in Han. apply andb_prop in Han as [Han1 Han2].
    apply PB_plain; [intros; discriminate|intros Hf; discriminate Hf|reflexivity|].
    intros Gn Hm Gv HG. unfold szb, szb_ in Hm. cbn [szb0_ orb] in Hm.
    destruct a0 as [| |a0 k|v| | |]; try discriminate Hm. destruct a0 as [[]| | | | | |]; try discriminate Hm. destruct k as [k|]; try discriminate Hm.
    apply andb_prop in Hm as [Hm Hb2]. apply andb_prop in Hm as [Hk Hb1].
    apply RBG_ite; [apply memb_in; rewrite HG; exact Hk|apply (brk_RBG _ Gn); assumption|apply (brk_RBG _ Gn); assumption].
  - (* Switch on a known field *) cbn [allnamed] in Han. apply andb_prop in Han as [Han1 Han2].
    apply PB_plain; [intros; discriminate|intros Hf; discriminate Hf|reflexivity|].
    intros Gn Hm Gv HG. unfold szb, szb_ in Hm. cbn [szb0_ orb] in Hm.
    destruct a0 as [| |a0 k|v| | |]; try discriminate Hm. destruct a0 as [[]| | | | | |]; try discriminate Hm. destruct k as [k|]; try discriminate Hm.
    apply andb_prop in Hm as [Hm Hb2]. apply andb_prop in Hm as [Hk Hb1].
    apply RBG_switch; [apply memb_in; rewrite HG; exact Hk| |apply (brk_RBG _ Gn); assumption].
    rewrite Forall_forall in H |- *. rewrite forallb_forall in Han1. intros vc Hin. apply (brk_RBG _ Gn); [apply H, Hin|apply Han1, Hin| |exact HG].
    rewrite forallb_forall in Hb1. apply Hb1, Hin.
  - (* Array *) cbn [allnamed] in Han. destruct (IHc Han) as (I1 & _ & _ & _).
    apply PB_plain; [intros; discriminate| |intros e; destruct a0 as [| | |v| | |]; try reflexivity; destruct v; reflexivity|].
    + intros Hf. cbn [dfrag] in Hf. destruct a0; try discriminate. destruct v; try discriminate. apply andb_prop in Hf as [Hn Hc].
      apply RB_array; [lia|apply dfrag_RT, Hc|apply I1, Hc].
    + intros Gn Hm Gv HG. unfold szb, szb_ in Hm. rewrite orb_false_r in Hm. cbn [szb0_] in Hm. destruct a0 as [| |a0 k|v| | |]; try discriminate Hm.
      destruct a0 as [[]| | | | | |]; try discriminate Hm. destruct k as [k|]; try discriminate Hm. apply andb_prop in Hm as [Hk Hc].
      apply (RBG_sized Gv k _ (fun x => CArray x c)); [apply sz_array, dfrag_RT, Hc|intros z; apply RB_array_any; [apply dfrag_RT, Hc|apply I1, Hc]|].
      apply memb_in. rewrite HG. exact Hk.
  - (* Renamed *) cbn [allnamed] in Han. destruct (IHc Han) as (I1 & I2 & I3 & _). split; [|split; [|split]].
    + intros Hf. cbn [dfrag] in Hf. apply RB_renamed, I1, Hf.
    + intros Hf. cbn [dfrag] in Hf. apply RBe_renamed, I2, Hf.
    + intros Gn Hs. discriminate Hs.
    + intros Gn Hm Gv HG. rewrite memok_eq in Hm. cbn [strip] in Hm. apply RBG_renamed. apply orb_prop in Hm as [Hm|Hm];
        [apply (I3 Gn Hm Gv HG)|apply RBG_of_RB, I1, Hm].
  - (* Const *) apply PB_plain; [intros; discriminate| |intros e; destruct a0; reflexivity|apply NoSZ; reflexivity]. intros Hf. cbn [dfrag] in Hf.
    destruct a0; try discriminate.
    + apply RB_const_int. exact Hf.
    + destruct c; try discriminate. destruct len; try discriminate. destruct v; try discriminate.
      apply Z.eqb_eq in Hf. subst z. apply RB_const_bytes.
  - (* Padded *) cbn [allnamed] in Han. destruct (IHc Han) as (I1 & _ & _ & _).
    apply PB_plain; [intros; discriminate| |intros e; destruct a0 as [| | |v| | |]; try reflexivity; destruct v; reflexivity|].
    + intros Hf. cbn [dfrag] in Hf. destruct a0; try discriminate. destruct v; try discriminate. apply andb_prop in Hf as [Hn Hc].
      apply RB_padded; [lia|apply dfrag_RT, Hc|apply I1, Hc].
    + intros Gn Hm Gv HG. unfold szb, szb_ in Hm. rewrite orb_false_r in Hm. cbn [szb0_] in Hm. destruct a0 as [| |a0 k|v| | |]; try discriminate Hm.
      destruct a0 as [[]| | | | | |]; try discriminate Hm. destruct k as [k|]; try discriminate Hm. apply andb_prop in Hm as [Hk Hc].
      apply (RBG_sized Gv k _ (fun x => CPadded x c a2)); [apply sz_padded, dfrag_RT, Hc|intros z; apply RB_padded_any; [apply dfrag_RT, Hc|apply I1, Hc]|].
      apply memb_in. rewrite HG. exact Hk.
  - (* Aligned *) cbn [allnamed] in Han. destruct (IHc Han) as (I1 & _ & _ & _).
    apply PB_plain; [intros; discriminate| |intros e; destruct a0 as [| | |v| | |]; try reflexivity; destruct v; reflexivity|apply NoSZ; reflexivity].
    intros Hf. cbn [dfrag] in Hf. destruct a0; try discriminate. destruct v; try discriminate. apply andb_prop in Hf as [Hn Hc].
    apply RB_aligned; [lia|apply dfrag_RT, Hc|apply I1, Hc].
  - (* Prefixed *) cbn [allnamed] in Han. destruct (IHc2 Han) as (_ & I2 & _ & _).
    apply PB_plain; [intros; discriminate| |intros e; destruct a2; reflexivity|apply NoSZ; reflexivity].
    intros Hf. cbn [dfrag] in Hf. destruct a2; [discriminate|]. apply andb_prop in Hf as [Hl Hc].
    apply RB_prefixed; [exact Hl|apply dep_roundtrip, Hc|apply I2, Hc].
  - (* FixedSized *) cbn [allnamed] in Han. destruct (IHc Han) as (I1 & _ & _ & _).
    apply PB_plain; [intros; discriminate| |intros e; destruct a0 as [| | |v| | |]; try reflexivity; destruct v; reflexivity|].
    + intros Hf. cbn [dfrag] in Hf. destruct a0; try discriminate. destruct v; try discriminate. apply andb_prop in Hf as [Hn Hc].
      apply RB_fixedsized; [lia|apply dfrag_RT, Hc|apply I1, Hc].
    + intros Gn Hm Gv HG. unfold szb, szb_ in Hm. rewrite orb_false_r in Hm. cbn [szb0_] in Hm. destruct a0 as [| |a0 k|v| | |]; try discriminate Hm.
      destruct a0 as [[]| | | | | |]; try discriminate Hm. destruct k as [k|]; try discriminate Hm. apply andb_prop in Hm as [Hk Hc].
      apply (RBG_sized Gv k _ (fun x => CFixedSized x c)); [apply sz_fixed, dfrag_RT, Hc|intros z; apply RB_fixed_any; [apply dfrag_RT, Hc|apply I1, Hc]|].
      apply memb_in. rewrite HG. exact Hk.
Qed.

(* on the public entry points *)
Theorem C02_reproduced_exactly_dependent : forall c v kw r out, dfrag false c = true -> allnamed c = true ->
  build_bytes c v kw = Ok (r, out) ->
  forall kw1 kw2, exists v1 r2, parse_bytes c kw1 out = Ok v1 /\ vle v1 r = true /\ build_bytes c v1 kw2 = Ok (r2, out).
Proof.
  intros c v kw r out Hf Han Hb kw1 kw2. unfold build_bytes in Hb.
  destruct (build c v (top_ctx kw MBuild) [] ostream_new) as [[r0 o]|] eqn:E; [|discriminate]. cbn [bind] in Hb. injection Hb as <- <-.
  destruct (C01_roundtrip_dependent c Hf v _ [] ostream_new r0 o app_mode_new E) as (out & -> & Hp).
  destruct (Hp (top_ctx kw1 MParse) [] [] [] 0%N true) as (r' & Ep & L).
  destruct (proj1 (dep_rebuild c Han) Hf v _ [] ostream_new r0 out app_mode_new E (top_ctx kw1 MParse) [] [] [] 0%N true r' _ Ep (top_ctx kw2 MBuild) [] ostream_new app_mode_new) as (r2 & E2).
  exists r', r2. rewrite odata_new_oapp. split; [|split; [exact L|]].
  - unfold parse_bytes, istream_of. rewrite app_nil_r in Ep. unfold at_pos in Ep. cbn [app nlen length N.of_nat] in Ep. rewrite Ep. reflexivity.
  - unfold build_bytes. rewrite E2. cbn [bind]. rewrite odata_new_oapp. reflexivity.
Qed.

Lemma ex_tlv_allnamed : dfrag false ex_tlv = true /\ allnamed ex_tlv = true.
Proof. split; reflexivity. Qed.

Lemma ex_tlv_stable :
  stable_run ex_tlv [x02; x02; x01; x02; x00; x03; xac; x82; x00] = Some (false, true).
Proof. vm_compute. reflexivity. Qed.

(* with an anonymous magic constant in front and anonymous padding behind *)
Definition ex_magic_tlv : con :=
  CStruct [CConst (VBytes [x54; x4c]) (CBytes (kint 2));
           CRenamed [x74] (CFormat Big FB);
           CRenamed [x6e] (CFormat Big FB);
           CRenamed [x76] (CSwitch (this_ [x74]) [(VInt 1, CBytes (this_ [x6e])); (VInt 2, CArray (this_ [x6e]) (CFormat Big FH))] CPass);
           CPadded (kint 1) CPass x00].

Lemma ex_magic_tlv_in_fragment : dfrag false ex_magic_tlv = true /\ allnamed ex_magic_tlv = true.
Proof. split; reflexivity. Qed.

Lemma ex_magic_tlv_stable : stable_run ex_magic_tlv [x54; x4c; x01; x03; x61; x62; x63; xee] = Some (false, true).
Proof. vm_compute. reflexivity. Qed.
