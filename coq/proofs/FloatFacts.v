(* C03 / C01, half precision: EVERY one of the 65536 binary16 patterns.  A finite pattern or an infinity widens to a double that
   narrows back to exactly that pattern (so parse-then-build of Float16 reproduces the bytes); a NaN comes back as the quiet NaN
   of its sign.  The domain is finite; the sweep is evaluated by the kernel and lifted to the quantified statement. *)
From Coq Require Import ZArith NArith List Bool Lia.
Require Import Float.
Import ListNotations.
Local Open Scope N_scope.

(* P on every k-bit extension of acc *)
Fixpoint allN (k : nat) (acc : N) (P : N -> bool) : bool :=
  match k with
  | O => P acc
  | S k' => allN k' (2 * acc) P && allN k' (2 * acc + 1) P
  end.

Lemma allN_spec P : forall k acc, allN k acc P = true -> forall q, q < 2 ^ N.of_nat k -> P (acc * 2 ^ N.of_nat k + q) = true.
Proof.
  induction k as [|k IH]; intros acc H q Hq.
  - cbn in Hq. assert (q = 0) by lia. subst q. cbn [allN] in H. replace (acc * 2 ^ N.of_nat 0 + 0) with acc by (cbn; lia). exact H.
  - cbn [allN] in H. apply andb_prop in H as [H0 H1].
    assert (E : 2 ^ N.of_nat (S k) = 2 * 2 ^ N.of_nat k) by (rewrite Nat2N.inj_succ, N.pow_succ_r'; reflexivity).
    rewrite E in Hq |- *. destruct (N.lt_ge_cases q (2 ^ N.of_nat k)) as [Hlt|Hge].
    + replace (acc * (2 * 2 ^ N.of_nat k) + q) with (2 * acc * 2 ^ N.of_nat k + q) by lia. apply (IH _ H0 q Hlt).
    + replace (acc * (2 * 2 ^ N.of_nat k) + q) with ((2 * acc + 1) * 2 ^ N.of_nat k + (q - 2 ^ N.of_nat k)) by lia. apply (IH _ H1). lia.
Qed.

Definition half_ok (p : N) : bool :=
  match narrow binary16 (widen binary16 p) with
  | Some p' => if is_nan binary16 p then p' =? quiet_nan binary16 (f_sign binary16 p) else p' =? p
  | None => false
  end.

Lemma half_sweep : allN 16 0 half_ok = true.
Proof. vm_cast_no_check (eq_refl true). Qed.

Theorem half_roundtrip : forall p, p < 65536 -> is_nan binary16 p = false -> narrow binary16 (widen binary16 p) = Some p.
Proof.
  intros p Hp Hn. pose proof (allN_spec half_ok 16 0 half_sweep p Hp) as H. cbn [N.mul N.add] in H. unfold half_ok in H.
  rewrite Hn in H. destruct (narrow binary16 (widen binary16 p)) as [p'|]; [|discriminate]. apply N.eqb_eq in H. subst. reflexivity.
Qed.

Theorem half_nan_canonical : forall p, p < 65536 -> is_nan binary16 p = true ->
  narrow binary16 (widen binary16 p) = Some (quiet_nan binary16 (f_sign binary16 p)).
Proof.
  intros p Hp Hn. pose proof (allN_spec half_ok 16 0 half_sweep p Hp) as H. cbn [N.mul N.add] in H. unfold half_ok in H.
  rewrite Hn in H. destruct (narrow binary16 (widen binary16 p)) as [p'|]; [|discriminate]. apply N.eqb_eq in H. subst. reflexivity.
Qed.

(* widening is injective on the non-NaN half patterns: no two encodings share a value (-0 and +0 stay apart) *)
Theorem half_widen_injective : forall p q, p < 65536 -> q < 65536 -> is_nan binary16 p = false -> is_nan binary16 q = false ->
  widen binary16 p = widen binary16 q -> p = q.
Proof.
  intros p q Hp Hq Np Nq E. pose proof (half_roundtrip p Hp Np) as A. pose proof (half_roundtrip q Hq Nq) as B. rewrite E in A. congruence.
Qed.

Lemma half_examples :
  widen binary16 15360 = 4607182418800017408 /\ widen binary16 1 = 4499096027743125504 /\ widen binary16 64511 = 13902607651646210048 /\
  narrow binary16 4607182418800017408 = Some 15360.
Proof. repeat split; vm_compute; reflexivity. Qed.
