(* C10: bit strings (one byte 0/1 per bit, MSB first), packing across byte boundaries. *)
From Coq Require Import ZArith NArith List Bool Lia ZifyBool ZifyN ZifyNat.
From Coq Require Import Strings.Byte.
Require Import Bytes BytesFacts.
Import ListNotations.
Open Scope N_scope.

Definition bitsb (bs : bytes) : Prop := forallb is_bit bs = true.

Lemma is_bit_val b : is_bit b = true -> Byte.to_N b = 0 \/ Byte.to_N b = 1.
Proof. destruct b; cbn; intros H; try discriminate; auto. Qed.

Lemma lor_double_bit a b : b = 0 \/ b = 1 -> N.lor (a * 2) b = a * 2 + b.
Proof.
  intros [-> | ->]; [rewrite N.lor_0_r; lia|].
  rewrite N.mul_comm. destruct a as [|p]; reflexivity.
Qed.

Lemma bits_fold_step acc bs : bitsb bs ->
  fold_left (fun a b => N.lor (a * 2) (Byte.to_N b)) bs acc = acc * 2 ^ N.of_nat (length bs) + bits_fold bs.
Proof.
  unfold bitsb, bits_fold. revert acc. induction bs as [|b t IH]; intros acc H.
  - cbn. lia.
  - cbn [forallb] in H. apply andb_prop in H as [Hb Ht]. cbn [fold_left length].
    rewrite (IH (N.lor (acc * 2) (Byte.to_N b)) Ht). rewrite (IH (N.lor (0 * 2) (Byte.to_N b)) Ht).
    rewrite !lor_double_bit by (apply is_bit_val; exact Hb).
    rewrite Nat2N.inj_succ, N.pow_succ_r'. lia.
Qed.

(* the value of a concatenation: shift and add -- MSB-first packing *)
Theorem bits_fold_app : forall a b, bitsb a -> bitsb b ->
  bits_fold (a ++ b) = bits_fold a * 2 ^ N.of_nat (length b) + bits_fold b.
Proof.
  intros a b Ha Hb. unfold bits_fold at 1. rewrite fold_left_app.
  fold (bits_fold a). apply bits_fold_step. exact Hb.
Qed.

Lemma bitsb_app a b : bitsb a -> bitsb b -> bitsb (a ++ b).
Proof. unfold bitsb. intros. rewrite forallb_app. rewrite H, H0. reflexivity. Qed.

Lemma bits_of_N_bitsb w : forall n, bitsb (bits_of_N w n).
Proof.
  induction w as [|w IH]; intros n; cbn [bits_of_N]; [reflexivity|].
  apply bitsb_app; [apply IH|]. unfold bitsb. cbn. destruct (N.odd n); reflexivity.
Qed.

Lemma bits_of_N_length w : forall n, length (bits_of_N w n) = w.
Proof. induction w as [|w IH]; intros n; cbn [bits_of_N]; [reflexivity|]. rewrite app_length, IH. cbn. lia. Qed.

Lemma pow2_succ w : 2 ^ N.of_nat (S w) = 2 * 2 ^ N.of_nat w.
Proof. rewrite Nat2N.inj_succ, N.pow_succ_r'. reflexivity. Qed.

(* width bits of n denote n (mod 2^width) *)
Theorem bits_fold_bits_of_N : forall w n, n < 2 ^ N.of_nat w -> bits_fold (bits_of_N w n) = n.
Proof.
  induction w as [|w IH]; intros n Hn.
  - change (2 ^ N.of_nat 0) with 1 in Hn. cbn. lia.
  - cbn [bits_of_N]. rewrite bits_fold_app; [|apply bits_of_N_bitsb|unfold bitsb; cbn; destruct (N.odd n); reflexivity].
    rewrite IH. 2:{ rewrite pow2_succ in Hn. apply N.div_lt_upper_bound; lia. }
    cbn [length]. change (2 ^ N.of_nat 1) with 2.
    assert (E : bits_fold [bit_of_bool (N.odd n)] = n mod 2).
    { rewrite <- N.bit0_mod. rewrite N.bit0_odd. destruct (N.odd n); reflexivity. }
    rewrite E. pose proof (N.div_mod n 2). lia.
Qed.

Lemma bits_fold_bound bs : bitsb bs -> bits_fold bs < 2 ^ N.of_nat (length bs).
Proof.
  induction bs as [|b t IH] using rev_ind; intros H.
  - cbn. lia.
  - unfold bitsb in H. rewrite forallb_app in H. apply andb_prop in H as [Ht Hb].
    rewrite bits_fold_app by (assumption || exact Hb). rewrite app_length. cbn [length].
    change (2 ^ N.of_nat 1) with 2.
    replace (length t + 1)%nat with (S (length t)) by lia. rewrite pow2_succ.
    specialize (IH Ht). cbn [forallb] in Hb. apply andb_prop in Hb as [Hb _].
    assert (bits_fold [b] = Byte.to_N b) by (unfold bits_fold; cbn; reflexivity).
    pose proof (is_bit_val b Hb). lia.
Qed.

(* ---- bytes <-> bits ---- *)
Lemma bytes2bits_cons b t : bytes2bits (b :: t) = bits_of_N 8 (Byte.to_N b) ++ bytes2bits t.
Proof. reflexivity. Qed.

Lemma bytes2bits_bitsb d : bitsb (bytes2bits d).
Proof. induction d as [|b t IH]; [reflexivity|]. rewrite bytes2bits_cons. apply bitsb_app; [apply bits_of_N_bitsb|exact IH]. Qed.

Lemma bytes2bits_length d : length (bytes2bits d) = (8 * length d)%nat.
Proof. induction d as [|b t IH]; [reflexivity|]. rewrite bytes2bits_cons, app_length, bits_of_N_length, IH. cbn [length]. lia. Qed.

(* the bit string of a byte string denotes its big-endian integer *)
Theorem bits_fold_bytes2bits : forall d, bits_fold (bytes2bits d) = be_decode d.
Proof.
  induction d as [|b t IH] using rev_ind; [reflexivity|].
  unfold bytes2bits. rewrite flat_map_app. fold (bytes2bits t). cbn [flat_map]. rewrite app_nil_r.
  rewrite bits_fold_app by (apply bytes2bits_bitsb || apply bits_of_N_bitsb).
  rewrite bits_of_N_length, IH, be_decode_snoc.
  rewrite bits_fold_bits_of_N by (pose proof (Byte.to_N_bounded b); change (2 ^ N.of_nat 8) with 256; lia).
  reflexivity.
Qed.

(* a byte-aligned bit string packs into the big-endian digits of the integer it denotes *)
Lemma chunks8_app8 fuel a t : length a = 8%nat -> chunks8 (S fuel) (a ++ t) = a :: chunks8 fuel t.
Proof.
  intros Ha. cbn [chunks8]. destruct (a ++ t) eqn:E.
  - destruct a; cbn in *; [lia|discriminate].
  - rewrite <- E. rewrite firstn_app, skipn_app, Ha. rewrite firstn_all2 by lia. rewrite skipn_all2 by lia.
    cbn [Nat.sub firstn skipn]. rewrite app_nil_r. reflexivity.
Qed.

Lemma chunks8_fuel_any fuel : forall fuel' bs, (length bs <= fuel)%nat -> (length bs <= fuel')%nat ->
  chunks8 fuel bs = chunks8 fuel' bs.
Proof.
  induction fuel as [|f IH]; intros fuel' bs H H'.
  - destruct bs; [destruct fuel'; reflexivity|cbn in H; lia].
  - destruct bs as [|x t]; [destruct fuel'; reflexivity|].
    destruct fuel' as [|f']; [cbn in H'; lia|].
    cbn [chunks8]. f_equal. apply IH; rewrite skipn_length; cbn [length] in *; lia.
Qed.

Lemma chunks8_fuel_more fuel bs : (length bs <= fuel)%nat -> chunks8 fuel bs = chunks8 (length bs) bs.
Proof. intros H. apply chunks8_fuel_any; lia. Qed.

Theorem bits2bytes_bytes2bits : forall d, bits2bytes (bytes2bits d) = B2BOk d.
Proof.
  intros d. unfold bits2bytes. rewrite bytes2bits_length.
  replace (Nat.modulo (8 * length d) 8) with 0%nat by (rewrite Nat.mul_comm, Nat.mod_mul; lia).
  cbn [Nat.eqb negb]. pose proof (bytes2bits_bitsb d) as Hb. unfold bitsb in Hb. rewrite Hb. f_equal.
  induction d as [|b t IH]; [reflexivity|].
  rewrite bytes2bits_cons.
  replace (8 * length (b :: t))%nat with (S (8 * length t + 7)) by (cbn [length]; lia).
  rewrite chunks8_app8 by apply bits_of_N_length. cbn [map]. f_equal.
  - rewrite bits_fold_bits_of_N by (pose proof (Byte.to_N_bounded b); change (2 ^ N.of_nat 8) with 256; lia).
    apply byte_of_N_to_N.
  - rewrite chunks8_fuel_more by (rewrite bytes2bits_length; lia). rewrite bytes2bits_length.
    apply IH. apply bytes2bits_bitsb.
Qed.

(* ---- the integer read from the bit string of n bytes is the integer read from the bytes ---- *)
Lemma bits_of_N_8_head b : exists tl, bits_of_N 8 (Byte.to_N b) = bit_of_bool (128 <=? Byte.to_N b) :: tl.
Proof. destruct b; eexists; reflexivity. Qed.

Theorem bits2integer_bytes2bits : forall d signed, d <> [] ->
  bits2integer (bytes2bits d) signed = bytes2integer d signed.
Proof.
  intros d signed Hd. destruct d as [|b t]; [congruence|].
  destruct (bits_of_N_8_head b) as [tl Htl].
  set (b0 := bit_of_bool (128 <=? Byte.to_N b)) in *.
  assert (E : bytes2bits (b :: t) = b0 :: (tl ++ bytes2bits t)) by (rewrite bytes2bits_cons, Htl; reflexivity).
  unfold bits2integer, bytes2integer. rewrite E. rewrite <- E.
  rewrite bits_fold_bytes2bits, bytes2bits_length.
  unfold unpattern.
  assert (Hb0 : b0 = bit_of_bool (128 <=? Byte.to_N b)) by reflexivity.
  replace (N.of_nat (8 * length (b :: t))) with (8 * N.of_nat (length (b :: t))) by lia.
  (* the sign bit is the top bit of the first byte *)
  assert (Hs : negb (Byte.to_N b0 =? 0) = (2 ^ (8 * N.of_nat (length (b :: t))) / 2 <=? be_decode (b :: t))).
  { rewrite Hb0. cbn [length]. rewrite Nat2N.inj_succ.
    replace (8 * N.succ (N.of_nat (length t))) with (N.succ (8 * N.of_nat (length t) + 7)) by lia.
    rewrite N.pow_succ_r'. rewrite N.mul_comm, N.div_mul by lia.
    change (b :: t) with ([b] ++ t). rewrite be_decode_app.
    assert (Hf : forall acc, fold_left (fun a x => a * 256 + Byte.to_N x) t acc = acc * 256 ^ N.of_nat (length t) + be_decode t).
    { clear. induction t as [|x t IH]; intros acc; [cbn; lia|]. cbn [fold_left length].
      rewrite IH. unfold be_decode. cbn [fold_left]. rewrite (IH (0 * 256 + Byte.to_N x)). rewrite pow256_succ. fold (be_decode t). ring. }
    rewrite Hf. unfold be_decode at 1. cbn [fold_left]. rewrite N.add_0_l.
    pose proof (be_decode_bound t) as Hbd. rewrite pow256_pow2 in *.
    replace (2 ^ (8 * N.of_nat (length t) + 7)) with (128 * 2 ^ (8 * N.of_nat (length t))) by (rewrite N.pow_add_r; change (2 ^ 7) with 128; lia).
    pose proof (pow2_pos (8 * N.of_nat (length t))).
    destruct (128 <=? Byte.to_N b) eqn:C; cbn [bit_of_bool Byte.to_N N.eqb negb]; symmetry.
    - apply N.leb_le. nia.
    - apply N.leb_gt. pose proof (Byte.to_N_bounded b). nia. }
  rewrite Hs. destruct signed; cbn [andb]; [|reflexivity].
  destruct (2 ^ (8 * N.of_nat (length (b :: t))) / 2 <=? be_decode (b :: t)); reflexivity.
Qed.

(* ---- MSB-first packing of a field list ---- *)
Definition pack (fs : list (nat * N)) : N := fold_left (fun acc f => acc * 2 ^ N.of_nat (fst f) + snd f) fs 0.
Definition field_bits (fs : list (nat * N)) : bytes := concat (map (fun f => bits_of_N (fst f) (snd f)) fs).
Definition total_width (fs : list (nat * N)) : nat := fold_right (fun f a => fst f + a)%nat 0%nat fs.
Definition fields_ok (fs : list (nat * N)) : Prop := Forall (fun f => snd f < 2 ^ N.of_nat (fst f)) fs.

Lemma field_bits_bitsb fs : bitsb (field_bits fs).
Proof.
  induction fs as [|f t IH]; [reflexivity|]. unfold field_bits. cbn [map concat].
  apply bitsb_app; [apply bits_of_N_bitsb|exact IH].
Qed.

Lemma field_bits_length fs : length (field_bits fs) = total_width fs.
Proof.
  induction fs as [|f t IH]; [reflexivity|]. unfold field_bits. cbn [map concat total_width fold_right].
  rewrite app_length, bits_of_N_length. f_equal. exact IH.
Qed.

Lemma pack_from acc fs : fields_ok fs ->
  fold_left (fun a f => a * 2 ^ N.of_nat (fst f) + snd f) fs acc = acc * 2 ^ N.of_nat (total_width fs) + pack fs.
Proof.
  unfold pack. revert acc. induction fs as [|f t IH]; intros acc H; [cbn; lia|].
  inversion H as [|? ? Hf Ht]; subst. cbn [fold_left total_width fold_right].
  rewrite (IH _ Ht). rewrite (IH (0 * _ + _) Ht).
  rewrite Nat2N.inj_add, N.pow_add_r. fold (total_width t). ring.
Qed.

(* the concatenated two's-complement patterns of the fields denote the packed big integer *)
Theorem bits_fold_fields : forall fs, fields_ok fs -> bits_fold (field_bits fs) = pack fs.
Proof.
  induction fs as [|f t IH]; intros H; [reflexivity|].
  inversion H as [|? ? Hf Ht]; subst. unfold field_bits. cbn [map concat]. fold (field_bits t).
  rewrite bits_fold_app by (apply bits_of_N_bitsb || apply field_bits_bitsb).
  rewrite bits_fold_bits_of_N by exact Hf. rewrite IH by exact Ht. rewrite field_bits_length.
  unfold pack at 2. cbn [fold_left]. rewrite pack_from by exact Ht. ring.
Qed.

(* bit strings of equal length and equal value are equal *)
Lemma bits_inj : forall a b : bytes, bitsb a -> bitsb b -> length a = length b -> bits_fold a = bits_fold b -> a = b.
Proof.
  induction a as [|x a IH] using rev_ind; intros b Ha Hb Hl Hv.
  - destruct b; [reflexivity|cbn in Hl; lia].
  - destruct b as [|y b _] using rev_ind; [rewrite app_length in Hl; cbn in Hl; lia|].
    unfold bitsb in Ha, Hb. rewrite forallb_app in Ha, Hb.
    apply andb_prop in Ha as [Ha Hx]. apply andb_prop in Hb as [Hb Hy].
    rewrite !bits_fold_app in Hv by assumption. rewrite !app_length in Hl. cbn [length] in Hl, Hv.
    cbn [forallb] in Hx, Hy. apply andb_prop in Hx as [Hx _]. apply andb_prop in Hy as [Hy _].
    change (2 ^ N.of_nat 1) with 2 in Hv.
    assert (Ex : bits_fold [x] = Byte.to_N x) by reflexivity. assert (Ey : bits_fold [y] = Byte.to_N y) by reflexivity.
    rewrite Ex, Ey in Hv. pose proof (is_bit_val x Hx). pose proof (is_bit_val y Hy).
    assert (bits_fold a = bits_fold b /\ Byte.to_N x = Byte.to_N y) as [H1 H2] by lia.
    f_equal; [apply IH; (assumption || lia)|]. f_equal.
    apply (f_equal Byte.of_N) in H2. rewrite !Byte.of_to_N in H2. congruence.
Qed.

Lemma bits2bytes_of_value : forall k bits, bitsb bits -> length bits = (8 * k)%nat ->
  bits2bytes bits = B2BOk (be_encode k (bits_fold bits)).
Proof.
  intros k bits Hb Hl.
  assert (E : bits = bytes2bits (be_encode k (bits_fold bits))).
  { assert (Hv : bits_fold bits < 256 ^ N.of_nat k).
    { rewrite pow256_pow2. pose proof (bits_fold_bound bits Hb) as B. rewrite Hl in B.
      replace (8 * N.of_nat k) with (N.of_nat (8 * k)) by lia. exact B. }
    symmetry. apply bits_inj; [apply bytes2bits_bitsb|exact Hb| |].
    - rewrite bytes2bits_length, be_encode_length. lia.
    - rewrite bits_fold_bytes2bits. apply be_roundtrip. exact Hv. }
  rewrite E at 1. apply bits2bytes_bytes2bits.
Qed.

(* C10: for any sequence of field widths summing to a multiple of 8, the packed bytes are the
   big-endian digits of the integer formed by concatenating the fields' bit patterns *)
Theorem pack_fields_bytes : forall fs k, fields_ok fs -> total_width fs = (8 * k)%nat ->
  bits2bytes (field_bits fs) = B2BOk (be_encode k (pack fs)).
Proof.
  intros fs k Hok Hw. rewrite (bits2bytes_of_value k) by (apply field_bits_bitsb || (rewrite field_bits_length; exact Hw)).
  rewrite bits_fold_fields by exact Hok. reflexivity.
Qed.

(* and parse inverts it: the bit string of those bytes is the concatenation of the field patterns *)
Theorem unpack_fields_bits : forall fs k, fields_ok fs -> total_width fs = (8 * k)%nat ->
  bytes2bits (be_encode k (pack fs)) = field_bits fs.
Proof.
  intros fs k Hok Hw.
  assert (Hv : pack fs < 256 ^ N.of_nat k).
  { rewrite <- bits_fold_fields by exact Hok. rewrite pow256_pow2.
    pose proof (bits_fold_bound (field_bits fs) (field_bits_bitsb fs)) as B. rewrite field_bits_length, Hw in B.
    replace (8 * N.of_nat k) with (N.of_nat (8 * k)) by lia. exact B. }
  apply bits_inj; [apply bytes2bits_bitsb|apply field_bits_bitsb| |].
  - rewrite bytes2bits_length, be_encode_length, field_bits_length. lia.
  - rewrite bits_fold_bytes2bits, be_roundtrip by exact Hv. symmetry. apply bits_fold_fields. exact Hok.
Qed.
