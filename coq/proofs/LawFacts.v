(* C12: documented equivalences, stated about the definitions REGENERATED from the live library
   (gen/Names.v).  Definitional laws: both sides reify to the same term, hence behave identically on
   every input; semantic laws are proved on the interpreters. *)
From Coq Require Import ZArith NArith List Bool Lia ZifyBool ZifyN ZifyNat.
From Coq Require Import Strings.Byte.
Require Import Bytes Value Expr Codec Float Stream Syntax Sizeof Parse Build BytesFacts StreamFacts PrimFacts.
Require Import Names Platform.
Import ListNotations.

(* two constructs are interchangeable: same parse, same build, same sizeof, on every argument *)
Definition equiv (a b : con) : Prop :=
  (forall cx p s, parse a cx p s = parse b cx p s) /\
  (forall obj cx p o, build a obj cx p o = build b obj cx p o) /\
  (forall cx p, sizeof a cx p = sizeof b cx p).

Lemma equiv_of_eq a b : a = b -> equiv a b.
Proof. intros ->. repeat split. Qed.

(* ---- macro laws ---- *)
Theorem law_Optional : forall x, equiv (m_Optional x) (m_Select_Pass x).
Proof. intros. apply equiv_of_eq. reflexivity. Qed.
Theorem law_If : forall e x, equiv (m_If e x) (m_IfThenElse_Pass e x).
Proof. intros. apply equiv_of_eq. reflexivity. Qed.
Theorem law_Padding : forall n, equiv (m_Padding n) (m_Padded_Pass n).
Proof. intros. apply equiv_of_eq. reflexivity. Qed.
Theorem law_PrefixedArray : forall l x, equiv (m_PrefixedArray l x) (m_PrefixedArray_expansion l x).
Proof. intros. apply equiv_of_eq. reflexivity. Qed.
Theorem law_BitStruct : equiv i_BitStruct_ab i_Bitwise_Struct_ab.
Proof. apply equiv_of_eq. reflexivity. Qed.
Theorem law_Enum_class_vs_keywords : equiv i_Enum_class i_Enum_kw.
Proof. apply equiv_of_eq. reflexivity. Qed.
Theorem law_FlagsEnum_class_vs_keywords : equiv i_FlagsEnum_class i_FlagsEnum_kw.
Proof. apply equiv_of_eq. reflexivity. Qed.

(* ---- operator spellings ---- *)
Theorem law_getitem_is_Array : forall x n, equiv (m_getitem x n) (m_Array x n).
Proof. intros. apply equiv_of_eq. reflexivity. Qed.
Theorem law_add_is_Struct : forall a b, equiv (m_add a b) (m_Struct2 a b).
Proof. intros. apply equiv_of_eq. reflexivity. Qed.
Theorem law_rshift_is_Sequence : forall a b, equiv (m_rshift a b) (m_Sequence2 a b).
Proof. intros. apply equiv_of_eq. reflexivity. Qed.
Theorem law_div_is_Renamed : forall x, equiv (m_rename_x x) (m_Renamed_x x).
Proof. intros. apply equiv_of_eq. reflexivity. Qed.

(* ---- aliases ---- *)
Theorem law_aliases :
  n_Byte = n_Int8ub /\ n_Short = n_Int16ub /\ n_Int = n_Int32ub /\ n_Long = n_Int64ub /\
  n_Half = n_Float16b /\ n_Single = n_Float32b /\ n_Double = n_Float64b /\
  n_Bit = CBitsInt (kint 1) false false /\ n_Nibble = CBitsInt (kint 4) false false /\ n_Octet = CBitsInt (kint 8) false false.
Proof. repeat split; reflexivity. Qed.

Theorem law_int24_names :
  n_Int24ub = CBytesInt (kint 3) false false /\ n_Int24ul = CBytesInt (kint 3) false true /\
  n_Int24sb = CBytesInt (kint 3) true false /\ n_Int24sl = CBytesInt (kint 3) true true /\
  n_Int24un = CBytesInt (kint 3) false native_little /\ n_Int24sn = CBytesInt (kint 3) true native_little.
Proof. repeat split; reflexivity. Qed.

Definition native_endian : endian := if native_little then Little else Big.
Theorem law_fixed_width_names :
  n_Int8ub = CFormat Big FB /\ n_Int8sb = CFormat Big Fb /\ n_Int8ul = CFormat Little FB /\ n_Int8sl = CFormat Little Fb /\
  n_Int16ub = CFormat Big FH /\ n_Int16sb = CFormat Big Fh /\ n_Int16ul = CFormat Little FH /\ n_Int16sl = CFormat Little Fh /\
  n_Int32ub = CFormat Big FL /\ n_Int32sb = CFormat Big Fl /\ n_Int32ul = CFormat Little FL /\ n_Int32sl = CFormat Little Fl /\
  n_Int64ub = CFormat Big FQ /\ n_Int64sb = CFormat Big Fq /\ n_Int64ul = CFormat Little FQ /\ n_Int64sl = CFormat Little Fq /\
  n_Int16un = CFormat native_endian FH /\ n_Int32sn = CFormat native_endian Fl /\ n_Int64un = CFormat native_endian FQ /\
  n_Float16b = CFormat Big Fe /\ n_Float32l = CFormat Little Ff /\ n_Float64b = CFormat Big Fd /\ n_Float64n = CFormat native_endian Fd.
Proof. repeat split; reflexivity. Qed.

(* ---- the fixed-width FormatField names against BytesInteger of the same width: same bytes on build
   (or both reject), same value and position on parse (or both StreamError) ---- *)
Definition sw_of (en : endian) : bool := match en with Big => false | Little => true end.

Lemma endian_fmt_of en d : endian_fmt en d = endian_of (sw_of en) d.
Proof. destruct en; reflexivity. Qed.

Theorem law_formatfield_vs_bytesinteger_build : forall en f z cx p o,
  fcode_float f = false -> app_mode o ->
  match build (CFormat en f) (VInt z) cx p o,
        build (CBytesInt (kint (Z.of_nat (fcode_size f))) (fcode_signed f) (sw_of en)) (VInt z) cx p o with
  | Ok (r1, o1), Ok (r2, o2) => r1 = r2 /\ o1 = o2
  | Err _ _, Err _ _ => True
  | _, _ => False
  end.
Proof.
  intros en f z cx p o Hf Ho. rewrite format_int_build by assumption.
  pose proof (fcode_size_pos f) as Hp.
  rewrite bytesint_build; [|destruct f; cbn; lia|exact Ho].
  rewrite Nat2Z.id. destruct (in_range _ _ z); [|exact I].
  split; [reflexivity|]. rewrite endian_fmt_of. reflexivity.
Qed.

Theorem law_formatfield_vs_bytesinteger_parse : forall en f d rest pre base sk cx p,
  fcode_float f = false -> length d = fcode_size f ->
  parse (CFormat en f) cx p (at_pos pre (d ++ rest) base sk) =
  parse (CBytesInt (kint (Z.of_nat (fcode_size f))) (fcode_signed f) (sw_of en)) cx p (at_pos pre (d ++ rest) base sk).
Proof.
  intros en f d rest pre base sk cx p Hf Hl. rewrite format_int_parse by assumption.
  pose proof (fcode_size_pos f) as Hp.
  rewrite (bytesint_parse (Z.of_nat (fcode_size f))) by lia.
  rewrite Hl, endian_fmt_of. reflexivity.
Qed.

(* ---- Hex / HexDump wrappers vs the bare construct ---- *)
Theorem law_hexdump_parse : forall c cx p s, parse (CHexDump c) cx p s = parse c cx p s.
Proof. reflexivity. Qed.

Theorem law_hex_build_bytes : forall c obj cx p o,
  match build (CHex c) obj cx p o, build c obj cx p o with
  | Ok (_, o1), Ok (_, o2) => o1 = o2
  | Err e1 q1, Err e2 q2 => e1 = e2 /\ q1 = q2
  | _, _ => False
  end.
Proof. intros. cbn [build]. destruct (build c obj cx p o) as [[r o1]|e q]; cbn [bind]; auto. Qed.

Theorem law_hexdump_build_bytes : forall c obj cx p o,
  match build (CHexDump c) obj cx p o, build c obj cx p o with
  | Ok (_, o1), Ok (_, o2) => o1 = o2
  | Err e1 q1, Err e2 q2 => e1 = e2 /\ q1 = q2
  | _, _ => False
  end.
Proof. intros. cbn [build]. destruct (build c obj cx p o) as [[r o1]|e q]; cbn [bind]; auto. Qed.

(* Hex never turns an accepted input into a rejection by SizeofError, and never changes the value *)
Theorem law_hex_parse : forall c cx p s v s',
  parse c cx p s = Ok (v, s') ->
  parse (CHex c) cx p s = Ok (v, s') \/ exists e q, parse (CHex c) cx p s = Err e q /\ e <> ESizeof.
Proof.
  intros c cx p s v s' H. cbn [parse]. rewrite H. cbn [bind].
  destruct v; auto; destruct (sizeof c cx p) as [n|e q]; auto; destruct e; auto;
    right; eexists; eexists; (split; [reflexivity|discriminate]).
Qed.

(* ---- ByteSwapped(Int24ub) = Int24ul on every input ---- *)
Lemma transformed_swapbytes_parse c n cx p s :
  parse (CTransformed c BFswapbytes (Some n) BFswapbytes (Some n)) cx p s =
  (let* (d, s1) := iread s n p in let* (v, _) := parse c cx p (istream_of (rev d)) in Ok (v, s1)).
Proof. cbn [parse]. destruct (iread s n p) as [[d s1]|]; reflexivity. Qed.

Theorem law_byteswapped_int24_parse : forall d rest pre base sk cx p,
  length d = 3%nat ->
  match parse i_ByteSwapped_Int24ub cx p (at_pos pre (d ++ rest) base sk),
        parse n_Int24ul cx p (at_pos pre (d ++ rest) base sk) with
  | Ok (v1, s1), Ok (v2, s2) => v1 = v2 /\ s1 = s2
  | _, _ => False
  end.
Proof.
  intros d rest pre base sk cx p Hl.
  change n_Int24ul with (CBytesInt (kint 3) false true).
  rewrite (bytesint_parse 3) by (rewrite ?Hl; lia).
  change i_ByteSwapped_Int24ub with (CTransformed (CBytesInt (kint 3) false false) BFswapbytes (Some 3%Z) BFswapbytes (Some 3%Z)).
  rewrite transformed_swapbytes_parse.
  change 3%Z with (Z.of_nat 3) at 1. rewrite <- Hl. rewrite iread_at. cbn [bind].
  pose proof (bytesint_parse 3 false false (rev d) [] [] 0%N true cx p) as E.
  rewrite app_nil_r in E. unfold at_pos in E. cbn [app nlen length N.of_nat] in E.
  unfold istream_of. rewrite E by (rewrite ?rev_length, ?Hl; lia).
  cbn [bind endian_of]. rewrite rev_length. split; reflexivity.
Qed.
