(* C11: the operator-overload table regenerated from construct/expr.py equals the table Python's data
   model prescribes; evaluation of an expression tree is the native evaluation of its operator tree. *)
From Coq Require Import ZArith NArith List Bool.
From Coq Require Import Strings.Byte.
Require Import Bytes Value Expr ExprTable.
Import ListNotations.

(* Python's data model, written down independently of expr.py: for each dunder the operator it
   implements and whether `self` is the LEFT operand (x.__add__(y) is x + y; x.__radd__(y) is y + x). *)
Definition s (l : list byte) := l.
Definition spec_binops : list (list byte * binop * bool) :=
  [ (s [x5f;x5f;x61;x64;x64;x5f;x5f], OAdd, true);                                   (* __add__ *)
    (s [x5f;x5f;x73;x75;x62;x5f;x5f], OSub, true);                                   (* __sub__ *)
    (s [x5f;x5f;x6d;x75;x6c;x5f;x5f], OMul, true);                                   (* __mul__ *)
    (s [x5f;x5f;x66;x6c;x6f;x6f;x72;x64;x69;x76;x5f;x5f], OFloorDiv, true);          (* __floordiv__ *)
    (s [x5f;x5f;x74;x72;x75;x65;x64;x69;x76;x5f;x5f], OTrueDiv, true);               (* __truediv__ *)
    (s [x5f;x5f;x6d;x6f;x64;x5f;x5f], OMod, true);                                   (* __mod__ *)
    (s [x5f;x5f;x70;x6f;x77;x5f;x5f], OPow, true);                                   (* __pow__ *)
    (s [x5f;x5f;x78;x6f;x72;x5f;x5f], OXor, true);                                   (* __xor__ *)
    (s [x5f;x5f;x72;x73;x68;x69;x66;x74;x5f;x5f], ORshift, true);                    (* __rshift__ *)
    (s [x5f;x5f;x6c;x73;x68;x69;x66;x74;x5f;x5f], OLshift, true);                    (* __lshift__ *)
    (s [x5f;x5f;x61;x6e;x64;x5f;x5f], OAnd, true);                                   (* __and__ *)
    (s [x5f;x5f;x6f;x72;x5f;x5f], OOr, true);                                        (* __or__ *)
    (s [x5f;x5f;x72;x61;x64;x64;x5f;x5f], OAdd, false);                              (* __radd__ *)
    (s [x5f;x5f;x72;x73;x75;x62;x5f;x5f], OSub, false);                              (* __rsub__ *)
    (s [x5f;x5f;x72;x6d;x75;x6c;x5f;x5f], OMul, false);                              (* __rmul__ *)
    (s [x5f;x5f;x72;x66;x6c;x6f;x6f;x72;x64;x69;x76;x5f;x5f], OFloorDiv, false);     (* __rfloordiv__ *)
    (s [x5f;x5f;x72;x74;x72;x75;x65;x64;x69;x76;x5f;x5f], OTrueDiv, false);          (* __rtruediv__ *)
    (s [x5f;x5f;x72;x6d;x6f;x64;x5f;x5f], OMod, false);                              (* __rmod__ *)
    (s [x5f;x5f;x72;x70;x6f;x77;x5f;x5f], OPow, false);                              (* __rpow__ *)
    (s [x5f;x5f;x72;x78;x6f;x72;x5f;x5f], OXor, false);                              (* __rxor__ *)
    (s [x5f;x5f;x72;x72;x73;x68;x69;x66;x74;x5f;x5f], ORshift, false);               (* __rrshift__ *)
    (s [x5f;x5f;x72;x6c;x73;x68;x69;x66;x74;x5f;x5f], OLshift, false);               (* __rlshift__ *)
    (s [x5f;x5f;x72;x61;x6e;x64;x5f;x5f], OAnd, false);                              (* __rand__ *)
    (s [x5f;x5f;x72;x6f;x72;x5f;x5f], OOr, false);                                   (* __ror__ *)
    (s [x5f;x5f;x63;x6f;x6e;x74;x61;x69;x6e;x73;x5f;x5f], OContains, true);          (* __contains__ *)
    (s [x5f;x5f;x67;x74;x5f;x5f], OGt, true);                                        (* __gt__ *)
    (s [x5f;x5f;x67;x65;x5f;x5f], OGe, true);                                        (* __ge__ *)
    (s [x5f;x5f;x6c;x74;x5f;x5f], OLt, true);                                        (* __lt__ *)
    (s [x5f;x5f;x6c;x65;x5f;x5f], OLe, true);                                        (* __le__ *)
    (s [x5f;x5f;x65;x71;x5f;x5f], OEq, true);                                        (* __eq__ *)
    (s [x5f;x5f;x6e;x65;x5f;x5f], ONe, true) ].                                      (* __ne__ *)

(* unary: __neg__, __pos__, and __invert__ as the documented logical not *)
Definition spec_unops : list (list byte * unop) :=
  [ (s [x5f;x5f;x6e;x65;x67;x5f;x5f], UNeg);
    (s [x5f;x5f;x70;x6f;x73;x5f;x5f], UPos);
    (s [x5f;x5f;x69;x6e;x76;x65;x72;x74;x5f;x5f], UNot) ].

(* every operator prints as its own Python symbol *)
Definition spec_binop_names : list (binop * list byte) :=
  [ (OAdd, [x2b]); (OSub, [x2d]); (OMul, [x2a]); (OTrueDiv, [x2f]); (OFloorDiv, [x2f;x2f]); (OMod, [x25]);
    (OPow, [x2a;x2a]); (OXor, [x5e]); (OLshift, [x3c;x3c]); (ORshift, [x3e;x3e]); (OAnd, [x26]); (OOr, [x7c]);
    (OContains, [x69;x6e]); (OGt, [x3e]); (OGe, [x3e;x3d]); (OLt, [x3c]); (OLe, [x3c;x3d]); (OEq, [x3d;x3d]); (ONe, [x21;x3d]) ].
Definition spec_unop_names : list (unop * list byte) :=
  [ (UNot, [x6e;x6f;x74]); (UNeg, [x2d]); (UPos, [x2b]) ].

(* the comparison ignores the order in which expr.py happens to list the methods *)
Definition binop_tag (o : binop) : N :=
  match o with OAdd => 0 | OSub => 1 | OMul => 2 | OTrueDiv => 3 | OFloorDiv => 4 | OMod => 5 | OPow => 6 | OXor => 7
  | OLshift => 8 | ORshift => 9 | OAnd => 10 | OOr => 11 | OGt => 12 | OGe => 13 | OLt => 14 | OLe => 15 | OEq => 16
  | ONe => 17 | OContains => 18 end%N.
Definition unop_tag (o : unop) : N := match o with UNeg => 0 | UPos => 1 | UNot => 2 end%N.
Definition brow_eqb (a b : list byte * binop * bool) : bool :=
  bytes_eqb (fst (fst a)) (fst (fst b)) && N.eqb (binop_tag (snd (fst a))) (binop_tag (snd (fst b))) && Bool.eqb (snd a) (snd b).
Definition urow_eqb (a b : list byte * unop) : bool :=
  bytes_eqb (fst a) (fst b) && N.eqb (unop_tag (snd a)) (unop_tag (snd b)).
Definition bname_eqb (a b : binop * list byte) : bool := N.eqb (binop_tag (fst a)) (binop_tag (fst b)) && bytes_eqb (snd a) (snd b).
Definition uname_eqb (a b : unop * list byte) : bool := N.eqb (unop_tag (fst a)) (unop_tag (fst b)) && bytes_eqb (snd a) (snd b).
Definition same_set {A} (eqb : A -> A -> bool) (x y : list A) : bool :=
  forallb (fun r => existsb (eqb r) y) x && forallb (fun r => existsb (eqb r) x) y && Nat.eqb (length x) (length y).

Theorem table_binops : same_set brow_eqb binop_table spec_binops = true.
Proof. vm_compute. reflexivity. Qed.
Theorem table_unops : same_set urow_eqb unop_table spec_unops = true.
Proof. vm_compute. reflexivity. Qed.
Theorem table_binop_names : same_set bname_eqb binop_names spec_binop_names = true.
Proof. vm_compute. reflexivity. Qed.
Theorem table_unop_names : same_set uname_eqb unop_names spec_unop_names = true.
Proof. vm_compute. reflexivity. Qed.
Theorem table_repr_templates : repr_templates_as_modelled = true.
Proof. reflexivity. Qed.

(* evaluation: an operator node denotes the native operator applied to the values of its operands,
   both evaluated in the same context; item paths denote plain subscripting *)
Theorem eval_binop_native : forall cx first second op a b,
  eval_cur cx first second (XBin op a b) =
  (let* x := eval_cur cx first second a in
   let* y := eval_cur cx first second b in
   let* xv := cur_val x in let* yv := cur_val y in
   let* r := apply_bin op xv yv in Ok (CurVal r)).
Proof. reflexivity. Qed.

Theorem eval_unop_native : forall cx first second op a,
  eval_cur cx first second (XUn op a) =
  (let* x := eval_cur cx first second a in let* xv := cur_val x in let* r := apply_un op xv in Ok (CurVal r)).
Proof. reflexivity. Qed.

Theorem eval_item_native : forall cx first second e k,
  eval_cur cx first second (XItem e k) = (let* c := eval_cur cx first second e in item cx c k).
Proof. reflexivity. Qed.

(* reflected operands: the expression object built by o - this.a subtracts in that order *)
Theorem reflected_sub_order : forall cx first second a k,
  eval_cur cx first second (XBin OSub (XConst (VInt k)) a) =
  (let* y := eval_cur cx first second a in let* yv := cur_val y in
   let* r := apply_bin OSub (VInt k) yv in Ok (CurVal r)).
Proof. reflexivity. Qed.

(* integer operators are Python's: floor division and modulo take the sign of the divisor *)
Theorem floordiv_mod_python : forall x y, y <> 0%Z ->
  apply_bin OFloorDiv (VInt x) (VInt y) = Ok (VInt (x / y)) /\
  apply_bin OMod (VInt x) (VInt y) = Ok (VInt (x mod y)) /\
  (y * (x / y) + x mod y = x)%Z.
Proof.
  intros x y Hy. cbn [apply_bin int_of_val]. destruct (Z.eqb_spec y 0); [contradiction|].
  repeat split. symmetry. apply Z.div_mod. exact Hy.
Qed.
