(* C06 over DEPENDENT layouts (the fragment DepRT.dfrag): for every construct whose members are sized by the integer fields
   before them, and EVERY input -- any bytes, truncated or not, any position -- parsing returns a value or fails with a
   ConstructError subclass: the context lookups of the size expressions cannot fail (the field they name has been parsed, and
   parsed to an integer), a negative size is a RangeError / PaddingError / StreamError, never a foreign exception. *)
From Coq Require Import ZArith NArith List Bool Lia ZifyBool ZifyN ZifyNat.
From Coq Require Import Strings.Byte.
Require Import Bytes Value Expr Codec Float Stream Syntax Sizeof Parse Build BytesFacts StreamFacts PrimFacts ConInd RTFacts ErrFacts DepRT.
Import ListNotations.
Local Open Scope nat_scope.

(* what the scope holds while PARSING: the integer fields parsed so far, as integers *)
Definition knowsP (cx : ctx) (G : list name) : Prop :=
  c_scopes cx <> [] /\ forall n, In n G -> exists z, lookup n (ctx_vals cx) = Some (VInt z).

Lemma eval_this_P cx G n : knowsP cx G -> In n G -> exists z, eval_int cx (this_ n) = Ok z.
Proof.
  intros [Hs Hk] Hin. destruct (Hk n Hin) as (z & Hl). exists z.
  unfold eval_int, eval, this_, ctx_vals in *. destruct (c_scopes cx) as [|s t] eqn:Es; [contradiction|].
  cbn [eval_cur bind item]. unfold item_scope. rewrite Es. cbn [nth_error]. rewrite Hl. reflexivity.
Qed.

Lemma eval_this_PV cx G n : knowsP cx G -> In n G -> exists z, eval cx (this_ n) = Ok (VInt z).
Proof.
  intros [Hs Hk] Hin. destruct (Hk n Hin) as (z & Hl). exists z.
  unfold eval, this_, ctx_vals in *. destruct (c_scopes cx) as [|s t] eqn:Es; [contradiction|].
  cbn [eval_cur bind item]. unfold item_scope. rewrite Es. cbn [nth_error]. rewrite Hl. reflexivity.
Qed.

Lemma knowsP_set_other cx G k v : knowsP cx G -> ~ In k G -> knowsP (ctx_set cx k v) G.
Proof.
  intros [Hs Hk] Hn. split.
  - unfold ctx_set. destruct (c_scopes cx); [contradiction|discriminate].
  - intros n Hin. destruct (Hk n Hin) as (z & Hl). exists z. rewrite ctx_vals_set, lookup_dict_set_other; [exact Hl|]. intros ->. exact (Hn Hin).
Qed.

Lemma knowsP_set_new cx G k z : knowsP cx G -> knowsP (ctx_set cx k (VInt z)) (k :: G).
Proof.
  intros [Hs Hk]. split.
  - unfold ctx_set. destruct (c_scopes cx); [contradiction|discriminate].
  - intros n [<-|Hin].
    + exists z. rewrite ctx_vals_set. apply lookup_dict_set_same.
    + destruct (list_eq_dec Byte.byte_eq_dec n k) as [->|Hne].
      * exists z. rewrite ctx_vals_set. apply lookup_dict_set_same.
      * destruct (Hk n Hin) as (z0 & Hl). exists z0. rewrite ctx_vals_set, lookup_dict_set_other; [exact Hl|exact Hne].
Qed.

Lemma knowsP_index cx G i : knowsP cx G -> knowsP (ctx_set_index cx i) G.
Proof.
  intros [Hs Hk]. unfold knowsP, ctx_set_index, ctx_vals in *. destruct cx as [scs top ti m op]. cbn in *.
  destruct scs as [|s t]; [contradiction|]. cbn. split; [discriminate|exact Hk].
Qed.

Lemma knowsP_push cx : knowsP (push_scope cx) [].
Proof. split; [unfold push_scope; cbn; discriminate|]. intros n []. Qed.

(* an integer field parses to an integer *)
Lemma int_leaf_parses_int c : int_leaf c = true -> forall cx p s v s', parse c cx p s = Ok (v, s') -> exists z, v = VInt z.
Proof.
  intros Hl cx p s v s'. destruct c; try discriminate Hl; cbn [parse].
  - unfold parse_format. destruct (iread _ _ _) as [[d s1]|]; [cbn [bind]|discriminate]. cbn [int_leaf] in Hl. apply negb_true_iff in Hl. rewrite Hl.
    intros H. injection H as <- _. eexists. reflexivity.
  - cbn [int_leaf] in Hl. destruct len; try discriminate. destruct v0; try discriminate.
    change (XConst (VInt z)) with (kint z). rewrite eval_int_kint. cbn [bind]. destruct (z <=? 0)%Z; [discriminate|].
    destruct (iread _ _ _) as [[d s1]|]; [cbn [bind]|discriminate]. destruct (bytes2integer _ _); [|discriminate]. intros H. injection H as <- _. eexists. reflexivity.
  - unfold parse_varint. destruct (varint_loop _ _ _) as [[k s1]|]; [cbn [bind]|discriminate]. intros H. injection H as <- _. eexists. reflexivity.
  - unfold parse_varint. destruct (varint_loop _ _ _) as [[k s1]|]; [cbn [bind]|discriminate]. intros H. injection H as <- _. eexists. reflexivity.
Qed.

(* a member under what the scope knows *)
Definition OkG (G : list name) (c : con) : Prop := forall cx p s, knowsP cx G -> okc (parse c cx p s).

Lemma OkG_of_Pokc G c : Pokc c -> OkG G c.
Proof. intros H cx p s _. apply H. Qed.

Lemma memb_In k G : memb k G = true -> In k G.
Proof. unfold memb. intros H. apply existsb_exists in H as (x & Hin & E). apply name_eqb_eq in E. subst x. exact Hin. Qed.

Definition elem_of (c : con) : option con :=
  match c with CArray _ el | CPadded _ el _ | CFixedSized _ el => Some el | _ => None end.

Lemma OkG_sized G c : szb0 G c = true -> (forall el, elem_of c = Some el -> dfrag false el = true -> Pokc el) -> OkG G c.
Proof.
  intros Hs Hel cx p s Hk. unfold szb0, szb0_ in Hs.
  destruct c; try discriminate Hs.
  - (* Bytes *) destruct len as [| |a k|v| | |]; try discriminate Hs. destruct a as [[]| | | | | |]; try discriminate Hs. destruct k as [k|]; try discriminate Hs.
    destruct (eval_this_P cx G k Hk (memb_In _ _ Hs)) as (z & Ez). cbn [parse]. fold (this_ k). rewrite Ez. cbn [bind].
    apply okc_bind; [apply okc_iread|intros [d s1]; exact I].
  - (* Array *) destruct count as [| |a k|v| | |]; try discriminate Hs. destruct a as [[]| | | | | |]; try discriminate Hs. destruct k as [k|]; try discriminate Hs.
    apply andb_prop in Hs as [Hm He]. destruct (eval_this_P cx G k Hk (memb_In _ _ Hm)) as (z & Ez). cbn [parse]. fold (this_ k). rewrite Ez. cbn [bind].
    destruct (z <? 0)%Z; [reflexivity|]. apply okc_bind; [apply okc_count_loop, (Hel _ eq_refl He)|intros [vs s1]; exact I].
  - (* Padded *) destruct len as [| |a k|v| | |]; try discriminate Hs. destruct a as [[]| | | | | |]; try discriminate Hs. destruct k as [k|]; try discriminate Hs.
    apply andb_prop in Hs as [Hm He]. destruct (eval_this_P cx G k Hk (memb_In _ _ Hm)) as (z & Ez). cbn [parse]. fold (this_ k). rewrite Ez. cbn [bind].
    destruct (z <? 0)%Z; [reflexivity|]. apply okc_bind; [apply (Hel _ eq_refl He)|intros [v s1]]. cbv zeta. destruct (_ - _ <? 0)%Z; [reflexivity|].
    apply okc_bind; [apply okc_iread|intros [d s2]; exact I].
  - (* FixedSized *) destruct len as [| |a k|v| | |]; try discriminate Hs. destruct a as [[]| | | | | |]; try discriminate Hs. destruct k as [k|]; try discriminate Hs.
    apply andb_prop in Hs as [Hm He]. destruct (eval_this_P cx G k Hk (memb_In _ _ Hm)) as (z & Ez). cbn [parse]. fold (this_ k). rewrite Ez. cbn [bind].
    destruct (z <? 0)%Z; [reflexivity|]. apply okc_bind; [apply okc_iread|intros [d s1]]. apply okc_bind; [apply (Hel _ eq_refl He)|intros [v s2]; exact I].
Qed.

(* members chosen by a parsed integer field *)
Lemma OkG_ite G k a b : In k G -> OkG G a -> OkG G b -> OkG G (CIfThenElse (this_ k) a b).
Proof.
  intros Hin Ha Hb cx p s Hk. cbn [parse]. destruct (eval_this_PV cx G k Hk Hin) as (z & ->). cbn [bind].
  destruct (truthy (VInt z)); [apply Ha, Hk|apply Hb, Hk].
Qed.

Lemma OkG_switch G k cases d : In k G -> Forall (fun vc => OkG G (snd vc)) cases -> OkG G d -> OkG G (CSwitch (this_ k) cases d).
Proof.
  intros Hin Hcs Hd cx p s Hk. cbn [parse]. destruct (eval_this_PV cx G k Hk Hin) as (z & ->). cbn [bind hashable negb].
  induction Hcs as [|[kv c'] t Hc Ht IH]; [apply Hd, Hk|]. destruct (val_eqb (VInt z) kv); [apply Hc, Hk|exact IH].
Qed.

Lemma OkG_renamed G n c : OkG G c -> OkG G (CRenamed n c).
Proof. intros H cx p s Hk. cbn [parse]. apply H, Hk. Qed.

(* the member loop of a dependent struct *)
Lemma dloop_okc : forall ms G, dgo G ms = true -> NoDup (names ms) -> (forall k, In k G -> ~ In k (names ms)) ->
  (forall m, In m ms -> forall G', memok G' m = true -> OkG G' m) ->
  forall cx p acc s, knowsP cx G -> okc (struct_loop parse ms cx p acc s).
Proof.
  induction ms as [|m t IH]; intros G Hg Hnd Hfresh HM cx p acc s Hk; cbn [struct_loop]; [exact I|].
  assert (Hnd' : NoDup (names t)) by (rewrite names_cons in Hnd; apply nodup_app_r in Hnd; exact Hnd).
  assert (HM' : forall m0, In m0 t -> forall G', memok G' m0 = true -> OkG G' m0) by (intros m0 Hin; apply HM; right; exact Hin).
  rewrite dgo_cons in Hg.
  assert (Use : memok G m && dgo G t = true -> okc (match parse m cx p s with
      | Ok (v, s') => match name_of m with Some n => struct_loop parse t (ctx_set cx n v) p (dict_set n v acc) s' | None => struct_loop parse t cx p acc s' end
      | Err EStopField q => if is_stopif m then Ok (acc, cx, s) else unsupported
      | Err e q => Err e q end)).
  { intros Hu. apply andb_prop in Hu as [H1 H2].
    pose proof (HM m (or_introl eq_refl) G H1 cx p s Hk) as Hp.
    assert (Hfresh' : forall k, In k G -> ~ In k (names t)).
    { intros k Hin Hin'. apply (Hfresh k Hin). rewrite names_cons. apply in_or_app. right. exact Hin'. }
    destruct (parse m cx p s) as [[v s']|e q].
    - destruct (name_of m) as [n|] eqn:En.
      + apply (IH G H2 Hnd' Hfresh' HM'). apply knowsP_set_other; [exact Hk|].
        intros Hin. apply (Hfresh n Hin). rewrite names_cons, En. left. reflexivity.
      + apply (IH G H2 Hnd' Hfresh' HM'). exact Hk.
    - destruct e; try exact Hp. destruct (is_stopif m); [exact I|reflexivity]. }
  destruct (def_name m) as [n|] eqn:Ed; [|apply Use; exact Hg].
  destruct (def_name_some m n Ed) as (c' & -> & El).
  (* an integer field: defines its name *)
  cbn [name_of]. cbn [parse].
  assert (Hpk : Pokc c') by (apply (parse_only_construct_errors c' false); destruct c'; try discriminate El; cbn [int_leaf frag] in *; exact El).
  pose proof (Hpk cx (p ++ [n]) s) as Hp. pose proof (int_leaf_parses_int c' El cx (p ++ [n]) s) as Hi.
  destruct (parse c' cx (p ++ [n]) s) as [[v s']|e q].
  - destruct (Hi v s' eq_refl) as (z & ->).
    assert (Hn_t : ~ In n (names t)) by (rewrite names_cons in Hnd; cbn [name_of app] in Hnd; inversion Hnd; assumption).
    apply (IH (n :: G) Hg Hnd'); [|exact HM'|apply knowsP_set_new, Hk].
    intros k [<-|Hin]; [exact Hn_t|]. intros Hin'. apply (Hfresh k Hin). rewrite names_cons. apply in_or_app. right. exact Hin'.
  - destruct e; try exact Hp. destruct c'; try discriminate El; reflexivity.
Qed.

Definition PE3 (c : con) : Prop :=
  (forall e, dfrag e c = true -> Pokc c) /\ (forall G, szb G c = true -> OkG G c) /\ (forall G, memok G c = true -> OkG G c).

Lemma PE3_plain c : (forall n c', c <> CRenamed n c') -> (forall e, dfrag e c = true -> Pokc c) -> (forall G, szb G c = true -> OkG G c) -> PE3 c.
Proof.
  intros Hnr HA HS. split; [exact HA|]. split; [exact HS|]. intros G Hm.
  assert (E : memok G c = szb G c || dfrag false c) by (destruct c; try reflexivity; exfalso; eapply Hnr; reflexivity).
  rewrite E in Hm. apply orb_prop in Hm as [Hm|Hm]; [apply HS, Hm|apply OkG_of_Pokc, (HA false), Hm].
Qed.

Lemma dfrag_stop' e cs : forallb (dfrag e) cs = true -> Forall (fun c => is_stopif c = false) cs.
Proof. intros H. apply Forall_forall. intros c Hin. rewrite forallb_forall in H. apply (dfrag_not_stopif e), H, Hin. Qed.

Lemma brk_OkG c G : PE3 c -> brk G c = true -> OkG G c.
Proof.
  intros (I1 & I2 & _) Hb. unfold brk, brk_ in Hb. apply orb_prop in Hb as [Hb|Hb]; [apply I2, szb0_szb, Hb|apply OkG_of_Pokc, (I1 false), Hb].
Qed.

Theorem dep_parse_only_construct_errors : forall c, PE3 c.
Proof.
  assert (NoSZ : forall c, (forall G, szb G c = false) -> forall G, szb G c = true -> OkG G c) by (intros c H G Hs; rewrite H in Hs; discriminate).
  assert (Dead : forall c, (forall n c', c <> CRenamed n c') -> (forall e, dfrag e c = false) -> (forall G, szb G c = false) -> PE3 c).
  { intros c Hnr Hd Hs. apply PE3_plain; [exact Hnr| |apply NoSZ, Hs]. intros e Hf. rewrite Hd in Hf. discriminate. }
  induction c using con_ind2; try (apply Dead; [intros; discriminate|reflexivity|reflexivity]).
  - (* Format *) apply PE3_plain; [intros; discriminate| |apply NoSZ; reflexivity]. intros e _ cx p s. cbn [parse]. unfold parse_format.
    apply okc_bind; [apply okc_iread|intros [d s']]. destruct (fcode_float _); exact I.
  - (* BytesInt *) apply PE3_plain; [intros; discriminate| |apply NoSZ; reflexivity]. intros e Hf cx p s. cbn [dfrag] in Hf. destruct a0; try discriminate. destruct v; try discriminate.
    cbn [parse]. change (XConst (VInt z)) with (kint z). rewrite eval_int_kint. cbn [bind]. destruct (z <=? 0)%Z; [reflexivity|].
    apply okc_bind; [apply okc_iread|intros [d s']]. destruct (bytes2integer _ _); [exact I|reflexivity].
  - (* VarInt *) apply PE3_plain; [intros; discriminate| |apply NoSZ; reflexivity]. intros e _ cx p s. cbn [parse]. unfold parse_varint.
    apply okc_bind; [apply okc_varint_loop|intros [n s']; exact I].
  - (* ZigZag *) apply PE3_plain; [intros; discriminate| |apply NoSZ; reflexivity]. intros e _ cx p s. cbn [parse]. unfold parse_varint.
    apply okc_bind; [apply okc_varint_loop|intros [n s']; exact I].
  - (* Bytes *) apply PE3_plain; [intros; discriminate| |].
    + intros e Hf cx p s. cbn [dfrag] in Hf. destruct a0; try discriminate. destruct v; try discriminate.
      cbn [parse]. change (XConst (VInt z)) with (kint z). rewrite eval_int_kint. cbn [bind]. apply okc_bind; [apply okc_iread|intros [d s']; exact I].
    + intros G Hs. unfold szb, szb_ in Hs. rewrite orb_false_r in Hs. apply (OkG_sized G _ Hs). intros el He. discriminate He.
  - (* GreedyBytes *) apply PE3_plain; [intros; discriminate| |apply NoSZ; reflexivity]. intros e _ cx p s. cbn [parse]. destruct (iread_all s); exact I.
  - (* Pass *) apply PE3_plain; [intros; discriminate| |apply NoSZ; reflexivity]. intros e _ cx p s. exact I.
  - (* Struct *) apply PE3_plain; [intros; discriminate| |apply NoSZ; reflexivity]. intros e Hf cx p s. rewrite dfrag_struct in Hf. apply andb_prop in Hf as [Hn Hg].
    cbn [parse]. apply okc_bind; [|intros [[kv cx'] s']; exact I].
    apply (dloop_okc a0 [] Hg (nodupb_NoDup _ Hn) (fun k Hk => match Hk with end)); [|apply knowsP_push].
    intros m Hin G' Hm. rewrite Forall_forall in H. destruct (H m Hin) as (_ & _ & HM). apply HM, Hm.
  - (* Sequence *) apply PE3_plain; [intros; discriminate| |apply NoSZ; reflexivity]. intros e Hf cx p s. cbn [dfrag] in Hf. cbn [parse].
    apply okc_bind; [|intros [vs s']; exact I]. apply okc_seq_loop; [|apply (dfrag_stop' false), Hf].
    rewrite Forall_forall in H |- *. intros c Hin. destruct (H c Hin) as (HA & _ & _). apply (HA false). rewrite forallb_forall in Hf. apply Hf, Hin.
  - (* IfThenElse on a parsed field *) apply PE3_plain; [intros; discriminate|intros e Hf; discriminate Hf|].
    intros G Hm. unfold szb, szb_ in Hm. cbn [szb0_ orb] in Hm.
    destruct a0 as [| |a0 k|v| | |]; try discriminate Hm. destruct a0 as [[]| | | | | |]; try discriminate Hm. destruct k as [k|]; try discriminate Hm.
    apply andb_prop in Hm as [Hm Hb2]. apply andb_prop in Hm as [Hk Hb1].
    apply OkG_ite; [apply memb_In, Hk|apply brk_OkG; assumption|apply brk_OkG; assumption].
  - (* Switch on a parsed field *) apply PE3_plain; [intros; discriminate|intros e Hf; discriminate Hf|].
    intros G Hm. unfold szb, szb_ in Hm. cbn [szb0_ orb] in Hm.
    destruct a0 as [| |a0 k|v| | |]; try discriminate Hm. destruct a0 as [[]| | | | | |]; try discriminate Hm. destruct k as [k|]; try discriminate Hm.
    apply andb_prop in Hm as [Hm Hb2]. apply andb_prop in Hm as [Hk Hb1].
    apply OkG_switch; [apply memb_In, Hk| |apply brk_OkG; assumption].
    rewrite Forall_forall in H |- *. intros vc Hin. apply brk_OkG; [apply H, Hin|]. rewrite forallb_forall in Hb1. apply Hb1, Hin.
  - (* Array *) destruct IHc as (I1 & _ & _). apply PE3_plain; [intros; discriminate| |].
    + intros e Hf cx p s. cbn [dfrag] in Hf. destruct a0; try discriminate. destruct v; try discriminate. apply andb_prop in Hf as [_ Hc].
      cbn [parse]. change (XConst (VInt z)) with (kint z). rewrite eval_int_kint. cbn [bind]. destruct (z <? 0)%Z; [reflexivity|].
      apply okc_bind; [apply okc_count_loop, (I1 false Hc)|intros [vs s']; exact I].
    + intros G Hs. unfold szb, szb_ in Hs. rewrite orb_false_r in Hs. apply (OkG_sized G _ Hs). intros el He Hd. injection He as <-. apply (I1 false), Hd.
  - (* Renamed *) destruct IHc as (I1 & I2 & _). split; [|split].
    + intros e Hf cx p s. cbn [dfrag] in Hf. cbn [parse]. apply (I1 e Hf).
    + intros G Hs. discriminate Hs.
    + intros G Hm. rewrite memok_eq in Hm. cbn [strip] in Hm. apply OkG_renamed. apply orb_prop in Hm as [Hm|Hm]; [apply I2, Hm|apply OkG_of_Pokc, (I1 false), Hm].
  - (* Const *) destruct IHc as (I1 & _ & _). apply PE3_plain; [intros; discriminate| |apply NoSZ; reflexivity]. intros e Hf cx p s. cbn [dfrag] in Hf.
    assert (Hc : Pokc c).
    { destruct a0; try discriminate.
      - destruct c; try discriminate; cbn [int_leaf] in Hf; [apply (I1 false); exact Hf| |apply (I1 false); reflexivity|apply (I1 false); reflexivity].
        destruct len; try discriminate. destruct v; try discriminate. apply (I1 false). exact Hf.
      - destruct c; try discriminate. destruct len; try discriminate. destruct v; try discriminate.
        apply (I1 false). cbn [dfrag]. apply Z.leb_le. apply Z.eqb_eq in Hf. lia. }
    cbn [parse]. apply okc_bind; [apply Hc|intros [w s']]. destruct (val_eqb w a0); [exact I|reflexivity].
  - (* Padded *) destruct IHc as (I1 & _ & _). apply PE3_plain; [intros; discriminate| |].
    + intros e Hf cx p s. cbn [dfrag] in Hf. destruct a0; try discriminate. destruct v; try discriminate. apply andb_prop in Hf as [_ Hc].
      cbn [parse]. change (XConst (VInt z)) with (kint z). rewrite eval_int_kint. cbn [bind]. destruct (z <? 0)%Z; [reflexivity|].
      apply okc_bind; [apply (I1 false Hc)|intros [v s1]]. cbv zeta. destruct (_ - _ <? 0)%Z; [reflexivity|].
      apply okc_bind; [apply okc_iread|intros [d s2]; exact I].
    + intros G Hs. unfold szb, szb_ in Hs. rewrite orb_false_r in Hs. apply (OkG_sized G _ Hs). intros el He Hd. injection He as <-. apply (I1 false), Hd.
  - (* Aligned *) destruct IHc as (I1 & _ & _). apply PE3_plain; [intros; discriminate| |apply NoSZ; reflexivity].
    intros e Hf cx p s. cbn [dfrag] in Hf. destruct a0; try discriminate. destruct v; try discriminate. apply andb_prop in Hf as [_ Hc].
    cbn [parse]. change (XConst (VInt z)) with (kint z). rewrite eval_int_kint. cbn [bind]. destruct (z <? 2)%Z; [reflexivity|].
    apply okc_bind; [apply (I1 false Hc)|intros [v s1]]. apply okc_bind; [apply okc_iread|intros [d s2]; exact I].
  - (* Prefixed *) destruct IHc1 as (L1 & _ & _). destruct IHc2 as (I1 & _ & _). apply PE3_plain; [intros; discriminate| |apply NoSZ; reflexivity].
    intros e Hf cx p s. cbn [dfrag] in Hf. destruct a2; try discriminate. apply andb_prop in Hf as [Hl Hc].
    assert (Hleaf : dfrag false c1 = true) by (destruct c1; try discriminate Hl; cbn [int_leaf dfrag] in *; exact Hl).
    pose proof (L1 false Hleaf cx p s) as H1. pose proof (int_leaf_parses_int c1 Hl cx p s) as H2.
    cbn [parse]. destruct (parse c1 cx p s) as [[lv s1]|e0 q]; [cbn [bind]|exact H1].
    destruct (H2 lv s1 eq_refl) as (z & ->). cbn [vint_of bind].
    apply okc_bind; [apply okc_iread|intros [d s2]]. apply okc_bind; [apply (I1 true Hc)|intros [v s3]; exact I].
  - (* FixedSized *) destruct IHc as (I1 & _ & _). apply PE3_plain; [intros; discriminate| |].
    + intros e Hf cx p s. cbn [dfrag] in Hf. destruct a0; try discriminate. destruct v; try discriminate. apply andb_prop in Hf as [_ Hc].
      cbn [parse]. change (XConst (VInt z)) with (kint z). rewrite eval_int_kint. cbn [bind]. destruct (z <? 0)%Z; [reflexivity|].
      apply okc_bind; [apply okc_iread|intros [d s1]]. apply okc_bind; [apply (I1 false Hc)|intros [v s2]; exact I].
    + intros G Hs. unfold szb, szb_ in Hs. rewrite orb_false_r in Hs. apply (OkG_sized G _ Hs). intros el He Hd. injection He as <-. apply (I1 false), Hd.
Qed.

Theorem C06_dependent_only_construct_errors c kw data e q : dfrag false c = true ->
  parse_bytes c kw data = Err e q -> is_construct_error e = true \/ is_meta e = true.
Proof.
  intros Hf. unfold parse_bytes. pose proof (proj1 (dep_parse_only_construct_errors c) false Hf (top_ctx kw MParse) [] (istream_of data)) as H.
  destruct (parse c _ [] (istream_of data)) as [[v s']|e0 q0]; [discriminate|]. cbn [bind]. intros E. injection E as <- <-.
  unfold okc, cerr in H. apply orb_true_iff in H. exact H.
Qed.

Example ex_dep_errors :
  parse_bytes ex_dep [] [x02; x01; x41] = Err EStream (Some [[x64]]) /\
  parse_bytes ex_dep [] [x00; x01; x05; x00; x58] = Err EStream (Some [[x72]; [x70]]).
Proof. split; vm_compute; reflexivity. Qed.

Example ex_tlv_errors :
  parse_bytes ex_tlv [] [x01; x03; x41] = Err EStream (Some [[x76]]) /\
  parse_bytes ex_tlv [] [x02; x01; x00; x05; x80] = Err EStream (Some [[x66]]).
Proof. split; vm_compute; reflexivity. Qed.
