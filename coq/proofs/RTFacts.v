(* C01: build then parse returns the value that was built -- by induction over the construct syntax,
   for the closed sequential fragment (all parameters constants), at any nesting depth. *)
From Coq Require Import ZArith NArith List Bool Lia ZifyBool ZifyN ZifyNat.
From Coq Require Import Strings.Byte.
Require Import Bytes Value Expr Codec Float Stream Syntax Sizeof Parse Build BytesFacts StreamFacts PrimFacts ConInd.
Import ListNotations.

(* ---- the order "is contained in": what parse returns is contained in what build returned (build's
   result also carries whatever extra keys the caller supplied) ---- *)
Fixpoint vle (a b : val) {struct a} : bool :=
  match a, b with
  | VDict x, VDict y =>
      (fix go (x : list (name * val)) : bool :=
         match x with
         | [] => true
         | (k, v) :: t => (if is_private k then true
                           else match lookup k y with Some w => vle v w | None => false end) && go t
         end) x
  | VList x, VList y =>
      (fix go (x y : list val) : bool :=
         match x, y with [], [] => true | u :: x', w :: y' => vle u w && go x' y' | _, _ => false end) x y
  | VNone, _ => true                 (* an absent value is contained in anything *)
  | _, _ => val_eqb a b
  end.

Definition dict_le (x y : list (name * val)) : bool :=
  forallb (fun kv => if is_private (fst kv) then true
                     else match lookup (fst kv) y with Some w => vle (snd kv) w | None => false end) x.

Lemma vle_dict x y : vle (VDict x) (VDict y) = dict_le x y.
Proof.
  cbn [vle]. unfold dict_le. induction x as [|[k v] t IH]; [reflexivity|]. cbn [forallb fst snd]. rewrite <- IH. reflexivity.
Qed.

Fixpoint list_le (x y : list val) : bool :=
  match x, y with [], [] => true | u :: x', w :: y' => vle u w && list_le x' y' | _, _ => false end.

Lemma vle_list x y : vle (VList x) (VList y) = list_le x y.
Proof. cbn [vle]. revert y. induction x as [|u x IH]; intros [|w y]; cbn [list_le]; try reflexivity; try (rewrite <- IH; reflexivity). Qed.

Lemma vle_int z v : val_eqb (VInt z) v = true -> vle (VInt z) v = true.
Proof. destruct v; cbn; auto. Qed.

(* ---- the round-trip predicates ---- *)
(* RT: delimited constructs -- the parse works with any trailing data *)
Definition RT (c : con) : Prop :=
  forall v cxb pb o r o', app_mode o -> build c v cxb pb o = Ok (r, o') ->
    exists out, o' = oapp o out /\
      forall cxp pp pre rest base sk,
        exists r', parse c cxp pp (at_pos pre (out ++ rest) base sk) = Ok (r', at_pos (pre ++ out) rest base sk) /\ vle r' r = true.

(* RTe: constructs that read to the end of their stream -- the parse works at the end of the data *)
Definition RTe (c : con) : Prop :=
  forall v cxb pb o r o', app_mode o -> build c v cxb pb o = Ok (r, o') ->
    exists out, o' = oapp o out /\
      forall cxp pp pre base sk,
        exists r', parse c cxp pp (at_pos pre out base sk) = Ok (r', at_pos (pre ++ out) [] base sk) /\ vle r' r = true.

Lemma RT_RTe c : RT c -> RTe c.
Proof.
  intros H v cxb pb o r o' Ho Hb. destruct (H v cxb pb o r o' Ho Hb) as (out & -> & Hp).
  exists out. split; [reflexivity|]. intros cxp pp pre base sk.
  destruct (Hp cxp pp pre [] base sk) as (r' & E & L). rewrite app_nil_r in E. exists r'. auto.
Qed.

(* ---- leaves ---- *)
Lemma vle_refl_int z : vle (VInt z) (VInt z) = true.
Proof. cbn. apply Z.eqb_refl. Qed.

Lemma int_of_val_cases obj z : int_of_val obj = Some z ->
  obj = VInt z \/ (exists b, obj = VBool b /\ z = if b then 1%Z else 0%Z).
Proof. destruct obj; cbn; try discriminate; intros H; injection H as <-; eauto. Qed.

Lemma vle_int_obj obj z : int_of_val obj = Some z -> vle (VInt z) obj = true.
Proof.
  intros H. destruct (int_of_val_cases _ _ H) as [-> | (b & -> & ->)]; cbn; [apply Z.eqb_refl|].
  destruct b; reflexivity.
Qed.

Lemma bytesint_build_gen n s sw v cx p o :
  (0 < n <= 65536)%Z -> app_mode o ->
  build (CBytesInt (kint n) s sw) v cx p o =
  match int_of_val v with
  | None => Err EInteger (Some p)
  | Some z => if in_range s (8 * N.of_nat (Z.to_nat n)) z
              then Ok (v, oapp o (endian_of sw (be_encode (Z.to_nat n) (pattern (8 * N.of_nat (Z.to_nat n)) z))))
              else Err EInteger (Some p)
  end.
Proof.
  intros Hn Ho. cbn [build]. destruct (int_of_val v) as [z|]; [|reflexivity].
  rewrite eval_int_kint. cbn [bind].
  destruct (n <=? 0)%Z eqn:E1; [lia|]. destruct (65536 <? n)%Z eqn:E2; [lia|].
  destruct (Z.to_nat n) as [|w] eqn:Ew; [lia|]. rewrite integer2bytes_S.
  destruct (in_range s (8 * N.of_nat (S w)) z); [|reflexivity].
  set (d := be_encode (S w) _).
  assert (Hl : n = Z.of_nat (length (endian_of sw d))).
  { rewrite endian_of_length. unfold d. rewrite be_encode_length. lia. }
  unfold swapbytes. fold (endian_of sw d).
  rewrite Hl at 1. rewrite owrite_app by exact Ho. reflexivity.
Qed.

Theorem RT_bytesint : forall n s sw, (0 < n <= 65536)%Z -> RT (CBytesInt (kint n) s sw).
Proof.
  intros n s sw Hn v cxb pb o r o' Ho Hb. rewrite bytesint_build_gen in Hb by assumption.
  destruct (int_of_val v) as [z|] eqn:Ez; [|discriminate].
  destruct (in_range s (8 * N.of_nat (Z.to_nat n)) z) eqn:Hr; [|discriminate]. injection Hb as <- <-.
  eexists. split; [reflexivity|]. intros cxp pp pre rest base sk. exists (VInt z). split.
  - rewrite (bytesint_parse n) by (rewrite ?endian_of_length, ?be_encode_length; lia).
    rewrite endian_of_invol, endian_of_length, be_encode_length.
    rewrite be_roundtrip by (rewrite pow256_pow2; apply pattern_bound).
    assert (Hp : (0 < 8 * N.of_nat (Z.to_nat n))%N) by lia.
    rewrite unpattern_pattern; [reflexivity|exact Hp|exact Hr].
  - apply vle_int_obj. exact Ez.
Qed.

Lemma format_int_build_gen en f v cx p o :
  fcode_float f = false -> app_mode o ->
  build (CFormat en f) v cx p o =
  match int_of_val v with
  | None => Err EFormatField (Some p)
  | Some z => if in_range (fcode_signed f) (8 * N.of_nat (fcode_size f)) z
              then Ok (v, oapp o (endian_fmt en (be_encode (fcode_size f) (pattern (8 * N.of_nat (fcode_size f)) z))))
              else Err EFormatField (Some p)
  end.
Proof.
  intros Hf Ho. cbn [build]. unfold build_format. rewrite Hf.
  destruct (int_of_val v) as [z|]; [|reflexivity].
  destruct (in_range _ _ z); [|reflexivity].
  set (d := be_encode _ _).
  assert (Hl : Z.of_nat (fcode_size f) = Z.of_nat (length (endian_fmt en d))).
  { unfold d. rewrite endian_fmt_length, be_encode_length. reflexivity. }
  fold (endian_fmt en d). rewrite Hl. rewrite owrite_app by exact Ho. reflexivity.
Qed.

Theorem RT_format_int : forall en f, fcode_float f = false -> RT (CFormat en f).
Proof.
  intros en f Hf v cxb pb o r o' Ho Hb. rewrite format_int_build_gen in Hb by assumption.
  destruct (int_of_val v) as [z|] eqn:Ez; [|discriminate].
  destruct (in_range _ _ z) eqn:Hr; [|discriminate]. injection Hb as <- <-.
  eexists. split; [reflexivity|]. intros cxp pp pre rest base sk. exists (VInt z). split.
  - rewrite format_int_parse by (rewrite ?endian_fmt_length, ?be_encode_length; auto).
    rewrite endian_fmt_invol. rewrite be_roundtrip by (rewrite pow256_pow2; apply pattern_bound).
    pose proof (fcode_size_pos f). assert (Hp : (0 < 8 * N.of_nat (fcode_size f))%N) by lia.
    rewrite unpattern_pattern; [reflexivity|exact Hp|exact Hr].
  - apply vle_int_obj. exact Ez.
Qed.

Theorem RT_varint : RT CVarInt.
Proof.
  intros v cxb pb o r o' Ho Hb. cbn [build] in Hb. destruct (int_of_val v) as [z|] eqn:Ez; [|discriminate].
  destruct (z <? 0)%Z eqn:En; [discriminate|]. rewrite owrite_app in Hb by exact Ho. cbn [bind] in Hb. injection Hb as <- <-.
  eexists. split; [reflexivity|]. intros cxp pp pre rest base sk. exists (VInt z). split.
  - cbn [parse]. rewrite (varint_parse_spec _ (Z.to_N z)) by apply varint_encode_leb. cbn [bind]. rewrite Z2N.id by lia. reflexivity.
  - apply vle_int_obj. exact Ez.
Qed.

Theorem RT_zigzag : RT CZigZag.
Proof.
  intros v cxb pb o r o' Ho Hb. cbn [build] in Hb. destruct (int_of_val v) as [z|] eqn:Ez; [|discriminate].
  rewrite owrite_app in Hb by exact Ho. cbn [bind] in Hb. injection Hb as <- <-.
  eexists. split; [reflexivity|]. intros cxp pp pre rest base sk. exists (VInt z). split.
  - cbn [parse]. rewrite (varint_parse_spec _ (zigzag_enc z)) by apply varint_encode_leb. cbn [bind]. rewrite zigzag_roundtrip. reflexivity.
  - apply vle_int_obj. exact Ez.
Qed.

Lemma bytes_eqb_refl b : bytes_eqb b b = true.
Proof. induction b as [|x b IH]; [reflexivity|]. cbn. rewrite IH. destruct x; reflexivity. Qed.

Theorem RT_bytes : forall n, (0 <= n)%Z -> RT (CBytes (kint n)).
Proof.
  intros n Hn v cxb pb o r o' Ho Hb. cbn [build] in Hb. rewrite eval_int_kint in Hb. cbn [bind] in Hb.
  assert (G : forall d, Z.of_nat (length d) = n -> forall cxp pp pre rest base sk,
            parse (CBytes (kint n)) cxp pp (at_pos pre (d ++ rest) base sk) = Ok (VBytes d, at_pos (pre ++ d) rest base sk)).
  { intros d Hl cxp pp pre rest base sk. cbn [parse]. rewrite eval_int_kint. cbn [bind]. rewrite <- Hl, iread_at. reflexivity. }
  destruct (int_of_val v) as [z|] eqn:Ez.
  - destruct (n <? 1)%Z eqn:E1; [discriminate|]. destruct (65536 <? n)%Z eqn:E2; [discriminate|].
    destruct (integer2bytes z (Z.to_nat n) false) as [d|] eqn:Ei; [|discriminate].
    pose proof (integer2bytes_length _ _ _ _ Ei) as Hl.
    replace n with (Z.of_nat (length d)) in Hb at 1 by lia. rewrite owrite_app in Hb by exact Ho. cbn [bind] in Hb.
    injection Hb as <- <-. exists d. split; [reflexivity|]. intros. exists (VBytes d). split; [apply G; lia|].
    cbn. apply bytes_eqb_refl.
  - destruct v; try discriminate. unfold write_val in Hb.
    destruct (owrite o b n pb) as [o2|] eqn:Ew; [|discriminate]. cbn [bind] in Hb. injection Hb as <- <-.
    pose proof (owrite_len _ _ _ _ _ Ew) as Hl. subst n. rewrite owrite_app in Ew by exact Ho. injection Ew as <-.
    exists b. split; [reflexivity|]. intros. exists (VBytes b). split; [apply G; reflexivity|]. cbn. apply bytes_eqb_refl.
Qed.

Theorem RTe_greedybytes : RTe CGreedyBytes.
Proof.
  intros v cxb pb o r o' Ho Hb. cbn [build] in Hb. destruct v; try discriminate.
  rewrite owrite_app in Hb by exact Ho. cbn [bind] in Hb. injection Hb as <- <-.
  exists b. split; [reflexivity|]. intros cxp pp pre base sk. exists (VBytes b). split.
  - cbn [parse]. rewrite iread_all_at. reflexivity.
  - cbn. apply bytes_eqb_refl.
Qed.

Theorem RT_pass : RT CPass.
Proof.
  intros v cxb pb o r o' Ho Hb. cbn [build] in Hb. injection Hb as <- <-.
  exists []. split; [symmetry; apply oapp_nil; exact Ho|]. intros cxp pp pre rest base sk. exists VNone. split.
  - cbn [parse app]. rewrite app_nil_r. reflexivity.
  - reflexivity.
Qed.

(* ---- integer-strict round trip (length / count fields, constants) ---- *)
Definition RTi (c : con) : Prop :=
  forall z cxb pb o r o', app_mode o -> build c (VInt z) cxb pb o = Ok (r, o') ->
    r = VInt z /\ exists out, o' = oapp o out /\
      forall cxp pp pre rest base sk,
        parse c cxp pp (at_pos pre (out ++ rest) base sk) = Ok (VInt z, at_pos (pre ++ out) rest base sk).

Definition int_leaf (c : con) : bool :=
  match c with
  | CFormat _ f => negb (fcode_float f)
  | CBytesInt (XConst (VInt n)) _ _ => ((0 <? n) && (n <=? 65536))%Z
  | CVarInt | CZigZag => true
  | _ => false
  end.

Lemma RTi_of_int_leaf c : int_leaf c = true -> RTi c.
Proof.
  intros Hu z cxb pb o r o' Ho Hb.
  destruct c; try discriminate Hu.
  - (* Format *)
    assert (Hf : fcode_float f = false) by (cbn in Hu; destruct (fcode_float f); [discriminate|reflexivity]).
    rewrite format_int_build_gen in Hb by assumption. cbn [int_of_val] in Hb.
    destruct (in_range _ _ z) eqn:Hr; [|discriminate]. injection Hb as <- <-. split; [reflexivity|].
    eexists. split; [reflexivity|]. intros cxp pp pre rest base sk.
    rewrite format_int_parse by (rewrite ?endian_fmt_length, ?be_encode_length; auto).
    rewrite endian_fmt_invol. rewrite be_roundtrip by (rewrite pow256_pow2; apply pattern_bound).
    pose proof (fcode_size_pos f). assert (Hp : (0 < 8 * N.of_nat (fcode_size f))%N) by lia.
    rewrite unpattern_pattern; [reflexivity|exact Hp|exact Hr].
  - (* BytesInt *)
    cbn [int_leaf] in Hu. destruct len; try discriminate Hu. destruct v; try discriminate Hu.
    assert (Hn : (0 < z0 <= 65536)%Z) by lia. fold (kint z0) in Hb |- *.
    rewrite bytesint_build_gen in Hb by assumption. cbn [int_of_val] in Hb.
    destruct (in_range signed _ z) eqn:Hr; [|discriminate]. injection Hb as <- <-. split; [reflexivity|].
    eexists. split; [reflexivity|]. intros cxp pp pre rest base sk.
    rewrite (bytesint_parse z0) by (rewrite ?endian_of_length, ?be_encode_length; lia).
    rewrite endian_of_invol, endian_of_length, be_encode_length.
    rewrite be_roundtrip by (rewrite pow256_pow2; apply pattern_bound).
    assert (Hp : (0 < 8 * N.of_nat (Z.to_nat z0))%N) by lia.
    rewrite unpattern_pattern; [reflexivity|exact Hp|exact Hr].
  - (* VarInt *)
    cbn [build int_of_val] in Hb. destruct (z <? 0)%Z eqn:En; [discriminate|].
    rewrite owrite_app in Hb by exact Ho. cbn [bind] in Hb. injection Hb as <- <-. split; [reflexivity|].
    eexists. split; [reflexivity|]. intros cxp pp pre rest base sk.
    cbn [parse]. rewrite (varint_parse_spec _ (Z.to_N z)) by apply varint_encode_leb. cbn [bind]. rewrite Z2N.id by lia. reflexivity.
  - (* ZigZag *)
    cbn [build int_of_val] in Hb.
    rewrite owrite_app in Hb by exact Ho. cbn [bind] in Hb. injection Hb as <- <-. split; [reflexivity|].
    eexists. split; [reflexivity|]. intros cxp pp pre rest base sk.
    cbn [parse]. rewrite (varint_parse_spec _ (zigzag_enc z)) by apply varint_encode_leb. cbn [bind]. rewrite zigzag_roundtrip. reflexivity.
Qed.

(* ---- wrappers ---- *)
Theorem RT_renamed : forall n c, RT c -> RT (CRenamed n c).
Proof.
  intros n c H v cxb pb o r o' Ho Hb. cbn [build] in Hb.
  destruct (H v cxb (pb ++ [n]) o r o' Ho Hb) as (out & -> & Hp). exists out. split; [reflexivity|].
  intros cxp pp pre rest base sk. cbn [parse]. apply Hp.
Qed.

Theorem RTe_renamed : forall n c, RTe c -> RTe (CRenamed n c).
Proof.
  intros n c H v cxb pb o r o' Ho Hb. cbn [build] in Hb.
  destruct (H v cxb (pb ++ [n]) o r o' Ho Hb) as (out & -> & Hp). exists out. split; [reflexivity|].
  intros cxp pp pre base sk. cbn [parse]. apply Hp.
Qed.

Lemma otell_oapp o d : app_mode o -> (otell (oapp o d) - otell o = Z.of_nat (length d))%Z.
Proof.
  intros Ho. unfold otell, oapp; cbn [opos]. unfold app_mode in Ho. rewrite Ho, nlen_app. unfold nlen. lia.
Qed.

Lemma itell_at_diff pre d rest base sk :
  (itell (at_pos (pre ++ d) rest base sk) - itell (at_pos pre (d ++ rest) base sk) = Z.of_nat (length d))%Z.
Proof. rewrite !itell_at, nlen_app. unfold nlen. lia. Qed.

Lemma repeat_app_length {A} (x : A) n : length (repeat x n) = n.
Proof. apply repeat_length. Qed.

Theorem RT_padded : forall n c pat, (0 <= n)%Z -> RT c -> RT (CPadded (kint n) c pat).
Proof.
  intros n c pat Hn H v cxb pb o r o' Ho Hb. cbn [build] in Hb. rewrite eval_int_kint in Hb. cbn [bind] in Hb.
  destruct (n <? 0)%Z eqn:E0; [lia|].
  destruct (build c v cxb pb o) as [[r1 o1]|] eqn:Ec; [|discriminate]. cbn [bind] in Hb.
  destruct (H v cxb pb o r1 o1 Ho Ec) as (out & -> & Hp).
  rewrite otell_oapp in Hb by exact Ho.
  set (pad := (n - Z.of_nat (length out))%Z) in *.
  destruct (pad <? 0)%Z eqn:E1; [discriminate|]. destruct (alloc_bound <? pad)%Z; [discriminate|].
  assert (Hl : pad = Z.of_nat (length (repeat pat (Z.to_nat pad)))) by (rewrite repeat_length; lia).
  rewrite Hl in Hb at 2. rewrite owrite_app in Hb by apply app_mode_oapp. cbn [bind] in Hb. injection Hb as <- <-.
  exists (out ++ repeat pat (Z.to_nat pad)). split; [apply oapp_app|].
  intros cxp pp pre rest base sk. rewrite <- app_assoc.
  destruct (Hp cxp pp pre (repeat pat (Z.to_nat pad) ++ rest) base sk) as (r' & E & L).
  exists r'. split; [|exact L]. cbn [parse]. rewrite eval_int_kint. cbn [bind]. rewrite E0, E. cbn [bind].
  rewrite itell_at_diff. fold pad. rewrite E1.
  match goal with |- context [iread ?S pad ?P] =>
    replace (iread S pad P) with (iread S (Z.of_nat (length (repeat pat (Z.to_nat pad)))) P) by (rewrite <- Hl; reflexivity) end.
  rewrite iread_at. cbn [bind].
  rewrite <- app_assoc. reflexivity.
Qed.

Theorem RT_aligned : forall m c pat, (2 <= m)%Z -> RT c -> RT (CAligned (kint m) c pat).
Proof.
  intros m c pat Hm H v cxb pb o r o' Ho Hb. cbn [build] in Hb. rewrite eval_int_kint in Hb. cbn [bind] in Hb.
  destruct (m <? 2)%Z eqn:E0; [lia|].
  destruct (build c v cxb pb o) as [[r1 o1]|] eqn:Ec; [|discriminate]. cbn [bind] in Hb.
  destruct (H v cxb pb o r1 o1 Ho Ec) as (out & -> & Hp).
  rewrite otell_oapp in Hb by exact Ho.
  set (pad := ((- Z.of_nat (length out)) mod m)%Z) in *.
  assert (Hpad : (0 <= pad)%Z) by (unfold pad; apply Z.mod_pos_bound; lia).
  destruct (alloc_bound <? pad)%Z; [discriminate|].
  assert (Hl : pad = Z.of_nat (length (repeat pat (Z.to_nat pad)))) by (rewrite repeat_length; lia).
  rewrite Hl in Hb at 2. rewrite owrite_app in Hb by apply app_mode_oapp. cbn [bind] in Hb. injection Hb as <- <-.
  exists (out ++ repeat pat (Z.to_nat pad)). split; [apply oapp_app|].
  intros cxp pp pre rest base sk. rewrite <- app_assoc.
  destruct (Hp cxp pp pre (repeat pat (Z.to_nat pad) ++ rest) base sk) as (r' & E & L).
  exists r'. split; [|exact L]. cbn [parse]. rewrite eval_int_kint. cbn [bind]. rewrite E0, E. cbn [bind].
  rewrite itell_at_diff. fold pad.
  match goal with |- context [iread ?S pad ?P] =>
    replace (iread S pad P) with (iread S (Z.of_nat (length (repeat pat (Z.to_nat pad)))) P) by (rewrite <- Hl; reflexivity) end.
  rewrite iread_at. cbn [bind].
  rewrite <- app_assoc. reflexivity.
Qed.

Lemma substream_at d b : substream d b = at_pos [] d b true.
Proof. reflexivity. Qed.

Theorem RT_fixedsized : forall n c, (0 <= n)%Z -> RT c -> RT (CFixedSized (kint n) c).
Proof.
  intros n c Hn H v cxb pb o r o' Ho Hb. cbn [build] in Hb. rewrite eval_int_kint in Hb. cbn [bind] in Hb.
  destruct (n <? 0)%Z eqn:E0; [lia|].
  destruct (build c v cxb pb ostream_new) as [[r1 o2]|] eqn:Ec; [|discriminate]. cbn [bind] in Hb.
  destruct (H v cxb pb ostream_new r1 o2 app_mode_new Ec) as (data & -> & Hp). rewrite odata_new_oapp in Hb.
  set (pad := (n - Z.of_nat (length data))%Z) in *.
  destruct (pad <? 0)%Z eqn:E1; [discriminate|]. destruct (alloc_bound <? pad)%Z; [discriminate|].
  rewrite owrite_app in Hb by exact Ho. cbn [bind] in Hb.
  assert (Hl : pad = Z.of_nat (length (zeros (Z.to_nat pad)))) by (unfold zeros; rewrite repeat_length; lia).
  rewrite Hl in Hb at 2. rewrite owrite_app in Hb by apply app_mode_oapp. cbn [bind] in Hb. injection Hb as <- <-.
  exists (data ++ zeros (Z.to_nat pad)). split; [apply oapp_app|].
  intros cxp pp pre rest base sk.
  destruct (Hp cxp pp [] (zeros (Z.to_nat pad)) (iabs (at_pos pre ((data ++ zeros (Z.to_nat pad)) ++ rest) base sk)) true) as (r' & E & L).
  exists r'. split; [|exact L]. cbn [parse]. rewrite eval_int_kint. cbn [bind]. rewrite E0.
  replace n with (Z.of_nat (length (data ++ zeros (Z.to_nat pad)))) at 1.
  2:{ rewrite app_length. unfold zeros. rewrite repeat_length. unfold pad in *. lia. }
  rewrite iread_at. cbn [bind]. rewrite substream_at, E. reflexivity.
Qed.

Lemma length_nat_Z {A} (l : list A) : Z.of_nat (length l) = Z.of_nat (length l). Proof. reflexivity. Qed.

Theorem RT_prefixed : forall lc c, RTi lc -> RTe c -> RT (CPrefixed lc c false).
Proof.
  intros lc c Hl Hc v cxb pb o r o' Ho Hb. cbn [build] in Hb.
  destruct (build c v cxb pb ostream_new) as [[r1 o2]|] eqn:Ec; [|discriminate]. cbn [bind] in Hb.
  destruct (Hc v cxb pb ostream_new r1 o2 app_mode_new Ec) as (data & -> & Hp). rewrite odata_new_oapp in Hb.
  destruct (build lc (VInt (Z.of_nat (length data))) cxb pb o) as [[rl o1]|] eqn:El; [|discriminate]. cbn [bind] in Hb.
  destruct (Hl _ cxb pb o rl o1 Ho El) as (_ & lenc & -> & Hlp).
  rewrite owrite_app in Hb by apply app_mode_oapp. cbn [bind] in Hb. injection Hb as <- <-.
  exists (lenc ++ data). split; [apply oapp_app|].
  intros cxp pp pre rest base sk.
  destruct (Hp cxp pp [] (iabs (at_pos (pre ++ lenc) (data ++ rest) base sk)) true) as (r' & E & L).
  exists r'. split; [|exact L]. cbn [parse]. rewrite <- app_assoc. rewrite Hlp. cbn [bind vint_of].
  rewrite iread_at. cbn [bind]. rewrite substream_at. cbn [app] in E. rewrite E. cbn [bind]. rewrite <- app_assoc. reflexivity.
Qed.

Theorem RT_const_int : forall z c, RTi c -> RT (CConst (VInt z) c).
Proof.
  intros z c H v cxb pb o r o' Ho Hb.
  assert (Hb' : build c (VInt z) cxb pb o = Ok (r, o')).
  { cbn [build] in Hb. destruct v; try exact Hb; destruct (val_eqb _ (VInt z)); (exact Hb || discriminate). }
  destruct (H z cxb pb o r o' Ho Hb') as (-> & out & -> & Hp). exists out. split; [reflexivity|].
  intros cxp pp pre rest base sk. exists (VInt z). split; [|apply vle_refl_int].
  cbn [parse]. rewrite Hp. cbn [bind val_eqb]. rewrite Z.eqb_refl. reflexivity.
Qed.

Theorem RT_const_bytes : forall d, RT (CConst (VBytes d) (CBytes (kint (Z.of_nat (length d))))).
Proof.
  intros d v cxb pb o r o' Ho Hb.
  assert (Hb' : build (CBytes (kint (Z.of_nat (length d)))) (VBytes d) cxb pb o = Ok (r, o')).
  { cbn [build] in Hb |- *. destruct v; try exact Hb; destruct (val_eqb _ (VBytes d)); (exact Hb || discriminate). }
  destruct (RT_bytes _ (Nat2Z.is_nonneg _) (VBytes d) cxb pb o r o' Ho Hb') as (out & -> & Hp).
  exists out. split; [reflexivity|]. intros cxp pp pre rest base sk.
  destruct (Hp cxp pp pre rest base sk) as (r' & E & L).
  (* the inner build returned the bytes themselves *)
  assert (Hr : r = VBytes d).
  { cbn [build] in Hb'. rewrite eval_int_kint in Hb'. cbn [bind int_of_val] in Hb'. unfold write_val in Hb'.
    destruct (owrite o d _ pb); [|discriminate]. cbn [bind] in Hb'. injection Hb' as <- _. reflexivity. }
  subst r. exists r'. split; [|exact L]. cbn [parse] in E |- *.
  destruct (eval_int cxp (kint (Z.of_nat (length d)))) as [m|]; [|discriminate]. cbn [bind] in E |- *.
  destruct (iread _ m pp) as [[d' s']|]; [|discriminate]. cbn [bind] in E |- *. injection E as <- <-.
  cbn [vle] in L. rewrite L. reflexivity.
Qed.

(* ---- counted repetition: iter_N is plain iteration ---- *)
Fixpoint miter {A} (f : A -> res A) (k : nat) (a : A) : res A :=
  match k with O => Ok a | S k' => let* a1 := f a in miter f k' a1 end.

Lemma bind_ret {A} (x : res A) : bind x (fun a => Ok a) = x.
Proof. destruct x; reflexivity. Qed.

Lemma bind_assoc {A B C} (x : res A) (f : A -> res B) (g : B -> res C) :
  bind (bind x f) g = bind x (fun a => bind (f a) g).
Proof. destruct x; reflexivity. Qed.

Lemma miter_add {A} (f : A -> res A) j : forall k a, miter f (j + k) a = bind (miter f j a) (miter f k).
Proof.
  induction j as [|j IH]; intros k a; [reflexivity|]. cbn [Nat.add miter]. destruct (f a) as [a1|]; cbn [bind]; [apply IH|reflexivity].
Qed.

Lemma iter_pos_miter {A} (f : A -> res A) p : forall a, iter_pos f p a = miter f (Pos.to_nat p) a.
Proof.
  induction p as [p IH|p IH|]; intros a; cbn [iter_pos].
  - rewrite Pos2Nat.inj_xI. cbn [miter]. destruct (f a) as [a1|]; cbn [bind]; [|reflexivity].
    replace (2 * Pos.to_nat p)%nat with (Pos.to_nat p + Pos.to_nat p)%nat by lia. rewrite miter_add, IH.
    destruct (miter f (Pos.to_nat p) a1); cbn [bind]; [apply IH|reflexivity].
  - rewrite Pos2Nat.inj_xO. replace (2 * Pos.to_nat p)%nat with (Pos.to_nat p + Pos.to_nat p)%nat by lia.
    rewrite miter_add, IH. destruct (miter f (Pos.to_nat p) a); cbn [bind]; [apply IH|reflexivity].
  - change (Pos.to_nat 1) with 1%nat. cbn [miter]. destruct (f a); reflexivity.
Qed.

Lemma iter_N_miter {A} (f : A -> res A) n a : iter_N f n a = miter f (N.to_nat n) a.
Proof. destruct n; [reflexivity|]. apply iter_pos_miter. Qed.

Lemma count_loop_RT c : RT c -> forall l i cxb pb o rs o', app_mode o ->
  count_bloop (build c) l i cxb pb o = Ok (rs, o') ->
  exists out, o' = oapp o out /\
    forall cxp pp pre rest base sk acc,
      exists rs', miter (count_step (parse c) cxp pp) (length l) (i, acc, at_pos pre (out ++ rest) base sk)
                  = Ok ((i + Z.of_nat (length l))%Z, rev rs' ++ acc, at_pos (pre ++ out) rest base sk) /\
                  list_le rs' rs = true.
Proof.
  intros H. induction l as [|e t IH]; intros i cxb pb o rs o' Ho Hb; cbn [count_bloop] in Hb.
  - injection Hb as <- <-. exists []. split; [symmetry; apply oapp_nil; exact Ho|].
    intros. exists []. cbn [miter length app rev list_le]. rewrite app_nil_r, Z.add_0_r. auto.
  - destruct (build c e (ctx_set_index cxb i) pb o) as [[r o1]|] eqn:Ec; [|discriminate]. cbn [bind] in Hb.
    destruct (count_bloop (build c) t (i + 1)%Z cxb pb o1) as [[rs1 o2]|] eqn:Et; [|discriminate]. cbn [bind] in Hb.
    injection Hb as <- <-.
    destruct (H e _ pb o r o1 Ho Ec) as (out1 & -> & Hp1).
    destruct (IH (i + 1)%Z cxb pb _ rs1 o2 (app_mode_oapp _ _) Et) as (out2 & -> & Hp2).
    exists (out1 ++ out2). split; [apply oapp_app|].
    intros cxp pp pre rest base sk acc. rewrite <- app_assoc.
    destruct (Hp1 (ctx_set_index cxp i) pp pre (out2 ++ rest) base sk) as (r' & E1 & L1).
    destruct (Hp2 cxp pp (pre ++ out1) rest base sk (r' :: acc)) as (rs' & E2 & L2).
    exists (r' :: rs'). cbn [length miter]. unfold count_step at 1. rewrite E1. cbn [bind].
    rewrite E2. cbn [rev list_le]. rewrite L1, L2. split; [|reflexivity].
    replace (i + 1 + Z.of_nat (length t))%Z with (i + Z.of_nat (S (length t)))%Z by lia.
    rewrite <- !app_assoc. reflexivity.
Qed.

Theorem RT_array : forall n c, (0 <= n)%Z -> RT c -> RT (CArray (kint n) c).
Proof.
  intros n c Hn H v cxb pb o r o' Ho Hb. cbn [build] in Hb. rewrite eval_int_kint in Hb. cbn [bind] in Hb.
  destruct (n <? 0)%Z eqn:E0; [lia|]. destruct v; try discriminate.
  destruct (Z.of_nat (length l) =? n)%Z eqn:El; cbn [negb] in Hb; [|discriminate].
  destruct (count_bloop (build c) l 0%Z cxb pb o) as [[rs o1]|] eqn:Ec; [|discriminate]. cbn [bind] in Hb. injection Hb as <- <-.
  destruct (count_loop_RT c H l 0%Z cxb pb o rs o1 Ho Ec) as (out & -> & Hp).
  exists out. split; [reflexivity|]. intros cxp pp pre rest base sk.
  destruct (Hp cxp pp pre rest base sk []) as (rs' & E & L).
  exists (VList rs'). split; [|rewrite vle_list; exact L].
  cbn [parse]. rewrite eval_int_kint. cbn [bind]. rewrite E0. unfold count_loop. rewrite iter_N_miter.
  replace (N.to_nat (Z.to_N n)) with (length l) by lia. rewrite E. cbn [bind]. rewrite app_nil_r, rev_involutive. reflexivity.
Qed.

(* ---- Sequence ---- *)
Definition no_stopif (cs : list con) : Prop := Forall (fun c => is_stopif c = false) cs.

Lemma seq_loop_RT : forall cs, Forall RT cs -> no_stopif cs -> forall objs cxb pb o rs o', app_mode o ->
  seq_bloop build cs objs cxb pb o = Ok (rs, o') ->
  exists out, o' = oapp o out /\
    forall cxp pp pre rest base sk,
      exists rs', seq_loop parse cs cxp pp (at_pos pre (out ++ rest) base sk) = Ok (rs', at_pos (pre ++ out) rest base sk) /\
                  list_le rs' rs = true.
Proof.
  induction cs as [|c t IH]; intros Hf Hns objs cxb pb o rs o' Ho Hb; cbn [seq_bloop] in Hb.
  - injection Hb as <- <-. exists []. split; [symmetry; apply oapp_nil; exact Ho|].
    intros. exists []. cbn [seq_loop app list_le]. rewrite app_nil_r. auto.
  - inversion Hf as [|? ? Hc Ht]; subst. inversion Hns as [|? ? Hs1 Hs2]; subst. destruct objs as [|subobj objs']; [discriminate|].
    set (cx1 := match name_of c with Some n => ctx_set cxb n subobj | None => cxb end) in *.
    destruct (build c subobj cx1 pb o) as [[r o1]|e q] eqn:Ec.
    2:{ destruct e; try discriminate. rewrite Hs1 in Hb. discriminate. }
    set (cx2 := match name_of c with Some n => ctx_set cx1 n r | None => cx1 end) in *.
    destruct (seq_bloop build t objs' cx2 pb o1) as [[rs1 o2]|] eqn:Et; [|discriminate]. cbn [bind] in Hb. injection Hb as <- <-.
    destruct (Hc subobj cx1 pb o r o1 Ho Ec) as (out1 & -> & Hp1).
    destruct (IH Ht Hs2 objs' cx2 pb _ rs1 o2 (app_mode_oapp _ _) Et) as (out2 & -> & Hp2).
    exists (out1 ++ out2). split; [apply oapp_app|].
    intros cxp pp pre rest base sk. rewrite <- app_assoc.
    destruct (Hp1 cxp pp pre (out2 ++ rest) base sk) as (r' & E1 & L1).
    destruct (Hp2 (match name_of c with Some n => ctx_set cxp n r' | None => cxp end) pp (pre ++ out1) rest base sk) as (rs' & E2 & L2).
    exists (r' :: rs'). cbn [seq_loop]. rewrite E1, E2. cbn [bind list_le]. rewrite L1, L2, <- app_assoc. auto.
Qed.

Theorem RT_sequence : forall cs, Forall RT cs -> no_stopif cs -> RT (CSequence cs).
Proof.
  intros cs Hf Hns v cxb pb o r o' Ho Hb. cbn [build] in Hb.
  destruct (match v with VNone => Ok (map (fun _ => VNone) cs) | VList l => Ok l | _ => unsupported end) as [objs|] eqn:Eo; [|discriminate].
  cbn [bind] in Hb. destruct (seq_bloop build cs objs (push_scope cxb) pb o) as [[rs o1]|] eqn:Es; [|discriminate].
  cbn [bind] in Hb. injection Hb as <- <-.
  destruct (seq_loop_RT cs Hf Hns objs _ pb o rs o1 Ho Es) as (out & -> & Hp). exists out. split; [reflexivity|].
  intros cxp pp pre rest base sk. destruct (Hp (push_scope cxp) pp pre rest base sk) as (rs' & E & L).
  exists (VList rs'). split; [|rewrite vle_list; exact L]. cbn [parse]. rewrite E. reflexivity.
Qed.

(* ---- Struct ---- *)
Lemma nodup_app_r {A} (a b : list A) : NoDup (a ++ b) -> NoDup b.
Proof. induction a as [|x a IH]; cbn; [auto|]. intros H. inversion H; auto. Qed.

Definition names (cs : list con) : list name := flat_map (fun c => match name_of c with Some n => [n] | None => [] end) cs.

Lemma name_eqb_refl k : name_eqb k k = true.
Proof. induction k as [|b k IH]; [reflexivity|]. cbn. rewrite IH. destruct b; reflexivity. Qed.

Lemma name_eqb_eq a b : name_eqb a b = true -> a = b.
Proof.
  revert b. induction a as [|x a IH]; intros [|y b] H; cbn in H; try discriminate; [reflexivity|].
  apply andb_prop in H as [H1 H2]. apply Byte.byte_dec_bl in H1. subst y. f_equal. apply IH, H2.
Qed.

Lemma lookup_dict_set_same k v kv : lookup k (dict_set k v kv) = Some v.
Proof.
  induction kv as [|[k' v'] t IH]; cbn [dict_set lookup]; [rewrite name_eqb_refl; reflexivity|].
  destruct (name_eqb k k') eqn:E; cbn [lookup]; [rewrite name_eqb_refl; reflexivity|rewrite E; exact IH].
Qed.

Lemma lookup_dict_set_other k k' v kv : k <> k' -> lookup k (dict_set k' v kv) = lookup k kv.
Proof.
  intros Hne. induction kv as [|[k2 v2] t IH]; cbn [dict_set lookup].
  - destruct (name_eqb k k') eqn:E; [apply name_eqb_eq in E; congruence|reflexivity].
  - destruct (name_eqb k' k2) eqn:E2; cbn [lookup].
    + apply name_eqb_eq in E2. subst k2. destruct (name_eqb k k') eqn:E; [apply name_eqb_eq in E; congruence|reflexivity].
    + destruct (name_eqb k k2); [reflexivity|exact IH].
Qed.

Lemma in_dict_set k v kv k0 v0 : In (k0, v0) (dict_set k v kv) -> (k0 = k /\ v0 = v) \/ In (k0, v0) kv.
Proof.
  induction kv as [|[k' v'] t IH]; cbn [dict_set]; intros H.
  - destruct H as [H|[]]. injection H as <- <-. auto.
  - destruct (name_eqb k k'); destruct H as [H|H].
    + injection H as <- <-. auto.
    + right. right. exact H.
    + right. left. exact H.
    + destruct (IH H) as [X|X]; [auto|right; right; exact X].
Qed.

Lemma ctx_vals_set cx n v : ctx_vals (ctx_set cx n v) = dict_set n v (ctx_vals cx).
Proof. unfold ctx_vals, ctx_set. destruct (c_scopes cx) as [|s t]; reflexivity. Qed.

(* the build loop only changes the entries of its own members *)
Lemma bloop_preserves : forall kv cs cxb pb o cxb' o',
  struct_bloop build kv cs cxb pb o = Ok (cxb', o') ->
  forall k, ~ In k (names cs) -> lookup k (ctx_vals cxb') = lookup k (ctx_vals cxb).
Proof.
  intros kv. induction cs as [|c t IH]; intros cxb pb o cxb' o' Hb k Hk; cbn [struct_bloop] in Hb.
  - injection Hb as <- _. reflexivity.
  - match type of Hb with context [bind ?X _] => destruct X as [subobj|] eqn:Es end; [|discriminate]. cbn [bind] in Hb.
    set (cx1 := match name_of c with Some n => ctx_set cxb n subobj | None => cxb end) in *.
    destruct (build c subobj cx1 pb o) as [[r o1]|e q] eqn:Ec.
    + set (cx2 := match name_of c with Some n => ctx_set cx1 n r | None => cx1 end) in *.
      rewrite (IH cx2 pb o1 cxb' o' Hb k).
      2:{ intros Hin. apply Hk. unfold names. cbn [flat_map]. apply in_or_app. right. exact Hin. }
      unfold cx2, cx1. destruct (name_of c) as [n|] eqn:En; [|reflexivity].
      assert (k <> n). { intros ->. apply Hk. unfold names. cbn [flat_map]. rewrite En. left. reflexivity. }
      rewrite !ctx_vals_set, !lookup_dict_set_other by assumption. reflexivity.
    + destruct e; try discriminate. destruct (is_stopif c); [|discriminate]. injection Hb as <- _.
      unfold cx1. destruct (name_of c) as [n|] eqn:En; [|reflexivity].
      assert (k <> n). { intros ->. apply Hk. unfold names. cbn [flat_map]. rewrite En. left. reflexivity. }
      rewrite ctx_vals_set, lookup_dict_set_other by assumption. reflexivity.
Qed.

Lemma struct_loop_RT : forall kv cs, Forall RT cs -> NoDup (names cs) -> no_stopif cs ->
  forall cxb pb o cxb' o', app_mode o ->
  struct_bloop build kv cs cxb pb o = Ok (cxb', o') ->
  exists out, o' = oapp o out /\
    forall cxp pp acc pre rest base sk,
      exists acc' cxp', struct_loop parse cs cxp pp acc (at_pos pre (out ++ rest) base sk) = Ok (acc', cxp', at_pos (pre ++ out) rest base sk) /\
        forall k v, In (k, v) acc' -> In (k, v) acc \/ (exists w, lookup k (ctx_vals cxb') = Some w /\ vle v w = true).
Proof.
  intros kv. induction cs as [|c t IH]; intros Hf Hnd Hns cxb pb o cxb' o' Ho Hb; cbn [struct_bloop] in Hb.
  - injection Hb as <- <-. exists []. split; [symmetry; apply oapp_nil; exact Ho|].
    intros. exists acc, cxp. cbn [struct_loop app]. rewrite app_nil_r. split; [reflexivity|auto].
  - inversion Hf as [|? ? Hc Ht]; subst. inversion Hns as [|? ? Hs1 Hs2]; subst.
    match type of Hb with context [bind ?X _] => destruct X as [subobj|] eqn:Es end; [|discriminate]. cbn [bind] in Hb.
    set (cx1 := match name_of c with Some n => ctx_set cxb n subobj | None => cxb end) in *.
    destruct (build c subobj cx1 pb o) as [[r o1]|e q] eqn:Ec.
    2:{ destruct e; try discriminate. rewrite Hs1 in Hb. discriminate. }
    set (cx2 := match name_of c with Some n => ctx_set cx1 n r | None => cx1 end) in *.
    assert (Hnd' : NoDup (names t)).
    { unfold names in Hnd. cbn [flat_map] in Hnd. apply nodup_app_r in Hnd. exact Hnd. }
    destruct (Hc subobj cx1 pb o r o1 Ho Ec) as (out1 & -> & Hp1).
    destruct (IH Ht Hnd' Hs2 cx2 pb _ cxb' o' (app_mode_oapp _ _) Hb) as (out2 & -> & Hp2).
    exists (out1 ++ out2). split; [apply oapp_app|].
    intros cxp pp acc pre rest base sk. rewrite <- app_assoc.
    destruct (Hp1 cxp pp pre (out2 ++ rest) base sk) as (r' & E1 & L1).
    cbn [struct_loop]. rewrite E1.
    destruct (name_of c) as [n|] eqn:En.
    + destruct (Hp2 (ctx_set cxp n r') pp (dict_set n r' acc) (pre ++ out1) rest base sk) as (acc' & cxp' & E2 & I2).
      exists acc', cxp'. rewrite E2, <- app_assoc. split; [reflexivity|].
      intros k v Hin. destruct (I2 k v Hin) as [Hold|Hnew]; [|right; exact Hnew].
      apply in_dict_set in Hold. destruct Hold as [[-> ->]|Hold]; [|left; exact Hold].
      right. exists r. split; [|exact L1].
      assert (Hnot : ~ In n (names t)).
      { unfold names in Hnd. cbn [flat_map] in Hnd. rewrite En in Hnd. cbn [app] in Hnd. inversion Hnd; assumption. }
      rewrite (bloop_preserves kv t cx2 pb _ cxb' _ Hb n Hnot). unfold cx2. rewrite ctx_vals_set. apply lookup_dict_set_same.
    + destruct (Hp2 cxp pp acc (pre ++ out1) rest base sk) as (acc' & cxp' & E2 & I2).
      exists acc', cxp'. rewrite E2, <- app_assoc. split; [reflexivity|exact I2].
Qed.

Theorem RT_struct : forall cs, Forall RT cs -> NoDup (names cs) -> no_stopif cs -> RT (CStruct cs).
Proof.
  intros cs Hf Hnd Hns v cxb pb o r o' Ho Hb. cbn [build] in Hb.
  destruct (match v with VNone => Ok [] | VDict kv => Ok kv | _ => unsupported end) as [kv|] eqn:Ek; [|discriminate].
  cbn [bind] in Hb.
  destruct (struct_bloop build kv cs (ctx_update (push_scope cxb) kv) pb o) as [[cxb' o1]|] eqn:Es; [|discriminate].
  cbn [bind] in Hb. injection Hb as <- <-.
  destruct (struct_loop_RT kv cs Hf Hnd Hns _ pb o cxb' o1 Ho Es) as (out & -> & Hp). exists out. split; [reflexivity|].
  intros cxp pp pre rest base sk.
  destruct (Hp (push_scope cxp) pp [] pre rest base sk) as (acc' & cxp' & E & I).
  exists (VDict acc'). split; [cbn [parse]; rewrite E; reflexivity|].
  rewrite vle_dict. unfold dict_le. apply forallb_forall. intros [k x] Hin. cbn [fst snd].
  destruct (is_private k); [reflexivity|]. destruct (I k x Hin) as [[]|(w & -> & L)]. exact L.
Qed.

(* ---- the fragment and the theorem ---- *)
Fixpoint nodupb (l : list name) : bool :=
  match l with [] => true | x :: t => negb (existsb (name_eqb x) t) && nodupb t end.

Lemma nodupb_NoDup l : nodupb l = true -> NoDup l.
Proof.
  induction l as [|x t IH]; intros H; [constructor|]. cbn [nodupb] in H. apply andb_prop in H as [H1 H2].
  constructor; [|apply IH; exact H2]. intros Hin. apply negb_true_iff in H1.
  assert (existsb (name_eqb x) t = true) by (apply existsb_exists; exists x; split; [exact Hin|apply name_eqb_refl]). congruence.
Qed.

(* closed sequential fragment; e = the construct may read to the end of its stream (tail position of a delimited region) *)
Fixpoint frag (e : bool) (c : con) : bool :=
  match c with
  | CFormat _ f => negb (fcode_float f)
  | CBytesInt (XConst (VInt n)) _ _ => ((0 <? n) && (n <=? 65536))%Z
  | CVarInt | CZigZag | CPass => true
  | CBytes (XConst (VInt n)) => (0 <=? n)%Z
  | CGreedyBytes => e
  | CRenamed _ c' => frag e c'
  | CConst (VInt _) c' => int_leaf c'
  | CConst (VBytes d) (CBytes (XConst (VInt n))) => (n =? Z.of_nat (length d))%Z
  | CStruct cs => forallb (frag false) cs && nodupb (names cs)
  | CSequence cs => forallb (frag false) cs
  | CArray (XConst (VInt n)) c' => (0 <=? n)%Z && frag false c'
  | CPrefixed lc c' false => int_leaf lc && frag true c'
  | CPadded (XConst (VInt n)) c' _ => (0 <=? n)%Z && frag false c'
  | CAligned (XConst (VInt m)) c' _ => (2 <=? m)%Z && frag false c'
  | CFixedSized (XConst (VInt n)) c' => (0 <=? n)%Z && frag false c'
  | _ => false
  end.

Lemma frag_not_stopif e c : frag e c = true -> is_stopif c = false.
Proof. destruct c; try reflexivity; try discriminate. cbn [frag is_stopif]. destruct c; try reflexivity. discriminate. Qed.

Lemma frag_no_stopif cs : forallb (frag false) cs = true -> no_stopif cs.
Proof.
  intros H. apply Forall_forall. intros c Hin. rewrite forallb_forall in H. eapply frag_not_stopif. apply H, Hin.
Qed.

Theorem roundtrip_fragment : forall c, (frag false c = true -> RT c) /\ (frag true c = true -> RTe c).
Proof.
  assert (Both : forall c, (frag false c = true -> RT c) -> (forall e, frag e c = frag false c) ->
                 (frag false c = true -> RT c) /\ (frag true c = true -> RTe c)).
  { intros c H E. split; [exact H|]. intros Ht. apply RT_RTe, H. rewrite <- (E true). exact Ht. }
  induction c using con_ind2; try (split; intros Hfr; discriminate Hfr).
  - (* Format *) apply Both; [|reflexivity]. intros Hfr. cbn in Hfr. apply RT_format_int. apply negb_true_iff. exact Hfr.
  - (* BytesInt *) apply Both; [|reflexivity]. intros Hfr. cbn in Hfr. destruct a0; try discriminate. destruct v; try discriminate.
    apply RT_bytesint. lia.
  - apply Both; [|reflexivity]. intros _. apply RT_varint.
  - apply Both; [|reflexivity]. intros _. apply RT_zigzag.
  - (* Bytes *) apply Both; [|reflexivity]. intros Hfr. cbn in Hfr. destruct a0; try discriminate. destruct v; try discriminate.
    apply RT_bytes. lia.
  - (* GreedyBytes *) split; intros Hfr; [discriminate|]. apply RTe_greedybytes.
  - apply Both; [|reflexivity]. intros _. apply RT_pass.
  - (* Struct *) apply Both; [|reflexivity]. intros Hfr. cbn [frag] in Hfr. apply andb_prop in Hfr as [Hm Hn].
    apply RT_struct; [|apply nodupb_NoDup; exact Hn|apply frag_no_stopif; exact Hm].
    rewrite Forall_forall in H |- *. intros c Hin. apply (H c Hin). rewrite forallb_forall in Hm. apply Hm, Hin.
  - (* Sequence *) apply Both; [|reflexivity]. intros Hfr. cbn [frag] in Hfr.
    apply RT_sequence; [|apply frag_no_stopif; exact Hfr].
    rewrite Forall_forall in H |- *. intros c Hin. apply (H c Hin). rewrite forallb_forall in Hfr. apply Hfr, Hin.
  - (* Array *) apply Both; [|reflexivity]. intros Hfr. cbn [frag] in Hfr. destruct a0; try discriminate. destruct v; try discriminate.
    apply andb_prop in Hfr as [Hn Hc]. apply RT_array; [lia|]. apply IHc, Hc.
  - (* Renamed *) destruct IHc as [I1 I2]. split; intros Hfr; cbn [frag] in Hfr.
    + apply RT_renamed, I1, Hfr.
    + apply RTe_renamed, I2, Hfr.
  - (* Const *) apply Both; [|intros e; destruct a0; reflexivity]. intros Hfr. cbn [frag] in Hfr. destruct a0; try discriminate.
    + apply RT_const_int. apply RTi_of_int_leaf. exact Hfr.
    + destruct c; try discriminate. destruct len; try discriminate. destruct v; try discriminate.
      apply Z.eqb_eq in Hfr. subst z. apply RT_const_bytes.
  - (* Padded *) apply Both; [|intros e; destruct a0 as [| | |v| | |]; try reflexivity; destruct v; reflexivity].
    intros Hfr. cbn [frag] in Hfr. destruct a0; try discriminate. destruct v; try discriminate.
    apply andb_prop in Hfr as [Hn Hc]. apply RT_padded; [lia|]. apply IHc, Hc.
  - (* Aligned *) apply Both; [|intros e; destruct a0 as [| | |v| | |]; try reflexivity; destruct v; reflexivity].
    intros Hfr. cbn [frag] in Hfr. destruct a0; try discriminate. destruct v; try discriminate.
    apply andb_prop in Hfr as [Hn Hc]. apply RT_aligned; [lia|]. apply IHc, Hc.
  - (* Prefixed *) apply Both; [|intros e; destruct a2; reflexivity]. intros Hfr. cbn [frag] in Hfr. destruct a2; [discriminate|].
    apply andb_prop in Hfr as [Hl Hc]. apply RT_prefixed; [apply RTi_of_int_leaf; exact Hl|]. apply IHc2, Hc.
  - (* FixedSized *) apply Both; [|intros e; destruct a0 as [| | |v| | |]; try reflexivity; destruct v; reflexivity].
    intros Hfr. cbn [frag] in Hfr. destruct a0; try discriminate. destruct v; try discriminate.
    apply andb_prop in Hfr as [Hn Hc]. apply RT_fixedsized; [lia|]. apply IHc, Hc.
Qed.

(* C01 for the closed sequential fragment, any nesting depth *)
Theorem C01_roundtrip_closed : forall c, frag false c = true -> RT c.
Proof. intros c H. apply roundtrip_fragment. exact H. Qed.

Theorem C01_roundtrip_closed_tail : forall c, frag true c = true -> RTe c.
Proof. intros c H. apply roundtrip_fragment. exact H. Qed.

(* stated on the public entry points *)
Theorem C01_build_then_parse : forall c v kw r out, frag false c = true ->
  build_bytes c v kw = Ok (r, out) ->
  forall kw', exists r', parse_bytes c kw' out = Ok r' /\ vle r' r = true.
Proof.
  intros c v kw r out Hf Hb kw'. unfold build_bytes in Hb.
  destruct (build c v (top_ctx kw MBuild) [] ostream_new) as [[r0 o]|] eqn:E; [|discriminate]. cbn [bind] in Hb. injection Hb as <- <-.
  destruct (C01_roundtrip_closed c Hf v _ [] ostream_new r0 o app_mode_new E) as (out & -> & Hp).
  destruct (Hp (top_ctx kw' MParse) [] [] [] 0%N true) as (r' & Ep & L).
  exists r'. split; [|exact L]. unfold parse_bytes, istream_of. rewrite odata_new_oapp.
  rewrite app_nil_r in Ep. unfold at_pos in Ep. cbn [app nlen length N.of_nat] in Ep. rewrite Ep. reflexivity.
Qed.

(* non-vacuity: a nested construct of the fragment, decided by computation *)
Example frag_example :
  frag false (CStruct [CRenamed [x61] (CFormat Little FH);
                       CRenamed [x62] (CPrefixed CVarInt (CStruct [CRenamed [x78] (CArray (kint 2) (CBytesInt (kint 3) true true));
                                                                    CRenamed [x79] CGreedyBytes]) false);
                       CConst (VBytes [x4d; x5a]) (CBytes (kint 2));
                       CPadded (kint 4) (CRenamed [x7a] CZigZag) x00;
                       CRenamed [x77] (CFixedSized (kint 5) (CSequence [CFormat Big Fb; CAligned (kint 2) CVarInt x00]))]) = false /\
  frag false (CStruct [CRenamed [x61] (CFormat Little FH);
                       CRenamed [x62] (CPrefixed CVarInt (CRenamed [x79] CGreedyBytes) false);
                       CConst (VBytes [x4d; x5a]) (CBytes (kint 2));
                       CPadded (kint 4) (CRenamed [x7a] CZigZag) x00;
                       CRenamed [x77] (CFixedSized (kint 5) (CSequence [CFormat Big Fb; CAligned (kint 2) CVarInt x00]))]) = true.
Proof. split; vm_compute; reflexivity. Qed.
