(* C16: lazy results as state machines.  For EVERY member list, input, and access history:
   - an access leaves the stream exactly as it found it (so the surrounding parse is not disturbed);
   - the value an access returns does not depend on what was accessed before, how often, or in which
     order: it is the value the first access from the freshly parsed result would return;
   - the cache only ever holds such values, and the offset table never changes. *)
From Coq Require Import ZArith NArith List Bool Lia.
From Coq Require Import Strings.Byte.
Require Import Bytes Value Expr Codec Float Stream Syntax Sizeof Parse Lazy ConInd FrameFacts.
Import ListNotations.

(* ---- one access ---- *)

Theorem lazy_access_restores l i s v l' s' :
  iseekable s = true -> lazy_access l i s = Ok (v, l', s') -> s' = s.
Proof.
  intros Hk. unfold lazy_access. destruct (cache_get i (l_cache l)) as [w|].
  - intros E. injection E as _ _ <-. reflexivity.
  - destruct (l_member l i) as [c|]; [|discriminate]. destruct (nth_error (l_offsets l) i) as [off|]; [|discriminate].
    destruct (lazy_force (parse c) off (l_ctx l) (l_path l) s) as [[w s2]|e q] eqn:E; [cbn|discriminate].
    intros E2. injection E2 as _ _ <-. eapply lazy_force_restores; eassumption.
Qed.

Corollary lazy_access_position l i s v l' s' :
  iseekable s = true -> lazy_access l i s = Ok (v, l', s') -> itell s' = itell s.
Proof. intros Hk E. rewrite (lazy_access_restores _ _ _ _ _ _ Hk E). reflexivity. Qed.

(* what an access may change: the cache, by one entry for the accessed index *)
Definition same_table (l0 l : lazyres) : Prop :=
  l_member l = l_member l0 /\ l_count l = l_count l0 /\ l_offsets l = l_offsets l0 /\ l_ctx l = l_ctx l0 /\ l_path l = l_path l0.

Lemma lazy_access_table l i s v l' s' : lazy_access l i s = Ok (v, l', s') -> same_table l l'.
Proof.
  unfold lazy_access. destruct (cache_get i (l_cache l)) as [w|].
  - intros E. injection E as _ <- _. repeat split.
  - destruct (l_member l i) as [c|]; [|discriminate]. destruct (nth_error (l_offsets l) i) as [off|]; [|discriminate].
    destruct (lazy_force (parse c) off (l_ctx l) (l_path l) s) as [[w s2]|e q]; [cbn|discriminate].
    intros E. injection E as _ <- _. repeat split.
Qed.

Lemma cache_get_cons i j v cache : cache_get j ((i, v) :: cache) = if Nat.eqb j i then Some v else cache_get j cache.
Proof. reflexivity. Qed.

(* ---- histories ---- *)

(* the reference: every access answered from the freshly parsed result l0, never from what happened since *)
Fixpoint spec_history (l0 : lazyres) (h : list nat) (s : istream) : list lout :=
  match h with
  | [] => []
  | i :: t =>
      match lazy_access l0 i s with
      | Ok (v, _, _) => LVal v (itell s) :: spec_history l0 t s
      | Err e _ => [LErr e]
      end
  end.

(* the invariant of a result that evolved from l0 by accesses on the stream s *)
Definition evolved (l0 : lazyres) (s : istream) (l : lazyres) : Prop :=
  same_table l0 l /\
  (forall j v, cache_get j (l_cache l0) = Some v -> cache_get j (l_cache l) = Some v) /\
  (forall j v, cache_get j (l_cache l) = Some v -> exists l', lazy_access l0 j s = Ok (v, l', s)).

Lemma evolved_refl l0 s : evolved l0 s l0.
Proof.
  split; [repeat split|]. split; [auto|]. intros j v E. exists l0. unfold lazy_access. rewrite E. reflexivity.
Qed.

(* an access on an evolved result answers as the fresh result would, and the result stays evolved *)
Lemma lazy_access_unfold l i s :
  lazy_access l i s =
  match cache_get i (l_cache l) with
  | Some v => Ok (v, l, s)
  | None =>
      match l_member l i, nth_error (l_offsets l) i with
      | Some c, Some off =>
          let* (v, s') := lazy_force (parse c) off (l_ctx l) (l_path l) s in
          Ok (v, mkLazy (l_member l) (l_count l) (l_offsets l) ((i, v) :: l_cache l) (l_ctx l) (l_path l), s')
      | _, _ => Err EKey None
      end
  end.
Proof. reflexivity. Qed.

Lemma evolved_access l0 s l i :
  iseekable s = true -> evolved l0 s l ->
  match lazy_access l i s with
  | Ok (v, l', s') => s' = s /\ evolved l0 s l' /\ exists l0', lazy_access l0 i s = Ok (v, l0', s)
  | Err e q => lazy_access l0 i s = Err e q
  end.
Proof.
  intros Hk ((Hm & Hc & Ho & Hx & Hp) & Hsub & Hval).
  destruct (lazy_access l i s) as [[[v l'] s']|e q] eqn:E.
  - pose proof (lazy_access_restores _ _ _ _ _ _ Hk E) as ->. split; [reflexivity|].
    rewrite lazy_access_unfold in E. destruct (cache_get i (l_cache l)) as [w|] eqn:Eg.
    + injection E as <- <-. split; [|apply Hval, Eg]. split; [repeat split; assumption|]. split; assumption.
    + rewrite Hm, Ho, Hx, Hp in E.
      destruct (l_member l0 i) as [c|] eqn:Em; [|discriminate]. destruct (nth_error (l_offsets l0) i) as [off|] eqn:Eo; [|discriminate].
      destruct (lazy_force (parse c) off (l_ctx l0) (l_path l0) s) as [[w s2]|e q] eqn:Ef; [cbn in E|discriminate].
      injection E as <- <- _.
      pose proof (lazy_force_restores _ _ _ _ _ _ _ Hk Ef) as ->.
      assert (Hfresh : exists l0', lazy_access l0 i s = Ok (w, l0', s)).
      { rewrite lazy_access_unfold. destruct (cache_get i (l_cache l0)) as [w0|] eqn:E0.
        - apply Hsub in E0. congruence.
        - rewrite Em, Eo, Ef. cbn. eexists. reflexivity. }
      split; [|exact Hfresh]. split; [repeat split; cbn; assumption|]. cbn [l_cache]. split.
      * intros j v Ej. rewrite cache_get_cons. destruct (Nat.eqb j i) eqn:Eji; [|apply Hsub, Ej].
        apply Nat.eqb_eq in Eji. subst j. apply Hsub in Ej. congruence.
      * intros j v. rewrite cache_get_cons. destruct (Nat.eqb j i) eqn:Eji; [|apply Hval].
        apply Nat.eqb_eq in Eji. subst j. intros Ev. injection Ev as <-. exact Hfresh.
  - rewrite lazy_access_unfold in E. rewrite lazy_access_unfold.
    destruct (cache_get i (l_cache l)) as [w|] eqn:Eg; [discriminate|].
    rewrite Hm, Ho, Hx, Hp in E.
    destruct (cache_get i (l_cache l0)) as [w0|] eqn:E0; [apply Hsub in E0; congruence|].
    destruct (l_member l0 i) as [c|]; [|exact E]. destruct (nth_error (l_offsets l0) i) as [off|]; [|exact E].
    destruct (lazy_force (parse c) off (l_ctx l0) (l_path l0) s) as [[w s2]|e1 q1]; [discriminate|]. exact E.
Qed.

Lemma lazy_history_evolved l0 s : iseekable s = true ->
  forall h l, evolved l0 s l -> lazy_history l h s = spec_history l0 h s.
Proof.
  intros Hk. induction h as [|i t IH]; intros l Hev; cbn [lazy_history spec_history]; [reflexivity|].
  pose proof (evolved_access l0 s l i Hk Hev) as Ha.
  destruct (lazy_access l i s) as [[[v l'] s']|e q].
  - destruct Ha as (-> & Hev' & l0' & E0). rewrite E0. f_equal. apply IH, Hev'.
  - rewrite Ha. reflexivity.
Qed.

(* C16, access order: whatever the history -- any order, any repetitions, any length -- each access returns what
   the first access of that member on the freshly parsed result returns, and the stream position never moves *)
Theorem lazy_history_order_independent l0 h s :
  iseekable s = true -> lazy_history l0 h s = spec_history l0 h s.
Proof. intros Hk. apply lazy_history_evolved; [exact Hk|apply evolved_refl]. Qed.

(* consequences spelled out: two histories agree on every member they both reach *)
Lemma spec_history_nth l0 s : forall h k i, nth_error h k = Some i ->
  (forall j, In j (firstn k h) -> exists v l', lazy_access l0 j s = Ok (v, l', s)) ->
  iseekable s = true ->
  nth_error (spec_history l0 h s) k =
    match lazy_access l0 i s with Ok (v, _, _) => Some (LVal v (itell s)) | Err e _ => Some (LErr e) end.
Proof.
  induction h as [|x t IH]; intros k i Hk Hpre Hs; [destruct k; discriminate|].
  destruct k as [|k]; cbn [nth_error] in Hk.
  - injection Hk as ->. cbn [spec_history]. destruct (lazy_access l0 i s) as [[[v l'] s']|e q]; reflexivity.
  - cbn [spec_history]. destruct (Hpre x) as (v & l' & E); [left; reflexivity|]. rewrite E. cbn [nth_error].
    apply IH; [exact Hk| |exact Hs]. intros j Hj. apply Hpre. right. exact Hj.
Qed.

(* the same member accessed at step k of one history and step k' of another returns the same value *)
Theorem lazy_value_history_independent l0 s h1 h2 k1 k2 i :
  iseekable s = true ->
  nth_error h1 k1 = Some i -> nth_error h2 k2 = Some i ->
  (forall j, In j (firstn k1 h1) -> exists v l', lazy_access l0 j s = Ok (v, l', s)) ->
  (forall j, In j (firstn k2 h2) -> exists v l', lazy_access l0 j s = Ok (v, l', s)) ->
  nth_error (lazy_history l0 h1 s) k1 = nth_error (lazy_history l0 h2 s) k2.
Proof.
  intros Hs H1 H2 P1 P2. rewrite !lazy_history_order_independent by exact Hs.
  rewrite (spec_history_nth l0 s h1 k1 i H1 P1 Hs), (spec_history_nth l0 s h2 k2 i H2 P2 Hs). reflexivity.
Qed.

(* every position reported along a history is the position the parse left *)
Theorem lazy_history_positions l0 h s : iseekable s = true ->
  Forall (fun o => match o with LVal _ pos => pos = itell s | LErr _ => True end) (lazy_history l0 h s).
Proof.
  intros Hs. rewrite lazy_history_order_independent by exact Hs.
  induction h as [|i t IH]; cbn [spec_history]; [constructor|].
  destruct (lazy_access l0 i s) as [[[v l'] s']|e q]; constructor; auto.
Qed.

(* ---- the parse itself ---- *)

(* the result's stream is the parse's stream with another position; the table has one offset per member plus the end *)
Lemma lazy_scan_struct_offsets cs : forall p i off cx s offs cache i' off' cx' s' offs' cache',
  lazy_scan_struct parse cs p (i, off, cx, s, offs, cache) = Ok (i', off', cx', s', offs', cache') ->
  length offs' = (length offs + length cs)%nat /\ i' = (i + length cs)%nat.
Proof.
  induction cs as [|c t IH]; intros p i off cx s offs cache i' off' cx' s' offs' cache'; cbn [lazy_scan_struct].
  - intros E. injection E as <- _ _ _ <- _. cbn. lia.
  - unfold lazy_step. destruct (actualsize_with parse c cx p s) as [n|e q].
    + destruct (iseek s (off + n) 0 p) as [[r s1]|e1 q1]; [cbn|discriminate]. intros E. apply IH in E.
      rewrite app_length in E. cbn in *. lia.
    + destruct e; try discriminate. destruct (iseek s off 0 p) as [[r s0]|e1 q1]; [cbn|discriminate].
      destruct (parse c cx p s0) as [[v s1]|e2 q2]; [cbn|discriminate]. intros E. apply IH in E.
      rewrite app_length in E. cbn in *. lia.
Qed.

Lemma lazy_scan_array_offsets Pc Ac : forall n p i off cx s offs cache i' off' cx' s' offs' cache',
  lazy_scan_array Pc Ac n p (i, off, cx, s, offs, cache) = Ok (i', off', cx', s', offs', cache') ->
  length offs' = (length offs + n)%nat /\ i' = (i + n)%nat.
Proof.
  induction n as [|n IH]; intros p i off cx s offs cache i' off' cx' s' offs' cache'; cbn [lazy_scan_array].
  - intros E. injection E as <- _ _ _ <- _. lia.
  - unfold lazy_step. destruct (Ac cx p s) as [k|e q].
    + destruct (iseek s (off + k) 0 p) as [[r s1]|e1 q1]; [cbn|discriminate]. intros E. apply IH in E.
      rewrite app_length in E. cbn in *. lia.
    + destruct e; try discriminate. destruct (iseek s off 0 p) as [[r s0]|e1 q1]; [cbn|discriminate].
      destruct (Pc cx p s0) as [[v s1]|e2 q2]; [cbn|discriminate]. intros E. apply IH in E.
      rewrite app_length in E. cbn in *. lia.
Qed.

(* every member of a parsed lazy result has an offset: an access never fails for lack of one *)
Theorem lazy_parse_table_complete c cx p s l s' :
  lazy_parse c cx p s = Ok (l, s') -> length (l_offsets l) = S (l_count l) /\ sb s s'.
Proof.
  unfold lazy_parse. destruct c; try discriminate.
  - (* LazyStruct *)
    match goal with |- context [lazy_scan_struct parse ?cs ?pp ?st] =>
      pose proof (fr_lazy_scan_struct cs (proj2 (Forall_forall _ _) (fun c _ => parse_frame c)) pp s st (sb_refl s)) as Hf;
      destruct (lazy_scan_struct parse cs pp st) as [[[[[[i off] cx1] s1] offs] cache]|e q] eqn:E end; [cbn|discriminate].
    intros E2. injection E2 as <- <-. cbn [l_offsets l_count]. apply lazy_scan_struct_offsets in E. cbn in E. split; [lia|exact Hf].
  - (* LazyArray *)
    destruct (eval_int cx count) as [n|e q]; [cbn|discriminate]. destruct (n <? 0)%Z; [discriminate|].
    destruct (alloc_bound <? n)%Z; [discriminate|].
    match goal with |- context [lazy_scan_array ?P ?A ?k ?pp ?st] =>
      pose proof (fr_lazy_scan_array P A (parse_frame _) k pp s st (sb_refl s)) as Hf;
      destruct (lazy_scan_array P A k pp st) as [[[[[[i off] cx1] s1] offs] cache]|e q] eqn:E end; [cbn|discriminate].
    intros E2. injection E2 as <- <-. cbn [l_offsets l_count]. apply lazy_scan_array_offsets in E. cbn in E. split; [lia|exact Hf].
Qed.

(* ---- non-vacuity: a concrete result, a concrete history ---- *)
Definition ex_struct : con :=
  CLazyStruct [CRenamed [x61] (CFormat Big FB); CRenamed [x62] CVarInt; CRenamed [x63] (CFormat Big FH)].
Definition ex_data : bytes := [x07; x81; x02; x01; x00; xff].

Example lazy_history_example :
  lazy_run ex_struct [] ex_data 0 [2; 0; 1; 1; 2; 0]%nat
  = Ok (5%Z, [LVal (VInt 256) 5; LVal (VInt 7) 5; LVal (VInt 257) 5; LVal (VInt 257) 5; LVal (VInt 256) 5; LVal (VInt 7) 5]).
Proof. vm_compute. reflexivity. Qed.

(* ---- LazyArray against the eager Array ---- *)
Require Import RTFacts.
Local Open Scope nat_scope.

(* what the element must satisfy: it does not read _index (LazyArray does not set it), and when its size can be
   measured the measure is what parsing consumes; measuring fails only with SizeofError *)
Definition elem_ok (c : con) : Prop :=
  (forall i cx p s, parse c (ctx_set_index cx i) p s = parse c cx p s) /\
  (forall cx p s v s', parse c cx p s = Ok (v, s') ->
      match actualsize_with parse c cx p s with
      | Ok n => itell s' = (itell s + n)%Z
      | Err ESizeof _ => True
      | Err _ _ => False
      end).

Inductive arr_trace (c : con) (cx : ctx) (p : path) : istream -> list val -> istream -> Prop :=
| at_nil s : arr_trace c cx p s [] s
| at_cons s v s1 vs s' : parse c cx p s = Ok (v, s1) -> arr_trace c cx p s1 vs s' -> arr_trace c cx p s (v :: vs) s'.

Lemma arr_trace_sb c cx p s vs s' : arr_trace c cx p s vs s' -> sb s s'.
Proof.
  induction 1 as [s|s v s1 vs s' E _ IH]; [apply sb_refl|].
  eapply sb_trans; [|exact IH]. pose proof (parse_frame c cx p s s (sb_refl s)) as H. rewrite E in H. exact H.
Qed.

Lemma miter_count_trace c cx p : (forall i cx p s, parse c (ctx_set_index cx i) p s = parse c cx p s) ->
  forall k i acc s i' acc' s', miter (count_step (parse c) cx p) k (i, acc, s) = Ok (i', acc', s') ->
  exists vs, acc' = rev vs ++ acc /\ length vs = k /\ arr_trace c cx p s vs s'.
Proof.
  intros Hi. induction k as [|k IH]; intros i acc s i' acc' s'; cbn [miter].
  - intros E. injection E as _ <- <-. exists []. repeat split. constructor.
  - unfold count_step at 1. rewrite Hi. destruct (parse c cx p s) as [[v s1]|e q] eqn:Ep; [cbn [bind]|discriminate].
    intros E. apply IH in E. destruct E as (vs & -> & Hl & Ht). exists (v :: vs). cbn [rev length]. rewrite <- app_assoc. cbn.
    repeat split; [congruence|]. econstructor; eassumption.
Qed.

Lemma count_loop_trace c cx p n s vs s' : (forall i cx p s, parse c (ctx_set_index cx i) p s = parse c cx p s) ->
  count_loop (parse c) n cx p s = Ok (vs, s') -> arr_trace c cx p s vs s' /\ length vs = N.to_nat n.
Proof.
  intros Hi. unfold count_loop. rewrite iter_N_miter.
  destruct (miter (count_step (parse c) cx p) (N.to_nat n) (0%Z, [], s)) as [[[i acc] s1]|e q] eqn:E; [cbn [bind]|discriminate].
  intros E2. injection E2 as <- <-. apply (miter_count_trace c cx p Hi) in E. destruct E as (vs & -> & Hl & Ht).
  rewrite app_nil_r, rev_involutive. split; assumption.
Qed.

Lemma cache_get_app j cache i v :
  cache_get j (cache ++ [(i, v)]) = match cache_get j cache with Some w => Some w | None => if Nat.eqb j i then Some v else None end.
Proof.
  induction cache as [|[k w] t IH]; cbn [app cache_get]; [reflexivity|]. destruct (Nat.eqb j k); [reflexivity|exact IH].
Qed.

Lemma iseek_to s s1 p : iseekable s = true -> sb s s1 -> iseek s (itell s1) 0 p = Ok (itell s1, s1).
Proof.
  intros Hk H. apply iseek_restores; [|apply sb_sym, H]. destruct H as (_ & _ & H3). congruence.
Qed.

Lemma scan_trace c cx p : elem_ok c ->
  forall s vs s', arr_trace c cx p s vs s' -> iseekable s = true ->
  forall i offs cache, length offs = S i -> nth_error offs i = Some (itell s) ->
  (forall j, i <= j -> cache_get j cache = None) ->
  exists offs' cache',
    lazy_scan_array (parse c) (actualsize_with parse c) (length vs) p (i, itell s, cx, s, offs, cache)
      = Ok ((i + length vs)%nat, itell s', cx, s', offs', cache') /\
    length offs' = S (i + length vs) /\
    (forall j, j <= i -> nth_error offs' j = nth_error offs j) /\
    (forall j, j < i -> cache_get j cache' = cache_get j cache) /\
    (forall m v, nth_error vs m = Some v ->
       cache_get (i + m) cache' = Some v \/
       (cache_get (i + m) cache' = None /\
        exists sm sm1, nth_error offs' (i + m) = Some (itell sm) /\ sb s sm /\ parse c cx p sm = Ok (v, sm1))).
Proof.
  intros [Hi Hsz]. induction 1 as [s|s v s1 vs s' Ep Ht IH]; intros Hk i offs cache Hlen Hlast Hnone.
  - exists offs, cache. cbn [length lazy_scan_array]. rewrite Nat.add_0_r. repeat split; auto.
    intros m v E. destruct m; discriminate.
  - pose proof (parse_frame c cx p s s (sb_refl s)) as Hf. rewrite Ep in Hf. cbn [fr] in Hf.
    assert (Hk1 : iseekable s1 = true) by (destruct Hf as (_ & _ & H3); congruence).
    cbn [length lazy_scan_array]. unfold lazy_step. specialize (Hsz cx p s v s1 Ep).
    destruct (actualsize_with parse c cx p s) as [n|e q].
    + (* measured: skipped *)
      rewrite <- Hsz. rewrite (iseek_to s s1 p Hk Hf). cbn [bind].
      destruct (IH Hk1 (S i) (offs ++ [itell s1]) cache) as (offs' & cache' & Es & Hl' & Hpre & Hc & Hm).
      { rewrite app_length. cbn. lia. }
      { rewrite nth_error_app2 by lia. rewrite Hlen, Nat.sub_diag. reflexivity. }
      { intros j Hj. apply Hnone. lia. }
      exists offs', cache'. replace (i + S (length vs))%nat with (S i + length vs)%nat by lia.
      split; [exact Es|]. split; [exact Hl'|]. split; [|split].
      * intros j Hj. rewrite Hpre by lia. apply nth_error_app1. lia.
      * intros j Hj. apply Hc. lia.
      * intros m w Em. destruct m as [|m]; cbn [nth_error] in Em.
        -- injection Em as <-. right. rewrite Nat.add_0_r. split; [rewrite Hc by lia; apply Hnone; lia|].
           exists s, s1. split; [|split; [apply sb_refl|exact Ep]]. rewrite Hpre by lia. rewrite nth_error_app1 by lia. exact Hlast.
        -- replace (i + S m)%nat with (S i + m)%nat by lia. destruct (Hm m w Em) as [Hl|(Hn & sm & sm1 & Ho & Hsb & Epm)]; [left; exact Hl|].
           right. split; [exact Hn|]. exists sm, sm1. split; [exact Ho|]. split; [eapply sb_trans; eassumption|exact Epm].
    + (* not measurable: parsed at once, cached *)
      destruct e; try contradiction.
      rewrite (iseek_restores s s p Hk (sb_refl s)). cbn [bind]. rewrite Ep. cbn [bind].
      destruct (IH Hk1 (S i) (offs ++ [itell s1]) (cache ++ [(i, v)])) as (offs' & cache' & Es & Hl' & Hpre & Hc & Hm).
      { rewrite app_length. cbn. lia. }
      { rewrite nth_error_app2 by lia. rewrite Hlen, Nat.sub_diag. reflexivity. }
      { intros j Hj. rewrite cache_get_app, Hnone by lia. destruct (Nat.eqb j i) eqn:E; [apply Nat.eqb_eq in E; lia|reflexivity]. }
      exists offs', cache'. replace (i + S (length vs))%nat with (S i + length vs)%nat by lia.
      split; [exact Es|]. split; [exact Hl'|]. split; [|split].
      * intros j Hj. rewrite Hpre by lia. apply nth_error_app1. lia.
      * intros j Hj. rewrite Hc by lia. rewrite cache_get_app. destruct (cache_get j cache); [reflexivity|].
        destruct (Nat.eqb j i) eqn:E; [apply Nat.eqb_eq in E; lia|reflexivity].
      * intros m w Em. destruct m as [|m]; cbn [nth_error] in Em.
        -- injection Em as <-. left. rewrite Nat.add_0_r. rewrite Hc by lia. rewrite cache_get_app, Hnone by lia. rewrite Nat.eqb_refl. reflexivity.
        -- replace (i + S m)%nat with (S i + m)%nat by lia. destruct (Hm m w Em) as [Hl|(Hn & sm & sm1 & Ho & Hsb & Epm)]; [left; exact Hl|].
           right. split; [exact Hn|]. exists sm, sm1. split; [exact Ho|]. split; [eapply sb_trans; eassumption|exact Epm].
Qed.

(* C16 for LazyArray: whenever the eager Array parses, LazyArray parses to the same final stream, and every element,
   first accessed at any later time, is the eager element *)
Theorem lazyarray_matches_array count c cx p s vs s_e :
  iseekable s = true -> elem_ok c ->
  (forall n, eval_int cx count = Ok n -> (n <= alloc_bound)%Z) ->
  parse (CArray count c) cx p s = Ok (VList vs, s_e) ->
  exists l, lazy_parse (CLazyArray count c) cx p s = Ok (l, s_e) /\ l_count l = length vs /\
            forall i v, nth_error vs i = Some v -> exists l', lazy_access l i s_e = Ok (v, l', s_e).
Proof.
  intros Hk Hok Hb. cbn [parse lazy_parse]. destruct (eval_int cx count) as [n|e q] eqn:En; [cbn [bind]|discriminate].
  destruct (n <? 0)%Z eqn:En0; [discriminate|]. specialize (Hb n eq_refl).
  destruct (alloc_bound <? n)%Z eqn:Eb; [lia|].
  destruct (count_loop (parse c) (Z.to_N n) cx p s) as [[vs0 s0]|e q] eqn:Ec; [cbn [bind]|discriminate].
  intros E. injection E as -> ->.
  destruct (count_loop_trace c cx p _ _ _ _ (proj1 Hok) Ec) as (Ht & Hl).
  destruct (scan_trace c cx p Hok s vs s_e Ht Hk 0%nat [itell s] [] eq_refl eq_refl (fun _ _ => eq_refl))
    as (offs' & cache' & Es & Hlen & Hpre & Hc & Hm).
  replace (Z.to_nat n) with (length vs) by lia. cbn [Nat.add] in Es. rewrite Es. cbn [bind].
  eexists. split; [reflexivity|]. cbn [l_count]. split; [reflexivity|].
  intros i v Ei. rewrite lazy_access_unfold. cbn [l_cache l_member l_offsets l_ctx l_path].
  destruct (Hm i v Ei) as [Hhit|(Hmiss & sm & sm1 & Ho & Hsb & Ep)]; cbn [Nat.add] in *.
  - rewrite Hhit. eexists. reflexivity.
  - rewrite Hmiss. assert (Hlt : (i < length vs)%nat) by (apply nth_error_Some; congruence).
    apply Nat.ltb_lt in Hlt. rewrite Hlt. rewrite Ho. unfold lazy_force.
    pose proof (arr_trace_sb _ _ _ _ _ _ Ht) as Hse.
    assert (Hke : iseekable s_e = true) by (destruct Hse as (_ & _ & H3); congruence).
    assert (Hsm : sb s_e sm) by (eapply sb_trans; [apply sb_sym, Hse|exact Hsb]).
    rewrite (iseek_to s_e sm p Hke Hsm). cbn [bind]. rewrite Ep. cbn [bind].
    pose proof (parse_frame c cx p sm sm (sb_refl sm)) as Hf. rewrite Ep in Hf. cbn [fr] in Hf.
    rewrite (iseek_restores s_e sm1 p Hke (sb_trans _ _ _ Hsm Hf)). cbn [bind]. eexists. reflexivity.
Qed.

(* the hypothesis is satisfiable: fixed-size integers (measured, skipped) and VarInt (not measurable, parsed at once) *)
Lemma elem_ok_format en f : elem_ok (CFormat en f).
Proof.
  split; [reflexivity|]. intros cx p s v s'. cbn [parse actualsize_with sizeof]. unfold parse_format, iread.
  destruct (Z.of_nat (fcode_size f) <? 0)%Z eqn:E0; [discriminate|].
  destruct (Z.of_nat (length (iavail s)) <? Z.of_nat (fcode_size f))%Z; [discriminate|]. cbn [bind].
  destruct (fcode_float f); intros E; injection E as _ <-; unfold itell, iset_pos; cbn; lia.
Qed.

Lemma elem_ok_varint : elem_ok CVarInt.
Proof. split; [reflexivity|]. intros cx p s v s' _. exact I. Qed.

Example lazyarray_example :
  lazy_run (CLazyArray (XConst (VInt 3)) CVarInt) [] [x81; x01; x05; xff; x7f] 0 [2; 0; 2; 1]%nat
  = Ok (5%Z, [LVal (VInt 16383) 5; LVal (VInt 129) 5; LVal (VInt 16383) 5; LVal (VInt 5) 5]).
Proof. vm_compute. reflexivity. Qed.

(* ---- LazyStruct against the eager Struct ---- *)

(* what a member must satisfy: it does not read the context (no references to siblings or outer fields), it is not a
   StopIf, and when its size can be measured the measure is what parsing consumes; measuring fails only with SizeofError *)
Definition member_ok (c : con) : Prop :=
  is_stopif c = false /\
  (forall cx cx' p s, parse c cx p s = parse c cx' p s) /\
  (forall cx cx' p s, actualsize_with parse c cx p s = actualsize_with parse c cx' p s) /\
  (forall cx p s v s', parse c cx p s = Ok (v, s') ->
      match actualsize_with parse c cx p s with
      | Ok n => itell s' = (itell s + n)%Z
      | Err ESizeof _ => True
      | Err _ _ => False
      end).

(* the eager run, member by member: (member, stream before, value, stream after) *)
Inductive struct_trace (cx : ctx) (p : path) : list con -> istream -> list val -> istream -> Prop :=
| st_nil s : struct_trace cx p [] s [] s
| st_cons c t s v s1 vs s' : parse c cx p s = Ok (v, s1) -> struct_trace cx p t s1 vs s' -> struct_trace cx p (c :: t) s (v :: vs) s'.

Lemma struct_trace_sb cx p cs s vs s' : struct_trace cx p cs s vs s' -> sb s s'.
Proof.
  induction 1 as [s|c t s v s1 vs s' E _ IH]; [apply sb_refl|].
  eapply sb_trans; [|exact IH]. pose proof (parse_frame c cx p s s (sb_refl s)) as H. rewrite E in H. exact H.
Qed.

Lemma struct_trace_length cx p cs s vs s' : struct_trace cx p cs s vs s' -> length vs = length cs.
Proof. induction 1; cbn; congruence. Qed.

(* the eager Struct loop, when it succeeds over members that are not StopIf, is such a run (in any context) *)
Lemma struct_loop_trace cx0 cs : Forall member_ok cs -> forall cx p acc s kv cx' s',
  struct_loop parse cs cx p acc s = Ok (kv, cx', s') -> exists vs, struct_trace cx0 p cs s vs s'.
Proof.
  induction 1 as [|c t (Hstop & Hctx & _) Ht IH]; intros cx p acc s kv cx' s'; cbn [struct_loop].
  - intros E. injection E as _ _ <-. exists []. constructor.
  - destruct (parse c cx p s) as [[v s1]|e q] eqn:Ep.
    + intros E. assert (E' : exists vs, struct_trace cx0 p t s1 vs s') by (destruct (name_of c); eapply IH; exact E).
      destruct E' as (vs & Hv). exists (v :: vs). econstructor; [rewrite (Hctx cx0 cx); exact Ep|exact Hv].
    + destruct e; try discriminate. rewrite Hstop. discriminate.
Qed.

Lemma lazy_scan_struct_trace cx p : forall cs, Forall member_ok cs ->
  forall s vs s', struct_trace cx p cs s vs s' -> iseekable s = true ->
  forall i offs cache cxl, length offs = S i -> nth_error offs i = Some (itell s) ->
  (forall j, i <= j -> cache_get j cache = None) ->
  exists offs' cache' cxl',
    lazy_scan_struct parse cs p (i, itell s, cxl, s, offs, cache) = Ok ((i + length cs)%nat, itell s', cxl', s', offs', cache') /\
    length offs' = S (i + length cs) /\
    (forall j, j <= i -> nth_error offs' j = nth_error offs j) /\
    (forall j, j < i -> cache_get j cache' = cache_get j cache) /\
    (forall m c v, nth_error cs m = Some c -> nth_error vs m = Some v ->
       cache_get (i + m) cache' = Some v \/
       (cache_get (i + m) cache' = None /\
        exists sm sm1, nth_error offs' (i + m) = Some (itell sm) /\ sb s sm /\ parse c cx p sm = Ok (v, sm1))).
Proof.
  intros cs Hok. induction Hok as [|c t (Hstop & Hctx & Hact & Hsz) Ht IH]; intros s vs s' Htr Hk i offs cache cxl Hlen Hlast Hnone.
  - inversion Htr; subst. exists offs, cache, cxl. cbn [length lazy_scan_struct]. rewrite Nat.add_0_r. repeat split; auto.
    intros m c v E. destruct m; discriminate.
  - inversion Htr as [|c0 t0 s0 v s1 vs0 s0' Ep Htr']; subst.
    pose proof (parse_frame c cx p s s (sb_refl s)) as Hf. rewrite Ep in Hf. cbn [fr] in Hf.
    assert (Hk1 : iseekable s1 = true) by (destruct Hf as (_ & _ & H3); congruence).
    cbn [length lazy_scan_struct]. unfold lazy_step. specialize (Hsz cx p s v s1 Ep). rewrite (Hact cxl cx).
    destruct (actualsize_with parse c cx p s) as [n|e q].
    + rewrite <- Hsz. rewrite (iseek_to s s1 p Hk Hf). cbn [bind].
      destruct (IH s1 vs0 s' Htr' Hk1 (S i) (offs ++ [itell s1]) cache cxl) as (offs' & cache' & cxl' & Es & Hl' & Hpre & Hc & Hm).
      { rewrite app_length. cbn. lia. }
      { rewrite nth_error_app2 by lia. rewrite Hlen, Nat.sub_diag. reflexivity. }
      { intros j Hj. apply Hnone. lia. }
      exists offs', cache', cxl'. replace (i + S (length t))%nat with (S i + length t)%nat by lia.
      split; [exact Es|]. split; [exact Hl'|]. split; [|split].
      * intros j Hj. rewrite Hpre by lia. apply nth_error_app1. lia.
      * intros j Hj. apply Hc. lia.
      * intros m c' w Ec Em. destruct m as [|m]; cbn [nth_error] in Ec, Em.
        -- injection Ec as <-. injection Em as <-. right. rewrite Nat.add_0_r. split; [rewrite Hc by lia; apply Hnone; lia|].
           exists s, s1. split; [|split; [apply sb_refl|exact Ep]]. rewrite Hpre by lia. rewrite nth_error_app1 by lia. exact Hlast.
        -- replace (i + S m)%nat with (S i + m)%nat by lia. destruct (Hm m c' w Ec Em) as [Hl|(Hn & sm & sm1 & Ho & Hsb & Epm)]; [left; exact Hl|].
           right. split; [exact Hn|]. exists sm, sm1. split; [exact Ho|]. split; [eapply sb_trans; eassumption|exact Epm].
    + destruct e; try contradiction.
      rewrite (iseek_restores s s p Hk (sb_refl s)). cbn [bind]. rewrite (Hctx cxl cx), Ep. cbn [bind].
      match goal with |- context [lazy_scan_struct parse t p (S i, itell s1, ?cxn, s1, _, _)] => set (cxl1 := cxn) end.
      destruct (IH s1 vs0 s' Htr' Hk1 (S i) (offs ++ [itell s1]) (cache ++ [(i, v)]) cxl1) as (offs' & cache' & cxl' & Es & Hl' & Hpre & Hc & Hm).
      { rewrite app_length. cbn. lia. }
      { rewrite nth_error_app2 by lia. rewrite Hlen, Nat.sub_diag. reflexivity. }
      { intros j Hj. rewrite cache_get_app, Hnone by lia. destruct (Nat.eqb j i) eqn:E; [apply Nat.eqb_eq in E; lia|reflexivity]. }
      exists offs', cache', cxl'. replace (i + S (length t))%nat with (S i + length t)%nat by lia.
      split; [exact Es|]. split; [exact Hl'|]. split; [|split].
      * intros j Hj. rewrite Hpre by lia. apply nth_error_app1. lia.
      * intros j Hj. rewrite Hc by lia. rewrite cache_get_app. destruct (cache_get j cache); [reflexivity|].
        destruct (Nat.eqb j i) eqn:E; [apply Nat.eqb_eq in E; lia|reflexivity].
      * intros m c' w Ec Em. destruct m as [|m]; cbn [nth_error] in Ec, Em.
        -- injection Ec as <-. injection Em as <-. left. rewrite Nat.add_0_r. rewrite Hc by lia. rewrite cache_get_app, Hnone by lia. rewrite Nat.eqb_refl. reflexivity.
        -- replace (i + S m)%nat with (S i + m)%nat by lia. destruct (Hm m c' w Ec Em) as [Hl|(Hn & sm & sm1 & Ho & Hsb & Epm)]; [left; exact Hl|].
           right. split; [exact Hn|]. exists sm, sm1. split; [exact Ho|]. split; [eapply sb_trans; eassumption|exact Epm].
Qed.

(* C16 for LazyStruct: whenever the eager Struct parses, LazyStruct parses to the same final stream, and every member,
   whenever first accessed, is the value the eager parse gave that member *)
Theorem lazystruct_matches_struct cs cx p s kv s_e :
  iseekable s = true -> Forall member_ok cs ->
  parse (CStruct cs) cx p s = Ok (VDict kv, s_e) ->
  exists l vs, lazy_parse (CLazyStruct cs) cx p s = Ok (l, s_e) /\ l_count l = length cs /\
               struct_trace (push_scope cx) p cs s vs s_e /\
               forall i v, nth_error vs i = Some v -> exists l', lazy_access l i s_e = Ok (v, l', s_e).
Proof.
  intros Hk Hok. cbn [parse lazy_parse].
  destruct (struct_loop parse cs (push_scope cx) p [] s) as [[[kv0 cx1] s0]|e q] eqn:El; [cbn [bind]|discriminate].
  intros E. injection E as -> ->.
  destruct (struct_loop_trace (push_scope cx) cs Hok _ _ _ _ _ _ _ El) as (vs & Htr).
  destruct (lazy_scan_struct_trace (push_scope cx) p cs Hok s vs s_e Htr Hk 0%nat [itell s] [] (push_scope cx) eq_refl eq_refl (fun _ _ => eq_refl))
    as (offs' & cache' & cxl' & Es & Hlen & Hpre & Hc & Hm).
  cbn [Nat.add] in Es. rewrite Es. cbn [bind].
  eexists. exists vs. split; [reflexivity|]. cbn [l_count]. split; [reflexivity|]. split; [exact Htr|].
  intros i v Ei. rewrite lazy_access_unfold. cbn [l_cache l_member l_offsets l_ctx l_path].
  assert (Hlt : (i < length cs)%nat) by (rewrite <- (struct_trace_length _ _ _ _ _ _ Htr); apply nth_error_Some; congruence).
  destruct (nth_error cs i) as [c|] eqn:Eci; [|apply nth_error_None in Eci; lia].
  destruct (Hm i c v Eci Ei) as [Hhit|(Hmiss & sm & sm1 & Ho & Hsb & Ep)]; cbn [Nat.add] in *.
  - rewrite Hhit. eexists. reflexivity.
  - rewrite Hmiss, Ho. unfold lazy_force.
    pose proof (struct_trace_sb _ _ _ _ _ _ Htr) as Hse.
    assert (Hke : iseekable s_e = true) by (destruct Hse as (_ & _ & H3); congruence).
    assert (Hsm : sb s_e sm) by (eapply sb_trans; [apply sb_sym, Hse|exact Hsb]).
    rewrite (iseek_to s_e sm p Hke Hsm). cbn [bind].
    assert (Hci : member_ok c) by (rewrite Forall_forall in Hok; apply Hok; eapply nth_error_In; exact Eci).
    destruct Hci as (_ & Hctx & _). rewrite (Hctx cxl' (push_scope cx)), Ep. cbn [bind].
    pose proof (parse_frame c (push_scope cx) p sm sm (sb_refl sm)) as Hf. rewrite Ep in Hf. cbn [fr] in Hf.
    rewrite (iseek_restores s_e sm1 p Hke (sb_trans _ _ _ Hsm Hf)). cbn [bind]. eexists. reflexivity.
Qed.

(* the member hypothesis is satisfiable: fixed-size integers / floats (also under a name), VarInt *)
Lemma member_ok_format en f : member_ok (CFormat en f).
Proof.
  split; [reflexivity|]. split; [reflexivity|]. split; [reflexivity|]. apply (proj2 (elem_ok_format en f)).
Qed.
Lemma member_ok_varint : member_ok CVarInt.
Proof. split; [reflexivity|]. split; [reflexivity|]. split; [reflexivity|]. intros cx p s v s' _. exact I. Qed.
Lemma member_ok_named_format n en f : member_ok (CRenamed n (CFormat en f)).
Proof.
  split; [reflexivity|]. split; [reflexivity|]. split; [reflexivity|].
  intros cx p s v s'. cbn [parse actualsize_with sizeof]. apply (proj2 (elem_ok_format en f) cx (p ++ [n]) s v s').
Qed.
Lemma member_ok_named_varint n : member_ok (CRenamed n CVarInt).
Proof. split; [reflexivity|]. split; [reflexivity|]. split; [reflexivity|]. intros cx p s v s' _. exact I. Qed.

Example lazystruct_members_example :
  Forall member_ok [CRenamed [x61] (CFormat Big FB); CRenamed [x62] CVarInt; CRenamed [x63] (CFormat Big FH)].
Proof. repeat constructor; first [apply member_ok_named_format | apply member_ok_named_varint]. Qed.
