(* Constants, validators, label mappings (C13); RawCopy and Checksum (C14): facts read off the
   interpreters for every sub-construct, context and input. *)
From Coq Require Import ZArith NArith List Bool Lia ZifyBool ZifyN ZifyNat.
From Coq Require Import Strings.Byte.
Require Import Bytes Value Expr Codec Float Stream Syntax Sizeof Parse Build StreamFacts RegionFacts.
Import ListNotations.

(* ---- Const ---- *)
Theorem const_parse_iff : forall k c cx p s v s',
  parse (CConst k c) cx p s = Ok (v, s') <-> (parse c cx p s = Ok (v, s') /\ val_eqb v k = true).
Proof.
  intros. cbn [parse]. destruct (parse c cx p s) as [[w s1]|e q]; cbn [bind].
  - destruct (val_eqb w k) eqn:E; split.
    + intros H. injection H as <- <-. auto.
    + intros [H _]. exact H.
    + discriminate.
    + intros [H H2]. injection H as <- <-. congruence.
  - split; [discriminate|intros [H _]; discriminate].
Qed.

Theorem const_parse_rejects : forall k c cx p s w s1,
  parse c cx p s = Ok (w, s1) -> val_eqb w k = false -> parse (CConst k c) cx p s = Err EConst (Some p).
Proof. intros. cbn [parse]. rewrite H. cbn [bind]. rewrite H0. reflexivity. Qed.

(* build always emits the encoding of the constant, and refuses any other supplied value *)
Theorem const_build : forall k c obj cx p o,
  build (CConst k c) obj cx p o =
  match obj with
  | VNone => build c k cx p o
  | _ => if val_eqb obj k then build c k cx p o else Err EConst (Some p)
  end.
Proof. intros. cbn [build]. destruct obj; reflexivity. Qed.

(* ---- validators: admitted on parse iff the predicate holds iff admitted on build ---- *)
Theorem oneof_parse : forall c vs cx p s v s',
  parse (COneOf c vs) cx p s = Ok (v, s') <-> (parse c cx p s = Ok (v, s') /\ oneof_mem v vs = Ok true).
Proof.
  intros. cbn [parse]. destruct (parse c cx p s) as [[w s1]|e q]; cbn [bind].
  - destruct (oneof_mem w vs) as [[|]|] eqn:E; cbn [bind]; split; try discriminate.
    + intros H. injection H as <- <-. auto.
    + intros [H _]. exact H.
    + intros [H H2]. injection H as <- <-. congruence.
    + intros [H H2]. injection H as <- <-. congruence.
  - split; [discriminate|intros [H _]; discriminate].
Qed.

Theorem oneof_build : forall c vs obj cx p o r o',
  build (COneOf c vs) obj cx p o = Ok (r, o') -> oneof_mem obj vs = Ok true /\ r = obj.
Proof.
  intros. cbn [build] in H. destruct (oneof_mem obj vs) as [[|]|]; cbn [bind] in H; try discriminate.
  destruct (build c obj cx p o) as [[x o1]|]; cbn [bind] in H; [|discriminate]. injection H as <- <-. auto.
Qed.

Theorem noneof_parse : forall c vs cx p s v s',
  parse (CNoneOf c vs) cx p s = Ok (v, s') <-> (parse c cx p s = Ok (v, s') /\ oneof_mem v vs = Ok false).
Proof.
  intros. cbn [parse]. destruct (parse c cx p s) as [[w s1]|e q]; cbn [bind].
  - destruct (oneof_mem w vs) as [[|]|] eqn:E; cbn [bind]; split; try discriminate.
    + intros [H H2]. injection H as <- <-. congruence.
    + intros H. injection H as <- <-. auto.
    + intros [H _]. exact H.
    + intros [H H2]. injection H as <- <-. congruence.
  - split; [discriminate|intros [H _]; discriminate].
Qed.

Theorem noneof_build : forall c vs obj cx p o r o',
  build (CNoneOf c vs) obj cx p o = Ok (r, o') -> oneof_mem obj vs = Ok false /\ r = obj.
Proof.
  intros. cbn [build] in H. destruct (oneof_mem obj vs) as [[|]|]; cbn [bind] in H; try discriminate.
  destruct (build c obj cx p o) as [[x o1]|]; cbn [bind] in H; [|discriminate]. injection H as <- <-. auto.
Qed.

Theorem exprvalidator_parse : forall c e cx p s v s',
  parse (CExprValidator c e) cx p s = Ok (v, s') ->
  parse c cx p s = Ok (v, s') /\ exists t, eval_obj cx v None e = Ok t /\ truthy t = true.
Proof.
  intros. cbn [parse] in H. destruct (parse c cx p s) as [[w s1]|]; cbn [bind] in H; [|discriminate].
  destruct (eval_obj cx w None e) as [t|] eqn:E; cbn [bind] in H; [|discriminate].
  destruct (truthy t) eqn:T; [|discriminate]. injection H as <- <-. split; [reflexivity|]. exists t. auto.
Qed.

Theorem exprvalidator_build : forall c e obj cx p o r o',
  build (CExprValidator c e) obj cx p o = Ok (r, o') ->
  exists t, eval_obj cx obj None e = Ok t /\ truthy t = true.
Proof.
  intros. cbn [build] in H. destruct (eval_obj cx obj None e) as [t|] eqn:E; cbn [bind] in H; [|discriminate].
  destruct (truthy t) eqn:T; [|discriminate]. exists t. auto.
Qed.

(* Check evaluates the same expression in both directions *)
Theorem check_symmetric : forall e cx p s o obj,
  (exists v, parse (CCheck e) cx p s = Ok (v, s)) <-> (exists v, build (CCheck e) obj cx p o = Ok (v, o)).
Proof.
  intros. cbn [parse build]. destruct (eval cx e) as [t|]; cbn [bind].
  - destruct (truthy t); split; intros [v H]; try discriminate; eexists; reflexivity.
  - split; intros [v H]; discriminate.
Qed.

(* ---- Enum ---- *)
Lemma last_label_in z table : forall acc l,
  last_label z table acc = Some l -> acc = Some l \/ In (l, z) table.
Proof.
  induction table as [|[l' v] t IH]; intros acc l H; cbn [last_label] in H; [auto|].
  apply IH in H. destruct H as [H|H]; [|right; right; exact H].
  destruct (Z.eqb v z) eqn:E; [|auto]. injection H as <-. right. left. f_equal. lia.
Qed.

(* a label returned by parse is a label of the table, carrying the parsed integer *)
Theorem enum_parse_label : forall c table cx p s l z s',
  parse (CEnum c table) cx p s = Ok (VEnum l z, s') -> In (l, z) table.
Proof.
  intros. cbn [parse] in H. destruct (parse c cx p s) as [[w s1]|]; cbn [bind] in H; [|discriminate].
  destruct w; try discriminate; cbv zeta in H;
  match type of H with context [last_label ?zz table None] => destruct (last_label zz table None) eqn:E end;
  try discriminate; injection H as <- <- <-; apply last_label_in in E; (destruct E as [E|E]; [discriminate|exact E]).
Qed.

(* integers without a label are preserved, whatever their magnitude *)
Theorem enum_parse_unmapped : forall c table cx p s z s1,
  parse c cx p s = Ok (VInt z, s1) -> last_label z table None = None ->
  parse (CEnum c table) cx p s = Ok (VInt z, s1).
Proof. intros. cbn [parse]. rewrite H. cbn [bind]. rewrite H0. reflexivity. Qed.

Theorem enum_build_int_passthrough : forall c table z cx p o,
  build (CEnum c table) (VInt z) cx p o =
  match build c (VInt z) cx p o with Ok (_, o') => Ok (VInt z, o') | Err e q => Err e q end.
Proof. intros. cbn [build bind]. destruct (build c (VInt z) cx p o) as [[x o1]|]; reflexivity. Qed.

(* unknown labels are rejected on build *)
Theorem enum_build_unknown_label : forall c table cps cx p o,
  label_value table cps = None -> build (CEnum c table) (VStr cps) cx p o = Err EMapping (Some p).
Proof. intros. cbn [build]. rewrite H. reflexivity. Qed.

Lemma label_value_in table cps z : label_value table cps = Some z -> exists l, In (l, z) table /\ cps_of_name l = cps.
Proof.
  unfold label_value.
  match goal with |- context [find ?f (rev table)] => destruct (find f (rev table)) as [[l z']|] eqn:E end; [|discriminate].
  intros H. injection H as <-. apply find_some in E. destruct E as [Hin Heq]. cbn [fst] in Heq.
  exists l. split; [apply in_rev; exact Hin|].
  unfold cps_of_name. revert Heq. generalize (map Byte.to_N l). intros a. revert cps.
  induction a as [|x a IH]; intros [|y cps]; cbn [list_eqb]; try discriminate; [reflexivity|].
  intros H. apply andb_prop in H as [H1 H2]. f_equal; [apply N.eqb_eq; exact H1|apply IH; exact H2].
Qed.

(* Mapping: unknown objects rejected in both directions *)
Theorem mapping_build_unknown : forall c table obj cx p o,
  find_case obj table = None -> build (CMapping c table) obj cx p o = Err EMapping (Some p).
Proof. intros. cbn [build]. destruct (hashable obj); cbn [negb]; [rewrite H|]; reflexivity. Qed.

Theorem mapping_parse_unknown : forall c table cx p s v s1,
  parse c cx p s = Ok (v, s1) -> mapping_decode v table None = None ->
  parse (CMapping c table) cx p s = Err EMapping (Some p).
Proof. intros. cbn [parse]. rewrite H. cbn [bind]. destruct (hashable v); cbn [negb]; [rewrite H0|]; reflexivity. Qed.

(* ---- an explicit Error aborts parsing through any nest of Select / Optional / GreedyRange / Peek / Renamed ---- *)
Inductive elayer := ESelectFirst (rest : list con) | EPeek | EGreedy | ERenamed (n : name) | ESelectAfterFail (failing : con).

Definition ewrap1 (l : elayer) (c : con) : con :=
  match l with
  | ESelectFirst rest => CSelect (c :: rest)
  | EPeek => CPeek c
  | EGreedy => CGreedyRange c
  | ERenamed n => CRenamed n c
  | ESelectAfterFail f => CSelect [f; c]
  end.
Definition ewrap (ls : list elayer) (c : con) : con := fold_right ewrap1 c ls.

Definition eok (l : elayer) (s : istream) : Prop :=
  match l with
  | ESelectAfterFail f => forall cx p, exists e q, parse f cx p s = Err e q /\ swallowed e = true
  | _ => True
  end.

(* ---- FlagsEnum: a spelling 'p|q|...' (and a dict of labels) encodes to the bitwise UNION of the masks of the labels it names, whatever their
   order, however often a label is repeated and whether or not the masks overlap ---- *)
Definition part_mask (table : list (name * Z)) (part : list N) : option (option Z) :=
  match strip part with
  | [] => Some None                          (* an empty part names nothing *)
  | nm => match label_value table nm with Some z => Some (Some z) | None => None end
  end.

Fixpoint union_masks (table : list (name * Z)) (parts : list (list N)) (f : Z) : option Z :=
  match parts with
  | [] => Some f
  | part :: t => match part_mask table part with
                 | Some None => union_masks table t f
                 | Some (Some z) => union_masks table t (Z.lor f z)
                 | None => None
                 end
  end.

Definition flags_step (table : list (name * Z)) (p : path) (acc : res val) (part : list N) : res val :=
  let* a := acc in
  let nm := strip part in
  match nm with
  | [] => Ok a
  | _ => match label_value table nm, a with
         | Some z, VInt f => Ok (VInt (Z.lor f z))
         | _, _ => raise EMapping p
         end
  end.

Lemma flags_fold_err table p parts e q : fold_left (flags_step table p) parts (Err e q) = Err e q.
Proof. induction parts as [|a t IH]; cbn [fold_left]; [reflexivity|]. exact IH. Qed.

Lemma flags_fold_spec table p : forall parts f,
  fold_left (flags_step table p) parts (Ok (VInt f)) =
  match union_masks table parts f with Some m => Ok (VInt m) | None => raise EMapping p end.
Proof.
  induction parts as [|a t IH]; intros f; cbn [fold_left union_masks]; [reflexivity|].
  unfold part_mask. unfold flags_step at 2. cbn [bind].
  destruct (strip a) as [|c cs] eqn:Es.
  - apply IH.
  - destruct (label_value table (c :: cs)) as [z|].
    + apply IH.
    + unfold raise. apply flags_fold_err.
Qed.

Theorem flags_string_is_union : forall table cps p,
  flags_encode table (VStr cps) p =
  match union_masks table (split_bar cps []) 0 with Some m => Ok (VInt m) | None => raise EMapping p end.
Proof. intros. unfold flags_encode. apply (flags_fold_spec table p). Qed.

Definition part_bit (table : list (name * Z)) (n : Z) (part : list N) : bool :=
  match part_mask table part with Some (Some z) => Z.testbit z n | _ => false end.

Theorem union_masks_bits : forall table parts f m,
  union_masks table parts f = Some m ->
  forall n, Z.testbit m n = Z.testbit f n || existsb (part_bit table n) parts.
Proof.
  induction parts as [|a t IH]; intros f m H n; cbn [union_masks existsb] in *.
  - injection H as <-. rewrite orb_false_r. reflexivity.
  - unfold part_bit at 1. destruct (part_mask table a) as [[z|]|]; [| |discriminate].
    + rewrite (IH _ _ H n), Z.lor_spec, orb_assoc. reflexivity.
    + rewrite (IH _ _ H n). reflexivity.
Qed.

(* the encoding of a spelling: bit n is set exactly when the mask of one of the named labels has it *)
Theorem flags_string_bits : forall table cps p m,
  flags_encode table (VStr cps) p = Ok (VInt m) ->
  forall n, Z.testbit m n = existsb (part_bit table n) (split_bar cps []).
Proof.
  intros table cps p m H n. rewrite flags_string_is_union in H.
  destruct (union_masks table (split_bar cps []) 0) as [m'|] eqn:E; [|discriminate].
  injection H as <-. rewrite (union_masks_bits _ _ _ _ E n), Z.testbit_0_l. reflexivity.
Qed.

(* hence order, repetition and overlap do not matter: two spellings that name the same labels encode to the same integer *)
Theorem flags_string_order_and_repeats : forall table a b p ma mb,
  flags_encode table (VStr a) p = Ok (VInt ma) -> flags_encode table (VStr b) p = Ok (VInt mb) ->
  (forall n, existsb (part_bit table n) (split_bar a []) = existsb (part_bit table n) (split_bar b [])) ->
  ma = mb.
Proof.
  intros table a b p ma mb Ha Hb Hsame. apply Z.bits_inj. intros n.
  rewrite (flags_string_bits _ _ _ _ Ha n), (flags_string_bits _ _ _ _ Hb n). apply Hsame.
Qed.

(* the dict spelling {label: truthy, ...}: the union of the masks of the labels that are bound to a true value (private keys skipped) - the same
   integer as the string spelling of those labels *)
Definition entry_mask (table : list (name * Z)) (e : name * val) : option (option Z) :=
  if is_private (fst e) then Some None
  else if truthy (snd e) then match label_value table (cps_of_name (fst e)) with Some z => Some (Some z) | None => None end
  else Some None.

Fixpoint union_entries (table : list (name * Z)) (kv : list (name * val)) (f : Z) : option Z :=
  match kv with
  | [] => Some f
  | e :: t => match entry_mask table e with
              | Some None => union_entries table t f
              | Some (Some z) => union_entries table t (Z.lor f z)
              | None => None
              end
  end.

Definition flags_dict_step (table : list (name * Z)) (p : path) (acc : res val) (e : name * val) : res val :=
  let* a := acc in
  if is_private (fst e) then Ok a
  else if truthy (snd e) then
    match label_value table (cps_of_name (fst e)), a with
    | Some z, VInt f => Ok (VInt (Z.lor f z))
    | _, _ => raise EMapping p
    end
  else Ok a.

Lemma flags_dict_fold_err table p kv e q : fold_left (flags_dict_step table p) kv (Err e q) = Err e q.
Proof. induction kv as [|a t IH]; cbn [fold_left]; [reflexivity|]. exact IH. Qed.

Lemma flags_dict_fold_spec table p : forall kv f,
  fold_left (flags_dict_step table p) kv (Ok (VInt f)) =
  match union_entries table kv f with Some m => Ok (VInt m) | None => raise EMapping p end.
Proof.
  induction kv as [|a t IH]; intros f; cbn [fold_left union_entries]; [reflexivity|].
  unfold entry_mask. unfold flags_dict_step at 2. cbn [bind].
  destruct (is_private (fst a)); [apply IH|]. destruct (truthy (snd a)); [|apply IH].
  destruct (label_value table (cps_of_name (fst a))) as [z|]; [apply IH|]. unfold raise. apply flags_dict_fold_err.
Qed.

Theorem flags_dict_is_union : forall table kv p,
  flags_encode table (VDict kv) p =
  match union_entries table kv 0 with Some m => Ok (VInt m) | None => raise EMapping p end.
Proof. intros. unfold flags_encode. apply (flags_dict_fold_spec table p). Qed.

Definition entry_bit (table : list (name * Z)) (n : Z) (e : name * val) : bool :=
  match entry_mask table e with Some (Some z) => Z.testbit z n | _ => false end.

Theorem flags_dict_bits : forall table kv p m,
  flags_encode table (VDict kv) p = Ok (VInt m) ->
  forall n, Z.testbit m n = existsb (entry_bit table n) kv.
Proof.
  intros table kv p m H n. rewrite flags_dict_is_union in H.
  destruct (union_entries table kv 0) as [m'|] eqn:E; [|discriminate]. injection H as <-.
  assert (G : forall kv f m, union_entries table kv f = Some m -> Z.testbit m n = Z.testbit f n || existsb (entry_bit table n) kv).
  { clear. induction kv as [|a t IH]; intros f m H; cbn [union_entries existsb] in *.
    - injection H as <-. rewrite orb_false_r. reflexivity.
    - unfold entry_bit at 1. destruct (entry_mask table a) as [[z|]|]; [| |discriminate].
      + rewrite (IH _ _ H), Z.lor_spec, orb_assoc. reflexivity.
      + rewrite (IH _ _ H). reflexivity. }
  rewrite (G _ _ _ E), Z.testbit_0_l. reflexivity.
Qed.

(* a spelling with an unknown label is refused *)
Theorem flags_string_unknown : forall table cps p,
  union_masks table (split_bar cps []) 0 = None -> flags_encode table (VStr cps) p = raise EMapping p.
Proof. intros table cps p H. rewrite flags_string_is_union, H. reflexivity. Qed.

Theorem explicit_escapes_any_nest : forall ls cx p s,
  iseekable s = true -> Forall (fun l => eok l s) ls ->
  exists q, parse (ewrap ls CError) cx p s = Err EExplicit q.
Proof.
  induction ls as [|l ls IH]; intros cx p s Sk Hok.
  - cbn. eexists. reflexivity.
  - inversion Hok as [|? ? Hl Hls]; subst. cbn [ewrap fold_right]. fold (ewrap ls CError).
    destruct l as [rest| | |n|f]; cbn [ewrap1].
    + destruct (IH cx p s Sk Hls) as [q Hq]. exists q. cbn [parse]. apply select_explicit_escapes. exact Hq.
    + destruct (IH cx p s Sk Hls) as [q Hq]. exists q. apply peek_explicit_escapes; assumption.
    + destruct (IH (ctx_set_index cx 0) p s Sk Hls) as [q Hq]. exists q. cbn [parse].
      replace (length (idata s) + 64)%nat with (S (length (idata s) + 63)) by lia.
      rewrite (greedy_explicit_escapes _ _ _ _ _ _ q Hq). reflexivity.
    + destruct (IH cx (p ++ [n]) s Sk Hls) as [q Hq]. exists q. cbn [parse]. exact Hq.
    + destruct (IH cx p s Sk Hls) as [q Hq]. exists q. cbn [parse select_loop].
      destruct (Hl cx p) as (e & q' & He & Hs). rewrite He, Hs. rewrite iseek_back_id by exact Sk. cbn [bind].
      rewrite Hq. reflexivity.
Qed.

(* ---- C14: RawCopy and Checksum ---- *)


(* what RawCopy returns: value = the inner result; offsets = tell before and after the inner parse;
   length = their difference; data = what reading that many bytes from offset1 gives; and the stream
   ends at offset2 *)
Theorem rawcopy_parse : forall c cx p s r s',
  parse (CRawCopy c) cx p s = Ok (r, s') ->
  exists v s1 s2 d,
    parse c cx p s = Ok (v, s1) /\
    iseek s1 (itell s) 0 p = Ok (itell s, s2) /\
    iread s2 (itell s1 - itell s) p = Ok (d, s') /\
    r = VDict [(n_data, VBytes d); (n_value, v); (n_offset1, VInt (itell s)); (n_offset2, VInt (itell s1));
               (n_length, VInt (itell s1 - itell s))].
Proof.
  intros c cx p s r s' H. cbn [parse] in H.
  destruct (parse c cx p s) as [[v s1]|] eqn:Ep; cbn [bind] in H; [|discriminate].
  destruct (iseek s1 (itell s) 0 p) as [[r2 s2]|] eqn:Es; cbn [bind] in H; [|discriminate].
  destruct (iread s2 (itell s1 - itell s) p) as [[d s3]|] eqn:Er; cbn [bind] in H; [|discriminate].
  injection H as <- <-. exists v, s1, s2, d.
  pose proof (iseek_abs_tell _ _ _ _ _ Es) as [-> _].
  repeat split; try assumption; reflexivity.
Qed.

Theorem rawcopy_final_position : forall c cx p s r s' v s1,
  parse (CRawCopy c) cx p s = Ok (r, s') -> parse c cx p s = Ok (v, s1) -> iabs s' = iabs s1.
Proof.
  intros c cx p s r s' v s1 H Hp. apply rawcopy_parse in H.
  destruct H as (v' & s1' & s2 & d & Hp' & Hs & Hr & _). rewrite Hp in Hp'. injection Hp' as <- <-.
  apply iseek_abs_tell in Hs. destruct Hs as [_ Hs]. apply iread_abs in Hr. destruct Hr as [Hr Hn].
  rewrite Hr. unfold itell in *. unfold iabs in *. lia.
Qed.

(* reading back what was just appended *)
Lemma oread_back o d p : app_mode o -> oseekable o = true ->
  (let* (_, o2) := oseek (oapp o d) (otell o) 0 p in oread o2 (otell (oapp o d) - otell o) p) = Ok (d, oapp o d).
Proof.
  intros Ha Sk. unfold oseek, oapp. cbn [oseekable]. rewrite Sk. cbn [negb Z.eqb].
  unfold otell; cbn [opos odata]. rewrite Ha.
  destruct (Z.of_N (nlen (odata o)) <? 0)%Z eqn:E; [lia|]. cbn [bind].
  unfold oread; cbn [odata opos oseekable].
  replace (Z.of_N (nlen (odata o ++ d)) - Z.of_N (nlen (odata o)))%Z with (Z.of_nat (length d)) by (unfold nlen; rewrite app_length; lia).
  destruct (Z.of_nat (length d) <? 0)%Z eqn:E2; [lia|].
  rewrite N2Z.id.
  destruct d as [|x d'].
  - rewrite app_nil_r. destruct (nlen (odata o) <=? nlen (odata o))%N eqn:E3; [|lia].
    cbn [length Z.of_nat Z.ltb Z.compare Z.to_nat firstn Z.to_N]. rewrite N.add_0_r. reflexivity.
  - destruct (nlen (odata o ++ x :: d') <=? nlen (odata o))%N eqn:E3; [unfold nlen in E3; rewrite app_length in E3; cbn [length] in E3; lia|].
    replace (N.to_nat (nlen (odata o))) with (length (odata o)) by (unfold nlen; lia).
    rewrite skipn_app, skipn_all, Nat.sub_diag. cbn [skipn app].
    destruct (Z.of_nat (length (x :: d')) <? Z.of_nat (length (x :: d')))%Z eqn:E4; [lia|].
    rewrite Nat2Z.id, firstn_all. f_equal. f_equal. f_equal. unfold nlen. rewrite app_length. lia.
Qed.

(* RawCopy, building from {'value': v}: the bytes the inner construct appended are what is reported as data, between the offsets where they
   were written; the output is exactly what the inner construct wrote *)
Theorem rawcopy_build_value : forall c value cx p o r d,
  app_mode o -> oseekable o = true ->
  build c value cx p o = Ok (r, oapp o d) ->
  build (CRawCopy c) (VDict [(n_value, value)]) cx p o =
  Ok (VDict (dict_update [(n_value, value)]
               [(n_data, VBytes d); (n_value, match r with VNone => value | _ => r end); (n_offset1, VInt (otell o));
                (n_offset2, VInt (otell (oapp o d))); (n_length, VInt (otell (oapp o d) - otell o))]), oapp o d).
Proof.
  intros c value cx p o r d Ha Sk Hb. cbn [build bind].
  change (lookup n_data [(n_value, value)]) with (@None val).
  change (lookup n_value [(n_value, value)]) with (Some value).
  cbv iota beta. rewrite Hb. cbn [bind].
  pose proof (oread_back o d p Ha Sk) as R.
  destruct (oseek (oapp o d) (otell o) 0 p) as [[x o2]|]; [|discriminate]. cbn [bind] in R |- *. rewrite R. reflexivity.
Qed.

(* ... and building from {'data': d} writes d *)
Theorem rawcopy_build_data : forall c d cx p o,
  app_mode o ->
  build (CRawCopy c) (VDict [(n_data, VBytes d)]) cx p o =
  Ok (VDict (dict_update [(n_data, VBytes d)]
               [(n_data, VBytes d); (n_offset1, VInt (otell o)); (n_offset2, VInt (otell (oapp o d))); (n_length, VInt (otell (oapp o d) - otell o))]), oapp o d).
Proof.
  intros c d cx p o Ha. cbn [build bind].
  change (lookup n_data [(n_data, VBytes d)]) with (Some (VBytes d)). cbv iota beta. cbn [bind write_val].
  rewrite owrite_app by exact Ha. reflexivity.
Qed.

(* hence: whatever building from a value emits, building from the data it reports emits the same bytes at the same place *)
Theorem rawcopy_value_or_data_same_bytes : forall c value cx p o r d,
  app_mode o -> oseekable o = true ->
  build c value cx p o = Ok (r, oapp o d) ->
  exists rv rd, build (CRawCopy c) (VDict [(n_value, value)]) cx p o = Ok (rv, oapp o d) /\
                build (CRawCopy c) (VDict [(n_data, VBytes d)]) cx p o = Ok (rd, oapp o d) /\
                lookup n_data (match rv with VDict kv => kv | _ => [] end) = Some (VBytes d).
Proof.
  intros c value cx p o r d Ha Sk Hb.
  eexists. eexists. split; [apply (rawcopy_build_value _ _ _ _ _ _ _ Ha Sk Hb)|]. split; [apply (rawcopy_build_data _ _ _ _ _ Ha)|].
  reflexivity.
Qed.

(* Checksum: parse compares the stored digest with the hash of the covered bytes *)
Theorem checksum_detects : forall c h data cx p s h1 s1 bs,
  parse c cx p s = Ok (h1, s1) -> eval cx data = Ok (VBytes bs) -> val_eqb h1 (apply_hash h bs) = false ->
  parse (CChecksum c h data) cx p s = Err EChecksum (Some p).
Proof. intros. cbn [parse]. rewrite H. cbn [bind]. rewrite H0. cbn [bind]. rewrite H1. reflexivity. Qed.

Theorem checksum_accepts : forall c h data cx p s h1 s1 bs,
  parse c cx p s = Ok (h1, s1) -> eval cx data = Ok (VBytes bs) -> val_eqb h1 (apply_hash h bs) = true ->
  parse (CChecksum c h data) cx p s = Ok (h1, s1).
Proof. intros. cbn [parse]. rewrite H. cbn [bind]. rewrite H0. cbn [bind]. rewrite H1. reflexivity. Qed.

(* build writes the hash of the covered bytes, whatever value was supplied *)
Theorem checksum_build : forall c h data obj cx p o bs,
  eval cx data = Ok (VBytes bs) ->
  build (CChecksum c h data) obj cx p o =
  match build c (apply_hash h bs) cx p o with Ok (_, o') => Ok (apply_hash h bs, o') | Err e q => Err e q end.
Proof. intros. cbn [build]. rewrite H. cbn [bind]. destruct (build c _ cx p o) as [[x o1]|]; reflexivity. Qed.

(* RawCopy built from {'value': v}: a failure of the inner construct comes out unchanged - same error class, same path (the names enclosing the
   RawCopy and the names inside it both stay) *)
Theorem rawcopy_build_error_passthrough : forall c value cx p o e q,
  build c value cx p o = Err e q ->
  build (CRawCopy c) (VDict [(n_value, value)]) cx p o = Err e q.
Proof.
  intros c value cx p o e q H. cbn [build bind].
  change (lookup n_data [(n_value, value)]) with (@None val).
  change (lookup n_value [(n_value, value)]) with (Some value). cbv iota beta. rewrite H. reflexivity.
Qed.
