(* FlagsEnum, parse direction (C13): every label of the table is reported, and it is True exactly when ALL bits of its mask are set in the
   parsed integer - also for masks of several bits and for masks that overlap. Together with ValidFacts.flags_string_* (build direction). *)
From Coq Require Import ZArith NArith List Bool Lia ZifyBool ZifyN ZifyNat.
From Coq Require Import Strings.Byte.
Require Import Bytes Value Expr Codec Float Stream Syntax Sizeof Parse Build StreamFacts RegionFacts ValidFacts CtxFacts RTFacts.
Import ListNotations.

Definition flag_of (z : Z) (e : name * Z) : val := VBool (Z.eqb (Z.land z (snd e)) (snd e)).

Lemma lookup_fold_set_notin z : forall table acc l,
  ~ In l (map fst table) ->
  lookup l (fold_left (fun acc e => dict_set (fst e) (flag_of z e) acc) table acc) = lookup l acc.
Proof.
  induction table as [|[k m] t IH]; intros acc l Hn; cbn [fold_left]; [reflexivity|].
  rewrite IH by (intros H; apply Hn; right; exact H).
  apply lookup_dict_set_other. intros ->. apply Hn. left. reflexivity.
Qed.

Lemma lookup_fold_set z : forall table acc l m,
  NoDup (map fst table) -> In (l, m) table ->
  lookup l (fold_left (fun acc e => dict_set (fst e) (flag_of z e) acc) table acc) = Some (flag_of z (l, m)).
Proof.
  induction table as [|[k m0] t IH]; intros acc l m Hnd Hin; [destruct Hin|]. cbn [fold_left].
  cbn [map fst] in Hnd. inversion Hnd as [|? ? Hnotin Hnd']; subst.
  destruct Hin as [E|Hin].
  - injection E as -> ->. rewrite lookup_fold_set_notin by exact Hnotin. apply lookup_dict_set_same.
  - apply IH; assumption.
Qed.

(* what parse returns for a FlagsEnum: a dict in which every label of the table is bound to (v & mask) == mask *)
Theorem flagsenum_parse_labels : forall c table cx p s r s',
  NoDup (map fst table) -> ~ In n_flagsenum (map fst table) ->
  parse (CFlagsEnum c table) cx p s = Ok (r, s') ->
  exists v z kv, parse c cx p s = Ok (v, s') /\ vint_of v = Ok z /\ r = VDict kv /\
    forall l m, In (l, m) table -> lookup l kv = Some (VBool (Z.eqb (Z.land z m) m)).
Proof.
  intros c table cx p s r s' Hnd Hnf H. cbn [parse] in H.
  destruct (parse c cx p s) as [[v s1]|] eqn:Ep; [|discriminate]. cbn [bind] in H.
  destruct (vint_of v) as [z|] eqn:Ez; [|discriminate]. cbn [bind] in H. injection H as <- <-.
  exists v, z. eexists. split; [reflexivity|]. split; [exact Ez|]. split; [reflexivity|].
  intros l m Hin. cbn [lookup].
  destruct (name_eqb l n_flagsenum) eqn:E.
  - apply name_eqb_eq in E. subst l. exfalso. apply Hnf. apply (in_map fst) in Hin. exact Hin.
  - apply (lookup_fold_set z table [] l m Hnd Hin).
Qed.

(* a label is reported True iff every bit of its mask is set in the parsed integer *)
Theorem flag_true_iff_all_bits : forall z m, (0 <= m)%Z ->
  Z.eqb (Z.land z m) m = true <-> (forall n, (0 <= n)%Z -> Z.testbit m n = true -> Z.testbit z n = true).
Proof.
  intros z m Hm. rewrite Z.eqb_eq. split.
  - intros H n Hn Hb. rewrite <- H in Hb. rewrite Z.land_spec in Hb. apply andb_true_iff in Hb. tauto.
  - intros H. apply Z.bits_inj'. intros n Hn. rewrite Z.land_spec.
    destruct (Z.testbit m n) eqn:Eb; [rewrite (H n Hn Eb); reflexivity|apply andb_false_r].
Qed.
