(* C18, exactness of error paths.  PathFacts shows that an error path EXTENDS the path a construct was entered with.  Here:
   what follows the entry path is a chain of member names that really is in the construct -- the names of the Renamed nodes
   crossed on the way down to the sub-construct that raised, in order, nothing invented, nothing dropped in the middle, nothing
   reordered -- for every construct of the model, parsing and sizeof (chain theorems); and a Struct / Sequence / Array reports
   exactly the error of the member that failed, after all earlier members parsed (locator theorems). *)
From Coq Require Import ZArith NArith List Bool Lia.
From Coq Require Import Strings.Byte.
Require Import Bytes Value Expr Codec Float Stream Syntax Sizeof Parse Build ConInd PathFacts RTFacts.
Import ListNotations.
Local Open Scope nat_scope.

(* direct sub-constructs reached WITHOUT crossing a name *)
Definition subcons (c : con) : list con :=
  match c with
  | CStringEncoded c' _ | CEnum c' _ | CFlagsEnum c' _ | CMapping c' _ | CHex c' | CHexDump c' | CExprValidator c' _
  | COneOf c' _ | CNoneOf c' _ | CExprAdapter c' _ _ | CArray _ c' | CGreedyRange c' | CRepeatUntil _ c' | CConst _ c'
  | CRebuild c' _ | CDefault c' _ | CPadded _ c' _ | CAligned _ c' _ | CPointer _ c' | CPeek c' | COffsettedEnd _ c'
  | CRawCopy c' | CFixedSized _ c' | CNullTerminated c' _ _ _ _ | CNullStripped c' _ | CTransformed c' _ _ _ _
  | CRestreamed c' _ _ _ _ _ | CProcessXor _ c' | CProcessRotl _ _ c' | CChecksum c' _ _ | CLazy c' | CLazyArray _ c' => [c']
  | CFocusedSeq _ cs =>
      (* the count field of a PrefixedArray is also parsed, and its element sized, directly under the macro's path (when it is
         measured lazily) *)
      match cs with [CRenamed _ (CRebuild lc _); CRenamed _ (CArray _ el)] => lc :: el :: cs | _ => cs end
  | CStruct cs | CSequence cs | CUnion _ cs | CSelect cs | CLazyStruct cs => cs
  | CIfThenElse _ a b => [a; b]
  | CSwitch _ cases d => d :: map snd cases
  | CPrefixed lc c' _ => [lc; c']
  | _ => []
  end.

Lemma in_subcons_focused sel cs c : In c cs -> In c (subcons (CFocusedSeq sel cs)).
Proof.
  intros H. cbn [subcons].
  repeat match goal with |- In _ (match ?x with _ => _ end) => destruct x end; try exact H; right; right; exact H.
Qed.

(* the member names from a construct down to one of its sub-constructs *)
Inductive chain : con -> path -> Prop :=
| ch_here c : chain c []
| ch_ren n c q : chain c q -> chain (CRenamed n c) (n :: q)
| ch_sub c c' q : In c' (subcons c) -> chain c' q -> chain c q.

(* an error, when it carries a path, carries the entry path followed by a suffix accepted by T (or nothing) *)
Definition okq {A} (T : path -> Prop) (p : path) (r : res A) : Prop :=
  match r with Err _ (Some q) => exists t, q = p ++ t /\ (t = [] \/ T t) | _ => True end.

Lemma okq_mono {A} (T T' : path -> Prop) p (r : res A) : (forall t, T t -> T' t) -> okq T p r -> okq T' p r.
Proof. intros H. destruct r as [a|e [q|]]; cbn; auto. intros (t & E & [Ht|Ht]); exists t; split; auto. Qed.
Lemma okq_prefix {A} T p (r : res A) : okq T p r -> okp p r.
Proof. destruct r as [a|e [q|]]; cbn; auto. intros (t & E & _). exists t. exact E. Qed.

Section Generic.
Variable T : path -> Prop.

Lemma nopath_okq {A} p (r : res A) : nopath r -> okq T p r.
Proof. destruct r as [a|e [q|]]; cbn; tauto. Qed.
Lemma okq_bind {A B} p (x : res A) (f : A -> res B) : okq T p x -> (forall a, okq T p (f a)) -> okq T p (bind x f).
Proof. destruct x as [a|e [q|]]; cbn; auto. Qed.
Lemma okq_raise {A} e p : okq T p (@raise A e p).
Proof. cbn. exists []. rewrite app_nil_r. auto. Qed.

Definition Pq (c : con) : Prop := forall cx p s, okq T p (parse c cx p s).
Definition Sz (c : con) : Prop := forall cx p, okq T p (sizeof c cx p).
Definition Sq (A : sizer) : Prop := forall cx p s, okq T p (A cx p s).
Definition Pq1 (P : parser) : Prop := forall cx p s, okq T p (P cx p s).

Lemma okq_iread s n p : okq T p (iread s n p).
Proof. unfold iread. destruct (n <? 0)%Z; [apply okq_raise|]. destruct (_ <? n)%Z; [apply okq_raise|exact I]. Qed.
Lemma okq_iseek s off w p : okq T p (iseek s off w p).
Proof. unfold iseek. repeat match goal with |- okq _ _ (if ?x then _ else _) => destruct x end; try exact I; apply okq_raise. Qed.
Lemma okq_iseek_user s off w p : okq T p (iseek_user s off w p).
Proof. unfold iseek_user. destruct (_ && _); [apply okq_raise|apply okq_iseek]. Qed.
Lemma okq_iseek_back s p : okq T p (iseek_back s p).
Proof. unfold iseek_back. destruct (iseekable s); [apply okq_iseek|exact I]. Qed.
Lemma okq_catch {A} p (r : res A) : okq T p r -> okq T p (catch_key r p).
Proof. destruct r as [a|e q]; cbn; [auto|]. destruct e; cbn; auto; intros; exists []; rewrite app_nil_r; auto. Qed.

Lemma okq_vint_of p v : okq T p (vint_of v).
Proof. destruct v; exact I. Qed.

Lemma okq_sum cs cx p : Forall (fun c => forall cx p, okq T p (sizeof c cx p)) cs -> okq T p (sum_sizes sizeof cx p cs).
Proof.
  induction 1 as [|c t Hc Ht IH]; cbn [sum_sizes]; [exact I|].
  apply okq_bind; [apply Hc|intros a]. apply okq_bind; [exact IH|intros; exact I].
Qed.


Lemma okq_err_case {A B} p (r : res A) (k : A -> res B) (h : err -> option path -> res B) :
  okq T p r -> (forall a, okq T p (k a)) -> (forall e q, okq T p (Err (A:=A) e q) -> okq T p (h e q)) ->
  okq T p (match r with Ok a => k a | Err e q => h e q end).
Proof. intros Hr Hk Hh. destruct r as [a|e q]; [apply Hk|apply Hh; exact Hr]. Qed.

Lemma okq_struct_loop cs : Forall Pq cs -> forall cx p acc s, okq T p (struct_loop parse cs cx p acc s).
Proof.
  induction 1 as [|c t Hc Ht IH]; intros cx p acc s; cbn [struct_loop]; [exact I|].
  pose proof (Hc cx p s) as Hp. destruct (parse c cx p s) as [[v s']|e q].
  - destruct (name_of c); apply IH.
  - destruct e; try exact Hp. destruct (is_stopif c); exact I.
Qed.

Lemma okq_seq_loop cs : Forall Pq cs -> forall cx p s, okq T p (seq_loop parse cs cx p s).
Proof.
  induction 1 as [|c t Hc Ht IH]; intros cx p s; cbn [seq_loop]; [exact I|].
  pose proof (Hc cx p s) as Hp. destruct (parse c cx p s) as [[v s']|e q].
  - apply okq_bind; [apply IH|intros [vs s'']; exact I].
  - destruct e; try exact Hp. destruct (is_stopif c); exact I.
Qed.

Lemma okq_focus_loop sel cs : Forall Pq cs -> forall cx p fin s, okq T p (focus_loop parse sel cs cx p fin s).
Proof.
  induction 1 as [|c t Hc Ht IH]; intros cx p fin s; cbn [focus_loop]; [exact I|].
  apply okq_bind; [apply Hc|intros [v s']]. destruct (name_of c); apply IH.
Qed.

Lemma okq_union_loop cs : Forall Pq cs -> forall i cx p acc fw s, okq T p (union_loop parse cs i cx p acc fw s).
Proof.
  induction 1 as [|c t Hc Ht IH]; intros i cx p acc fw s; cbn [union_loop]; [exact I|].
  apply okq_bind; [apply Hc|intros [v s1]]. destruct (name_of c); (apply okq_bind; [apply okq_iseek|intros [r s2]; apply IH]).
Qed.

Lemma okq_select_loop cs : Forall Pq cs -> forall cx p s, okq T p (select_loop parse cs cx p s).
Proof.
  induction 1 as [|c t Hc Ht IH]; intros cx p s; cbn [select_loop]; [apply okq_raise|].
  pose proof (Hc cx p s) as Hp. destruct (parse c cx p s) as [r|e q]; [exact I|].
  destruct (swallowed e).
  - apply okq_bind; [apply okq_iseek_back|intros [r s']; apply IH].
  - destruct (err_eqb e EStopField); [exact I|exact Hp].
Qed.

Lemma okq_iter_pos {A} p (f : A -> res A) : (forall a, okq T p (f a)) -> forall n a, okq T p (iter_pos f n a).
Proof.
  intros Hf. induction n as [n IH|n IH|]; intros a; cbn [iter_pos].
  - apply okq_bind; [apply Hf|intros a1]. apply okq_bind; [apply IH|intros a2; apply IH].
  - apply okq_bind; [apply IH|intros a1; apply IH].
  - apply Hf.
Qed.

Lemma okq_count_loop c : Pq c -> forall n cx p s, okq T p (count_loop (parse c) n cx p s).
Proof.
  intros Hc n cx p s. unfold count_loop. apply okq_bind; [|intros [[i acc] s']; exact I].
  unfold iter_N. destruct n; [exact I|]. apply okq_iter_pos. intros [[i acc] s0]. unfold count_step.
  apply okq_bind; [apply Hc|intros [v s1]; exact I].
Qed.

Lemma okq_greedy_loop c : Pq c -> forall fuel i cx p s, okq T p (greedy_loop (parse c) fuel i cx p s).
Proof.
  intros Hc. induction fuel as [|f IH]; intros i cx p s; cbn [greedy_loop]; [exact I|].
  pose proof (Hc (ctx_set_index cx i) p s) as Hp. destruct (parse c (ctx_set_index cx i) p s) as [[v s1]|e q].
  - apply okq_bind; [apply IH|intros [vs s2]; exact I].
  - destruct e; try exact I; cbn [swallowed]; try (apply okq_bind; [apply okq_iseek_back|intros [r s']; exact I]); exact Hp.
Qed.

Lemma okq_until_loop c pred : Pq c -> forall fuel i acc cx p s, okq T p (until_loop (parse c) pred fuel i acc cx p s).
Proof.
  intros Hc. induction fuel as [|f IH]; intros i acc cx p s; cbn [until_loop]; [exact I|].
  apply okq_bind; [apply Hc|intros [v s1]]. apply okq_bind; [apply nopath_okq, eval_obj_np|intros t].
  destruct (truthy t); [exact I|apply IH].
Qed.

Lemma okq_varint_loop fuel : forall s p, okq T p (varint_loop fuel s p).
Proof.
  induction fuel as [|f IH]; intros s p; cbn [varint_loop]; [exact I|].
  apply okq_bind; [apply okq_iread|intros [d s']]. destruct d as [|b t]; [apply okq_raise|].
  destruct (_ <? 128)%N; [exact I|]. apply okq_bind; [apply IH|intros [hi s'']; exact I].
Qed.

Lemma okq_nullterm fuel : forall term incl consume req acc s p, okq T p (nullterm_scan fuel term incl consume req acc s p).
Proof.
  induction fuel as [|f IH]; intros term incl consume req acc s p; cbn [nullterm_scan]; [exact I|].
  pose proof (okq_iread s (Z.of_nat (length term)) p) as Hr.
  destruct (iread s (Z.of_nat (length term)) p) as [[b s']|e q].
  - destruct (bytes_eqb b term); [|apply IH]. destruct consume; [exact I|].
    apply okq_bind; [apply okq_iseek|intros [r s'']; exact I].
  - destruct req; [exact Hr|exact I].
Qed.


Lemma okq_prefixed_actualsize lc incl : Pq lc -> Sz lc -> Sq (prefixed_actualsize parse lc incl).
Proof.
  intros Hl1 Hl2 cx p s. unfold prefixed_actualsize.
  apply okq_bind; [apply Hl1|intros [lv s1]]. apply okq_bind; [destruct lv; exact I|intros n].
  apply okq_bind; [destruct incl; [apply okq_bind; [apply Hl2|intros; exact I]|exact I]|intros; exact I].
Qed.

(* what the lazy loops need of a member's measure: stated directly (it is established where T is known, see asz_chain) *)
Definition LF (c : con) : Prop := Sq (actualsize_with parse c).

Lemma okq_actualsize c : Sz c -> LF c -> Sq (actualsize_with parse c).
Proof. intros _ H. exact H. Qed.

Lemma okq_lazy_step Pc Ac nm p st : Pq1 Pc -> Sq Ac -> okq T p (lazy_step Pc Ac nm p st).
Proof.
  intros HP HA. destruct st as [[[[[i off] cx] s] offs] cache]. unfold lazy_step.
  pose proof (HA cx p s) as Ha. destruct (Ac cx p s) as [n|e q].
  - apply okq_bind; [apply okq_iseek|intros [r s1]; exact I].
  - destruct e; try exact Ha. apply okq_bind; [apply okq_iseek|intros [r s0]]. apply okq_bind; [apply HP|intros [v s1]; exact I].
Qed.

Lemma okq_lazy_force Pc off cx p s : Pq1 Pc -> okq T p (lazy_force Pc off cx p s).
Proof.
  intros HP. unfold lazy_force. apply okq_bind; [apply okq_iseek|intros [r s1]]. apply okq_bind; [apply HP|intros [v s2]].
  apply okq_bind; [apply okq_iseek|intros [r2 s3]; exact I].
Qed.

Lemma okq_lazy_scan_array Pc Ac : Pq1 Pc -> Sq Ac -> forall n p st, okq T p (lazy_scan_array Pc Ac n p st).
Proof.
  intros HP HA. induction n as [|n IH]; intros p st; cbn [lazy_scan_array]; [exact I|].
  apply okq_bind; [apply okq_lazy_step; assumption|intros st'; apply IH].
Qed.

Lemma okq_force_array Pc : Pq1 Pc -> forall n i offs cache cx p s, okq T p (force_array Pc n i offs cache cx p s).
Proof.
  intros HP. induction n as [|n IH]; intros i offs cache cx p s; cbn [force_array]; [exact I|].
  apply okq_bind.
  - destruct (cache_get i cache); [exact I|]. destruct (nth_error offs i); [|exact I].
    apply okq_bind; [apply okq_lazy_force; exact HP|intros [v s']; exact I].
  - intros v. apply okq_bind; [apply IH|intros; exact I].
Qed.

(* members with their own sub-constructs well behaved *)
Lemma okq_force_struct cs : Forall Pq cs -> forall i offs cache cx p s, okq T p (force_struct parse cs i offs cache cx p s).
Proof.
  induction 1 as [|c t Hc Ht IH]; intros i offs cache cx p s; cbn [force_struct]; [exact I|].
  destruct (name_of c); [|apply IH]. apply okq_bind.
  - destruct (cache_get i cache); [exact I|]. destruct (nth_error offs i); [|exact I].
    apply okq_bind; [apply okq_lazy_force; exact Hc|intros [v s']; exact I].
  - intros v. apply okq_bind; [apply IH|intros; exact I].
Qed.

(* members with their own sub-constructs well behaved *)
Definition Pq3 (c : con) : Prop := Pq c /\ Sz c /\ LF c.

Lemma okq_lazy_scan_struct cs : Forall Pq3 cs -> forall p st, okq T p (lazy_scan_struct parse cs p st).
Proof.
  induction 1 as [|c t (Hc & Hs & Hl) Ht IH]; intros p st; cbn [lazy_scan_struct]; [exact I|].
  apply okq_bind; [apply okq_lazy_step; [exact Hc|apply okq_actualsize; assumption]|intros st'; apply IH].
Qed.
End Generic.

Arguments Pq T c /.
Arguments Sz T c /.

(* ---- moving between a construct and its sub-constructs ---- *)
Lemma okq_up {A} C c' p (r : res A) : In c' (subcons C) -> okq (chain c') p r -> okq (chain C) p r.
Proof. intros Hin. apply okq_mono. intros t Ht. exact (ch_sub C c' t Hin Ht). Qed.
Lemma okq_ren {A} n c p (r : res A) : okq (chain c) (p ++ [n]) r -> okq (chain (CRenamed n c)) p r.
Proof.
  destruct r as [a|e [q|]]; cbn; auto. intros (t & E & Ht). exists (n :: t). split.
  - rewrite E, <- app_assoc. reflexivity.
  - right. apply ch_ren. destruct Ht as [->|Ht]; [apply ch_here|exact Ht].
Qed.
Lemma Forall_up (Q : (path -> Prop) -> con -> Prop) (C : con) (cs : list con) :
  (forall (T T' : path -> Prop) (c : con), (forall t, T t -> T' t) -> Q T c -> Q T' c) ->
  (forall c, In c cs -> In c (subcons C)) -> Forall (fun c => Q (chain c) c) cs -> Forall (Q (chain C)) cs.
Proof.
  intros Hm Hin H. rewrite Forall_forall in H |- *. intros c Hc. apply (Hm (chain c)); [|apply H, Hc].
  intros t Ht. exact (ch_sub C c t (Hin c Hc) Ht).
Qed.
Lemma Pq_mono (T T' : path -> Prop) (c : con) : (forall t, T t -> T' t) -> Pq T c -> Pq T' c.
Proof. intros H Hc cx p s. eapply okq_mono; [exact H|apply Hc]. Qed.
Lemma Sz_mono (T T' : path -> Prop) (c : con) : (forall t, T t -> T' t) -> Sz T c -> Sz T' c.
Proof. intros H Hc cx p. eapply okq_mono; [exact H|apply Hc]. Qed.

Ltac insub := cbn [subcons In]; tauto.

Ltac pk :=
  repeat first
    [ exact I
    | apply okq_vint_of
    | apply okq_raise
    | apply okq_iread | apply okq_iseek | apply okq_iseek_user | apply okq_iseek_back
    | apply nopath_okq; first [ apply eval_np | apply eval_int_np | apply eval_obj_np | exact I ]
    | assumption
    | apply okq_catch
    | apply okq_bind; [|intros ?]
    | match goal with |- okq _ _ (if ?x then _ else _) => destruct x end ].

(* ---- sizeof ---- *)
Ltac sk_ih :=
  match goal with
  | H : Sz (chain ?c) ?c |- okq (chain (CRenamed ?n ?c)) ?p (sizeof ?c _ (?p ++ [?n])) => apply okq_ren, H
  | H : Sz (chain ?c) ?c |- okq (chain ?C) ?p (sizeof ?c _ ?p) => apply (okq_up C c); [insub|apply H]
  end.

Theorem sizeof_chain : forall c, Sz (chain c) c.
Proof.
  induction c using con_ind2; intros cx p; cbn [sizeof];
    try solve [repeat first [sk_ih | progress pk]].
  all: try solve [match goal with H : Forall _ ?cs |- okq (chain ?C) _ _ =>
    apply okq_catch, okq_sum; apply (Forall_up Sz C cs Sz_mono); [intros c0 Hc0; first [cbn [subcons]; exact Hc0|apply in_subcons_focused; exact Hc0]|exact H] end].
  - (* Switch *) apply okq_catch. apply okq_bind; [pk|intros k]. destruct (negb (hashable k)); [exact I|].
    assert (Hd : okq (chain (CSwitch a0 a1 c)) p (sizeof c cx p)) by (apply (okq_up _ c); [insub|apply IHc]).
    assert (Hcs : Forall (fun vc => Sz (chain (CSwitch a0 a1 c)) (snd vc)) a1).
    { rewrite Forall_forall in H |- *. intros vc Hin cx0 p0. apply (okq_up _ (snd vc)); [cbn [subcons In]; right; apply in_map, Hin|apply H, Hin]. }
    clear H IHc. remember (chain (CSwitch a0 a1 c)) as T eqn:ET. clear ET. induction a1 as [|[v c'] t IHt]; [exact Hd|]. inversion Hcs as [|? ? Hc Ht]; subst.
    destruct (val_eqb k v); [apply Hc|apply IHt, Ht].
  - (* Transformed *) destruct a2, a4; pk.
  - (* Restreamed *) destruct a5; repeat first [sk_ih | progress pk].
Qed.

(* ---- parse ---- *)
Ltac pk_parse :=
  match goal with
  | H : Pq (chain ?c) ?c |- okq (chain (CRenamed ?n ?c)) ?p (parse ?c _ (?p ++ [?n]) _) => apply okq_ren, H
  | H : Pq (chain ?c) ?c |- okq (chain ?C) ?p (parse ?c _ ?p _) => apply (okq_up C c); [insub|apply H]
  | H : Pq ?T ?c |- okq ?T ?p (parse ?c _ ?p _) => apply H
  | |- okq (chain ?C) ?p (sizeof ?c _ ?p) => apply (okq_up C c); [insub|apply sizeof_chain]
  end.
Ltac lift := let cx := fresh "cx" in let p := fresh "p" in let s := fresh "s" in intros cx p s; pk_parse.

Ltac pkp := repeat first [ pk_parse | progress pk
                         | match goal with |- okq _ _ (let '(_, _) := ?x in _) => destruct x end
                         | match goal with |- okq _ _ (match ?x with (_, _) => _ end) => destruct x end ].
Ltac pkm := repeat first [ pk_parse | progress pk
                         | match goal with |- okq _ _ (match ?x with (_, _) => _ end) => destruct x end
                         | match goal with |- okq _ _ (match bytes2integer ?a ?b with _ => _ end) => destruct (bytes2integer a b) end
                         | match goal with |- okq _ _ (match bits2integer ?a ?b with _ => _ end) => destruct (bits2integer a b) end
                         | match goal with |- okq _ _ (match (if ?c then swapbytesinbits ?d else Some ?d) with _ => _ end) => destruct (if c then swapbytesinbits d else Some d) end ].

Definition Pch2 (c : con) : Prop := Pq (chain c) c /\ LFok (fun l => Pq (chain l) l) c /\ RBok (fun l => Pq (chain l) l) c.

Lemma chain_sub2 C c lc t : In c (subcons C) -> In lc (subcons c) -> chain lc t -> chain C t.
Proof. intros H1 H2 H. apply (ch_sub C c); [exact H1|]. apply (ch_sub c lc); assumption. Qed.

Lemma okq_pa_chain lc c' incl cx p s : Pq (chain lc) lc ->
  okq (chain (CPrefixed lc c' incl)) p (prefixed_actualsize parse lc incl cx p s).
Proof.
  intros Hl. eapply okq_mono; [|apply (okq_prefixed_actualsize (chain lc) lc incl Hl (sizeof_chain lc))].
  intros t Ht. apply (ch_sub (CPrefixed lc c' incl) lc); [cbn; tauto|exact Ht].
Qed.

(* measuring a member: errors name a chain of the member (through the names and adapters Renamed / Adapter defer through) *)
Lemma asz_chain : forall c, LFok (fun l => Pq (chain l) l) c -> forall cx p s, okq (chain c) p (actualsize_with parse c cx p s).
Proof.
  induction c; intros H cx p s; cbn [actualsize_with]; try apply sizeof_chain; cbn [LFok] in H;
    try (match goal with |- okq (chain ?C) _ (actualsize_with parse ?c' _ _ _) => apply (okq_up C c'); [cbn; tauto|apply IHc; exact H] end).
  - (* FocusedSeq: the PrefixedArray shape *)
    repeat first [ apply sizeof_chain | match goal with |- okq _ _ (match ?x with _ => _ end) => destruct x end ].
    unfold counted_actualsize.
    match goal with |- okq (chain ?C) _ (bind (parse ?lc _ _ _) _) =>
      apply okq_bind; [apply (okq_up C lc); [cbn [subcons In]; tauto|apply H]|intros [lv s1]] end.
    apply okq_bind; [destruct lv; exact I|intros ?].
    match goal with |- okq (chain ?C) _ (bind (sizeof ?el _ _) _) =>
      apply okq_bind; [apply (okq_up C el); [cbn [subcons In]; tauto|apply sizeof_chain]|intros; exact I] end.
  - (* Renamed *) apply okq_ren, IHc, H.
  - (* Prefixed *) apply okq_pa_chain, H.
Qed.

Lemma Pq3_of C c : In c (subcons C) -> Pch2 c -> Pq3 (chain C) c.
Proof.
  intros Hin (Hc & HL & _). split; [|split].
  - intros cx p s. apply (okq_up C c); [exact Hin|apply Hc].
  - intros cx p. apply (okq_up C c); [exact Hin|apply sizeof_chain].
  - intros cx p s. apply (okq_up C c); [exact Hin|apply asz_chain, HL].
Qed.

Theorem parse_chain2 : forall c, Pch2 c.
Proof.
  induction c using con_ind2; (split; [|split; [cbn [LFok]|cbn [RBok]];
    first [ exact I
          | match goal with H : Pch2 ?l |- Pq (chain ?l) ?l => exact (proj1 H) end
          | match goal with H : Pch2 ?c' |- LFok _ ?c' => exact (proj1 (proj2 H)) end
          | match goal with H : Pch2 ?c' |- match ?c' with _ => _ end => destruct c'; try exact I; exact (proj2 (proj2 H)) end
          | match goal with H : Forall _ ?cs |- _ =>
              repeat first [ exact I | match goal with |- match ?x with _ => _ end => destruct x end ];
              inversion H as [|? ? H0 Ht]; subst; exact (proj2 (proj2 H0)) end ]]).
  all: try (match goal with H : Forall (fun c : con => Pch2 c) ?cs |- Pq (chain ?C) _ =>
              assert (HF2 : Forall (Pq3 (chain C)) cs) by (rewrite Forall_forall in H |- *; intros c0 Hc0; apply Pq3_of; [first [cbn [subcons]; exact Hc0|apply in_subcons_focused; exact Hc0]|apply H, Hc0]);
              assert (HF : Forall (Pq (chain C)) cs) by (eapply Forall_impl; [|exact HF2]; intros ? [? ?]; assumption); clear H; rename HF into H end).
  all: try (match goal with H : Forall (fun vc => Pch2 (snd vc)) ?cs |- Pq (chain ?C) _ =>
              assert (HF : Forall (fun vc => Pq (chain C) (snd vc)) cs) by
                (rewrite Forall_forall in H |- *; intros vc Hin; apply (Pq_mono (chain (snd vc)));
                 [intros t Ht; apply (ch_sub C (snd vc)); [cbn [subcons In]; right; apply in_map, Hin|exact Ht]|apply (proj1 (H vc Hin))]);
              clear H; rename HF into H end).
  all: repeat match goal with H : Pch2 _ |- _ => let A := fresh "Hok" in let B := fresh "IHl" in let D := fresh "IHr" in destruct H as (A & B & D); rename A into H end.
  all: intros cx p s; cbn [parse].
  all: try solve [pkp].
  all: try solve [pkm].
  all: try solve [unfold parse_format; pkp].
  all: try solve [unfold parse_varint; apply okq_bind; [apply okq_varint_loop|intros [n s']; exact I]].
  all: try solve [ (* Terminated *) destruct (iavail s); [exact I|apply okq_raise] ].
  all: try solve [ (* Index *) destruct (c_scopes cx); exact I ].
  all: try solve [ (* StringEncoded *) apply okq_bind; [pk_parse|intros [v s']]; destruct v; try apply okq_raise; match goal with |- context [decode ?a ?b] => destruct (decode a b) end; [exact I|apply okq_raise] ].
  all: try solve [ (* Enum *) apply okq_bind; [pk_parse|intros [v s']]; destruct v; try exact I; cbv zeta;
      match goal with |- context [last_label ?z ?t None] => destruct (last_label z t None) end; exact I ].
  all: try solve [ (* FlagsEnum *) apply okq_bind; [pk_parse|intros [v s']]; apply okq_bind; [destruct v; exact I|intros; exact I] ].
  all: try solve [ (* Mapping *) apply okq_bind; [pk_parse|intros [v s']]; destruct (negb (hashable v)); [apply okq_raise|]; match goal with |- context [mapping_decode ?v ?a None] => destruct (mapping_decode v a None) end; [exact I|apply okq_raise] ].
  all: try solve [ (* Hex *) apply okq_bind; [pk_parse|intros [v s']]; destruct v; try exact I;
      (assert (Hs : okq (chain (CHex c)) p (sizeof c cx p)) by pk_parse; destruct (sizeof c cx p) as [n|e q]; [exact I|destruct e; try exact I; exact Hs]) ].
  all: try solve [ (* OneOf *) apply okq_bind; [pk_parse|intros [v s']]; apply okq_bind; [unfold oneof_mem; destruct (hashable v); exact I|intros b]; destruct b; pk ].
  all: try solve [ (* Struct *) apply okq_bind; [apply okq_struct_loop; exact H|intros [[kv cx'] s']; exact I] ].
  all: try solve [ (* Sequence *) apply okq_bind; [apply okq_seq_loop; exact H|intros [vs s']; exact I] ].
  all: try solve [ (* FocusedSeq *) apply okq_bind; [apply okq_focus_loop; exact H|intros [fin s']]; destruct fin; exact I ].
  all: try solve [ (* Union *) apply okq_bind; [apply okq_union_loop; exact H|intros [[[kv cx''] fw] s']]; match goal with |- okq _ _ (match ?x with _ => _ end) => destruct x end; try exact I;
      match goal with |- context [find ?f ?l] => destruct (find f l) as [[[? ?] ?]|] end; try exact I;
      (apply okq_bind; [apply okq_iseek|intros [r s'']; exact I]) ].
  all: try solve [ (* Select *) apply okq_select_loop; exact H ].
  all: try solve [ (* Switch *) apply okq_bind; [pk|intros k]; destruct (negb (hashable k)); [exact I|];
      match goal with |- okq (chain ?C) _ _ => assert (Hd : Pq (chain C) c) by lift; remember (chain C) as T eqn:ET; clear ET end; clear IHc;
      match goal with HF : Forall _ ?l |- _ => induction l as [|[v c'] t IHt] end; [apply Hd|]; inversion H as [|? ? Hc Ht]; subst; destruct (val_eqb k v); [apply Hc|apply IHt, Ht] ].
  all: try solve [ (* Array *) apply okq_bind; [pk|intros n]; destruct (n <? 0)%Z; [apply okq_raise|]; apply okq_bind; [apply okq_count_loop; lift|intros [vs s']; exact I] ].
  all: try solve [ (* GreedyRange *) apply okq_bind; [apply okq_greedy_loop; lift|intros [vs s']; exact I] ].
  all: try solve [ (* RepeatUntil *) apply okq_bind; [apply okq_until_loop; lift|intros [vs s']; exact I] ].
  all: try solve [ (* Peek *) assert (Hp : okq (chain (CPeek c)) p (parse c cx p s)) by pk_parse; destruct (parse c cx p s) as [[v s1]|e q];
    [ apply okq_bind; [apply okq_iseek|intros [r sb]; exact I]
    | apply okq_bind; [apply okq_iseek_back|intros [r sb]]; destruct (err_eqb e EExplicit); [exact Hp|]; destruct (is_construct_error e); [exact I|exact Hp] ] ].
  all: try solve [ (* NullTerminated *) match goal with |- okq _ _ (match ?x with _ => _ end) => destruct x end; [apply okq_raise|]; apply okq_bind; [apply okq_nullterm|intros [d s1]]; apply okq_bind; [pk_parse|intros [v s2]; exact I] ].
  all: try solve [ (* NullStripped *) match goal with |- okq _ _ (match ?x with _ => _ end) => destruct x end; [apply okq_raise|]; destruct (iread_all s); apply okq_bind; [pk_parse|intros [v s2]; exact I] ].
  all: try solve [ (* Transformed *) apply okq_bind; [match goal with |- okq _ _ (match ?x with _ => _ end) => destruct x end; pk|intros [d s1]]; apply okq_bind; [match goal with |- okq _ _ (apply_bfun ?f _) => destruct f end; cbn [apply_bfun]; try exact I; destruct (bits2bytes d); exact I|intros d']; apply okq_bind; [pk_parse|intros [v s2]; exact I] ].
  all: try solve [ (* Restreamed *) match goal with |- okq _ _ (if ?x then _ else _) => destruct x end; [exact I|]; match goal with |- context [decode_units ?f ?u] => destruct (decode_units f u) end; [|exact I]; apply okq_bind; [pk_parse|intros [v si]]; match goal with |- context [units_needed ?k ?d] => destruct (units_needed k d) end; destruct (Nat.eqb _ _); [exact I|apply okq_raise] ].
  all: try solve [ (* ProcessXor *) apply okq_bind; [pk|intros k]; destruct k; try apply okq_raise;
      (destruct (iread_all s); apply okq_bind; [unfold xor_data; repeat match goal with |- okq _ _ (match ?x with _ => _ end) => destruct x | |- okq _ _ (if ?x then _ else _) => destruct x end; try exact I; apply okq_raise|intros d']; apply okq_bind; [pk_parse|intros [v s2]; exact I]) ].
  all: try solve [ (* ProcessRotl *) apply okq_bind; [pk|intros a]; apply okq_bind; [pk|intros g]; destruct (g <? 1)%Z; [apply okq_raise|]; destruct (alloc_bound <? g)%Z; [exact I|]; destruct (iread_all s); match goal with |- context [rotate_left ?x ?y ?z] => destruct (rotate_left x y z) end; [|apply okq_raise]; apply okq_bind; [pk_parse|intros [v s2]; exact I] ].
  all: try solve [ (* Checksum *) apply okq_bind; [pk_parse|intros [h1 s1]]; apply okq_bind; [pk|intros d]; destruct d; try exact I; destruct (val_eqb _ _); [exact I|apply okq_raise] ].
  all: try solve [ (* Lazy *)
      destruct (Pq3_of (CLazy c) c (or_introl eq_refl) (conj IHc (conj IHl IHr))) as (H1 & H2 & H3);
      pose proof (okq_actualsize _ c H2 H3 cx p s) as Ha; destruct (actualsize_with parse c cx p s) as [n|e q];
      [ apply okq_bind; [apply okq_iseek|intros [r s1]]; apply okq_bind; [apply okq_lazy_force; exact H1|intros [v s2]; exact I]
      | destruct e; try exact Ha; apply okq_bind; [apply okq_iseek|intros [r s0]; apply H1] ] ].
  all: try solve [ (* LazyStruct *) apply okq_bind; [apply okq_lazy_scan_struct; exact HF2|intros [[[[[i off] cx1] s'] offs] cache]];
      apply okq_bind; [apply okq_force_struct; exact H|intros; exact I] ].
  all: try solve [ (* LazyArray *)
      destruct (Pq3_of (CLazyArray a0 c) c (or_introl eq_refl) (conj IHc (conj IHl IHr))) as (H1 & H2 & H3);
      apply okq_bind; [pk|intros n]; destruct (n <? 0)%Z; [apply okq_raise|]; destruct (alloc_bound <? n)%Z; [exact I|];
      apply okq_bind; [apply okq_lazy_scan_array; [exact H1|apply okq_actualsize; assumption]|intros [[[[[i off] cx1] s'] offs] cache]];
      apply okq_bind; [apply okq_force_array; exact H1|intros; exact I] ].
Qed.

Lemma okq_chain {A} c p (r : res A) e q : okq (chain c) p r -> r = Err e (Some q) -> exists t, q = p ++ t /\ chain c t.
Proof. intros H ->. cbn in H. destruct H as (t & E & [Ht|Ht]); exists t; (split; [exact E|]); [subst t; apply ch_here|exact Ht]. Qed.

(* THE chain theorems: every construct, every context, position and input *)
Theorem parse_path_is_chain : forall c cx p s e q, parse c cx p s = Err e (Some q) -> exists t, q = p ++ t /\ chain c t.
Proof. intros c cx p s e q H. exact (okq_chain c p _ e q (proj1 (parse_chain2 c) cx p s) H). Qed.
Theorem sizeof_path_is_chain : forall c cx p e q, sizeof c cx p = Err e (Some q) -> exists t, q = p ++ t /\ chain c t.
Proof. intros c cx p e q H. exact (okq_chain c p _ e q (sizeof_chain c cx p) H). Qed.

(* on the public entry point the whole path is a chain of the construct *)
Theorem entry_parse_path_is_chain c kw data e q : parse_bytes c kw data = Err e (Some q) -> chain c q.
Proof.
  unfold parse_bytes. intros H. destruct (parse c (top_ctx kw MParse) [] (istream_of data)) as [[v s']|e0 q0] eqn:E; [discriminate|].
  cbn [bind] in H. injection H as -> ->. destruct (parse_path_is_chain _ _ _ _ _ _ E) as (t & -> & Ht). exact Ht.
Qed.

(* ---- chains are enumerable: the finitely many member-name chains of a construct ---- *)
Fixpoint chains (c : con) : list path :=
  [] :: match c with
        | CRenamed n c' => map (cons n) (chains c')
        | CStringEncoded c' _ | CEnum c' _ | CFlagsEnum c' _ | CMapping c' _ | CHex c' | CHexDump c' | CExprValidator c' _
        | COneOf c' _ | CNoneOf c' _ | CExprAdapter c' _ _ | CArray _ c' | CGreedyRange c' | CRepeatUntil _ c' | CConst _ c'
        | CRebuild c' _ | CDefault c' _ | CPadded _ c' _ | CAligned _ c' _ | CPointer _ c' | CPeek c' | COffsettedEnd _ c'
        | CRawCopy c' | CFixedSized _ c' | CNullTerminated c' _ _ _ _ | CNullStripped c' _ | CTransformed c' _ _ _ _
        | CRestreamed c' _ _ _ _ _ | CProcessXor _ c' | CProcessRotl _ _ c' | CChecksum c' _ _ | CLazy c' | CLazyArray _ c' => chains c'
        | CFocusedSeq _ cs =>
            match cs with [CRenamed _ (CRebuild lc _); CRenamed _ (CArray _ el)] => chains lc ++ chains el | _ => [] end ++ flat_map chains cs
        | CStruct cs | CSequence cs | CUnion _ cs | CSelect cs | CLazyStruct cs => flat_map chains cs
        | CIfThenElse _ a b => chains a ++ chains b
        | CSwitch _ cases d => chains d ++ flat_map (fun vc => chains (snd vc)) cases
        | CPrefixed lc c' _ => chains lc ++ chains c'
        | _ => []
        end.

Lemma chains_sub c c' t : In c' (subcons c) -> In t (chains c') -> In t (chains c).
Proof.
  intros Hin Ht. destruct c; cbn [subcons In] in Hin; try contradiction; cbn [chains]; right;
    try (destruct Hin as [<-|[]]; exact Ht);
    try (apply in_flat_map; exists c'; split; assumption).
  - (* FocusedSeq *) apply in_or_app.
    assert (G : In c' cs -> In t (flat_map chains cs)) by (intros Hc; apply in_flat_map; exists c'; split; assumption).
    repeat match type of Hin with In _ (match ?x with _ => _ end) => destruct x end; try (right; apply G; exact Hin).
    destruct Hin as [<-|[<-|Hin]]; [left; apply in_or_app; left; exact Ht|left; apply in_or_app; right; exact Ht|right; apply G; exact Hin].
  - (* IfThenElse *) apply in_or_app. destruct Hin as [<-|[<-|[]]]; auto.
  - (* Switch *) apply in_or_app. destruct Hin as [<-|Hin]; [left; exact Ht|right].
    apply in_map_iff in Hin as (vc & <- & Hvc). apply in_flat_map. exists vc. split; assumption.
  - (* Prefixed *) apply in_or_app. destruct Hin as [<-|[<-|[]]]; auto.
Qed.

Lemma chains_here c : In [] (chains c). Proof. destruct c; left; reflexivity. Qed.

Theorem chain_enumerated c t : chain c t -> In t (chains c).
Proof.
  induction 1 as [c|n c q Hq IH|c c' q Hin Hq IH].
  - apply chains_here.
  - cbn [chains]. right. apply in_map, IH.
  - apply (chains_sub c c'); assumption.
Qed.

(* ---- locators: a Struct / Sequence / Array reports exactly the error of the member that failed ---- *)
Inductive first_failure : list con -> ctx -> path -> istream -> err -> option path -> Prop :=
| ff_here c t cx p s e q : parse c cx p s = Err e q -> first_failure (c :: t) cx p s e q
| ff_later c t cx p s v s' e q : parse c cx p s = Ok (v, s') ->
    first_failure t (match name_of c with Some n => ctx_set cx n v | None => cx end) p s' e q -> first_failure (c :: t) cx p s e q.

Lemma struct_loop_first_failure cs : forall cx p acc s e q,
  struct_loop parse cs cx p acc s = Err e q -> is_meta e = false -> first_failure cs cx p s e q.
Proof.
  induction cs as [|c t IH]; intros cx p acc s e q H Hm; cbn [struct_loop] in H; [discriminate|].
  destruct (parse c cx p s) as [[v s']|e0 q0] eqn:E.
  - eapply ff_later; [exact E|]. destruct (name_of c); eapply IH; eassumption.
  - apply ff_here. rewrite E. destruct e0; try (injection H as <- <-; reflexivity). revert H. destruct (is_stopif c); intros H; [discriminate H|].
    unfold unsupported in H. injection H as <- <-. discriminate Hm.
Qed.

Theorem struct_reports_failing_member cs cx p s e q :
  parse (CStruct cs) cx p s = Err e q -> is_meta e = false -> first_failure cs (push_scope cx) p s e q.
Proof.
  cbn [parse]. intros H Hm. destruct (struct_loop parse cs (push_scope cx) p [] s) as [[[kv cx'] s']|e0 q0] eqn:E; [discriminate|].
  cbn [bind] in H. injection H as <- <-. eapply struct_loop_first_failure; eassumption.
Qed.

Lemma seq_loop_first_failure cs : forall cx p s e q,
  seq_loop parse cs cx p s = Err e q -> is_meta e = false -> first_failure cs cx p s e q.
Proof.
  induction cs as [|c t IH]; intros cx p s e q H Hm; cbn [seq_loop] in H; [discriminate|].
  destruct (parse c cx p s) as [[v s']|e0 q0] eqn:E.
  - eapply ff_later; [exact E|]. apply IH; [|exact Hm].
    destruct (seq_loop parse t _ p s') as [[vs s'']|e1 q1]; [discriminate|]. cbn [bind] in H. exact H.
  - apply ff_here. rewrite E. destruct e0; try (injection H as <- <-; reflexivity). revert H. destruct (is_stopif c); intros H; [discriminate H|].
    unfold unsupported in H. injection H as <- <-. discriminate Hm.
Qed.

Theorem sequence_reports_failing_member cs cx p s e q :
  parse (CSequence cs) cx p s = Err e q -> is_meta e = false -> first_failure cs (push_scope cx) p s e q.
Proof.
  cbn [parse]. intros H Hm. destruct (seq_loop parse cs (push_scope cx) p s) as [[vs s']|e0 q0] eqn:E; [discriminate|].
  cbn [bind] in H. injection H as <- <-. eapply seq_loop_first_failure; eassumption.
Qed.

(* the failing member is a member, and when it is named its name comes right after the entry path, followed by a chain of
   that member *)
Lemma first_failure_member cs cx p s e q : first_failure cs cx p s e (Some q) ->
  exists c cx' s', In c cs /\ parse c cx' p s' = Err e (Some q) /\
    (forall n c', c = CRenamed n c' -> exists t, q = p ++ n :: t /\ chain c' t).
Proof.
  intros H0. remember (Some q) as oq eqn:Eq. revert q Eq.
  induction H0 as [c t cx p s e oq H|c t cx p s v s' e oq H Hf IH]; intros q ->.
  - exists c, cx, s. split; [left; reflexivity|]. split; [exact H|]. intros n c' ->. cbn [parse] in H.
    destruct (parse_path_is_chain _ _ _ _ _ _ H) as (t0 & -> & Ht). exists t0. rewrite <- app_assoc. split; [reflexivity|exact Ht].
  - destruct (IH q eq_refl) as (c0 & cx0 & s0 & Hin & Hp & Hn). exists c0, cx0, s0. split; [right; exact Hin|]. split; assumption.
Qed.

(* Array: the error is the error of one element, parsed with its own index, unchanged *)
Lemma miter_error {A} (f : A -> res A) e q : forall k a, miter f k a = Err e q -> exists a', f a' = Err e q.
Proof.
  induction k as [|k IH]; intros a H; cbn [miter] in H; [discriminate|].
  destruct (f a) as [a1|e1 q1] eqn:E; cbn [bind] in H; [apply (IH a1 H)|]. exists a. rewrite E. exact H.
Qed.

Theorem array_reports_failing_element count c cx p s e q :
  parse (CArray count c) cx p s = Err e (Some q) ->
  exists i s', parse c (ctx_set_index cx i) p s' = Err e (Some q) \/ (q = p /\ e = ERange).
Proof.
  cbn [parse]. intros H. pose proof (eval_int_np cx count) as Hn. destruct (eval_int cx count) as [n|e0 q0]; cbn [bind] in H.
  - destruct (n <? 0)%Z; [injection H as <- <-; exists 0%Z, s; right; split; reflexivity|].
    unfold count_loop in H. rewrite iter_N_miter in H.
    destruct (miter (count_step (parse c) cx p) (N.to_nat (Z.to_N n)) (0%Z, [], s)) as [[[i acc] s1]|e1 q1] eqn:E; cbn [bind] in H; [discriminate|].
    injection H as -> ->. destruct (miter_error _ _ _ _ _ E) as ([[i acc] s0] & Hs). exists i, s0. left.
    unfold count_step in Hs. destruct (parse c (ctx_set_index cx i) p s0) as [[v s2]|e2 q2]; cbn [bind] in Hs; [discriminate|].
    injection Hs as -> ->. reflexivity.
  - injection H as -> ->. cbn in Hn. contradiction.
Qed.

(* ---- a concrete shape: outer struct, named inner struct, array of named fields ---- *)
Definition ex_shape : con :=
  CStruct [CRenamed [x61] (CFormat Big FB);
           CRenamed [x62] (CStruct [CRenamed [x63] (CFormat Big FH);
                                    CRenamed [x64] (CArray (XConst (VInt 2)) (CStruct [CRenamed [x65] (CFormat Big FL)]))])].

Example ex_shape_chains : chains ex_shape = [[]; []; [[x61]]; []; [[x62]]; [[x62]]; [[x62]; [x63]]; [[x62]]; [[x62]; [x64]]; [[x62]; [x64]]; [[x62]; [x64]]; [[x62]; [x64]; [x65]]].
Proof. reflexivity. Qed.

(* every error of every parse of that shape, on any input, names one of these member chains *)
Lemma ex_shape_paths kw data e q : parse_bytes ex_shape kw data = Err e (Some q) ->
  In q [[]; [[x61]]; [[x62]]; [[x62]; [x63]]; [[x62]; [x64]]; [[x62]; [x64]; [x65]]].
Proof.
  intros H. apply entry_parse_path_is_chain, chain_enumerated in H. rewrite ex_shape_chains in H. cbn [In] in H |- *. tauto.
Qed.

(* and truncation inside the second array element is reported in b -> d -> e *)
Example ex_shape_truncated :
  parse_bytes ex_shape [] [x01; x00; x02; x00; x00; x00; x03; x00; x00] = Err EStream (Some [[x62]; [x64]; [x65]]).
Proof. vm_compute. reflexivity. Qed.

