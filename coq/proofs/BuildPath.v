(* C18, building: the chain theorem of PathExact for _build. *)
From Coq Require Import ZArith NArith List Bool Lia.
From Coq Require Import Strings.Byte.
Require Import Bytes Value Expr Codec Float Stream Syntax Sizeof Parse Build ConInd PathFacts RTFacts PathExact.
Import ListNotations.
Local Open Scope nat_scope.

(* ================= building ================= *)
Ltac okI := match goal with
  | |- okq _ _ (Ok _) => exact I
  | |- okq _ _ (Err _ None) => exact I
  | |- okq _ _ unsupported => exact I
  | |- okq _ _ type_error => exact I
  | |- okq _ _ key_error => exact I
  end.

Section GenericB.
Variable T : path -> Prop.

Lemma okq_owrite o d n p : okq T p (owrite o d n p).
Proof.
  unfold owrite. destruct (n <? 0)%Z; [apply okq_raise|]. destruct (negb _); [apply okq_raise|].
  unfold owrite_raw. destruct (_ <=? _)%N; [exact I|]. destruct (_ <? _)%Z; exact I.
Qed.
Lemma okq_write_val o v n p : okq T p (write_val o v n p).
Proof. destruct v; try apply okq_raise. apply okq_owrite. Qed.
Lemma okq_oseek o off w p : okq T p (oseek o off w p).
Proof. unfold oseek. repeat match goal with |- okq _ _ (if ?x then _ else _) => destruct x end; try exact I; apply okq_raise. Qed.
Lemma okq_oseek_user o off w p : okq T p (oseek_user o off w p).
Proof. unfold oseek_user. destruct (_ && _); [apply okq_raise|apply okq_oseek]. Qed.
Lemma okq_oread o n p : okq T p (oread o n p).
Proof. unfold oread. destruct (n <? 0)%Z; [apply okq_raise|]. cbv zeta. destruct (_ <? n)%Z; [apply okq_raise|exact I]. Qed.
Lemma okq_xor_data k d p : okq T p (xor_data k d p).
Proof.
  unfold xor_data. repeat match goal with |- okq _ _ (match ?x with _ => _ end) => destruct x | |- okq _ _ (if ?x then _ else _) => destruct x end;
    try exact I; apply okq_raise.
Qed.
Lemma okq_build_format en f obj p o : okq T p (build_format en f obj p o).
Proof.
  unfold build_format. cbv zeta.
  repeat first [ okI | apply okq_raise | apply okq_bind; [apply okq_owrite|intros ?]
               | match goal with |- okq _ _ (match ?x with _ => _ end) => destruct x | |- okq _ _ (if ?x then _ else _) => destruct x end ].
Qed.
Lemma okq_fold_res {A B} (g : res A -> B -> res A) p :
  (forall acc v, okq T p acc -> okq T p (g acc v)) -> forall l acc, okq T p acc -> okq T p (fold_left g l acc).
Proof. intros Hg. induction l as [|x t IH]; intros acc Ha; cbn [fold_left]; [exact Ha|]. apply IH, Hg, Ha. Qed.
Lemma okq_flags_encode table obj p : okq T p (flags_encode table obj p).
Proof.
  unfold flags_encode. destruct obj; try okI; try apply okq_raise.
  all: apply okq_fold_res; [|exact I]; intros acc v Ha; apply okq_bind; [exact Ha|intros a].
  all: repeat first [ okI | apply okq_raise
                    | match goal with |- okq _ _ (match ?x with _ => _ end) => destruct x | |- okq _ _ (if ?x then _ else _) => destruct x end ].
Qed.

Definition Bq (c : con) : Prop := forall obj cx p o, okq T p (build c obj cx p o).

Lemma okq_struct_bloop cs : Forall Bq cs -> forall kv cx p o, okq T p (struct_bloop build kv cs cx p o).
Proof.
  induction 1 as [|c t Hc Ht IH]; intros kv cx p o; cbn [struct_bloop]; [exact I|].
  apply okq_bind; [destruct (name_of c); [destruct (lookup _ kv)|]; try exact I; destruct (buildnone c); exact I|intros subobj].
  match goal with |- okq _ _ (match build c subobj ?cx1 p o with _ => _ end) => pose proof (Hc subobj cx1 p o) as Hp; destruct (build c subobj cx1 p o) as [[r o']|e q] end.
  - apply IH.
  - destruct e; try exact Hp. destruct (is_stopif c); exact I.
Qed.

Lemma okq_seq_bloop cs : Forall Bq cs -> forall objs cx p o, okq T p (seq_bloop build cs objs cx p o).
Proof.
  induction 1 as [|c t Hc Ht IH]; intros objs cx p o; cbn [seq_bloop]; [exact I|].
  destruct objs as [|subobj objs']; [exact I|].
  match goal with |- okq _ _ (match build c subobj ?cx1 p o with _ => _ end) => pose proof (Hc subobj cx1 p o) as Hp; destruct (build c subobj cx1 p o) as [[r o']|e q] end.
  - apply okq_bind; [apply IH|intros [rs o'']; exact I].
  - destruct e; try exact Hp. destruct (is_stopif c); exact I.
Qed.

Lemma okq_focus_bloop sel obj cs : Forall Bq cs -> forall cx p fin o, okq T p (focus_bloop build sel obj cs cx p fin o).
Proof.
  induction 1 as [|c t Hc Ht IH]; intros cx p fin o; cbn [focus_bloop]; [exact I|].
  apply okq_bind; [apply Hc|intros [r o']]. apply IH.
Qed.

Lemma okq_count_bloop c : Bq c -> forall l i cx p o, okq T p (count_bloop (build c) l i cx p o).
Proof.
  intros Hc. induction l as [|e t IH]; intros i cx p o; cbn [count_bloop]; [exact I|].
  apply okq_bind; [apply Hc|intros [r o1]]. apply okq_bind; [apply IH|intros [rs o2]; exact I].
Qed.

Lemma okq_until_bloop c pred : Bq c -> forall l i acc cx p o, okq T p (until_bloop (build c) pred l i acc cx p o).
Proof.
  intros Hc. induction l as [|e t IH]; intros i acc cx p o; cbn [until_bloop]; [apply okq_raise|].
  apply okq_bind; [apply Hc|intros [r o1]]. apply okq_bind; [apply nopath_okq, eval_obj_np|intros tv].
  destruct (truthy tv); [exact I|apply IH].
Qed.
End GenericB.

Arguments Bq T c /.

(* Select._build calls the PUBLIC build of its alternatives: an ExplicitError from inside restarts the path there; constructs
   containing a Select are outside the statement *)
Definition allsub (c : con) : list con := match c with CRenamed _ c' => [c'] | _ => subcons c end.
Inductive has_select : con -> Prop :=
| hs_here cs : has_select (CSelect cs)
| hs_sub c c' : In c' (allsub c) -> has_select c' -> has_select c.

Lemma Bq_mono (T T' : path -> Prop) (c : con) : (forall t, T t -> T' t) -> Bq T c -> Bq T' c.
Proof. intros H Hc obj cx p o. eapply okq_mono; [exact H|apply Hc]. Qed.

Ltac bk_build := match goal with
  | H : Bq (chain ?c) ?c |- okq (chain (CRenamed ?n ?c)) ?p (build ?c _ _ (?p ++ [?n]) _) => apply okq_ren, H
  | H : Bq (chain ?c) ?c |- okq (chain ?C) ?p (build ?c _ _ ?p _) => apply (okq_up C c); [insub|apply H]
  | H : Bq ?T ?c |- okq ?T ?p (build ?c _ _ ?p _) => apply H
  | |- okq (chain ?C) ?p (sizeof ?c _ ?p) => apply (okq_up C c); [insub|apply sizeof_chain]
  end.
Ltac blift := let obj := fresh "obj" in let cx := fresh "cx" in let p := fresh "p" in let o := fresh "o" in intros obj cx p o; bk_build.

Ltac bk :=
  repeat first
    [ okI
    | assumption
    | apply okq_raise
    | apply okq_owrite | apply okq_write_val | apply okq_oseek | apply okq_oseek_user | apply okq_oread | apply okq_xor_data
    | apply okq_build_format | apply okq_flags_encode
    | apply nopath_okq; first [ apply eval_np | apply eval_int_np | apply eval_obj_np | exact I ]
    | bk_build
    | apply okq_bind; [|intros ?]
    | match goal with |- okq _ _ (if ?x then _ else _) => destruct x end
    | match goal with |- okq _ _ (match ?x with (_, _) => _ end) => destruct x end
    | match goal with |- okq _ _ (let '(_, _) := ?x in _) => destruct x end
    | match goal with |- okq _ _ (match ?x with _ => _ end) => lazymatch x with context [build] => fail | _ => destruct x end end
    | match goal with |- okq _ _ (bind (match ?x with _ => _ end) _) => lazymatch x with context [build] => fail | _ => destruct x end end ].

Theorem build_chain : forall c, ~ has_select c -> Bq (chain c) c.
Proof.
  induction c using con_ind2; intros Hn.
  all: try (match goal with H : Forall (fun c : con => ~ has_select c -> Bq (chain c) c) ?cs |- Bq (chain ?C) _ =>
              assert (HF : Forall (Bq (chain C)) cs) by
                (rewrite Forall_forall in H |- *; intros c0 Hc0; apply (Bq_mono (chain c0));
                 [intros t Ht; apply (ch_sub C c0); [first [cbn [subcons]; exact Hc0|apply in_subcons_focused; exact Hc0]|exact Ht]
                 |apply (H c0 Hc0); intros Hh; apply Hn; apply (hs_sub C c0); [first [cbn [allsub subcons]; exact Hc0|cbn [allsub]; apply in_subcons_focused; exact Hc0]|exact Hh]]);
              clear H; rename HF into H end).
  all: try (match goal with H : Forall (fun vc => ~ has_select (snd vc) -> Bq (chain (snd vc)) (snd vc)) ?cs |- Bq (chain ?C) _ =>
              assert (HF : Forall (fun vc => Bq (chain C) (snd vc)) cs) by
                (rewrite Forall_forall in H |- *; intros vc Hin; apply (Bq_mono (chain (snd vc)));
                 [intros t Ht; apply (ch_sub C (snd vc)); [cbn [subcons In]; right; apply in_map, Hin|exact Ht]
                 |apply (H vc Hin); intros Hh; apply Hn; apply (hs_sub C (snd vc)); [cbn [allsub subcons In]; right; apply in_map, Hin|exact Hh]]);
              clear H; rename HF into H end).
  all: repeat match goal with H : ~ has_select ?c -> Bq (chain ?c) ?c |- Bq (chain ?C) _ =>
              let A := fresh "Hb" in assert (A : Bq (chain c) c) by (apply H; intros Hh; apply Hn; apply (hs_sub C c); [cbn [allsub subcons In]; tauto|exact Hh]); clear H end.
  all: intros obj cx p o; cbn [build].
  all: try solve [bk].
  all: try solve [ (* Struct / LazyStruct *) apply okq_bind; [destruct obj; exact I|intros kv]; apply okq_bind; [apply okq_struct_bloop; exact H|intros [cx'' o']; exact I] ].
  all: try solve [ (* Sequence *) apply okq_bind; [destruct obj; exact I|intros objs]; apply okq_bind; [apply okq_seq_bloop; exact H|intros [rs o']; exact I] ].
  all: try solve [ (* FocusedSeq *) apply okq_bind; [apply okq_focus_bloop; exact H|intros [fin o']]; destruct fin; exact I ].
  all: try solve [ (* OneOf / NoneOf *) apply okq_bind; [unfold oneof_mem; destruct (hashable obj); exact I|intros b]; destruct b; bk ].
  all: try solve [ (* Union *) destruct obj; try exact I;
      match goal with |- okq (chain ?C) _ _ => remember (chain C) as T eqn:ET; clear ET end; clear Hn;
      match goal with HF : Forall _ ?l |- _ => induction l as [|c' t IHt] end; [apply okq_raise|]; inversion H as [|? ? Hc Ht]; subst;
      cbn beta iota fix;
      match goal with |- okq _ _ (match ?pick with Some _ => _ | None => _ end) => destruct pick end; [|apply IHt, Ht];
      apply okq_bind; [apply Hc|intros [r o']]; destruct (name_of c'); exact I ].
  all: try solve [ (* Transformed *) apply okq_bind; [bk_build|intros [r o2]]; apply okq_bind;
      [match goal with |- okq _ _ (apply_bfun ?f _) => destruct f end; cbn [apply_bfun]; try exact I; match goal with |- context [bits2bytes ?d] => destruct (bits2bytes d) end; exact I|intros d]; bk ].
  all: try solve [ (* Select *) exfalso; apply Hn; constructor ].
  all: try solve [ (* Switch *) apply okq_bind; [bk|intros k]; destruct (negb (hashable k)); [exact I|];
      match goal with |- okq (chain ?C) _ _ => assert (Hd : Bq (chain C) c) by blift; remember (chain C) as T eqn:ET; clear ET end; clear Hn;
      match goal with HF : Forall _ ?l |- _ => induction l as [|[v c'] t IHt] end; [apply Hd|]; inversion H as [|? ? Hc Ht]; subst; cbn beta iota fix; destruct (val_eqb k v); [apply Hc|apply IHt, Ht] ].
  all: try solve [ (* Array / LazyArray *) apply okq_bind; [bk|intros n]; destruct (n <? 0)%Z; [apply okq_raise|]; destruct obj; try exact I;
      destruct (negb _); [apply okq_raise|]; apply okq_bind; [apply okq_count_bloop; blift|intros [rs o']; exact I] ].
  all: try solve [ (* GreedyRange *) destruct obj; try exact I; apply okq_bind; [apply okq_count_bloop; blift|intros [rs o']; exact I] ].
  all: try solve [ (* RepeatUntil *) destruct obj; try exact I; apply okq_bind; [apply okq_until_bloop; blift|intros [rs o']; exact I] ].
Qed.

Theorem build_path_is_chain : forall c, ~ has_select c -> forall obj cx p o e q,
  build c obj cx p o = Err e (Some q) -> exists t, q = p ++ t /\ chain c t.
Proof. intros c Hn obj cx p o e q H. exact (okq_chain c p _ e q (build_chain c Hn obj cx p o) H). Qed.

(* has_select is decidable *)
Fixpoint selb (c : con) : bool :=
  match c with
  | CSelect _ => true
  | CRenamed _ c'
  | CStringEncoded c' _ | CEnum c' _ | CFlagsEnum c' _ | CMapping c' _ | CHex c' | CHexDump c' | CExprValidator c' _
  | COneOf c' _ | CNoneOf c' _ | CExprAdapter c' _ _ | CArray _ c' | CGreedyRange c' | CRepeatUntil _ c' | CConst _ c'
  | CRebuild c' _ | CDefault c' _ | CPadded _ c' _ | CAligned _ c' _ | CPointer _ c' | CPeek c' | COffsettedEnd _ c'
  | CRawCopy c' | CFixedSized _ c' | CNullTerminated c' _ _ _ _ | CNullStripped c' _ | CTransformed c' _ _ _ _
  | CRestreamed c' _ _ _ _ _ | CProcessXor _ c' | CProcessRotl _ _ c' | CChecksum c' _ _ | CLazy c' | CLazyArray _ c' => selb c'
  | CStruct cs | CSequence cs | CFocusedSeq _ cs | CUnion _ cs | CLazyStruct cs => existsb selb cs
  | CIfThenElse _ a b => selb a || selb b
  | CSwitch _ cases d => selb d || existsb (fun vc => selb (snd vc)) cases
  | CPrefixed lc c' _ => selb lc || selb c'
  | _ => false
  end.

Lemma has_select_selb c : has_select c -> selb c = true.
Proof.
  induction 1 as [cs|c c' Hin Hc IH]; [reflexivity|].
  destruct c; cbn [allsub subcons In] in Hin; try contradiction; cbn [selb];
    try (destruct Hin as [<-|[]]; exact IH);
    try (apply existsb_exists; exists c'; split; assumption);
    try reflexivity.
  - (* FocusedSeq *)
    assert (G : In c' cs -> existsb selb cs = true) by (intros Hc0; apply existsb_exists; exists c'; split; assumption).
    repeat match type of Hin with In _ (match ?x with _ => _ end) => destruct x end; try (apply G; exact Hin).
    destruct Hin as [<-|[<-|Hin]]; [| |apply G; exact Hin]; cbn [existsb selb]; rewrite IH; rewrite ?orb_true_r; reflexivity.
  - (* IfThenElse *) apply orb_true_iff. destruct Hin as [<-|[<-|[]]]; auto.
  - (* Switch *) apply orb_true_iff. destruct Hin as [<-|Hin]; [left; exact IH|right].
    apply in_map_iff in Hin as (vc & <- & Hvc). apply existsb_exists. exists vc. split; assumption.
  - (* Prefixed *) apply orb_true_iff. destruct Hin as [<-|[<-|[]]]; auto.
Qed.

Theorem build_path_is_chain_dec : forall c, selb c = false -> forall obj cx p o e q,
  build c obj cx p o = Err e (Some q) -> exists t, q = p ++ t /\ chain c t.
Proof. intros c Hs. apply build_path_is_chain. intros H. apply has_select_selb in H. congruence. Qed.

Theorem entry_build_path_is_chain c obj kw e q : selb c = false -> build_bytes c obj kw = Err e (Some q) -> chain c q.
Proof.
  intros Hs. unfold build_bytes. intros H.
  match type of H with bind ?x _ = _ => destruct x as [[v o']|e0 q0] eqn:E; [discriminate|] end.
  cbn [bind] in H. injection H as -> ->. destruct (build_path_is_chain_dec _ Hs _ _ _ _ _ _ E) as (t & -> & Ht). exact Ht.
Qed.

Lemma ex_shape_no_select : selb ex_shape = false.
Proof. reflexivity. Qed.

(* a member made unbuildable: the error names it *)
Example ex_shape_unbuildable :
  build_bytes ex_shape (VDict [([x61], VInt 1); ([x62], VDict [([x63], VInt 70000); ([x64], VList [])])]) []
  = Err EFormatField (Some [[x62]; [x63]]).
Proof. vm_compute. reflexivity. Qed.
