(* C10 / C12 at the interpreter level: a sized bit region around BitsInteger(8n) is BytesInteger(n). *)
From Coq Require Import ZArith NArith List Bool Lia ZifyBool ZifyN ZifyNat.
From Coq Require Import Strings.Byte.
Require Import Bytes Value Expr Codec Float Stream Syntax Sizeof Parse Build BytesFacts StreamFacts PrimFacts BitFacts.
Import ListNotations.

Definition bitwise_sized (c : con) (n : Z) : con := CTransformed c BFbytes2bits (Some n) BFbits2bytes (Some n).

Lemma bitwise_sized_parse c n cx p s :
  parse (bitwise_sized c n) cx p s =
  (let* (d, s1) := iread s n p in let* (v, _) := parse c cx p (istream_of (bytes2bits d)) in Ok (v, s1)).
Proof. unfold bitwise_sized. cbn [parse]. destruct (iread s n p) as [[d s1]|]; reflexivity. Qed.

Lemma bitsint_parse_whole n s d cx p :
  (0 < n)%Z -> Z.of_nat (length d) = n ->
  parse (CBitsInt (kint n) s false) cx p (istream_of d) =
  match bits2integer d s with Some z => Ok (VInt z, at_pos d [] 0 true) | None => Err EInteger (Some p) end.
Proof.
  intros Hn Hl. cbn [parse]. rewrite eval_int_kint. cbn [bind].
  destruct (n <=? 0)%Z eqn:E; [lia|].
  pose proof (iread_at [] d [] 0%N true p) as R. rewrite app_nil_r in R. unfold at_pos in R. cbn [app nlen length N.of_nat] in R.
  unfold istream_of. rewrite <- Hl, R. cbn [bind]. destruct (bits2integer d s); reflexivity.
Qed.

(* BytesInteger(n, signed) <--> Bitwise(BitsInteger(8n, signed)) on parse: every width n >= 1, every
   input of at least n bytes, any position: same value, same final position *)
Theorem law_bytesinteger_bitwise_parse : forall n s d rest pre base sk cx p,
  (0 < n)%Z -> Z.of_nat (length d) = n ->
  match parse (bitwise_sized (CBitsInt (kint (8 * n)) s false) n) cx p (at_pos pre (d ++ rest) base sk),
        parse (CBytesInt (kint n) s false) cx p (at_pos pre (d ++ rest) base sk) with
  | Ok (v1, s1), Ok (v2, s2) => v1 = v2 /\ s1 = s2
  | _, _ => False
  end.
Proof.
  intros n s d rest pre base sk cx p Hn Hl.
  rewrite (bytesint_parse n) by assumption. subst n.
  rewrite bitwise_sized_parse. rewrite iread_at. cbn [bind].
  rewrite bitsint_parse_whole by (rewrite ?bytes2bits_length; lia).
  assert (Hd : d <> []) by (destruct d; [cbn in Hn; lia|discriminate]).
  rewrite bits2integer_bytes2bits by exact Hd. rewrite bytes2integer_ne by exact Hd.
  cbn [bind endian_of]. split; reflexivity.
Qed.

(* both reject input that is too short with StreamError *)
Theorem law_bytesinteger_bitwise_short : forall n s body pre base sk cx p,
  (Z.of_nat (length body) < n)%Z ->
  parse (bitwise_sized (CBitsInt (kint (8 * n)) s false) n) cx p (at_pos pre body base sk) = Err EStream (Some p) /\
  parse (CBytesInt (kint n) s false) cx p (at_pos pre body base sk) = Err EStream (Some p).
Proof.
  intros. split; [|apply bytesint_parse_short; assumption].
  rewrite bitwise_sized_parse, iread_short by assumption. reflexivity.
Qed.

(* ---- BitsInteger(8n, signed) <--> Bytewise(BytesInteger(n, signed)) inside a bit region ----
   Bytewise over a sized subcon is Transformed(subcon, bits2bytes, 8n, bytes2bits, 8n): it reads 8n bits, packs them into n bytes and hands
   those to the byte-level integer. For every width, EITHER signedness, any position in the bit stream: same value, same final position. *)
Definition bytewise_sized (c : con) (n : Z) : con := CTransformed c BFbits2bytes (Some (8 * n)%Z) BFbytes2bits (Some (8 * n)%Z).

Lemma bitsint_parse_at n s d rest pre base sk cx p :
  (0 < n)%Z -> Z.of_nat (length d) = n ->
  parse (CBitsInt (kint n) s false) cx p (at_pos pre (d ++ rest) base sk) =
  match bits2integer d s with Some z => Ok (VInt z, at_pos (pre ++ d) rest base sk) | None => Err EInteger (Some p) end.
Proof.
  intros Hn Hl. cbn [parse]. rewrite eval_int_kint. cbn [bind].
  destruct (n <=? 0)%Z eqn:E; [lia|]. rewrite <- Hl, iread_at. cbn [bind]. destruct (bits2integer d s); reflexivity.
Qed.

Lemma bytewise_sized_parse c n cx p s :
  parse (bytewise_sized c n) cx p s =
  (let* (d, s1) := iread s (8 * n) p in let* d' := apply_bfun BFbits2bytes d in let* (v, _) := parse c cx p (istream_of d') in Ok (v, s1)).
Proof. unfold bytewise_sized. cbn [parse]. reflexivity. Qed.

Theorem law_bitsinteger_bytewise_parse : forall n s d rest pre base sk cx p,
  (0 < n)%Z -> Z.of_nat (length d) = n ->
  match parse (bytewise_sized (CBytesInt (kint n) s false) n) cx p (at_pos pre (bytes2bits d ++ rest) base sk),
        parse (CBitsInt (kint (8 * n)) s false) cx p (at_pos pre (bytes2bits d ++ rest) base sk) with
  | Ok (v1, s1), Ok (v2, s2) => v1 = v2 /\ s1 = s2
  | _, _ => False
  end.
Proof.
  intros n s d rest pre base sk cx p Hn Hl.
  assert (Hd : d <> []) by (destruct d; [cbn in Hl; lia|discriminate]).
  assert (Hb : Z.of_nat (length (bytes2bits d)) = (8 * n)%Z) by (rewrite bytes2bits_length; lia).
  rewrite (bitsint_parse_at (8 * n)) by (lia || exact Hb).
  rewrite bits2integer_bytes2bits by exact Hd. rewrite bytes2integer_ne by exact Hd.
  rewrite bytewise_sized_parse. rewrite <- Hb, iread_at. cbn [bind apply_bfun].
  rewrite bits2bytes_bytes2bits. cbn [bind].
  pose proof (bytesint_parse n s false d [] [] 0%N true cx p Hn Hl) as R. rewrite app_nil_r in R.
  unfold istream_of. unfold at_pos in R at 1. cbn [app nlen length N.of_nat] in R. rewrite R. cbn [bind endian_of].
  split; reflexivity.
Qed.
